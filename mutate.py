#!/usr/bin/env python3
"""mutate.py [--workers N] [--limit M] [--offset K] [--seed S] [--files a.rs,b.rs]

Mechanical mutation sweep of Lipen/bdd-rs against the correspondence suites (a supplement to the seeded
changes written by sub-agents: breadth instead of ingenuity).  Works on scratch copies under /tmp/mut
(never on /repo): one copy of the repository and of the harness per worker, the harness's path
dependencies rewritten to the copy.

For every mutant (one token-level change on one line of non-test code: relational and logical operators,
off-by-one constants, true/false, one/zero, low/high, dropped negation):
  1. the harness copy is rebuilt against it (does not compile -> `invalid`);
  2. every quick suite is run against the model driver: any disagreement or oracle failure -> `killed`;
  3. otherwise the repository's own tests are run on the mutant: a failure -> `killed-by-tests-only`
     (my suites missed something the 70 tests see), all pass -> `survivor`.
Survivors are either equivalent mutants (dead code, a redundant check, a performance-only branch) or holes
in the generators; they are written to /verif/mutation_report.json with the changed line, for a human to
classify.  Not a check: it decides no property.
"""
import hashlib
import json
import os
import random
import re
import shutil
import subprocess
import sys
import time
from concurrent.futures import ThreadPoolExecutor

V = os.path.dirname(os.path.abspath(__file__))
ROOT = "/tmp/mut"
DRIVER = os.path.join(V, "lean/.lake/build/bin/driver")
FILES = ["src/bdd.rs", "src/table.rs", "src/cache.rs", "src/sat.rs", "src/paths.rs", "src/dot.rs", "src/eval.rs",
         "src/reference.rs", "src/utils.rs", "src/raw.rs", "src/node.rs", "examples/eda/src/ast.rs", "examples/eda/src/signal.rs"]
SUITES = "mk,hist,memo,gc_chain,gc_reuse,big,hugevar,tnode,wide,conn,split,ite3,gcwrap,soak,family,export,deep,young_low,constrain,restrict,kcache,subst,compose,itec,count,table,cache,raw,eda,bits,sparse,retry"

RULES = [
    (r" <= ", " < "), (r" < ", " <= "), (r" >= ", " > "), (r" > ", " >= "),
    (r" == ", " != "), (r" != ", " == "), (r" && ", " || "), (r" \|\| ", " && "),
    (r" \+ 1\b", " + 0"), (r" - 1\b", " - 0"), (r" \+ 1\b", " + 2"), (r"\btrue\b", "false"), (r"\bfalse\b", "true"),
    (r"self\.one\b", "self.zero"), (r"self\.zero\b", "self.one"), (r"\.low\b", ".high"), (r"\.high\b", ".low"),
    (r"\blow_node\b", "high_node"), (r"\bhigh_node\b", "low_node"),
    (r"(?<=[(, =])-([a-z_][a-z_0-9.()]*)", r"\1"), (r"\b0\b", "1"), (r"\b1\b", "0"), (r"\b1\b", "2"),
    (r" << ", " >> "), (r" >> ", " << "), (r" & ", " | "), (r" \| ", " & "), (r" \^ ", " | "),
    (r"\.is_negated\(\)", ".is_negated() == false"), (r"!self\.", "self."), (r"\bmin\(", "max("),
    (r"\.wrapping_add\(", ".wrapping_sub("), (r"\.wrapping_mul\(", ".wrapping_add("),
    (r"return (.*);", r"return \1; // mutated: kept"),  # placeholder (no-op), filtered below
]


def sh(cmd, cwd=None, timeout=900, env=None):
    e = dict(os.environ)
    e["CARGO_NET_OFFLINE"] = "true"
    if env:
        e.update(env)
    try:
        p = subprocess.run(cmd, cwd=cwd, shell=isinstance(cmd, str), stdout=subprocess.PIPE, stderr=subprocess.STDOUT, timeout=timeout, env=e)
        return p.returncode, p.stdout.decode("utf-8", "replace")
    except subprocess.TimeoutExpired:
        return 124, "timeout"


def candidates(files):
    out = []
    for f in files:
        lines = open(os.path.join("/repo", f), encoding="utf-8").read().split("\n")
        tstart = next((i for i, l in enumerate(lines) if l.strip().startswith("#[cfg(test)]")), len(lines))
        in_verif = 0
        for i, l in enumerate(lines[:tstart]):
            st = l.strip()
            if 'cfg(feature = "verif")' in st:
                in_verif = 1
            if in_verif:
                # skip the guarded hook block (item following the attribute, up to its closing brace at column 0/4)
                if st == "}" and (l.startswith("}") or l.startswith("    }")) and in_verif > 1:
                    in_verif = 0
                else:
                    in_verif = 2
                continue
            if not st or st.startswith("//") or st.startswith("#[") or st.startswith("use ") or "debug!(" in st or "trace!(" in st or "info!(" in st:
                continue
            if st.startswith("debug_assert") or st.startswith("assert"):
                continue
            code = l.split("//")[0]
            for k, (pat, rep) in enumerate(RULES):
                if "mutated: kept" in rep:
                    continue
                m = re.search(pat, code)
                if m:
                    new = code[:m.start()] + m.expand(rep) + code[m.end():] + l[len(code):]
                    if new != l:
                        out.append((f, i, k, l, new))
    return out


def setup_worker(w):
    d = os.path.join(ROOT, "w%d" % w)
    shutil.rmtree(d, ignore_errors=True)
    os.makedirs(d)
    sh("rsync -a --exclude target --exclude .git /repo/ %s/repo/" % d)
    sh("rsync -a --exclude target %s/harness/ %s/harness/" % (V, d))
    ct = os.path.join(d, "harness", "Cargo.toml")
    s = open(ct).read().replace('path = "/repo"', 'path = "%s/repo"' % d).replace('path = "/repo/examples/eda"', 'path = "%s/repo/examples/eda"' % d)
    open(ct, "w").write(s)
    rc, out = sh("cargo build --release --offline", cwd=os.path.join(d, "harness"))
    assert rc == 0, out[-2000:]
    return d


def run_mutant(d, m):
    f, i, k, old, new = m
    path = os.path.join(d, "repo", f)
    orig = open(path, encoding="utf-8").read()
    lines = orig.split("\n")
    assert lines[i] == old
    lines[i] = new
    open(path, "w", encoding="utf-8").write("\n".join(lines))
    res = dict(file=f, line=i + 1, rule=RULES[k][0] + " -> " + RULES[k][1], old=old.strip(), new=new.strip())
    t0 = time.time()
    try:
        rc, out = sh("cargo build --release --offline", cwd=os.path.join(d, "harness"))
        if rc != 0:
            res["status"] = "invalid"
            return res
        od = os.path.join(d, "out")
        shutil.rmtree(od, ignore_errors=True)
        rc, out = sh([os.path.join(d, "harness/target/release/bddv-harness"), "run", "--suites", SUITES, "--tier", "quick", "--seed", "1",
                      "--driver", DRIVER, "--outdir", od], timeout=600, env={"VERIF_ABSTRACT": "0", "VERIF_LOG": "0"})
        bad = [l.split()[1] for l in out.splitlines() if l.startswith("suite ") and not l.rstrip().endswith(" ok")]
        if rc != 0 or bad:
            res["status"] = "killed"
            res["by"] = bad[:4] or ["exit %d" % rc]
            return res
        rc, out = sh("cargo test --workspace --no-fail-fast --offline 2>&1 | grep -E '^test result|FAILED' | head -8", cwd=os.path.join(d, "repo"), timeout=900)
        failed = sum(int(l.split(" failed")[0].split()[-1]) for l in out.splitlines() if l.startswith("test result"))
        res["status"] = "killed-by-tests-only" if failed or "test result" not in out else "survivor"
        return res
    finally:
        res["secs"] = round(time.time() - t0, 1)
        open(path, "w", encoding="utf-8").write(orig)


def main():
    a = sys.argv[1:]
    workers = int(a[a.index("--workers") + 1]) if "--workers" in a else 4
    limit = int(a[a.index("--limit") + 1]) if "--limit" in a else 200
    seed = int(a[a.index("--seed") + 1]) if "--seed" in a else 1
    files = a[a.index("--files") + 1].split(",") if "--files" in a else FILES
    cands = candidates(files)
    random.Random(seed).shuffle(cands)
    offset = int(a[a.index("--offset") + 1]) if "--offset" in a else 0
    cands = cands[offset:offset + limit]
    print("mutants:", len(cands), flush=True)
    os.makedirs(ROOT, exist_ok=True)
    dirs = [setup_worker(w) for w in range(workers)]
    results = []
    chunks = [cands[w::workers] for w in range(workers)]

    def work(w):
        out = []
        for m in chunks[w]:
            r = run_mutant(dirs[w], m)
            out.append(r)
            print(r["status"], r["file"], r["line"], "|", r["old"][:70], "=>", r["new"][:70], flush=True)
        return out

    with ThreadPoolExecutor(max_workers=workers) as ex:
        for part in ex.map(work, range(workers)):
            results.extend(part)
    summary = {}
    for r in results:
        summary[r["status"]] = summary.get(r["status"], 0) + 1
    rep = dict(seed=seed, suites=SUITES.split(","), summary=summary,
               survivors=[r for r in results if r["status"] == "survivor"],
               killed_by_tests_only=[r for r in results if r["status"] == "killed-by-tests-only"],
               all=results)
    tag = hashlib.sha1(("%d-%d-%d-%s" % (seed, offset, limit, ",".join(files))).encode()).hexdigest()[:6]
    json.dump(rep, open(os.path.join(V, "mutation_report_%s.json" % tag), "w"), indent=1)
    print("summary:", summary)
    shutil.rmtree(ROOT, ignore_errors=True)


if __name__ == "__main__":
    main()

//! Truth-table reference implementations (the search oracles). Tables over N <= 6 variables are
//! `u64`s: bit `e` is the value under the assignment in which variable `v` (1-based) is
//! `(e >> (v-1)) & 1`. Nothing here touches the model or the crate under test.

#[derive(Clone, Copy)]
pub struct TT {
    pub n: u32,
    /// `map[p-1]` is the variable number the code under test sees for table position `p`
    /// (strictly increasing, so every order-dependent notion is preserved); identity by default
    pub map: [u32; 6],
}

impl TT {
    pub fn ident(n: u32) -> TT {
        TT { n, map: [1, 2, 3, 4, 5, 6] }
    }
    pub fn mapped(vs: &[u32]) -> TT {
        let mut map = [0u32; 6];
        for (i, &v) in vs.iter().enumerate() {
            map[i] = v;
        }
        TT { n: vs.len() as u32, map }
    }
    pub fn is_identity(&self) -> bool {
        (0..self.n as usize).all(|i| self.map[i] == i as u32 + 1)
    }
    /// table position of the variable number `v`, if it belongs to the table's universe
    pub fn pos(&self, v: u32) -> Option<u32> {
        (0..self.n as usize).find(|&i| self.map[i] == v).map(|i| i as u32 + 1)
    }
    /// variable number of a position
    pub fn actual(&self, p: u32) -> u32 {
        self.map[p as usize - 1]
    }
    pub fn lits_in_range(&self, lits: &[i32]) -> bool {
        lits.iter().all(|l| *l != 0 && self.pos(l.unsigned_abs()).is_some())
    }
    pub fn size(&self) -> u32 {
        1 << self.n
    }
    pub fn full(&self) -> u64 {
        if self.n == 6 {
            u64::MAX
        } else {
            (1u64 << self.size()) - 1
        }
    }
    pub fn var(&self, v: u32) -> u64 {
        let mut m = 0u64;
        for e in 0..self.size() {
            if (e >> (v - 1)) & 1 == 1 {
                m |= 1 << e;
            }
        }
        m
    }
    pub fn not(&self, a: u64) -> u64 {
        !a & self.full()
    }
    pub fn ite(&self, f: u64, g: u64, h: u64) -> u64 {
        (f & g) | (self.not(f) & h)
    }
    pub fn get(&self, f: u64, e: u32) -> bool {
        (f >> e) & 1 == 1
    }
    /// f with variable v fixed to b
    pub fn cof(&self, f: u64, v: u32, b: bool) -> u64 {
        let mut r = 0u64;
        for e in 0..self.size() {
            let e2 = if b { e | (1 << (v - 1)) } else { e & !(1 << (v - 1)) };
            if self.get(f, e2) {
                r |= 1 << e;
            }
        }
        r
    }
    pub fn depends(&self, f: u64, v: u32) -> bool {
        self.cof(f, v, false) != self.cof(f, v, true)
    }
    pub fn top_var(&self, f: u64) -> Option<u32> {
        (1..=self.n).find(|&v| self.depends(f, v))
    }
    pub fn is_const(&self, f: u64) -> bool {
        f == 0 || f == self.full()
    }
    pub fn compose(&self, f: u64, v: u32, g: u64) -> u64 {
        let mut r = 0u64;
        for e in 0..self.size() {
            let e2 = if self.get(g, e) { e | (1 << (v - 1)) } else { e & !(1 << (v - 1)) };
            if self.get(f, e2) {
                r |= 1 << e;
            }
        }
        r
    }
    /// closest-point generalized cofactor: earlier variables weigh more
    pub fn constrain(&self, f: u64, g: u64) -> u64 {
        if g == 0 {
            return 0;
        }
        let mut r = 0u64;
        for x in 0..self.size() {
            let mut best: Option<(u64, u32)> = None;
            for y in 0..self.size() {
                if !self.get(g, y) {
                    continue;
                }
                let mut d = 0u64;
                for v in 1..=self.n {
                    if ((x ^ y) >> (v - 1)) & 1 == 1 {
                        d += 1u64 << (self.n - v);
                    }
                }
                if best.map_or(true, |(bd, _)| d < bd) {
                    best = Some((d, y));
                }
            }
            let (_, y) = best.unwrap();
            if self.get(f, y) {
                r |= 1 << x;
            }
        }
        r
    }
    fn node(&self, v: u32, lo: u64, hi: u64) -> u64 {
        self.ite(self.var(v), hi, lo)
    }
    /// the standard Coudert–Madre restrict recursion, on truth tables
    pub fn restrict(&self, f: u64, g: u64) -> u64 {
        if g == 0 {
            return 0;
        }
        if g == self.full() || self.is_const(f) {
            return f;
        }
        if f == g {
            return self.full();
        }
        if f == self.not(g) {
            return 0;
        }
        let vf = self.top_var(f).unwrap();
        let vg = self.top_var(g).unwrap();
        let v = vf.min(vg);
        let (f0, f1) = (self.cof(f, v, false), self.cof(f, v, true));
        let (g0, g1) = (self.cof(g, v, false), self.cof(g, v, true));
        if g1 == 0 {
            return self.restrict(f0, g0);
        }
        if g0 == 0 {
            return self.restrict(f1, g1);
        }
        if v == vf {
            let lo = self.restrict(f0, g0);
            let hi = self.restrict(f1, g1);
            self.node(v, lo, hi)
        } else {
            self.restrict(f, g1 | g0)
        }
    }
    /// number of distinct non-constant sub-functions modulo complement reached by restricting
    /// variables in order, plus one for the terminal
    pub fn bdd_size(&self, f: u64) -> u64 {
        let mut seen = std::collections::HashSet::new();
        self.size_rec(f, &mut seen);
        seen.len() as u64 + 1
    }
    fn size_rec(&self, f: u64, seen: &mut std::collections::HashSet<u64>) {
        if self.is_const(f) {
            return;
        }
        // regularise: the representative is the one true on the all-true assignment
        let reg = if self.get(f, self.size() - 1) { f } else { self.not(f) };
        if !seen.insert(reg) {
            return;
        }
        let v = self.top_var(f).unwrap();
        self.size_rec(self.cof(f, v, false), seen);
        self.size_rec(self.cof(f, v, true), seen);
    }
    pub fn cube(&self, lits: &[i32]) -> u64 {
        let mut r = self.full();
        for &l in lits {
            let m = self.var(self.pos(l.unsigned_abs()).unwrap());
            r &= if l > 0 { m } else { self.not(m) };
        }
        r
    }
    pub fn clause(&self, lits: &[i32]) -> u64 {
        let mut r = 0;
        for &l in lits {
            let m = self.var(self.pos(l.unsigned_abs()).unwrap());
            r |= if l > 0 { m } else { self.not(m) };
        }
        r
    }
}

//! Minimisation of a failing case (delta debugging over operation lines). Only the model-free oracles
//! decide whether a candidate still fails, so no driver is involved. Handles are numbered by creation
//! order: when a line is removed, later lines that name one of its handles are removed too (or, for
//! list-valued operations, lose that element), and the remaining handle numbers are renumbered.

use crate::exec::{Beacon, Exec};
use std::sync::{Arc, Mutex};
use std::time::{Duration, Instant};

fn fresh() -> Exec {
    let beacon = Arc::new(Beacon { started_ms: 0.into(), line: Mutex::new(String::new()) });
    let mut ex = Exec::new(beacon);
    ex.scan_every = 1;
    ex.begin_case();
    ex
}

/// token positions that name handles; `list` = the operation takes a list (elements may be dropped)
fn handle_positions(toks: &[&str]) -> (Vec<usize>, bool) {
    match toks[0] {
        "node" => (vec![2, 3], false),
        "not" | "acc" | "low" | "high" | "onesat" | "paths" | "pathsi.open" | "size" | "bracket" | "satcount" | "subst" | "substm" | "cofcube" | "topcof" => (vec![1], false),
        "ite" | "itec" => (vec![1, 2, 3], false),
        "and" | "or" | "xor" | "eq" | "imply" | "constrain" | "restrict" | "implies" => (vec![1, 2], false),
        "compose" => (vec![1, 3], false),
        "andmany" | "ormany" | "desc" | "gc" | "dot" => ((1..toks.len()).collect(), true),
        "heldgc" => ((2..toks.len()).collect(), true),
        _ => (vec![], false),
    }
}

struct Case {
    lines: Vec<String>,
    produced: Vec<usize>, // handles bound by each line in the original run
    first_handle: Vec<usize>,
    header: usize, // lines up to and including the one that creates the manager / component
}

/// the lines selected by `keep`, with handle numbers rewritten
fn build(c: &Case, keep: &[bool]) -> Vec<String> {
    let total: usize = c.produced.iter().sum();
    let mut map: Vec<Option<usize>> = vec![None; total + 2];
    let mut next = 0usize;
    let mut out = vec![];
    for i in 0..c.lines.len() {
        if !keep[i] {
            continue;
        }
        let toks: Vec<&str> = c.lines[i].split(' ').filter(|t| !t.is_empty()).collect();
        if toks.is_empty() {
            continue;
        }
        let mut new_toks: Vec<String> = toks.iter().map(|t| t.to_string()).collect();
        let mut ok = true;
        if toks[0] == "exprtree" {
            let mut k = 1;
            while k < toks.len() {
                if toks[k] == "T" && k + 1 < toks.len() {
                    match toks[k + 1].parse::<usize>().ok().and_then(|n| map.get(n).copied().flatten()) {
                        Some(m) => new_toks[k + 1] = m.to_string(),
                        None => ok = false,
                    }
                    k += 1;
                }
                k += 1;
            }
        } else if toks[0] == "expr" || toks[0] == "exprc" {
            let from = if toks[0] == "exprc" { 2 } else { 1 };
            for k in from..toks.len() {
                if let Some(n) = toks[k].strip_prefix('h').and_then(|x| x.parse::<usize>().ok()) {
                    match map.get(n).copied().flatten() {
                        Some(m) => new_toks[k] = format!("h{}", m),
                        None => ok = false,
                    }
                }
            }
        } else {
            let (pos, list) = handle_positions(&toks);
            let mut drop_idx = vec![];
            for &k in &pos {
                if k >= toks.len() {
                    continue;
                }
                match toks[k].parse::<usize>().ok().and_then(|n| map.get(n).copied().flatten()) {
                    Some(m) => new_toks[k] = m.to_string(),
                    None => {
                        if list {
                            drop_idx.push(k);
                        } else {
                            ok = false;
                        }
                    }
                }
            }
            for &k in drop_idx.iter().rev() {
                new_toks.remove(k);
            }
        }
        if !ok {
            continue; // its handles stay unmapped
        }
        for j in 0..c.produced[i] {
            map[c.first_handle[i] + j] = Some(next);
            next += 1;
        }
        out.push(new_toks.join(" "));
    }
    out
}

fn still_fails(lines: &[String], prop: &str) -> bool {
    let mut ex = fresh();
    ex.max_failures = 40;
    for l in lines {
        let r = std::panic::catch_unwind(std::panic::AssertUnwindSafe(|| {
            ex.step(l);
        }));
        if r.is_err() {
            return false;
        }
        if ex.failures.iter().any(|f| f.props.contains(&prop)) {
            return true;
        }
    }
    false
}

pub fn shrink(lines: &[String], prop: &str, budget: Duration) -> Option<(Vec<String>, usize)> {
    let t0 = Instant::now();
    // original run: where it fails, what each line binds
    let mut ex = fresh();
    ex.max_failures = 40;
    let mut produced = vec![];
    let mut first_handle = vec![];
    let mut fail_at = None;
    for (i, l) in lines.iter().enumerate() {
        let before = ex.env.len();
        let toks0 = l.split(' ').next().unwrap_or("");
        if toks0 == "new" || toks0 == "newdefault" || toks0 == "default" {
            // the constants are bound by the manager line: treat them as two produced handles
            ex.step(l);
            produced.push(ex.env.len());
            first_handle.push(0);
        } else {
            ex.step(l);
            produced.push(ex.env.len().saturating_sub(before));
            first_handle.push(before);
        }
        if ex.failures.iter().any(|f| f.props.contains(&prop)) {
            fail_at = Some(i);
            break;
        }
    }
    let fail_at = fail_at?;
    let header = lines
        .iter()
        .position(|l| {
            let t = l.split(' ').next().unwrap_or("");
            matches!(t, "new" | "newdefault" | "default" | "t.new" | "tn.new" | "c.new" | "ck.new" | "raw.new")
        })
        .map(|p| p + 1)
        .unwrap_or(0);
    let c = Case { lines: lines[..=fail_at].to_vec(), produced, first_handle, header };
    let n = c.lines.len();
    let mut keep = vec![true; n];
    let tests = std::cell::Cell::new(0usize);
    let try_keep = |keep: &[bool]| -> bool {
        tests.set(tests.get() + 1);
        still_fails(&build(&c, keep), prop)
    };
    if !try_keep(&keep) {
        return None; // renumbering alone changed the outcome: leave the case as it is
    }
    // removable lines: everything between the header and the failing line
    let mut rem: Vec<usize> = (c.header..n.saturating_sub(1)).collect();
    let mut chunks = 2usize;
    while !rem.is_empty() && t0.elapsed() < budget {
        let size = (rem.len() + chunks - 1) / chunks;
        let mut progressed = false;
        let mut k = 0;
        while k * size < rem.len() && t0.elapsed() < budget {
            let lo = k * size;
            let hi = (lo + size).min(rem.len());
            let mut cand = keep.clone();
            for &i in &rem[lo..hi] {
                cand[i] = false;
            }
            if try_keep(&cand) {
                keep = cand;
                rem.drain(lo..hi);
                progressed = true;
                chunks = chunks.saturating_sub(1).max(2);
                break;
            }
            k += 1;
        }
        if !progressed {
            if size == 1 {
                break;
            }
            chunks = (chunks * 2).min(rem.len());
        }
    }
    Some((build(&c, &keep), tests.get()))
}

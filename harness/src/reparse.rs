//! Independent re-readers for the two export formats (oracles for C16) and the canonical form
//! of DOT text used when comparing with the model (the Rust side iterates a `HashSet`).

use std::collections::HashMap;

use crate::tt::TT;

struct B<'a> {
    s: &'a [char],
    pos: usize,
    defs: HashMap<u64, u64>,
    tt: &'a TT,
}

impl<'a> B<'a> {
    fn eat(&mut self, lit: &str) -> Result<(), String> {
        for c in lit.chars() {
            if self.s.get(self.pos) != Some(&c) {
                return Err(format!("expected '{}' at {}", lit, self.pos));
            }
            self.pos += 1;
        }
        Ok(())
    }
    fn num(&mut self) -> Result<u64, String> {
        let start = self.pos;
        while self.pos < self.s.len() && self.s[self.pos].is_ascii_digit() {
            self.pos += 1;
        }
        if start == self.pos {
            return Err(format!("number expected at {}", start));
        }
        self.s[start..self.pos].iter().collect::<String>().parse().map_err(|_| "bad number".to_string())
    }
    fn node(&mut self) -> Result<u64, String> {
        match self.s.get(self.pos) {
            Some('⊥') => {
                self.pos += 1;
                Ok(0)
            }
            Some('⊤') => {
                self.pos += 1;
                Ok(self.tt.full())
            }
            _ => {
                let neg = if self.s.get(self.pos) == Some(&'~') {
                    self.pos += 1;
                    true
                } else {
                    false
                };
                self.eat("@")?;
                let idx = self.num()?;
                let f = if self.s.get(self.pos) == Some(&':') {
                    self.eat(":(x")?;
                    let v = self.num()? as u32;
                    let v = match self.tt.pos(v) {
                        Some(p) => p,
                        None => return Err(format!("variable x{} out of range", v)),
                    };
                    self.eat(", ")?;
                    let hi = self.node()?;
                    self.eat(", ")?;
                    let lo = self.node()?;
                    self.eat(")")?;
                    let f = self.tt.ite(self.tt.var(v), hi, lo);
                    if self.defs.insert(idx, f).is_some() {
                        return Err(format!("@{} defined twice", idx));
                    }
                    f
                } else {
                    *self.defs.get(&idx).ok_or(format!("@{} referenced before its definition", idx))?
                };
                Ok(if neg { self.tt.not(f) } else { f })
            }
        }
    }
}

/// the function a bracket string describes
pub fn bracket_fn(s: &str, tt: &TT) -> Result<u64, String> {
    let chars: Vec<char> = s.chars().collect();
    let mut b = B { s: &chars, pos: 0, defs: HashMap::new(), tt };
    let f = b.node()?;
    if b.pos != chars.len() {
        return Err("trailing text".into());
    }
    Ok(f)
}

#[derive(Clone, Copy)]
enum Edge {
    Zero,
    Reg(u64),
    Compl(u64),
}

/// the functions of the roots a DOT text describes, and the number of declared decision nodes
pub fn dot_fns(text: &str, tt: &TT) -> Result<(Vec<u64>, usize), String> {
    let mut var: HashMap<u64, u32> = HashMap::new();
    let mut hi: HashMap<u64, u64> = HashMap::new();
    let mut lo: HashMap<u64, Edge> = HashMap::new();
    let mut roots: HashMap<usize, Edge> = HashMap::new();
    let mut nroots = 0usize;
    for line in text.lines() {
        let line = line.trim();
        if let Some(rest) = line.strip_prefix('r') {
            // root declaration or root edge
            if let Some((i, tail)) = rest.split_once(' ') {
                let i: usize = match i.parse() {
                    Ok(i) => i,
                    Err(_) => continue, // "rank=..." never starts a line, but be lenient
                };
                if tail.starts_with("[shape=rect") {
                    nroots = nroots.max(i + 1);
                } else if let Some(t) = tail.strip_prefix("-- ") {
                    let e = if t == "0;" {
                        Edge::Zero
                    } else if let Some(m) = t.strip_suffix(" [dir=forward, arrowhead=odot];") {
                        Edge::Compl(m.parse().map_err(|_| format!("bad root edge: {}", line))?)
                    } else if let Some(m) = t.strip_suffix(';') {
                        Edge::Reg(m.parse().map_err(|_| format!("bad root edge: {}", line))?)
                    } else {
                        return Err(format!("bad root edge: {}", line));
                    };
                    if roots.insert(i, e).is_some() {
                        return Err(format!("root r{} has two edges", i));
                    }
                }
            }
            continue;
        }
        if !line.chars().next().map_or(false, |c| c.is_ascii_digit()) {
            continue;
        }
        if let Some((n, tail)) = line.split_once(' ') {
            let n: u64 = n.parse().map_err(|_| format!("bad line: {}", line))?;
            if let Some(l) = tail.strip_prefix("[label=<x<SUB>") {
                let v: u32 = l.strip_suffix("</SUB>>];").ok_or(format!("bad label: {}", line))?.parse().map_err(|_| format!("bad label: {}", line))?;
                if var.insert(n, v).is_some() {
                    return Err(format!("node {} declared twice", n));
                }
            } else if tail.starts_with("[shape=square") {
                // terminals
            } else if let Some(t) = tail.strip_prefix("-- ") {
                if t == "0 [style=dashed];" {
                    if lo.insert(n, Edge::Zero).is_some() {
                        return Err(format!("node {} has two else-edges", n));
                    }
                } else if let Some(m) = t.strip_suffix(" [style=dashed];") {
                    if lo.insert(n, Edge::Reg(m.parse().map_err(|_| "bad edge")?)).is_some() {
                        return Err(format!("node {} has two else-edges", n));
                    }
                } else if let Some(m) = t.strip_suffix(" [style=dotted, dir=forward, arrowhead=odot];") {
                    if lo.insert(n, Edge::Compl(m.parse().map_err(|_| "bad edge")?)).is_some() {
                        return Err(format!("node {} has two else-edges", n));
                    }
                } else if let Some(m) = t.strip_suffix(';') {
                    if hi.insert(n, m.parse().map_err(|_| "bad edge")?).is_some() {
                        return Err(format!("node {} has two then-edges", n));
                    }
                } else {
                    return Err(format!("bad edge: {}", line));
                }
            }
        }
    }
    fn val(n: u64, var: &HashMap<u64, u32>, hi: &HashMap<u64, u64>, lo: &HashMap<u64, Edge>, tt: &TT, memo: &mut HashMap<u64, u64>, depth: u32) -> Result<u64, String> {
        if n == 1 {
            return Ok(tt.full());
        }
        if depth > 64 {
            return Err("cyclic DOT graph".into());
        }
        if let Some(&f) = memo.get(&n) {
            return Ok(f);
        }
        let v = *var.get(&n).ok_or(format!("node {} used but not declared", n))?;
        let v = match tt.pos(v) {
            Some(p) => p,
            None => return Err(format!("node {} has variable {}", n, v)),
        };
        let h = val(*hi.get(&n).ok_or(format!("node {} has no then-edge", n))?, var, hi, lo, tt, memo, depth + 1)?;
        let l = match *lo.get(&n).ok_or(format!("node {} has no else-edge", n))? {
            Edge::Zero => 0,
            Edge::Reg(m) => val(m, var, hi, lo, tt, memo, depth + 1)?,
            Edge::Compl(m) => tt.not(val(m, var, hi, lo, tt, memo, depth + 1)?),
        };
        let f = tt.ite(tt.var(v), h, l);
        memo.insert(n, f);
        Ok(f)
    }
    let mut memo = HashMap::new();
    let mut out = vec![];
    for i in 0..nroots {
        let e = roots.get(&i).ok_or(format!("root r{} has no edge", i))?;
        out.push(match *e {
            Edge::Zero => 0,
            Edge::Reg(m) => val(m, &var, &hi, &lo, tt, &mut memo, 0)?,
            Edge::Compl(m) => tt.not(val(m, &var, &hi, &lo, tt, &mut memo, 0)?),
        });
    }
    // every declared node must have both edges
    for n in var.keys() {
        if !hi.contains_key(n) || !lo.contains_key(n) {
            return Err(format!("node {} lacks an edge", n));
        }
    }
    for n in hi.keys().chain(lo.keys()) {
        if !var.contains_key(n) {
            return Err(format!("edges from undeclared node {}", n));
        }
    }
    Ok((out, var.len()))
}

/// canonical single-line form: lines inside each `rank=same` block and each run of edge lines
/// sorted; lines joined by a literal backslash-n
pub fn canon_dot(text: &str) -> String {
    let text = text.replace("\\n", "\n");
    let lines: Vec<&str> = text.lines().collect();
    let mut out: Vec<String> = vec![];
    let mut i = 0;
    let is_edge = |l: &str| l.chars().next().map_or(false, |c| c.is_ascii_digit()) && l.contains(" -- ");
    while i < lines.len() {
        if lines[i] == "{ rank=same" {
            out.push(lines[i].to_string());
            i += 1;
            let mut blk = vec![];
            while i < lines.len() && lines[i] != "}" {
                blk.push(lines[i].to_string());
                i += 1;
            }
            blk.sort();
            out.extend(blk);
        } else if is_edge(lines[i]) {
            let mut blk = vec![];
            while i < lines.len() && is_edge(lines[i]) {
                blk.push(lines[i].to_string());
                i += 1;
            }
            blk.sort();
            out.extend(blk);
        } else {
            out.push(lines[i].to_string());
            i += 1;
        }
    }
    out.join("\\n")
}

//! Correspondence harness: runs operation histories on the real bdd-rs crate (in-process),
//! checks them against model-free oracles, pipes the same lines to the Lean model driver and
//! compares the replies line by line.

mod exec;
mod gen;
mod reparse;
mod shrink;
mod tt;

use std::io::{BufRead, BufReader, Write};
use std::process::{Command, Stdio};
use std::sync::atomic::Ordering;
use std::sync::{Arc, Mutex};
use std::time::Instant;

use exec::{now_ms, Beacon, Exec};
use gen::{Ctx, Rng};

pub fn json_str(s: &str) -> String {
    let mut o = String::from("\"");
    for c in s.chars() {
        match c {
            '"' => o.push_str("\\\""),
            '\\' => o.push_str("\\\\"),
            '\n' => o.push_str("\\n"),
            '\t' => o.push_str("\\t"),
            c if (c as u32) < 0x20 => o.push_str(&format!("\\u{:04x}", c as u32)),
            c => o.push(c),
        }
    }
    o.push('"');
    o
}

fn json_list(v: &[String]) -> String {
    format!("[{}]", v.join(","))
}

struct Disagreement {
    case: usize,
    line_no: usize,
    line: String,
    rust: String,
    model: String,
    file: String,
}

/// run the model driver on the lines; returns its replies
fn run_driver(driver: &str, lines: &[String]) -> Result<Vec<String>, String> {
    // resource limits: a history that makes the model run away (it can, once model and implementation
    // have diverged) must end as a reported correspondence failure, not take the machine down
    let mem_kb: u64 = std::env::var("VERIF_DRIVER_MEM_KB").ok().and_then(|s| s.parse().ok()).unwrap_or(16_000_000);
    let secs: u64 = std::env::var("VERIF_DRIVER_TIMEOUT_S").ok().and_then(|s| s.parse().ok()).unwrap_or(3600);
    let mut child = Command::new("sh")
        .arg("-c")
        .arg(format!("ulimit -v {}; exec \"$0\"", mem_kb))
        .arg(driver)
        .stdin(Stdio::piped())
        .stdout(Stdio::piped())
        .stderr(Stdio::null())
        .spawn()
        .map_err(|e| format!("cannot start the model driver {}: {}", driver, e))?;
    let pid = child.id();
    let done = Arc::new(std::sync::atomic::AtomicBool::new(false));
    {
        let done = done.clone();
        std::thread::spawn(move || {
            let t0 = Instant::now();
            while t0.elapsed().as_secs() < secs {
                std::thread::sleep(std::time::Duration::from_millis(500));
                if done.load(std::sync::atomic::Ordering::SeqCst) {
                    return;
                }
            }
            let _ = Command::new("kill").arg("-9").arg(pid.to_string()).status();
        });
    }
    let mut stdin = child.stdin.take().unwrap();
    let stdout = child.stdout.take().unwrap();
    let n = lines.len();
    let reader = std::thread::spawn(move || {
        let mut out = Vec::with_capacity(n);
        for l in BufReader::with_capacity(1 << 20, stdout).lines() {
            match l {
                Ok(l) => out.push(l),
                Err(_) => break,
            }
        }
        out
    });
    {
        let mut w = std::io::BufWriter::with_capacity(1 << 20, &mut stdin);
        for l in lines {
            if w.write_all(l.as_bytes()).is_err() || w.write_all(b"\n").is_err() {
                break;
            }
        }
        let _ = w.flush();
    }
    drop(stdin);
    let out = reader.join().map_err(|_| "driver reader failed".to_string())?;
    let status = child.wait();
    done.store(true, std::sync::atomic::Ordering::SeqCst);
    if let Ok(st) = status {
        if !st.success() && out.len() < n {
            return Err(format!("the model driver ended abnormally ({}) after {} of {} replies (memory limit {} KB, time limit {} s) at line `{}`", st, out.len(), n, mem_kb, secs, lines.get(out.len()).map(|l| l.chars().take(80).collect::<String>()).unwrap_or_default()));
        }
    }
    Ok(out)
}

fn compare(ex: &Exec, model: &[String], outdir: &str, suite: &str, max: usize) -> Vec<Disagreement> {
    let mut out = vec![];
    let mut starts = ex.case_starts.clone();
    starts.push(ex.lines.len());
    for c in 0..starts.len() - 1 {
        for i in starts[c]..starts[c + 1] {
            let r = &ex.replies[i];
            let m0 = model.get(i).cloned().unwrap_or_else(|| "<no reply>".to_string());
            let m = if ex.lines[i].starts_with("dot") && !m0.starts_with("panic") && !ex.abs { reparse::canon_dot(&m0) } else { m0 };
            if *r != m {
                let file = format!("{}/{}.case{}.ops", outdir, suite, c + 1);
                let mut body = String::new();
                if let Some(t) = ex_tt_header(ex, starts[c]) {
                    body.push_str(&t);
                }
                for l in &ex.lines[starts[c]..=i] {
                    body.push_str(l);
                    body.push('\n');
                }
                let _ = std::fs::write(&file, body);
                out.push(Disagreement { case: c + 1, line_no: i - starts[c] + 1, line: ex.lines[i].clone(), rust: r.clone(), model: m, file });
                break; // the states have diverged; the rest of the case is not comparable
            }
        }
        if out.len() >= max {
            break;
        }
    }
    out
}

/// the number of oracle variables cannot be recovered from the lines; suites record it per case
fn ex_tt_header(_ex: &Exec, _start: usize) -> Option<String> {
    None
}

struct SuiteResult {
    json: String,
    bad: bool,
}

fn run_one_suite(suite: &str, seed: u64, thorough: bool, driver: &str, outdir: &str) -> SuiteResult {
    let t0 = Instant::now();
    let beacon = Arc::new(Beacon { started_ms: 0.into(), line: Mutex::new(String::new()) });
    // hang watchdog: a single operation that runs for more than 20 s never returns in practice
    {
        let b = beacon.clone();
        let suite = suite.to_string();
        let outdir = outdir.to_string();
        std::thread::spawn(move || loop {
            std::thread::sleep(std::time::Duration::from_millis(200));
            let s = b.started_ms.load(Ordering::SeqCst);
            if s != 0 && now_ms().saturating_sub(s) > 20_000 {
                let line = b.line.lock().unwrap().clone();
                let _ = std::fs::write(format!("{}/{}.hang", outdir, suite), format!("{}\n", line));
                let _ = std::fs::copy(format!("{}/{}.current.ops", outdir, suite), format!("{}/{}.hang.ops", outdir, suite));
                eprintln!("HANG suite={} line={}", suite, line);
                std::process::exit(3);
            }
        });
    }
    let mut h = exec::fnv1a(suite);
    h ^= seed.wrapping_mul(0x9E3779B97F4A7C15);
    let mut cx = Ctx { ex: Exec::new(beacon), rng: Rng(h), thorough, samples: vec![], notes: vec![] };
    cx.ex.log_prefix = Some(format!("{}/{}", outdir, suite));
    if std::env::var("VERIF_ABSTRACT").map_or(false, |v| v == "1") {
        cx.ex.begin_case();
        cx.ex.step("mode abstract");
    }
    let _ = std::fs::remove_file(format!("{}/{}.failures.jsonl", outdir, suite));
    let known = gen::run_suite(suite, &mut cx);
    if !known {
        return SuiteResult { json: format!("{{\"suite\":{},\"error\":\"unknown suite\"}}", json_str(suite)), bad: true };
    }
    let gen_s = t0.elapsed().as_secs_f64();
    let ex = &cx.ex;
    let (model, driver_err) = match run_driver(driver, &ex.lines) {
        Ok(m) => (m, None),
        Err(e) => (vec![], Some(e)),
    };
    let dis = compare(ex, &model, outdir, suite, 10);
    // oracle failures: the replay file of each was written when it was found
    let mut fail_json = vec![];
    for (k, f) in ex.failures.iter().enumerate() {
        let file = format!("{}/{}.oracle{}.ops", outdir, suite, k + 1);
        fail_json.push(format!(
            "{{\"props\":{},\"case\":{},\"line_no\":{},\"line\":{},\"msg\":{},\"file\":{}}}",
            json_list(&f.props.iter().map(|p| json_str(p)).collect::<Vec<_>>()),
            f.case,
            f.line_no,
            json_str(&f.line),
            json_str(&f.msg),
            json_str(&file)
        ));
    }
    let dis_json: Vec<String> = dis
        .iter()
        .map(|d| {
            format!(
                "{{\"case\":{},\"line_no\":{},\"line\":{},\"rust\":{},\"model\":{},\"file\":{}}}",
                d.case,
                d.line_no,
                json_str(&d.line),
                json_str(&truncate(&d.rust)),
                json_str(&truncate(&d.model)),
                json_str(&d.file)
            )
        })
        .collect();
    let mut stats: Vec<(&String, &u64)> = ex.stats.iter().collect();
    stats.sort();
    let stats_json: Vec<String> = stats.iter().map(|(k, v)| format!("{}:{}", json_str(k), v)).collect();
    let samples: Vec<String> = cx.samples.iter().map(|s| json_list(&s.iter().map(|l| json_str(l)).collect::<Vec<_>>())).collect();
    let bad = !dis.is_empty() || !ex.failures.is_empty() || driver_err.is_some() || model.len() != ex.lines.len();
    let json = format!(
        "{{\"suite\":{},\"seed\":{},\"tier\":{},\"cases\":{},\"ops\":{},\"model_replies\":{},\"driver_error\":{},\"disagreements\":{},\"oracle_failures\":{},\"stats\":{{{}}},\"distinct_nontrivial\":{},\"samples\":{},\"notes\":{},\"gen_s\":{:.2},\"wall_s\":{:.2},\"debug_assertions\":{}}}",
        json_str(suite),
        seed,
        json_str(if thorough { "thorough" } else { "quick" }),
        ex.case,
        ex.lines.len(),
        model.len(),
        driver_err.map(|e| json_str(&e)).unwrap_or("null".into()),
        json_list(&dis_json),
        json_list(&fail_json),
        stats_json.join(","),
        ex.nontrivial.len(),
        json_list(&samples),
        json_list(&cx.notes.iter().map(|n| json_str(n)).collect::<Vec<_>>()),
        gen_s,
        t0.elapsed().as_secs_f64(),
        cfg!(debug_assertions)
    );
    SuiteResult { json, bad }
}

fn truncate(s: &str) -> String {
    if s.chars().count() > 600 {
        let t: String = s.chars().take(600).collect();
        format!("{}…", t)
    } else {
        s.to_string()
    }
}

fn arg(args: &[String], name: &str) -> Option<String> {
    args.iter().position(|a| a == name).and_then(|i| args.get(i + 1).cloned())
}

fn main() {
    if std::env::var("VERIF_LOG").map_or(false, |v| v == "1") {
        // every debug!/trace! call of the crate under test evaluates and formats its arguments
        struct Null(usize);
        impl std::fmt::Write for Null {
            fn write_str(&mut self, s: &str) -> std::fmt::Result {
                self.0 += s.len();
                Ok(())
            }
        }
        struct Sink;
        impl log::Log for Sink {
            fn enabled(&self, _: &log::Metadata) -> bool {
                true
            }
            fn log(&self, r: &log::Record) {
                use std::fmt::Write;
                let mut n = Null(0);
                let _ = write!(n, "{}", r.args());
            }
            fn flush(&self) {}
        }
        static SINK: Sink = Sink;
        let _ = log::set_logger(&SINK);
        log::set_max_level(log::LevelFilter::Trace);
    }
    if std::env::var("VERIF_PANIC_MSG").is_err() {
        std::panic::set_hook(Box::new(|_| {}));
    }
    let args: Vec<String> = std::env::args().collect();
    let cmd = args.get(1).map(|s| s.as_str()).unwrap_or("");
    match cmd {
        "exec" => {
            // lines on stdin -> replies of the real crate on stdout
            let beacon = Arc::new(Beacon { started_ms: 0.into(), line: Mutex::new(String::new()) });
            let mut ex = Exec::new(beacon);
            ex.scan_every = 0;
            ex.begin_case();
            let stdin = std::io::stdin();
            let out = std::io::stdout();
            let mut out = out.lock();
            for l in stdin.lock().lines() {
                let l = l.unwrap();
                let r = ex.step(l.trim_end());
                let _ = writeln!(out, "{}", r);
            }
        }
        "shrink" => {
            // shrink <file> --prop Cxx --out <file> [--budget-s n]: a smaller history on which an oracle
            // still reports a failure of the property (no driver involved)
            let file = args.get(2).expect("file");
            let prop = arg(&args, "--prop").expect("--prop");
            let out = arg(&args, "--out").expect("--out");
            let budget: u64 = arg(&args, "--budget-s").and_then(|s| s.parse().ok()).unwrap_or(20);
            let text = std::fs::read_to_string(file).expect("read ops file");
            let lines: Vec<String> = text.lines().filter(|l| !l.starts_with('#') && !l.trim().is_empty()).map(|l| l.to_string()).collect();
            let prop_static: &'static str = Box::leak(prop.clone().into_boxed_str());
            match shrink::shrink(&lines, prop_static, std::time::Duration::from_secs(budget)) {
                Some((min, tests)) => {
                    std::fs::write(&out, min.join("\n") + "\n").unwrap();
                    println!("shrunk {} -> {} lines ({} candidate runs)", lines.len(), min.len(), tests);
                }
                None => {
                    println!("not shrunk: the oracle failure does not reproduce from the file alone");
                    std::process::exit(2);
                }
            }
        }
        "replay" => {
            // replay <file> --driver <path> [--vars n]: run on both sides with the oracles on
            let file = args.get(2).expect("file");
            let driver = arg(&args, "--driver").expect("--driver");
            let beacon = Arc::new(Beacon { started_ms: 0.into(), line: Mutex::new(String::new()) });
            let mut ex = Exec::new(beacon);
            ex.scan_every = 1;
            ex.begin_case();
            let text = std::fs::read_to_string(file).expect("read replay file");
            let lines: Vec<String> = text.lines().filter(|l| !l.starts_with('#') && !l.trim().is_empty()).map(|l| l.to_string()).collect();
            // the oracle needs the number of variables: the largest variable mentioned by var/node/cube lines, capped at 6
            let mut maxv = 1u32;
            for l in &lines {
                let t: Vec<&str> = l.split(' ').collect();
                match t[0] {
                    "var" | "node" => maxv = maxv.max(t[1].parse().unwrap_or(0)),
                    "cube" | "clause" => {
                        for x in &t[1..] {
                            maxv = maxv.max(x.parse::<i32>().map(|i| i.unsigned_abs()).unwrap_or(0))
                        }
                    }
                    _ => {}
                }
            }
            let n = arg(&args, "--vars").and_then(|v| v.parse().ok()).unwrap_or(maxv);
            ex.tt = if n <= 6 { Some(tt::TT::ident(n)) } else { None };
            for l in &lines {
                ex.step(l);
            }
            let model = run_driver(&driver, &ex.lines).unwrap_or_default();
            let mut bad = false;
            for f in &ex.failures {
                println!("ORACLE props={:?} line {} `{}`: {}", f.props, f.line_no, f.line, f.msg);
                bad = true;
            }
            for i in 0..ex.lines.len() {
                let m0 = model.get(i).cloned().unwrap_or("<no reply>".into());
                let m = if ex.lines[i].starts_with("dot") && !m0.starts_with("panic") { reparse::canon_dot(&m0) } else { m0 };
                if ex.replies[i] != m {
                    println!("DISAGREE line {} `{}`:\n  rust : {}\n  model: {}", i + 1, ex.lines[i], truncate(&ex.replies[i]), truncate(&m));
                    bad = true;
                    break;
                }
            }
            if !bad {
                println!("replay: {} lines, implementation, model and oracles agree", ex.lines.len());
            }
            std::process::exit(if bad { 1 } else { 0 });
        }
        "run-one" => {
            let suite = arg(&args, "--suite").expect("--suite");
            let seed: u64 = arg(&args, "--seed").and_then(|s| s.parse().ok()).unwrap_or(1);
            let thorough = arg(&args, "--tier").map_or(false, |t| t == "thorough");
            let driver = arg(&args, "--driver").expect("--driver <path>");
            let outdir = arg(&args, "--outdir").expect("--outdir <dir>");
            std::fs::create_dir_all(&outdir).unwrap();
            let (s2, d2, o2) = (suite.clone(), driver.clone(), outdir.clone());
            let r = std::thread::Builder::new().stack_size(512 << 20).spawn(move || run_one_suite(&s2, seed, thorough, &d2, &o2)).unwrap().join();
            match r {
                Ok(r) => {
                    std::fs::write(format!("{}/{}.json", outdir, suite), &r.json).unwrap();
                    std::process::exit(if r.bad { 1 } else { 0 });
                }
                Err(_) => std::process::exit(4),
            }
        }
        "run" => {
            let suites = arg(&args, "--suites").unwrap_or_else(|| gen::ALL_SUITES.join(","));
            let seed: u64 = arg(&args, "--seed").and_then(|s| s.parse().ok()).unwrap_or(1);
            let thorough = arg(&args, "--tier").map_or(false, |t| t == "thorough");
            let driver = arg(&args, "--driver").expect("--driver <path>");
            let outdir = arg(&args, "--outdir").expect("--outdir <dir>");
            std::fs::create_dir_all(&outdir).unwrap();
            // one child process per suite: a hang or an abort in one suite cannot take the others down
            let exe = std::env::current_exe().unwrap();
            let mut children = vec![];
            for s in suites.split(',') {
                let child = Command::new(&exe)
                    .args(["run-one", "--suite", s, "--tier", if thorough { "thorough" } else { "quick" }, "--seed", &seed.to_string(), "--driver", &driver, "--outdir", &outdir])
                    .stdout(Stdio::null())
                    .stderr(Stdio::null())
                    .spawn();
                children.push((s.to_string(), child));
            }
            let mut any_bad = false;
            for (s, c) in children {
                let code = match c {
                    Ok(mut ch) => ch.wait().ok().and_then(|st| st.code()).unwrap_or(-1),
                    Err(_) => -2,
                };
                let jf = format!("{}/{}.json", outdir, s);
                if !std::path::Path::new(&jf).exists() {
                    // hang (exit 3) or abort: synthesize a partial report from what was logged
                    let hang = std::fs::read_to_string(format!("{}/{}.hang", outdir, s)).ok().map(|x| x.trim().to_string());
                    let fails: Vec<String> = std::fs::read_to_string(format!("{}/{}.failures.jsonl", outdir, s)).unwrap_or_default().lines().map(|l| l.to_string()).collect();
                    let cur = format!("{}/{}.current.ops", outdir, s);
                    let last = std::fs::read_to_string(&cur).ok().and_then(|t| t.lines().last().map(|l| l.to_string()));
                    let abort_file = format!("{}/{}.abort.ops", outdir, s);
                    if hang.is_none() {
                        let _ = std::fs::copy(&cur, &abort_file);
                    }
                    let json = format!(
                        "{{\"suite\":{},\"partial\":true,\"exit_code\":{},\"hang_line\":{},\"hang_file\":{},\"abort_line\":{},\"abort_file\":{},\"oracle_failures\":[{}]}}",
                        json_str(&s),
                        code,
                        hang.as_ref().map(|h| json_str(h)).unwrap_or("null".into()),
                        json_str(&format!("{}/{}.hang.ops", outdir, s)),
                        if hang.is_none() { last.map(|l| json_str(&l)).unwrap_or("null".into()) } else { "null".into() },
                        json_str(&abort_file),
                        fails.join(",")
                    );
                    std::fs::write(&jf, json).unwrap();
                    any_bad = true;
                    println!("suite {} DIED (exit {})", s, code);
                } else {
                    let bad = code != 0;
                    any_bad |= bad;
                    println!("suite {} {}", s, if bad { "BAD" } else { "ok" });
                }
            }
            std::process::exit(if any_bad { 1 } else { 0 });
        }
        _ => {
            eprintln!("usage: harness exec | replay <file> --driver <path> | run --suites a,b --tier quick|thorough --seed N --driver <path> --outdir <dir>");
            std::process::exit(2);
        }
    }
}

//! Executes protocol lines on the real crate, in-process, and checks every result against
//! oracles that do not involve the Lean model (truth tables, structural scans, shadow maps).

use std::collections::{HashMap, HashSet};
use std::panic::{catch_unwind, AssertUnwindSafe};
use std::sync::atomic::{AtomicU64, Ordering};
use std::sync::{Arc, Mutex};

use bdd_rs::bdd::Bdd;
use bdd_rs::cache::Cache;
use bdd_rs::eval::Expr;
use bdd_rs::node::Node;
use bdd_rs::raw::RawTable;
use bdd_rs::reference::Ref;
use bdd_rs::table::Table;
use bdd_rs::utils::{pairing2, MyHash, OpKey};

use crate::tt::TT;

#[derive(Clone, Debug)]
pub struct Failure {
    pub props: Vec<&'static str>,
    pub case: usize,
    pub line_no: usize,
    pub line: String,
    pub msg: String,
}

#[derive(Clone, Copy, Default, PartialEq, Eq, Debug)]
pub struct Item {
    pub v: u64,
    pub kind: u64,
}
impl MyHash for Item {
    fn hash(&self) -> u64 {
        match self.kind {
            0 => 0,
            1 => self.v % 2,
            2 => self.v,
            _ => pairing2(self.v, 0xFFFF_FFFF_FFFF_FFF1),
        }
    }
}

pub fn raw_hash(kind: u64, k: u64) -> u64 {
    match kind {
        0 => 0,
        1 => k,
        2 => u64::MAX,
        3 => (1u64 << 63).wrapping_add(k),
        4 => k.wrapping_mul(0x9E37_79B9_7F4A_7C15),
        5 => k % 2,
        _ => u64::MAX.wrapping_sub(k),
    }
}

pub fn show_ref(r: Ref) -> String {
    format!("{}:{}", r.index(), if r.is_negated() { 1 } else { 0 })
}
fn with_blame(b: Option<&'static str>, mut v: Vec<&'static str>) -> Vec<&'static str> {
    if let Some(p) = b {
        if !v.contains(&p) {
            v.push(p);
        }
    }
    v
}
/// The list-taking entry points accept any `IntoIterator`: feed the same items through iterators of
/// different kinds (exact size hint, lower bound 0, no bounds at all, chained halves). The kind is a
/// function of the operation line, so a replay feeds the same kind.
pub fn feed<T: Copy + 'static>(v: Vec<T>, kind: u64) -> Box<dyn Iterator<Item = T>> {
    match kind % 5 {
        0 => Box::new(v.into_iter()),
        1 => Box::new(v.into_iter().filter(|_| true)),
        2 => {
            let mut i = 0;
            Box::new(std::iter::from_fn(move || {
                i += 1;
                v.get(i - 1).copied()
            }))
        }
        3 => {
            let b = v[v.len() / 2..].to_vec();
            let a = v[..v.len() / 2].to_vec();
            Box::new(a.into_iter().chain(b.into_iter()))
        }
        _ => Box::new(v.into_iter().map(|x| vec![x]).flat_map(|x| x.into_iter())),
    }
}

/// value of variable `v` under the sampled assignment `e`: bit v-1 for the first 64 variables, a mix of
/// (e, v) beyond (so that any variable number up to 2^32-1 has a value under every sample)
pub fn abit(e: u64, v: u32) -> bool {
    if v >= 1 && v <= 64 {
        (e >> (v - 1)) & 1 == 1
    } else {
        let mut z = e ^ (v as u64).wrapping_mul(0x9E37_79B9_7F4A_7C15);
        z = (z ^ (z >> 30)).wrapping_mul(0xBF58_476D_1CE4_E5B9);
        z = (z ^ (z >> 27)).wrapping_mul(0x94D0_49BB_1331_11EB);
        (z ^ (z >> 31)) & 1 == 1
    }
}

/// the property that states what this operation must produce
pub fn op_property(op: &str) -> Option<&'static str> {
    Some(match op {
        "var" | "node" | "cube" | "clause" => "C15",
        "ite" => "C02",
        "and" | "or" | "xor" | "eq" | "imply" | "andmany" | "ormany" | "expr" | "exprc" | "not" => "C03",
        "subst" | "substm" | "cofcube" => "C08",
        "compose" => "C09",
        "constrain" => "C10",
        "restrict" => "C11",
        "gc" => "C05",
        _ => return None,
    })
}
pub fn show_key(k: &OpKey) -> String {
    match k {
        OpKey::Ite(f, g, h) => format!("I{},{},{}", raw_of(*f), raw_of(*g), raw_of(*h)),
        OpKey::Constrain(f, g) => format!("C{},{}", raw_of(*f), raw_of(*g)),
        OpKey::Restrict(f, g) => format!("R{},{}", raw_of(*f), raw_of(*g)),
    }
}
pub fn raw_of(r: Ref) -> u64 {
    ((r.index() as u64) << 1) | (r.is_negated() as u64)
}

pub fn fnv1a(s: &str) -> u64 {
    let mut h: u64 = 0xcbf29ce484222325;
    for b in s.bytes() {
        h = (h ^ b as u64).wrapping_mul(0x100000001b3);
    }
    h
}

fn panic_class(p: Box<dyn std::any::Any + Send>) -> String {
    let msg = if let Some(s) = p.downcast_ref::<&str>() {
        s.to_string()
    } else if let Some(s) = p.downcast_ref::<String>() {
        s.clone()
    } else {
        String::new()
    };
    if msg.contains("Storage is full") {
        "full".into()
    } else if msg.contains("index out of bounds") {
        "oob".into()
    } else {
        "assert".into()
    }
}

/// progress beacon for the hang watchdog
pub struct Beacon {
    pub started_ms: AtomicU64, // 0 = idle
    pub line: Mutex<String>,
}

pub fn now_ms() -> u64 {
    use std::time::{SystemTime, UNIX_EPOCH};
    SystemTime::now().duration_since(UNIX_EPOCH).unwrap().as_millis() as u64
}

/// Z7: the value type used for the eda arena (closed under neg/mul/add, neg involutive)
#[derive(Clone, Copy, PartialEq, Eq)]
pub struct Z7(pub u8);
impl std::fmt::Display for Z7 {
    fn fmt(&self, f: &mut std::fmt::Formatter<'_>) -> std::fmt::Result {
        write!(f, "{}", self.0)
    }
}
impl std::fmt::Debug for Z7 {
    fn fmt(&self, f: &mut std::fmt::Formatter<'_>) -> std::fmt::Result {
        write!(f, "{}", self.0)
    }
}
impl std::ops::Neg for Z7 {
    type Output = Z7;
    fn neg(self) -> Z7 {
        Z7((7 - self.0 % 7) % 7)
    }
}
impl std::ops::Mul for Z7 {
    type Output = Z7;
    fn mul(self, o: Z7) -> Z7 {
        Z7(((self.0 as u32 * o.0 as u32) % 7) as u8)
    }
}
impl std::ops::Add for Z7 {
    type Output = Z7;
    fn add(self, o: Z7) -> Z7 {
        Z7(((self.0 as u32 + o.0 as u32) % 7) as u8)
    }
}

/// a minimal unsigned big integer (little-endian 32-bit limbs) for the counting oracle
#[derive(Clone, PartialEq, Eq, Debug)]
pub struct BigU(pub Vec<u32>);
impl BigU {
    pub fn zero() -> BigU {
        BigU(vec![])
    }
    pub fn pow2(n: usize) -> BigU {
        let mut v = vec![0u32; n / 32 + 1];
        v[n / 32] = 1 << (n % 32);
        BigU(v)
    }
    fn trim(mut self) -> BigU {
        while self.0.last() == Some(&0) {
            self.0.pop();
        }
        self
    }
    pub fn add(&self, o: &BigU) -> BigU {
        let mut out = Vec::with_capacity(self.0.len().max(o.0.len()) + 1);
        let mut carry = 0u64;
        for i in 0..self.0.len().max(o.0.len()) {
            let x = *self.0.get(i).unwrap_or(&0) as u64 + *o.0.get(i).unwrap_or(&0) as u64 + carry;
            out.push(x as u32);
            carry = x >> 32;
        }
        if carry > 0 {
            out.push(carry as u32);
        }
        BigU(out).trim()
    }
    /// self - o (requires self >= o)
    pub fn sub(&self, o: &BigU) -> BigU {
        let mut out = Vec::with_capacity(self.0.len());
        let mut borrow = 0i64;
        for i in 0..self.0.len() {
            let mut x = self.0[i] as i64 - *o.0.get(i).unwrap_or(&0) as i64 - borrow;
            if x < 0 {
                x += 1 << 32;
                borrow = 1;
            } else {
                borrow = 0;
            }
            out.push(x as u32);
        }
        BigU(out).trim()
    }
    pub fn mul_small(&self, m: u32) -> BigU {
        let mut out = Vec::with_capacity(self.0.len() + 1);
        let mut carry = 0u64;
        for &x in &self.0 {
            let y = x as u64 * m as u64 + carry;
            out.push(y as u32);
            carry = y >> 32;
        }
        if carry > 0 {
            out.push(carry as u32);
        }
        BigU(out).trim()
    }
    pub fn half(&self) -> BigU {
        let mut out = vec![0u32; self.0.len()];
        let mut carry = 0u32;
        for i in (0..self.0.len()).rev() {
            out[i] = (self.0[i] >> 1) | (carry << 31);
            carry = self.0[i] & 1;
        }
        BigU(out).trim()
    }
    pub fn to_decimal(&self) -> String {
        if self.0.is_empty() {
            return "0".into();
        }
        let mut limbs = self.0.clone();
        let mut parts: Vec<u32> = vec![];
        while !limbs.is_empty() {
            let mut rem = 0u64;
            for i in (0..limbs.len()).rev() {
                let cur = (rem << 32) | limbs[i] as u64;
                limbs[i] = (cur / 1_000_000_000) as u32;
                rem = cur % 1_000_000_000;
            }
            parts.push(rem as u32);
            while limbs.last() == Some(&0) {
                limbs.pop();
            }
        }
        let mut s = parts.last().unwrap().to_string();
        for p in parts.iter().rev().skip(1) {
            s.push_str(&format!("{:09}", p));
        }
        s
    }
}

/// a value with a destructor for the mirrored RawTable: creation and destruction are counted, so a
/// value destroyed twice or a table that believes it holds more values than are alive shows up
pub struct Dv {
    pub v: u64,
    live: std::rc::Rc<std::cell::Cell<i64>>,
}
impl Dv {
    fn new(v: u64, live: &std::rc::Rc<std::cell::Cell<i64>>) -> Dv {
        live.set(live.get() + 1);
        Dv { v, live: live.clone() }
    }
}
impl Drop for Dv {
    fn drop(&mut self) {
        self.live.set(self.live.get() - 1);
    }
}

/// the free term algebra as a value type for the eda arena: evaluation with it records exactly which
/// operation was applied to which operands in which order (nothing commutes, nothing cancels)
#[derive(Clone, PartialEq, Eq, Debug)]
pub struct Sym(pub String);
impl std::ops::Neg for Sym {
    type Output = Sym;
    fn neg(self) -> Sym {
        Sym(format!("-({})", self.0))
    }
}
impl std::ops::Mul for Sym {
    type Output = Sym;
    fn mul(self, o: Sym) -> Sym {
        Sym(format!("({}*{})", self.0, o.0))
    }
}
impl std::ops::Add for Sym {
    type Output = Sym;
    fn add(self, o: Sym) -> Sym {
        Sym(format!("({}+{})", self.0, o.0))
    }
}

/// a Rust value of type `Ref` or `Expr` (the operators are overloaded on both)
pub enum Val {
    R(Ref),
    E(Expr),
}

/// specification of a produced handle for the *sampled-evaluation* oracle (used when there are more
/// than 6 variables, where truth tables are off): the result diagram is evaluated on 64 fixed
/// assignments and compared with the specification evaluated on the argument diagrams
pub enum Spec {
    Var(u32),
    Node(u32, Ref, Ref),
    Not(Ref),
    Ite(Ref, Ref, Ref),
    Bin(u8, Ref, Ref),
    Many(bool, Vec<Ref>),
    Cube(bool, Vec<i32>),
    Fix(Ref, Vec<(u32, bool)>),
    Compose(Ref, u32, Ref),
    Care(Ref, Ref),
    /// constrain(f, g) at a point x is f at the point of g closest to x (earlier variables weigh more)
    Closest(Ref, Ref),
    Expr(EFn),
}

pub struct Exec {
    pub bdd: Option<Bdd>,
    pub env: Vec<Ref>,
    pub live: Vec<bool>,
    pub exp: Vec<Option<u64>>,
    pub tt: Option<TT>,
    pub case: usize,
    pub lines: Vec<String>,
    pub replies: Vec<String>,
    pub case_starts: Vec<usize>,
    pub failures: Vec<Failure>,
    pub scan_every: usize,
    since_scan: usize,
    canon: HashMap<u64, Ref>,
    byref: HashMap<Ref, u64>,
    shadow: HashMap<usize, Node>,
    peak: usize,
    had_full: bool,
    pub table: Table<Item>,
    pub item_kind: u64,
    items: HashMap<u64, usize>,
    tnode: Table<Node>,
    tnode_items: HashMap<(u32, u32, u32), usize>,
    pub cache: Cache<(u64, u64), u64>,
    cache_shadow: HashMap<usize, ((u64, u64), u64)>,
    cache_lookups: usize,
    kcache: Cache<OpKey, Ref>,
    kcache_shadow: HashMap<usize, ((u8, u32, u32, u32), u32)>,
    kcache_lookups: usize,
    scan_op: Option<&'static str>,
    /// the operation just run is a query (must change no later result: C16)
    scan_query: bool,
    sig_of_ref: HashMap<Ref, u64>,
    /// a lazy `paths` iterator kept alive across other operations, and what it must yield
    pit: Option<Box<dyn Iterator<Item = Vec<i32>>>>,
    pit_expected: Vec<Vec<i32>>,
    pit_pos: usize,
    pub raw: RawTable<(u64, u64)>,
    pub raw_kind: u64,
    /// the same history on a table whose values have a destructor (`needs_drop::<T>()` is true)
    raw_d: RawTable<(u64, Dv)>,
    raw_d_live: std::rc::Rc<std::cell::Cell<i64>>,
    raw_shadow: HashMap<u64, u64>,
    pub stats: HashMap<String, u64>,
    pub nontrivial: HashSet<u64>,
    pub beacon: Arc<Beacon>,
    pub max_failures: usize,
    cr_memo: HashMap<(u32, bool, u64, u64), u64>,
    /// when set: `<prefix>.current.ops` mirrors the lines of the running case (unbuffered), and every
    /// oracle failure is written out at once (`<prefix>.oracle<k>.ops`, `<prefix>.failures.jsonl`), so that
    /// a hang or an abort of the process loses nothing
    pub log_prefix: Option<String>,
    cur_file: Option<std::fs::File>,
    /// abstract reply mode (see the driver): canonical diagrams instead of indices, no snapshots
    pub abs: bool,
    pub pending_spec: Option<Spec>,
    samples: Vec<u64>,
    sig: Vec<Option<u64>>,
}

impl Exec {
    pub fn new(beacon: Arc<Beacon>) -> Self {
        Exec {
            bdd: None,
            env: vec![],
            live: vec![],
            exp: vec![],
            tt: None,
            case: 0,
            lines: vec![],
            replies: vec![],
            case_starts: vec![],
            failures: vec![],
            scan_every: 1,
            since_scan: 0,
            canon: HashMap::new(),
            byref: HashMap::new(),
            shadow: HashMap::new(),
            peak: 0,
            had_full: false,
            table: Table::with_bucket_bits(0, 0),
            item_kind: 0,
            items: HashMap::new(),
            tnode: Table::with_bucket_bits(0, 0),
            tnode_items: HashMap::new(),
            cache: Cache::new(0),
            cache_shadow: HashMap::new(),
            cache_lookups: 0,
            kcache: Cache::new(0),
            kcache_shadow: HashMap::new(),
            kcache_lookups: 0,
            scan_op: None,
            scan_query: false,
            sig_of_ref: HashMap::new(),
            pit: None,
            pit_expected: vec![],
            pit_pos: 0,
            raw: RawTable::new(),
            raw_kind: 0,
            raw_d: RawTable::new(),
            raw_d_live: std::rc::Rc::new(std::cell::Cell::new(0)),
            raw_shadow: HashMap::new(),
            stats: HashMap::new(),
            nontrivial: HashSet::new(),
            beacon,
            max_failures: 300,
            cr_memo: HashMap::new(),
            log_prefix: None,
            cur_file: None,
            abs: false,
            pending_spec: None,
            samples: {
                let mut v = vec![0u64, u64::MAX, 0x5555_5555_5555_5555, 0xAAAA_AAAA_AAAA_AAAA];
                let mut x = 0x9E37_79B9_7F4A_7C15u64;
                while v.len() < 64 {
                    x ^= x << 13;
                    x ^= x >> 7;
                    x ^= x << 17;
                    v.push(x);
                }
                v
            },
            sig: vec![],
        }
    }

    pub fn begin_case(&mut self) {
        self.case += 1;
        self.case_starts.push(self.lines.len());
        if let Some(p) = &self.log_prefix {
            self.cur_file = std::fs::File::create(format!("{}.current.ops", p)).ok();
        }
    }

    pub fn bump(&mut self, k: &str) {
        *self.stats.entry(k.to_string()).or_insert(0) += 1;
    }

    pub fn fail(&mut self, props: &[&'static str], msg: String) {
        // at most 6 reports per tag set, so that one noisy oracle cannot crowd out the others
        let same = self.failures.iter().filter(|f| f.props == props).count();
        if same < 6 && self.failures.len() < self.max_failures {
            let start = self.case_starts.last().copied().unwrap_or(0);
            let line_no = self.lines.len() - start;
            let f = Failure {
                props: props.to_vec(),
                case: self.case,
                line_no,
                line: self.lines.last().cloned().unwrap_or_default(),
                msg,
            };
            if let Some(p) = &self.log_prefix {
                use std::io::Write;
                let file = format!("{}.oracle{}.ops", p, self.failures.len() + 1);
                let mut body = String::new();
                for l in &self.lines[start..] {
                    body.push_str(l);
                    body.push('\n');
                }
                let _ = std::fs::write(&file, body);
                if let Ok(mut fl) = std::fs::OpenOptions::new().create(true).append(true).open(format!("{}.failures.jsonl", p)) {
                    let props_json: Vec<String> = f.props.iter().map(|x| format!("\"{}\"", x)).collect();
                    let _ = writeln!(
                        fl,
                        "{{\"props\":[{}],\"case\":{},\"line_no\":{},\"line\":{},\"msg\":{},\"file\":{}}}",
                        props_json.join(","),
                        f.case,
                        f.line_no,
                        crate::json_str(&f.line),
                        crate::json_str(&f.msg),
                        crate::json_str(&file)
                    );
                }
            }
            self.failures.push(f);
        }
    }

    pub fn bdd(&self) -> &Bdd {
        self.bdd.as_ref().unwrap()
    }

    /// memoised brute-force constrain / restrict on truth tables
    pub fn tt_cr(&mut self, is_constrain: bool, f: u64, g: u64) -> u64 {
        let t = self.tt.unwrap();
        if let Some(&r) = self.cr_memo.get(&(t.n, is_constrain, f, g)) {
            return r;
        }
        let r = if is_constrain { t.constrain(f, g) } else { t.restrict(f, g) };
        self.cr_memo.insert((t.n, is_constrain, f, g), r);
        r
    }

    // ------------------------------------------------------------------ snapshots

    pub fn st_snapshot(&self) -> String {
        let bdd = self.bdd();
        let st = bdd.storage();
        let mut s = table_snapshot(&*st, |n: &Node| format!("{},{},{}", n.variable, raw_of(n.low), raw_of(n.high)));
        s.push_str(" | K ");
        {
            let c = bdd.cache();
            s.push_str(&format!("slots={}", c.num_slots()));
            for (i, k, v) in c.entries() {
                let ks = match k {
                    OpKey::Ite(f, g, h) => format!("I{},{},{}", raw_of(*f), raw_of(*g), raw_of(*h)),
                    OpKey::Constrain(f, g) => format!("C{},{}", raw_of(*f), raw_of(*g)),
                    OpKey::Restrict(f, g) => format!("R{},{}", raw_of(*f), raw_of(*g)),
                };
                s.push_str(&format!(" {}:{}={}", i, ks, raw_of(*v)));
            }
            s.push_str(&format!(" hits={} faults={} misses={}", c.hits(), c.faults(), c.misses()));
        }
        s.push_str(" | S ");
        {
            let c = bdd.size_cache();
            s.push_str(&format!("slots={}", c.num_slots()));
            for (i, k, v) in c.entries() {
                s.push_str(&format!(" {}:{}={}", i, raw_of(*k), v));
            }
            s.push_str(&format!(" hits={} faults={} misses={}", c.hits(), c.faults(), c.misses()));
        }
        s
    }

    // ------------------------------------------------------------------ oracle helpers

    /// truth table of a handle, by walking the stored diagram
    pub fn walk(&self, r: Ref) -> Result<u64, String> {
        let tt = self.tt.ok_or("oracle off")?;
        let mut memo = HashMap::new();
        let t = self.walk_idx(r.index() as usize, &tt, &mut memo, 0)?;
        Ok(if r.is_negated() { tt.not(t) } else { t })
    }

    fn walk_idx(&self, i: usize, tt: &TT, memo: &mut HashMap<usize, u64>, depth: u32) -> Result<u64, String> {
        if i == 1 {
            return Ok(tt.full());
        }
        if depth > 64 {
            return Err(format!("diagram deeper than 64 below cell {}", i));
        }
        if let Some(&t) = memo.get(&i) {
            return Ok(t);
        }
        let st = self.bdd().storage();
        if i == 0 || i >= st.capacity() {
            return Err(format!("edge to cell {} outside the table", i));
        }
        if !st.cell_flags(i).0 {
            return Err(format!("edge to free cell {}", i));
        }
        let n = *st.cell_value(i);
        drop(st);
        let pv = match tt.pos(n.variable) {
            Some(p) => p,
            None => return Err(format!("cell {} has variable {} outside the {} variables in use", i, n.variable, tt.n)),
        };
        let lo = self.walk_idx(n.low.index() as usize, tt, memo, depth + 1)?;
        let lo = if n.low.is_negated() { tt.not(lo) } else { lo };
        let hi = self.walk_idx(n.high.index() as usize, tt, memo, depth + 1)?;
        let hi = if n.high.is_negated() { tt.not(hi) } else { hi };
        let t = tt.ite(tt.var(pv), hi, lo);
        memo.insert(i, t);
        Ok(t)
    }

    /// number of satisfying assignments over `n` variables of the diagram below `r`, or None when the
    /// diagram mentions a variable above `n`, is malformed, or is larger than 200000 nodes
    pub fn count_graph(&self, r: Ref, n: u32) -> Option<u128> {
        let st = self.bdd().storage();
        let cap = st.capacity();
        let total: u128 = 1u128 << n;
        // iterative post-order; memo: cell -> count of the regular function rooted there
        let mut memo: HashMap<usize, u128> = HashMap::new();
        memo.insert(1, total);
        let mut stack = vec![r.index() as usize];
        while let Some(&i) = stack.last() {
            if memo.contains_key(&i) {
                stack.pop();
                continue;
            }
            if i == 0 || i >= cap || !st.cell_flags(i).0 || memo.len() > 200_000 {
                return None;
            }
            let nd = st.cell_value(i);
            if nd.variable == 0 || nd.variable > n {
                return None;
            }
            let (lo, hi) = (nd.low.index() as usize, nd.high.index() as usize);
            match (memo.get(&lo).copied(), memo.get(&hi).copied()) {
                (Some(cl), Some(ch)) => {
                    let cl = if nd.low.is_negated() { total - cl } else { cl };
                    let ch = if nd.high.is_negated() { total - ch } else { ch };
                    memo.insert(i, cl / 2 + ch / 2 + (cl % 2 + ch % 2) / 2);
                    stack.pop();
                }
                (a, b) => {
                    if a.is_none() {
                        stack.push(lo);
                    }
                    if b.is_none() {
                        stack.push(hi);
                    }
                }
            }
        }
        let c = memo[&(r.index() as usize)];
        Some(if r.is_negated() { total - c } else { c })
    }

    /// the same count for any number of variables (own big integers), diagrams up to 20000 nodes
    pub fn count_graph_big(&self, r: Ref, n: usize) -> Option<String> {
        let st = self.bdd().storage();
        let cap = st.capacity();
        let total = BigU::pow2(n);
        let mut memo: HashMap<usize, BigU> = HashMap::new();
        memo.insert(1, total.clone());
        let mut stack = vec![r.index() as usize];
        while let Some(&i) = stack.last() {
            if memo.contains_key(&i) {
                stack.pop();
                continue;
            }
            if i == 0 || i >= cap || !st.cell_flags(i).0 || memo.len() > 20_000 {
                return None;
            }
            let nd = st.cell_value(i);
            if nd.variable == 0 || nd.variable as usize > n {
                return None;
            }
            let (lo, hi) = (nd.low.index() as usize, nd.high.index() as usize);
            match (memo.get(&lo), memo.get(&hi)) {
                (Some(cl), Some(ch)) => {
                    let cl = if nd.low.is_negated() { total.sub(cl) } else { cl.clone() };
                    let ch = if nd.high.is_negated() { total.sub(ch) } else { ch.clone() };
                    let v = cl.add(&ch).half();
                    memo.insert(i, v);
                    stack.pop();
                }
                (a, b) => {
                    let (a, b) = (a.is_none(), b.is_none());
                    if a {
                        stack.push(lo);
                    }
                    if b {
                        stack.push(hi);
                    }
                }
            }
        }
        let c = memo[&(r.index() as usize)].clone();
        Some(if r.is_negated() { total.sub(&c) } else { c }.to_decimal())
    }

    /// number of paths from `r` to the constant true in the stored diagram (complement edges flip the
    /// target), or None when the diagram is malformed or larger than 200000 nodes
    pub fn count_paths_graph(&self, r: Ref) -> Option<u128> {
        let st = self.bdd().storage();
        let cap = st.capacity();
        // memo: (cell, parity) -> paths reaching "true" when entered with that parity
        let mut memo: HashMap<(usize, bool), u128> = HashMap::new();
        memo.insert((1, false), 1);
        memo.insert((1, true), 0);
        let start = (r.index() as usize, r.is_negated());
        let mut stack = vec![start];
        while let Some(&(i, p)) = stack.last() {
            if memo.contains_key(&(i, p)) {
                stack.pop();
                continue;
            }
            if i == 0 || i >= cap || !st.cell_flags(i).0 || memo.len() > 400_000 {
                return None;
            }
            let nd = st.cell_value(i);
            let lo = (nd.low.index() as usize, p ^ nd.low.is_negated());
            let hi = (nd.high.index() as usize, p ^ nd.high.is_negated());
            match (memo.get(&lo).copied(), memo.get(&hi).copied()) {
                (Some(a), Some(b)) => {
                    memo.insert((i, p), a.saturating_add(b));
                    stack.pop();
                }
                (a, b) => {
                    if a.is_none() {
                        stack.push(lo);
                    }
                    if b.is_none() {
                        stack.push(hi);
                    }
                }
            }
        }
        memo.get(&start).copied()
    }

    /// value of the diagram below `r` under the assignment `e` (bit v-1 = variable v)
    pub fn eval_at(&self, r: Ref, e: u64) -> Result<bool, String> {
        self.eval_with(r, e, &[])
    }

    /// the same, with some variables overridden
    pub fn eval_with(&self, r: Ref, e: u64, over: &[(u32, bool)]) -> Result<bool, String> {
        let big: Option<HashMap<u32, bool>> = if over.len() > 16 { Some(over.iter().copied().collect()) } else { None };
        let st = self.bdd().storage();
        let mut cur = r;
        let mut neg = false;
        for _ in 0..10_000_000 {
            neg ^= cur.is_negated();
            let i = cur.index() as usize;
            if i == 1 {
                return Ok(!neg);
            }
            if i == 0 || i >= st.capacity() || !st.cell_flags(i).0 {
                return Err(format!("edge to cell {} which is not stored", i));
            }
            let n = st.cell_value(i);
            if n.variable == 0 {
                return Err(format!("cell {} has variable 0", i));
            }
            let hit = match &big {
                Some(m) => m.get(&n.variable).copied(),
                None => over.iter().find(|o| o.0 == n.variable).map(|o| o.1),
            };
            let val = hit.unwrap_or_else(|| abit(e, n.variable));
            cur = if val { n.high } else { n.low };
        }
        Err("diagram deeper than 100000".into())
    }

    fn spec_at(&self, sp: &Spec, e: u64) -> Result<Option<bool>, String> {
        let bit = |v: u32| v >= 1 && abit(e, v);
        Ok(Some(match sp {
            Spec::Var(v) => bit(*v),
            Spec::Node(v, lo, hi) => {
                if bit(*v) {
                    self.eval_at(*hi, e)?
                } else {
                    self.eval_at(*lo, e)?
                }
            }
            Spec::Not(a) => !self.eval_at(*a, e)?,
            Spec::Ite(f, g, h) => {
                if self.eval_at(*f, e)? {
                    self.eval_at(*g, e)?
                } else {
                    self.eval_at(*h, e)?
                }
            }
            Spec::Bin(k, a, b) => {
                let (x, y) = (self.eval_at(*a, e)?, self.eval_at(*b, e)?);
                match k {
                    0 => x & y,
                    1 => x | y,
                    2 => x ^ y,
                    3 => x == y,
                    _ => !x | y,
                }
            }
            Spec::Many(is_and, rs) => {
                let mut acc = *is_and;
                for r in rs {
                    let x = self.eval_at(*r, e)?;
                    acc = if *is_and { acc & x } else { acc | x };
                }
                acc
            }
            Spec::Cube(is_cube, lits) => {
                let mut acc = *is_cube;
                for &l in lits {
                    let x = bit(l.unsigned_abs()) == (l > 0);
                    acc = if *is_cube { acc & x } else { acc | x };
                }
                acc
            }
            Spec::Fix(f, fixes) => self.eval_with(*f, e, fixes)?,
            Spec::Compose(f, v, g) => {
                let gv = self.eval_at(*g, e)?;
                self.eval_with(*f, e, &[(*v, gv)])?
            }
            Spec::Closest(f, g) => {
                // walk g along x; wherever the branch x prefers is empty (the constant false, by
                // canonicity), take the other one and flip that variable
                let st = self.bdd().storage();
                let zero = self.bdd().zero;
                if *g == zero {
                    return Ok(Some(false));
                }
                let mut cur = *g;
                let mut flips: Vec<(u32, bool)> = vec![];
                for _ in 0..10_000_000 {
                    let i = cur.index() as usize;
                    if i == 1 {
                        break;
                    }
                    if i == 0 || i >= st.capacity() || !st.cell_flags(i).0 {
                        return Err(format!("edge to cell {} which is not stored", i));
                    }
                    let n = *st.cell_value(i);
                    let (lo, hi) = if cur.is_negated() { (-n.low, -n.high) } else { (n.low, n.high) };
                    let xv = abit(e, n.variable);
                    let (pref, other) = if xv { (hi, lo) } else { (lo, hi) };
                    if pref == zero {
                        flips.push((n.variable, !xv));
                        cur = other;
                    } else {
                        cur = pref;
                    }
                }
                drop(st);
                self.eval_with(*f, e, &flips)?
            }
            Spec::Care(f, g) => {
                if self.eval_at(*g, e)? {
                    self.eval_at(*f, e)?
                } else {
                    return Ok(None);
                }
            }
            Spec::Expr(x) => match x.eval_s(self, e)? {
                Some(b) => b,
                None => return Ok(None),
            },
        }))
    }

    fn signature(&self, r: Ref) -> Option<u64> {
        let mut sg = 0u64;
        for (k, &e) in self.samples.iter().enumerate() {
            match self.eval_at(r, e) {
                Ok(true) => sg |= 1 << k,
                Ok(false) => {}
                Err(_) => return None,
            }
        }
        Some(sg)
    }

    /// sampled-evaluation oracle for a freshly produced handle (more than 6 variables)
    fn check_sampled(&mut self, r: Ref, sp: Spec, props: &[&'static str]) {
        for k in 0..self.samples.len() {
            let e = self.samples[k];
            let want = match self.spec_at(&sp, e) {
                Ok(w) => w,
                Err(_) => return, // an argument cannot be evaluated (variable > 64): no verdict
            };
            let got = match self.eval_at(r, e) {
                Ok(g) => g,
                Err(m) if m == "novalue" => return,
                Err(m) => {
                    let mut ps: Vec<&'static str> = props.to_vec();
                    for extra in ["C04", "C01"] {
                        if !ps.contains(&extra) {
                            ps.push(extra);
                        }
                    }
                    self.fail(&ps, format!("result {}: {}", show_ref(r), m));
                    return;
                }
            };
            if let Some(w) = want {
                if w != got {
                    self.fail(props, format!("result {} is {} under the assignment {:#x}, the specification says {}", show_ref(r), got, e, w));
                    return;
                }
            }
        }
        *self.stats.entry("sampled_checks".into()).or_insert(0) += 1;
    }

    /// cells reachable from the given handles (own DFS, independent of `descendants`)
    pub fn reach(&self, roots: &[Ref]) -> HashSet<u32> {
        let st = self.bdd().storage();
        let mut seen = HashSet::new();
        seen.insert(1u32);
        let mut stack: Vec<u32> = roots.iter().map(|r| r.index()).collect();
        while let Some(i) = stack.pop() {
            if i == 0 || (i as usize) >= st.capacity() || !seen.insert(i) {
                continue;
            }
            let n = st.cell_value(i as usize);
            stack.push(n.low.index());
            stack.push(n.high.index());
        }
        seen
    }

    pub fn top_var_of(&self, r: Ref) -> u64 {
        if r.index() == 1 {
            u64::MAX
        } else {
            self.bdd().variable(r.index()) as u64
        }
    }

    /// record a produced handle; when its expected table is known, check function and canonicity
    fn bind(&mut self, r: Ref, expected: Option<u64>, props: &[&'static str]) {
        self.env.push(r);
        // index 0 is the `Ref::ZERO` sentinel (what the accessors of the terminal return): not a
        // handle, never used as an argument
        self.live.push(r.index() != 0);
        let pending = self.pending_spec.take();
        if r.index() == 0 {
            self.exp.push(None);
            self.sig.push(None);
            return;
        }
        if self.tt.is_none() {
            if let Some(sp) = pending {
                self.check_sampled(r, sp, props);
            }
            // signature (values on the 64 samples): a handle must keep it for as long as it is live
            let sg = self.signature(r);
            if let Some(g) = sg {
                // (the signature this reference had when a live handle first carried it)
                match self.sig_of_ref.get(&r).copied() {
                    Some(g0) => {
                        if g0 != g {
                            self.fail(&["C01"], format!("handle {} changed its values on the sample assignments: {:#x} -> {:#x}", show_ref(r), g0, g));
                        }
                    }
                    None => {
                        self.sig_of_ref.insert(r, g);
                    }
                }
            }
            self.sig.push(sg);
        } else {
            self.sig.push(None);
        }
        let mut exp = expected;
        if let (Some(_), Some(e)) = (self.tt, expected) {
            match self.walk(r) {
                Ok(a) => {
                    if a != e {
                        self.fail(props, format!("result {} denotes table {:#x}, expected {:#x}", show_ref(r), a, e));
                        exp = Some(a);
                    }
                    let a = exp.unwrap();
                    // canonicity among live handles (C01)
                    if let Some(&r0) = self.canon.get(&a) {
                        if r0 != r {
                            self.fail(&["C01"], format!("handles {} and {} denote the same table {:#x}", show_ref(r0), show_ref(r), a));
                        }
                    } else {
                        self.canon.insert(a, r);
                    }
                    if let Some(&t0) = self.byref.get(&r) {
                        if t0 != a {
                            self.fail(&["C01"], format!("handle {} denoted {:#x} earlier and {:#x} now", show_ref(r), t0, a));
                        }
                    } else {
                        self.byref.insert(r, a);
                    }
                    if !tt_trivial(&self.tt.unwrap(), a) {
                        let key = fnv1a(&format!("{} {:x}", self.lines.last().map(|l| l.split(' ').next().unwrap_or("")).unwrap_or(""), a));
                        self.nontrivial.insert(key);
                    }
                }
                Err(m) => {
                    // a result handle whose diagram runs into a free cell / leaves the table is also a
                    // structural violation (C04) and cannot be compared with anything (C01)
                    let mut ps: Vec<&'static str> = props.to_vec();
                    for extra in ["C04", "C01"] {
                        if !ps.contains(&extra) {
                            ps.push(extra);
                        }
                    }
                    self.fail(&ps, format!("result {}: {}", show_ref(r), m));
                    exp = None;
                }
            }
        }
        self.exp.push(exp);
    }

    /// canonical serialisation of the diagram below a handle (same algorithm as the driver's `canonRef`)
    fn canon(&self, r: Ref, vis: &mut Vec<u32>, depth: u32) -> String {
        let bdd = self.bdd();
        if r == bdd.one {
            return "1".into();
        }
        if r == bdd.zero {
            return "0".into();
        }
        if depth > 200 {
            return "?".into();
        }
        let sign = if r.is_negated() { "~" } else { "" };
        if let Some(k) = vis.iter().position(|&i| i == r.index()) {
            return format!("{}#{}", sign, k);
        }
        let st = bdd.storage();
        let i = r.index() as usize;
        if i == 0 || i >= st.capacity() {
            return "?".into();
        }
        let n = *st.cell_value(i);
        drop(st);
        let k = vis.len();
        vis.push(r.index());
        let hi = self.canon(n.high, vis, depth + 1);
        let lo = self.canon(n.low, vis, depth + 1);
        format!("{}n{}(x{},{},{})", sign, k, n.variable, hi, lo)
    }

    /// how a produced handle is printed (call after it has been pushed to `env`)
    fn show_handle(&self, r: Ref) -> String {
        if self.abs {
            // the first *live* named handle equal to it (a dead handle's bits may coincide with anything
            // once its cell is reused — which cell that is depends on the allocation order, not on functions)
            let k = (0..self.env.len()).find(|&i| self.env[i] == r && self.live.get(i).copied().unwrap_or(true)).unwrap_or(self.env.len());
            format!("{} =h{}", self.canon(r, &mut vec![], 0), k)
        } else {
            show_ref(r)
        }
    }

    fn bind_panic(&mut self) {
        let z = self.bdd().zero;
        self.pending_spec = None;
        self.env.push(z);
        self.live.push(true);
        self.exp.push(self.tt.map(|_| 0));
        self.sig.push(if self.tt.is_none() { Some(0) } else { None });
    }

    fn h(&self, t: &str) -> Option<usize> {
        let i: usize = t.parse().ok()?;
        if i < self.env.len() {
            Some(i)
        } else {
            None
        }
    }

    fn e(&self, i: usize) -> Option<u64> {
        self.exp[i]
    }

    // ------------------------------------------------------------------ structural scan

    /// C04 / C06 / C17 / C07: scan the whole store and both caches
    pub fn scan(&mut self, after_gc: bool) {
        let mut fails: Vec<(Vec<&'static str>, String)> = vec![];
        // the structure was clean before the operation just run (scans after every step): a broken
        // node invariant is that operation's doing
        let blame = self.scan_op;
        {
            let bdd = self.bdd();
            let st = bdd.storage();
            let cap = st.capacity();
            let last = st.size();
            let nb = st.num_buckets();
            let mut occupied = vec![];
            if !st.cell_flags(0).0 {
                fails.push((vec!["C17"], "cell 0 (sentinel) not occupied".into()));
            }
            if last >= 1 && !st.cell_flags(1).0 {
                fails.push((vec!["C17", "C04"], "terminal cell 1 not occupied".into()));
            }
            for i in 1..cap {
                let (occ, _) = st.cell_flags(i);
                if occ {
                    if i > last {
                        fails.push((vec!["C17", "C06"], format!("cell {} occupied above the high-water mark {}", i, last)));
                    }
                    occupied.push(i);
                } else if i < st.min_free() {
                    fails.push((vec!["C17", "C06"], format!("free cell {} below min_free {}", i, st.min_free())));
                }
            }
            if occupied.len() != st.real_size() {
                fails.push((vec!["C17", "C06"], format!("real_size {} but {} cells occupied", st.real_size(), occupied.len())));
            }
            // node invariants and duplicates
            let mut triples: HashMap<(u32, u64, u64), usize> = HashMap::new();
            for &i in occupied.iter().filter(|&&i| i >= 2) {
                let n = st.cell_value(i);
                if n.variable == 0 {
                    fails.push((with_blame(blame, vec!["C04"]), format!("cell {} has variable 0", i)));
                }
                if n.high.is_negated() {
                    fails.push((with_blame(blame, vec!["C04"]), format!("cell {} has a complemented then-edge", i)));
                }
                if n.low == n.high {
                    fails.push((with_blame(blame, vec!["C04"]), format!("cell {} is redundant (low == high)", i)));
                }
                for c in [n.low, n.high] {
                    let ci = c.index() as usize;
                    if ci == 1 {
                        continue;
                    }
                    if ci == 0 || ci >= cap || !st.cell_flags(ci).0 {
                        fails.push((vec!["C04", "C05", "C17"], format!("cell {} has a child {} that is not stored", i, ci)));
                    } else if st.cell_value(ci).variable <= n.variable {
                        fails.push((with_blame(blame, vec!["C04"]), format!("cell {} (x{}) has child {} with variable x{}", i, n.variable, ci, st.cell_value(ci).variable)));
                    }
                }
                if let Some(j) = triples.insert((n.variable, raw_of(n.low), raw_of(n.high)), i) {
                    fails.push((with_blame(blame, vec!["C04", "C17", "C01"]), format!("cells {} and {} hold the same triple", j, i)));
                }
            }
            // chains
            let mut in_chain: HashMap<usize, usize> = HashMap::new();
            for b in 0..nb {
                let mut idx = st.bucket(b);
                let mut steps = 0;
                while idx != 0 {
                    steps += 1;
                    if steps > cap {
                        fails.push((vec!["C17"], format!("chain of bucket {} is cyclic", b)));
                        break;
                    }
                    if idx >= cap {
                        fails.push((vec!["C17"], format!("chain of bucket {} leaves the table at {}", b, idx)));
                        break;
                    }
                    let (occ, next) = st.cell_flags(idx);
                    if !occ {
                        fails.push((vec!["C17", "C05"], format!("freed cell {} in the chain of bucket {}", idx, b)));
                    } else {
                        let hb = (MyHash::hash(st.cell_value(idx)) & (nb as u64 - 1)) as usize;
                        if hb != b {
                            fails.push((vec!["C17"], format!("cell {} is in the chain of bucket {} but hashes to {}", idx, b, hb)));
                        }
                    }
                    if let Some(b0) = in_chain.insert(idx, b) {
                        fails.push((vec!["C17"], format!("cell {} is in two chains ({} and {})", idx, b0, b)));
                        break;
                    }
                    idx = next;
                }
            }
            for &i in occupied.iter().filter(|&&i| i >= 2) {
                if !in_chain.contains_key(&i) {
                    fails.push((vec!["C17", "C05"], format!("live cell {} is in no chain", i)));
                }
            }
            if in_chain.contains_key(&1) {
                fails.push((vec!["C17"], "terminal cell 1 is in a chain".into()));
            }
        }
        // shadow: no occupied cell changed its value since the last scan (unless a collection freed it)
        {
            let bdd = self.bdd.as_ref().unwrap();
            let st = bdd.storage();
            let mut new_shadow = HashMap::new();
            for i in 2..=st.size().min(st.capacity() - 1) {
                if st.cell_flags(i).0 {
                    new_shadow.insert(i, *st.cell_value(i));
                }
            }
            if !after_gc {
                for (i, n) in self.shadow.iter() {
                    match new_shadow.get(i) {
                        Some(m) if m == n => {}
                        Some(m) => fails.push((vec!["C06", "C17"], format!("stored node in cell {} was overwritten: {:?} -> {:?}", i, n, m))),
                        None => fails.push((vec!["C06", "C17"], format!("stored node in cell {} disappeared without a collection", i))),
                    }
                }
            }
            drop(st);
            self.shadow = new_shadow;
        }
        // high-water mark (C06)
        {
            let st = self.bdd().storage();
            let real = st.real_size();
            let size = st.size();
            drop(st);
            if real > self.peak {
                self.peak = real;
            }
            if size != self.peak {
                fails.push((vec!["C06"], format!("high-water mark {} but the peak number of stored nodes was {}", size, self.peak)));
            }
        }
        // cache entries are true facts about live nodes (C07)
        if let Some(tt) = self.tt {
            let entries: Vec<(usize, OpKey, Ref)> = self.bdd().cache().entries().map(|(i, k, v)| (i, k.clone(), *v)).collect();
            for (slot, k, v) in entries {
                let refs: Vec<Ref> = match &k {
                    OpKey::Ite(f, g, h) => vec![*f, *g, *h, v],
                    OpKey::Constrain(f, g) | OpKey::Restrict(f, g) => vec![*f, *g, v],
                };
                let tabs: Result<Vec<u64>, String> = refs.iter().map(|&r| self.walk(r)).collect();
                match tabs {
                    Err(m) => fails.push((if self.scan_query { vec!["C07", "C05", "C16"] } else { vec!["C07", "C05"] }, format!("cache slot {} mentions a dead node: {}", slot, m))),
                    Ok(t) => {
                        let (want, got) = match &k {
                            OpKey::Ite(..) => (tt.ite(t[0], t[1], t[2]), t[3]),
                            OpKey::Constrain(..) => (self.tt_cr(true, t[0], t[1]), t[2]),
                            OpKey::Restrict(..) => (self.tt_cr(false, t[0], t[1]), t[2]),
                        };
                        if want != got {
                            // (the caches were clean after the previous step: an entry that is false now was written
                            // by the operation just run — if that was a query, it changes later results: C16)
                            fails.push((if self.scan_query { vec!["C07", "C16"] } else { vec!["C07"] }, format!("cache slot {}: entry {:?} -> {} is false (tables {:x?}){}", slot, k, show_ref(v), t, if self.scan_query { " — written by a query" } else { "" })));
                        }
                    }
                }
            }
        }
        // size-cache entries (C04 / C07)
        {
            let entries: Vec<(usize, Ref, u64)> = self.bdd().size_cache().entries().map(|(i, k, v)| (i, *k, *v)).collect();
            for (slot, k, v) in entries {
                let n = self.reach(&[k]).len() as u64;
                if n != v {
                    fails.push((vec!["C07", "C04"], format!("size-cache slot {}: size({}) = {} but {} nodes are reachable", slot, show_ref(k), v, n)));
                }
            }
        }
        for (p, m) in fails {
            self.fail(&p, m);
        }
    }

    // ------------------------------------------------------------------ the step function

    pub fn step(&mut self, line: &str) -> String {
        self.lines.push(line.to_string());
        if let Some(f) = self.cur_file.as_mut() {
            use std::io::Write;
            let _ = f.write_all(line.as_bytes());
            let _ = f.write_all(b"\n");
        }
        *self.beacon.line.lock().unwrap() = line.to_string();
        self.beacon.started_ms.store(now_ms(), Ordering::SeqCst);
        let toks: Vec<&str> = line.split(' ').filter(|t| !t.is_empty()).collect();
        self.bump(&format!("op:{}", toks.first().copied().unwrap_or("")));
        let reply = self.step_inner(&toks);
        self.beacon.started_ms.store(0, Ordering::SeqCst);
        if reply.starts_with("panic") {
            self.bump(&format!("panic:{}", reply));
        }
        self.replies.push(reply.clone());
        reply
    }

    fn step_inner(&mut self, toks: &[&str]) -> String {
        if toks.is_empty() {
            return "bad-op".into();
        }
        match toks[0] {
            "mode" => {
                self.abs = toks.get(1) == Some(&"abstract");
                "ok".into()
            }
            "new" | "newdefault" | "default" => {
                let r = catch_unwind(AssertUnwindSafe(|| {
                    if toks[0] == "new" {
                        Bdd::with_params(toks[1].parse().unwrap(), toks[2].parse().unwrap(), toks[3].parse().unwrap())
                    } else if toks[0] == "default" {
                        Bdd::default()
                    } else {
                        Bdd::new(toks[1].parse().unwrap())
                    }
                }));
                self.pit = None; // (declared before the manager it borrows from is replaced)
                self.sig_of_ref.clear();
                self.env.clear();
                self.live.clear();
                self.exp.clear();
                self.sig.clear();
                self.pending_spec = None;
                self.canon.clear();
                self.byref.clear();
                self.shadow.clear();
                self.peak = 0;
                self.had_full = false;
                self.since_scan = 0;
                match r {
                    Ok(b) => {
                        let (one, zero) = (b.one, b.zero);
                        self.bdd = Some(b);
                        self.env.push(one);
                        self.env.push(zero);
                        self.live.extend([true, true]);
                        self.sig.extend([Some(u64::MAX), Some(0)]);
                        let full = self.tt.map(|t| t.full());
                        self.exp.push(full);
                        self.exp.push(self.tt.map(|_| 0));
                        if let Some(f) = full {
                            self.canon.insert(f, one);
                            self.canon.insert(0, zero);
                            self.byref.insert(one, f);
                            self.byref.insert(zero, 0);
                        }
                        self.peak = 1;
                        "ok".into()
                    }
                    Err(p) => {
                        self.bdd = None;
                        format!("panic {}", panic_class(p))
                    }
                }
            }
            "vmap" => {
                // the variable numbers this case uses, in increasing order (table positions 1..n)
                let vs: Vec<u32> = toks[1..].iter().filter_map(|x| x.parse().ok()).collect();
                if vs.is_empty() || vs.len() > 6 || vs.len() != toks.len() - 1 || vs.windows(2).any(|w| w[0] >= w[1]) || vs[0] == 0 {
                    return "bad-op".into();
                }
                self.tt = Some(TT::mapped(&vs));
                "ok".into()
            }
            t if t.starts_with("eda.") => self.step_eda(toks),
            t if t.starts_with("ref.") || t.starts_with("lit.") || t.starts_with("pair.") => self.step_bits(toks),
            t if t.starts_with("t.") => self.step_table(toks),
            t if t.starts_with("tn.") => self.step_tnode(toks),
            t if t.starts_with("c.") => self.step_cache(toks),
            t if t.starts_with("ck.") => self.step_kcache(toks),
            t if t.starts_with("raw.") => self.step_raw(toks),
            _ => {
                if self.bdd.is_none() {
                    return "no-manager".into();
                }
                let r = self.step_bdd(toks);
                if r != "bad-op" && self.scan_every > 0 {
                    self.since_scan += 1;
                    if self.since_scan >= self.scan_every || toks[0] == "gc" {
                        self.since_scan = 0;
                        self.scan_op = if self.scan_every == 1 { op_property(toks[0]) } else { None };
                        self.scan_query = self.scan_every == 1
                            && matches!(toks[0], "itec" | "implies" | "size" | "satcount" | "onesat" | "paths" | "desc" | "bracket" | "dot" | "low" | "high" | "topcof" | "pathsi.open" | "pathsi.next");
                        self.scan(toks[0] == "gc");
                    } else {
                        // cheap part of C06 every step
                        let st = self.bdd().storage();
                        let real = st.real_size();
                        drop(st);
                        if real > self.peak {
                            self.peak = real;
                        }
                    }
                }
                r
            }
        }
    }

    fn produce(&mut self, props: &[&'static str], expected: Option<u64>, f: impl FnOnce(&Bdd) -> Ref) -> String {
        let r = catch_unwind(AssertUnwindSafe(|| f(self.bdd.as_ref().unwrap())));
        match r {
            Ok(r) => {
                self.bind(r, expected, props);
                format!("r {}", self.show_handle(r))
            }
            Err(p) => {
                let c = panic_class(p);
                if c == "full" {
                    self.had_full = true;
                    // C06: the panic is legitimate only if every cell 1..cap-1 is occupied
                    let st = self.bdd().storage();
                    let free = (1..st.capacity()).filter(|&i| !st.cell_flags(i).0).count();
                    drop(st);
                    if free > 0 {
                        // a spurious failure of this operation as well as of the allocator
                        let mut ps = vec!["C06"];
                        ps.extend(props.iter().copied().filter(|p| *p != "C06"));
                        self.fail(&ps, format!("'Storage is full' with {} free cells", free));
                    }
                } else {
                    // no other panic is expected on live arguments (C02, C12, …); with a query iterator
                    // alive it is also the query that changed a later result (C16)
                    let mut ps = props.to_vec();
                    if ps.contains(&"C03") && !ps.contains(&"C02") {
                        ps.push("C02"); // the connectives are ITE calls: a panic in one is ITE panicking
                    }
                    if self.pit.is_some() {
                        ps.push("C16");
                        self.fail(&ps, format!("unexpected panic class '{}' while a paths() iterator is alive", c));
                    } else {
                        self.fail(&ps, format!("unexpected panic class '{}'", c));
                    }
                }
                self.bind_panic();
                format!("panic {}", c)
            }
        }
    }

    fn lits(toks: &[&str]) -> Option<Vec<i32>> {
        toks.iter().map(|t| t.parse::<i32>().ok()).collect()
    }

    fn step_bdd(&mut self, toks: &[&str]) -> String {
        macro_rules! hh {
            ($t:expr) => {
                match self.h($t) {
                    Some(i) => {
                        // a name whose node a collection has freed: the request is meaningless (a generator
                        // defect, reported in the statistics so that it cannot go unnoticed)
                        if !self.live.get(i).copied().unwrap_or(true) && self.env[i].index() != 0 {
                            // refused, as the model refuses it (it retires the names of collected nodes)
                            self.bump("stale-handle-use");
                            return "bad-op".into();
                        }
                        i
                    }
                    None => return "bad-op".into(),
                }
            };
        }
        let tt = self.tt;
        match toks[0] {
            "var" => {
                let v: u32 = toks[1].parse().unwrap();
                let e = tt.and_then(|t| t.pos(v).map(|p| t.var(p)));
                if v >= 1 {
                    self.pending_spec = Some(Spec::Var(v));
                }
                self.produce(&["C15"], e, |b| b.mk_var(v))
            }
            "node" => {
                let v: u32 = toks[1].parse().unwrap();
                let (lo, hi) = (hh!(toks[2]), hh!(toks[3]));
                let (rlo, rhi) = (self.env[lo], self.env[hi]);
                let ordered = v >= 1 && (v as u64) < self.top_var_of(rlo) && (v as u64) < self.top_var_of(rhi);
                let e = match (tt, self.e(lo), self.e(hi)) {
                    (Some(t), Some(a), Some(b)) if ordered && t.pos(v).is_some() => Some(t.ite(t.var(t.pos(v).unwrap()), b, a)),
                    _ => None,
                };
                if ordered {
                    self.pending_spec = Some(Spec::Node(v, rlo, rhi));
                }
                let r = self.produce(&["C15"], e, |b| b.mk_node(v, rlo, rhi));
                if rlo == rhi && !r.starts_with("panic") && self.env.last() != Some(&rlo) {
                    self.fail(&["C15"], format!("mk_node with equal children returned {}", r));
                }
                r
            }
            "not" => {
                let a = hh!(toks[1]);
                let ra = self.env[a];
                let e = match (tt, self.e(a)) {
                    (Some(t), Some(x)) => Some(t.not(x)),
                    _ => None,
                };
                self.pending_spec = Some(Spec::Not(ra));
                let r = self.produce(&["C01", "C03"], e, |b| b.apply_not(ra));
                if -(-ra) != ra || -ra == ra {
                    self.fail(&["C01"], format!("negation is not a free involution on {}", show_ref(ra)));
                }
                r
            }
            "ite" => {
                let (a, b, c) = (hh!(toks[1]), hh!(toks[2]), hh!(toks[3]));
                let (ra, rb, rc) = (self.env[a], self.env[b], self.env[c]);
                let e = match (tt, self.e(a), self.e(b), self.e(c)) {
                    (Some(t), Some(x), Some(y), Some(z)) => Some(t.ite(x, y, z)),
                    _ => None,
                };
                self.pending_spec = Some(Spec::Ite(ra, rb, rc));
                self.produce(&["C02"], e, |m| m.apply_ite(ra, rb, rc))
            }
            "and" | "or" | "xor" | "eq" | "imply" => {
                let (a, b) = (hh!(toks[1]), hh!(toks[2]));
                let (ra, rb) = (self.env[a], self.env[b]);
                let op = toks[0].to_string();
                let e = match (tt, self.e(a), self.e(b)) {
                    (Some(t), Some(x), Some(y)) => Some(match op.as_str() {
                        "and" => x & y,
                        "or" => x | y,
                        "xor" => x ^ y,
                        "eq" => t.not(x ^ y),
                        _ => t.not(x) | y,
                    }),
                    _ => None,
                };
                self.pending_spec = Some(Spec::Bin(
                    match op.as_str() {
                        "and" => 0,
                        "or" => 1,
                        "xor" => 2,
                        "eq" => 3,
                        _ => 4,
                    },
                    ra,
                    rb,
                ));
                self.produce(&["C03"], e, |m| match op.as_str() {
                    "and" => m.apply_and(ra, rb),
                    "or" => m.apply_or(ra, rb),
                    "xor" => m.apply_xor(ra, rb),
                    "eq" => m.apply_eq(ra, rb),
                    _ => m.apply_imply(ra, rb),
                })
            }
            "andmany" | "ormany" => {
                let mut idx = vec![];
                for t in &toks[1..] {
                    idx.push(hh!(t));
                }
                let rs: Vec<Ref> = idx.iter().map(|&i| self.env[i]).collect();
                let is_and = toks[0] == "andmany";
                let e = tt.and_then(|t| {
                    let mut acc = if is_and { t.full() } else { 0 };
                    for &i in &idx {
                        let x = self.e(i)?;
                        acc = if is_and { acc & x } else { acc | x };
                    }
                    Some(acc)
                });
                self.pending_spec = Some(Spec::Many(is_and, rs.clone()));
                let kind = fnv1a(&toks.join(" "));
                self.produce(&["C03"], e, |m| if is_and { m.apply_and_many(feed(rs, kind)) } else { m.apply_or_many(feed(rs, kind)) })
            }
            "cube" | "clause" => {
                let lits = match Self::lits(&toks[1..]) {
                    Some(l) => l,
                    None => return "bad-op".into(),
                };
                let is_cube = toks[0] == "cube";
                let mut vars: Vec<u32> = lits.iter().map(|l| l.unsigned_abs()).collect();
                vars.sort();
                let distinct = vars.windows(2).all(|w| w[0] != w[1]) && !vars.contains(&0);
                let e = tt.and_then(|t| {
                    if distinct && vars.iter().all(|&v| t.pos(v).is_some()) {
                        Some(if is_cube { t.cube(&lits) } else { t.clause(&lits) })
                    } else {
                        None
                    }
                });
                if distinct {
                    self.pending_spec = Some(Spec::Cube(is_cube, lits.clone()));
                }
                let kind = fnv1a(&toks.join(" "));
                self.produce(&["C15"], e, |m| if is_cube { m.cube(feed(lits.clone(), kind)) } else { m.clause(feed(lits.clone(), kind)) })
            }
            "subst" => {
                let f = hh!(toks[1]);
                let v: u32 = toks[2].parse().unwrap();
                let b = toks[3] == "1";
                let rf = self.env[f];
                let e = match (tt, self.e(f)) {
                    (Some(t), Some(x)) if v >= 1 => Some(match t.pos(v) { Some(p) => t.cof(x, p, b), None => x }),
                    _ => None,
                };
                if v >= 1 {
                    self.pending_spec = Some(Spec::Fix(rf, vec![(v, b)]));
                }
                self.produce(&["C08"], e, |m| m.substitute(rf, v, b))
            }
            "substm" | "cofcube" => {
                let f = hh!(toks[1]);
                let is_m = toks[0] == "substm";
                // literals: signed variable numbers; substitute_multi takes u32 variables, so its
                // tokens may exceed the i32 range that cofactor_cube's literals are limited to
                let wide: Vec<i64> = match toks[2..].iter().map(|t| t.parse::<i64>().ok()).collect::<Option<Vec<i64>>>() {
                    Some(l) if l.iter().all(|x| x.unsigned_abs() <= u32::MAX as u64) => l,
                    _ => return "bad-op".into(),
                };
                if !is_m && wide.iter().any(|&x| x < i32::MIN as i64 + 1 || x > i32::MAX as i64) {
                    return "bad-op".into();
                }
                let lits: Vec<(u32, bool)> = wide.iter().map(|&x| (x.unsigned_abs() as u32, x > 0)).collect();
                let rf = self.env[f];
                let asc = lits.windows(2).all(|w| w[0].0 < w[1].0) && lits.iter().all(|&l| l.0 != 0);
                let e = match (tt, self.e(f)) {
                    (Some(t), Some(x)) if asc => {
                        let mut r = x;
                        for &(v, b) in &lits {
                            if let Some(p) = t.pos(v) {
                                r = t.cof(r, p, b);
                            }
                        }
                        Some(r)
                    }
                    _ => None,
                };
                if asc {
                    self.pending_spec = Some(Spec::Fix(rf, lits.clone()));
                }
                self.produce(&["C08"], e, |m| {
                    if is_m {
                        let map: HashMap<u32, bool> = lits.iter().copied().collect();
                        m.substitute_multi(rf, &map)
                    } else {
                        let cube: Vec<i32> = wide.iter().map(|&x| x as i32).collect();
                        m.cofactor_cube(rf, &cube)
                    }
                })
            }
            "compose" => {
                let (f, g) = (hh!(toks[1]), hh!(toks[3]));
                let v: u32 = toks[2].parse().unwrap();
                let (rf, rg) = (self.env[f], self.env[g]);
                let e = match (tt, self.e(f), self.e(g)) {
                    (Some(t), Some(x), Some(y)) if v >= 1 => Some(match t.pos(v) { Some(p) => t.compose(x, p, y), None => x }),
                    _ => None,
                };
                if v >= 1 {
                    self.pending_spec = Some(Spec::Compose(rf, v, rg));
                }
                self.produce(&["C09"], e, |m| m.compose(rf, v, rg))
            }
            "constrain" | "restrict" => {
                let (f, g) = (hh!(toks[1]), hh!(toks[2]));
                let (rf, rg) = (self.env[f], self.env[g]);
                let is_c = toks[0] == "constrain";
                let e = match (tt, self.e(f), self.e(g)) {
                    (Some(_), Some(x), Some(y)) => Some(self.tt_cr(is_c, x, y)),
                    _ => None,
                };
                self.pending_spec = Some(if is_c { Spec::Closest(rf, rg) } else { Spec::Care(rf, rg) });
                self.produce(if is_c { &["C10"] } else { &["C11"] }, e, |m| if is_c { m.constrain(rf, rg) } else { m.restrict(rf, rg) })
            }
            "expr" | "exprc" => {
                // `exprc k <tokens>`: the same expression, but evaluated through the closure that
                // rustc compiled from literal source number k (its own precedence and associativity)
                let compiled: Option<(usize, [Ref; 4])> = if toks[0] == "exprc" {
                    let k: usize = match toks.get(1).and_then(|x| x.parse().ok()) {
                        Some(k) if k < COMPILED_TOKENS.len() => k,
                        _ => return "bad-op".into(),
                    };
                    let pat: Vec<&str> = COMPILED_TOKENS[k].split(' ').collect();
                    if pat.len() != toks.len() - 2 {
                        return "bad-op".into();
                    }
                    let mut hs = [Ref::ZERO; 4];
                    for (p, t) in pat.iter().zip(&toks[2..]) {
                        let slot = match *p {
                            "a" => 0,
                            "b" => 1,
                            "c" => 2,
                            "d" => 3,
                            _ => {
                                if p != t {
                                    return "bad-op".into();
                                }
                                continue;
                            }
                        };
                        let hi_ = hh!(t.strip_prefix('h').unwrap_or(""));
                        hs[slot] = self.env[hi_];
                    }
                    Some((k, hs))
                } else {
                    None
                };
                let toks: Vec<&str> = if compiled.is_some() { toks[1..].to_vec() } else { toks.to_vec() };
                let parsed = parse_expr(&toks[1..], &self.env);
                match parsed {
                    Some((val, e_fn)) => {
                        let e = tt.and_then(|t| e_fn.eval(&t, &self.exp));
                        let e_fn = if tt.is_none() {
                            self.pending_spec = Some(Spec::Expr(e_fn));
                            EFn::H(0)
                        } else {
                            e_fn
                        };
                        let _ = &e_fn;
                        self.produce(&["C03", "C01"], e, |m| match (compiled, val) {
                            (Some((k, hs)), _) => compiled_expr(k, m, hs),
                            (None, Val::R(r)) => m.eval(r),
                            (None, Val::E(x)) => m.eval(x),
                        })
                    }
                    None => "bad-op".into(),
                }
            }
            "exprtree" => {
                // an expression built constructor by constructor (prefix notation): `T h` = Expr::term,
                // `N e` = the raw variant Expr::Not(Box::new(e)), `n e` = Expr::not(e) (what unary minus
                // calls), `A/O/X e e` = the raw variants, `a/o/x e e` = Expr::and / or / xor
                fn build(toks: &[&str], pos: &mut usize, env: &[Ref]) -> Option<(Expr, EFn)> {
                    let t = *toks.get(*pos)?;
                    *pos += 1;
                    Some(match t {
                        "T" => {
                            let i: usize = toks.get(*pos)?.parse().ok()?;
                            *pos += 1;
                            (Expr::term(*env.get(i)?), EFn::H(i))
                        }
                        "N" | "n" => {
                            let (e, f) = build(toks, pos, env)?;
                            (if t == "N" { Expr::Not(Box::new(e)) } else { Expr::not(e) }, EFn::Not(Box::new(f)))
                        }
                        "A" | "a" | "O" | "o" | "X" | "x" => {
                            let (e1, f1) = build(toks, pos, env)?;
                            let (e2, f2) = build(toks, pos, env)?;
                            match t {
                                "A" => (Expr::And(Box::new(e1), Box::new(e2)), EFn::And(Box::new(f1), Box::new(f2))),
                                "a" => (Expr::and(e1, e2), EFn::And(Box::new(f1), Box::new(f2))),
                                "O" => (Expr::Or(Box::new(e1), Box::new(e2)), EFn::Or(Box::new(f1), Box::new(f2))),
                                "o" => (Expr::or(e1, e2), EFn::Or(Box::new(f1), Box::new(f2))),
                                "X" => (Expr::Xor(Box::new(e1), Box::new(e2)), EFn::Xor(Box::new(f1), Box::new(f2))),
                                _ => (Expr::xor(e1, e2), EFn::Xor(Box::new(f1), Box::new(f2))),
                            }
                        }
                        _ => return None,
                    })
                }
                let mut pos = 1;
                let built = build(toks, &mut pos, &self.env);
                match built {
                    Some((ex, e_fn)) if pos == toks.len() => {
                        // every named handle must be live
                        let e = tt.and_then(|t| e_fn.eval(&t, &self.exp));
                        if tt.is_none() {
                            self.pending_spec = Some(Spec::Expr(e_fn));
                        }
                        self.produce(&["C03", "C01"], e, |m| m.eval(ex))
                    }
                    _ => "bad-op".into(),
                }
            }
            "low" | "high" => {
                let f = hh!(toks[1]);
                let rf = self.env[f];
                let is_low = toks[0] == "low";
                let e = match (tt, self.e(f)) {
                    (Some(t), Some(x)) => t.top_var(x).map(|v| t.cof(x, v, !is_low)),
                    _ => None,
                };
                if rf.index() == 1 {
                    // accessors of the terminal read the default node; no meaning is claimed
                    self.produce(&[], None, |m| if is_low { m.low_node(rf) } else { m.high_node(rf) })
                } else {
                    self.produce(&["C08"], e, |m| if is_low { m.low_node(rf) } else { m.high_node(rf) })
                }
            }
            "topcof" => {
                let f = hh!(toks[1]);
                let v: u32 = toks[2].parse().unwrap();
                let rf = self.env[f];
                let r = catch_unwind(AssertUnwindSafe(|| self.bdd().top_cofactors(rf, v)));
                match r {
                    Ok((a, b)) => {
                        let (ea, eb) = match (tt, self.e(f)) {
                            (Some(t), Some(x)) if t.pos(v).is_some() => (Some(t.cof(x, t.pos(v).unwrap(), false)), Some(t.cof(x, t.pos(v).unwrap(), true))),
                            _ => (None, None),
                        };
                        self.bind(a, ea, &["C08"]);
                        let sa = self.show_handle(a);
                        self.bind(b, eb, &["C08"]);
                        format!("r {} {}", sa, self.show_handle(b))
                    }
                    Err(p) => {
                        let c = panic_class(p);
                        // legitimate only when v is below the top variable of f (or 0)
                        let legit = v == 0 || (rf.index() != 1 && v > self.bdd().variable(rf.index()));
                        if !legit {
                            self.fail(&["C08"], format!("top_cofactors panicked ({}) on a variable at or above the top", c));
                        }
                        self.bind_panic();
                        self.bind_panic();
                        format!("panic {}", c)
                    }
                }
            }
            "itec" => {
                let (a, b, c) = (hh!(toks[1]), hh!(toks[2]), hh!(toks[3]));
                let (ra, rb, rc) = (self.env[a], self.env[b], self.env[c]);
                let before = self.bdd().storage().real_size();
                let r = catch_unwind(AssertUnwindSafe(|| self.bdd().ite_constant(ra, rb, rc)));
                let mut wrong = false;
                match r {
                    Ok(o) => {
                        if let (Some(t), Some(x), Some(y), Some(z)) = (tt, self.e(a), self.e(b), self.e(c)) {
                            let f = t.ite(x, y, z);
                            let want = if f == 0 { Some(false) } else if f == t.full() { Some(true) } else { None };
                            if o != want {
                                self.fail(&["C12"], format!("ite_constant = {:?}, but the ITE table is {:#x}", o, f));
                                wrong = true;
                            }
                            self.nontrivial.insert(fnv1a(&format!("itec {:x} {:x} {:x}", x, y, z)));
                        }
                        if tt.is_none() {
                            // sampled necessary condition: Some(b) requires the ITE to be b on every sample
                            if let Some(b) = o {
                                for k in 0..self.samples.len() {
                                    let e = self.samples[k];
                                    if let Ok(Some(v)) = self.spec_at(&Spec::Ite(ra, rb, rc), e) {
                                        if v != b {
                                            self.fail(&["C12"], format!("ite_constant = Some({}), but the ITE is {} under the assignment {:#x}", b, v, e));
                                            wrong = true;
                                            break;
                                        }
                                    }
                                }
                            }
                        }
                        if self.bdd().storage().real_size() != before {
                            self.fail(&["C12", "C16"], "ite_constant created nodes".into());
                        }
                        // a wrong answer with a warm cache: is it the memo?  Flush (a collection that keeps every
                        // live name is the public flush) and ask again — a different answer means the result
                        // depended on the cache state (C07).  Only on this failure path: the run has already failed.
                        if wrong && self.bdd().cache().entries().count() > 0 {
                            let roots: Vec<Ref> = (0..self.env.len()).filter(|&i| self.live[i] && self.env[i].index() != 0).map(|i| self.env[i]).collect();
                            let again = catch_unwind(AssertUnwindSafe(|| {
                                self.bdd().collect_garbage(&roots);
                                self.bdd().ite_constant(ra, rb, rc)
                            }));
                            if let Ok(o2) = again {
                                if o2 != o {
                                    self.fail(&["C07"], format!("ite_constant answered {:?} with a warm cache and {:?} after the caches were flushed", o, o2));
                                }
                            }
                        }
                        match o {
                            Some(true) => "some1".into(),
                            Some(false) => "some0".into(),
                            None => "none".into(),
                        }
                    }
                    Err(p) => {
                        let c = panic_class(p);
                        self.fail(&["C12"], format!("ite_constant panicked ({})", c));
                        format!("panic {}", c)
                    }
                }
            }
            "implies" => {
                let (a, b) = (hh!(toks[1]), hh!(toks[2]));
                let (ra, rb) = (self.env[a], self.env[b]);
                let before = self.bdd().storage().real_size();
                let r = catch_unwind(AssertUnwindSafe(|| self.bdd().is_implies(ra, rb)));
                match r {
                    Ok(o) => {
                        if let (Some(t), Some(x), Some(y)) = (tt, self.e(a), self.e(b)) {
                            let want = x & t.not(y) == 0;
                            if o != want {
                                self.fail(&["C12"], format!("is_implies = {}, tables {:#x} {:#x}", o, x, y));
                            }
                            self.nontrivial.insert(fnv1a(&format!("implies {:x} {:x}", x, y)));
                        }
                        if tt.is_none() && o {
                            for k in 0..self.samples.len() {
                                let e = self.samples[k];
                                if let Ok(Some(false)) = self.spec_at(&Spec::Bin(4, ra, rb), e) {
                                    self.fail(&["C12"], format!("is_implies = true, but f holds and g does not under the assignment {:#x}", e));
                                    break;
                                }
                            }
                        }
                        if self.bdd().storage().real_size() != before {
                            self.fail(&["C12", "C16"], "is_implies created nodes".into());
                        }
                        (if o { "1" } else { "0" }).into()
                    }
                    Err(p) => {
                        let c = panic_class(p);
                        self.fail(&["C12"], format!("is_implies panicked ({})", c));
                        format!("panic {}", c)
                    }
                }
            }
            "satcount" => {
                let f = hh!(toks[1]);
                let n: usize = toks[2].parse().unwrap();
                let rf = self.env[f];
                let r = catch_unwind(AssertUnwindSafe(|| self.bdd().sat_count(rf, n).to_string()));
                match r {
                    Ok(s) => {
                        if let (Some(t), Some(x)) = (tt, self.e(f)) {
                            if t.is_identity() && n >= t.n as usize && n - (t.n as usize) >= 100 && n <= 100_000 {
                                let want = BigU::pow2(n - t.n as usize).mul_small(x.count_ones()).to_decimal();
                                if s != want {
                                    self.fail(&["C13"], format!("sat_count({:#x}, {}) = {}, expected {}", x, n, s, want));
                                }
                            }
                            if t.is_identity() && n >= t.n as usize && n - (t.n as usize) < 100 {
                                let want = (x.count_ones() as u128) << (n - t.n as usize);
                                if s != want.to_string() {
                                    self.fail(&["C13"], format!("sat_count({:#x}, {}) = {}, expected {}", x, n, s, want));
                                }
                                self.nontrivial.insert(fnv1a(&format!("satcount {:x} {}", x, n)));
                            }
                        }
                        if tt.is_none() && n > 120 {
                            if let Some(want) = self.count_graph_big(rf, n) {
                                if s != want {
                                    self.fail(&["C13"], format!("sat_count({}, {}) = {}, counting the stored diagram gives {}", show_ref(rf), n, s, want));
                                }
                            }
                        }
                        if tt.is_none() && n <= 120 {
                            // own count over the stored graph (memo keyed by the full cell index)
                            if let Some(want) = self.count_graph(rf, n as u32) {
                                if s != want.to_string() {
                                    self.fail(&["C13"], format!("sat_count({}, {}) = {}, counting the stored diagram gives {}", show_ref(rf), n, s, want));
                                }
                            }
                        }
                        s
                    }
                    Err(p) => {
                        let c = panic_class(p);
                        self.fail(&["C13"], format!("sat_count panicked ({})", c));
                        format!("panic {}", c)
                    }
                }
            }
            "onesat" => {
                let f = hh!(toks[1]);
                let rf = self.env[f];
                let r = catch_unwind(AssertUnwindSafe(|| self.bdd().one_sat(rf)));
                match r {
                    Ok(o) => {
                        if let (Some(t), Some(x)) = (tt, self.e(f)) {
                            match &o {
                                None => {
                                    if x != 0 {
                                        self.fail(&["C14"], format!("one_sat = None for a satisfiable table {:#x}", x));
                                    }
                                }
                                Some(p) => {
                                    let inc = p.windows(2).all(|w| w[0].unsigned_abs() < w[1].unsigned_abs());
                                    let inr = t.lits_in_range(p);
                                    if !inc || !inr {
                                        self.fail(&["C14"], format!("one_sat literals not strictly increasing: {:?}", p));
                                    } else if x == 0 || t.cube(p) & t.not(x) != 0 {
                                        self.fail(&["C14"], format!("one_sat {:?} has a completion outside {:#x}", p, x));
                                    }
                                }
                            }
                            self.nontrivial.insert(fnv1a(&format!("onesat {:x}", x)));
                        }
                        if tt.is_none() {
                            match &o {
                                None => {
                                    if rf != self.bdd().zero {
                                        self.fail(&["C14"], format!("one_sat({}) = None, but only the constant false has no satisfying assignment", show_ref(rf)));
                                    }
                                }
                                Some(p) => {
                                    let inc = p.windows(2).all(|w| w[0].unsigned_abs() < w[1].unsigned_abs()) && p.iter().all(|l| *l != 0);
                                    let over: Vec<(u32, bool)> = p.iter().map(|l| (l.unsigned_abs(), *l > 0)).collect();
                                    let bad = (0..self.samples.len().min(16)).find(|&k| self.eval_with(rf, self.samples[k], &over) == Ok(false));
                                    if !inc {
                                        self.fail(&["C14"], format!("one_sat literals not strictly increasing ({} literals)", p.len()));
                                    } else if let Some(k) = bad {
                                        self.fail(&["C14"], format!("one_sat({}) gives {} literals, but the function is false under them completed by sample {:#x}", show_ref(rf), p.len(), self.samples[k]));
                                    }
                                }
                            }
                        }
                        match o {
                            Some(p) => format!("{:?}", p),
                            None => "None".into(),
                        }
                    }
                    Err(p) => {
                        let c = panic_class(p);
                        self.fail(&["C14"], format!("one_sat panicked ({})", c));
                        format!("panic {}", c)
                    }
                }
            }
            "paths" => {
                let f = hh!(toks[1]);
                let rf = self.env[f];
                let r = catch_unwind(AssertUnwindSafe(|| self.bdd().paths(rf).collect::<Vec<Vec<i32>>>()));
                match r {
                    Ok(ps) => {
                        if let (Some(t), Some(x)) = (tt, self.e(f)) {
                            let mut union = 0u64;
                            let mut ok = true;
                            let mut weighted: u64 = 0;
                            for p in &ps {
                                let inc = p.windows(2).all(|w| w[0].unsigned_abs() < w[1].unsigned_abs());
                                let inr = t.lits_in_range(p);
                                if !inc || !inr {
                                    self.fail(&["C14"], format!("path not in strictly increasing variable order: {:?}", p));
                                    ok = false;
                                    break;
                                }
                                let c = t.cube(p);
                                if c & union != 0 {
                                    self.fail(&["C14"], format!("paths overlap: {:?} in {:?}", p, ps));
                                    ok = false;
                                    break;
                                }
                                union |= c;
                                weighted += 1u64 << (t.n as usize - p.len());
                            }
                            if ok && union != x {
                                self.fail(&["C14"], format!("paths cover {:#x}, the function is {:#x}", union, x));
                            }
                            if ok && weighted != x.count_ones() as u64 {
                                self.fail(&["C14", "C13"], format!("sum of 2^(n-len) over paths is {}, the count is {}", weighted, x.count_ones()));
                            }
                            self.nontrivial.insert(fnv1a(&format!("paths {:x}", x)));
                        }
                        if tt.is_none() {
                            // every path is an implicant (on samples), paths are distinct, and there are as
                            // many as the stored diagram has paths to true
                            let mut seen = std::collections::HashSet::new();
                            for (pi, p) in ps.iter().enumerate() {
                                let inc = p.windows(2).all(|w| w[0].unsigned_abs() < w[1].unsigned_abs()) && p.iter().all(|l| *l != 0);
                                if !inc {
                                    self.fail(&["C14"], format!("path {} not in strictly increasing variable order", pi));
                                    break;
                                }
                                if !seen.insert(p.clone()) {
                                    self.fail(&["C14"], format!("path {} is yielded twice", pi));
                                    break;
                                }
                                if pi < 400 || pi % 97 == 0 {
                                    let over: Vec<(u32, bool)> = p.iter().map(|l| (l.unsigned_abs(), *l > 0)).collect();
                                    if (0..4).any(|k| self.eval_with(rf, self.samples[k], &over) == Ok(false)) {
                                        self.fail(&["C14"], format!("path {} ({} literals) is not an implicant of {}", pi, p.len(), show_ref(rf)));
                                        break;
                                    }
                                }
                            }
                            if let Some(want) = self.count_paths_graph(rf) {
                                if want != ps.len() as u128 {
                                    self.fail(&["C14"], format!("paths({}) yields {} cubes, the stored diagram has {} paths to true", show_ref(rf), ps.len(), want));
                                }
                            }
                        }
                        format!("{:?}", ps)
                    }
                    Err(p) => {
                        let c = panic_class(p);
                        self.fail(&["C14"], format!("paths panicked ({})", c));
                        format!("panic {}", c)
                    }
                }
            }
            "acc" => {
                // every raw accessor and predicate on one handle
                let f = hh!(toks[1]);
                let rf = self.env[f];
                let r = catch_unwind(AssertUnwindSafe(|| {
                    let b = self.bdd();
                    let i = rf.index();
                    let n = b.node(i);
                    format!(
                        "var={} low={} high={} node={},{},{} next={} one={} zero={} term={} neg={} idx={} pos={} negc={} disp={}",
                        b.variable(i),
                        raw_of(b.low(i)),
                        raw_of(b.high(i)),
                        n.variable,
                        raw_of(n.low),
                        raw_of(n.high),
                        b.next(i),
                        b.is_one(rf) as u8,
                        b.is_zero(rf) as u8,
                        b.is_terminal(rf) as u8,
                        rf.is_negated() as u8,
                        rf.index(),
                        raw_of(Ref::positive(i)),
                        raw_of(Ref::negative(i)),
                        rf
                    )
                }));
                match r {
                    Ok(s) => {
                        let b = self.bdd();
                        let consistent = (b.is_terminal(rf) == (b.is_one(rf) || b.is_zero(rf))) && !(b.is_one(rf) && b.is_zero(rf)) && (b.is_terminal(rf) == (rf.index() == 1));
                        if !consistent {
                            self.fail(&["C01", "C08"], format!("is_one / is_zero / is_terminal disagree on {}", show_ref(rf)));
                        }
                        s
                    }
                    Err(p) => format!("panic {}", panic_class(p)),
                }
            }
            "debugfmt" => format!("{:?}", self.bdd()),
            "heldgc" => {
                // collect_garbage while the caller still holds a guard obtained from the public
                // `cache()` / `size_cache()` / `storage()` accessors: the collection cannot take its
                // mutable borrow and panics; whatever it did before must leave the manager consistent
                let which = toks[1];
                let mut idx = vec![];
                for t in &toks[2..] {
                    idx.push(hh!(t));
                }
                let rs: Vec<Ref> = idx.iter().map(|&i| self.env[i]).collect();
                let bdd = self.bdd.as_ref().unwrap();
                let r = match which {
                    "cache" => {
                        let g = bdd.cache();
                        let r = catch_unwind(AssertUnwindSafe(|| bdd.collect_garbage(&rs)));
                        drop(g);
                        r
                    }
                    "size" => {
                        let g = bdd.size_cache();
                        let r = catch_unwind(AssertUnwindSafe(|| bdd.collect_garbage(&rs)));
                        drop(g);
                        r
                    }
                    "storage" => {
                        let g = bdd.storage();
                        let r = catch_unwind(AssertUnwindSafe(|| bdd.collect_garbage(&rs)));
                        drop(g);
                        r
                    }
                    _ => return "bad-op".into(),
                };
                match r {
                    Ok(()) => {
                        // legitimate only with the table guard and nothing to sweep or relink
                        let st = self.bdd().storage();
                        let empty = (0..st.num_buckets()).all(|b| st.bucket(b) == 0);
                        drop(st);
                        if which != "storage" || !empty {
                            self.fail(&["C05", "C07"], "collect_garbage returned although the caller held a guard on a cell it must borrow mutably".into());
                        }
                        "ok".into()
                    }
                    Err(p) => format!("panic {}", panic_class(p)),
                }
            }
            "pathsi.open" => {
                // a lazy iterator that stays alive while other operations run
                let f = hh!(toks[1]);
                let rf = self.env[f];
                self.pit = None;
                let eager = catch_unwind(AssertUnwindSafe(|| self.bdd().paths(rf).collect::<Vec<Vec<i32>>>()));
                match eager {
                    Ok(e) => {
                        self.pit_expected = e;
                        self.pit_pos = 0;
                        // the iterator borrows the manager; it is dropped before the manager is replaced
                        let b: &'static Bdd = unsafe { &*(self.bdd.as_ref().unwrap() as *const Bdd) };
                        self.pit = Some(Box::new(b.paths(rf)));
                        "ok".into()
                    }
                    Err(p) => format!("panic {}", panic_class(p)),
                }
            }
            "pathsi.next" => {
                let mut it = match self.pit.take() {
                    Some(it) => it,
                    None => return "closed".into(),
                };
                let r = catch_unwind(AssertUnwindSafe(|| it.next()));
                match r {
                    Ok(x) => {
                        let want = self.pit_expected.get(self.pit_pos).cloned();
                        if x != want {
                            self.fail(&["C14", "C16"], format!("the paths iterator, advanced between other operations, yields {:?} as item {}, an uninterrupted iteration gave {:?}", x, self.pit_pos, want));
                        }
                        self.pit_pos += 1;
                        let out = match &x {
                            Some(p) => format!("{:?}", p),
                            None => "end".into(),
                        };
                        // (kept after the end as well: an exhausted iterator must stay exhausted)
                        self.pit = Some(it);
                        out
                    }
                    Err(p) => {
                        let c = panic_class(p);
                        self.fail(&["C14", "C16"], format!("the paths iterator panicked ({})", c));
                        format!("panic {}", c)
                    }
                }
            }
            "pathsi.close" => {
                self.pit = None;
                "ok".into()
            }
            "size" => {
                let f = hh!(toks[1]);
                let rf = self.env[f];
                let r = catch_unwind(AssertUnwindSafe(|| self.bdd().size(rf)));
                match r {
                    Ok(n) => {
                        let reach = self.reach(&[rf]).len() as u64;
                        if n != reach {
                            self.fail(&["C04", "C07", "C16"], format!("size({}) = {}, {} nodes are reachable", show_ref(rf), n, reach));
                        }
                        if let (Some(t), Some(x)) = (tt, self.e(f)) {
                            let want = t.bdd_size(x);
                            if n != want {
                                self.fail(&["C04"], format!("size = {}, the function {:#x} has {} sub-functions modulo complement (+1)", n, x, want));
                            }
                            self.nontrivial.insert(fnv1a(&format!("size {:x}", x)));
                        }
                        n.to_string()
                    }
                    Err(p) => format!("panic {}", panic_class(p)),
                }
            }
            "desc" => {
                let mut idx = vec![];
                for t in &toks[1..] {
                    idx.push(hh!(t));
                }
                let rs: Vec<Ref> = idx.iter().map(|&i| self.env[i]).collect();
                let kind = fnv1a(&toks.join(" "));
                let r = catch_unwind(AssertUnwindSafe(|| self.bdd().descendants(feed(rs.clone(), kind))));
                match r {
                    Ok(set) => {
                        let mine = self.reach(&rs);
                        if set != mine {
                            self.fail(&["C04", "C05"], format!("descendants = {:?}, reachable = {:?}", set, mine));
                        }
                        let mut v: Vec<u32> = set.into_iter().collect();
                        v.sort();
                        if self.abs {
                            v.len().to_string()
                        } else {
                            format!("{:?}", v)
                        }
                    }
                    Err(p) => format!("panic {}", panic_class(p)),
                }
            }
            "gc" => {
                let mut idx = vec![];
                for t in &toks[1..] {
                    idx.push(hh!(t));
                }
                let rs: Vec<Ref> = idx.iter().map(|&i| self.env[i]).collect();
                let alive = self.reach(&rs);
                let last_before = self.bdd().storage().size();
                let occ_before: Vec<bool> = (0..=last_before).map(|i| self.bdd().storage().cell_flags(i).0).collect();
                let r = catch_unwind(AssertUnwindSafe(|| self.bdd().collect_garbage(&rs)));
                match r {
                    Ok(()) => {
                        // C17 / C05 / C06: the sweep frees exactly the cells outside the survivor set
                        {
                            let mut freed_live = vec![];
                            let mut kept_dead = vec![];
                            for i in 2..=last_before {
                                let occ = self.bdd().storage().cell_flags(i).0;
                                let live = alive.contains(&(i as u32));
                                if occ_before[i] && live && !occ && freed_live.len() < 4 {
                                    freed_live.push(i);
                                }
                                if occ_before[i] && !live && occ && kept_dead.len() < 4 {
                                    kept_dead.push(i);
                                }
                            }
                            if !freed_live.is_empty() {
                                self.fail(&["C17", "C05"], format!("the collection freed the cells {:?}, which are reachable from the roots", freed_live));
                            }
                            if !kept_dead.is_empty() {
                                // (a dead node that stays stored breaks C06's count, not the soundness of the table)
                                self.fail(&["C06"], format!("the collection kept the cells {:?}, which are not reachable from the roots", kept_dead));
                            }
                        }
                        // liveness of the named handles
                        for i in 0..self.env.len() {
                            if self.live[i] && !alive.contains(&self.env[i].index()) {
                                self.live[i] = false;
                            }
                        }
                        let real = self.bdd().storage().real_size();
                        if real != alive.len() {
                            self.fail(&["C06"], format!("after the collection {} nodes are stored, {} are reachable from the roots", real, alive.len()));
                        }
                        if self.bdd().cache().entries().count() != 0 || self.bdd().size_cache().entries().count() != 0 {
                            self.fail(&["C07", "C05"], "a cache entry survived the collection".into());
                        }
                        // C05 (more than 6 variables): values on the sample assignments are unchanged
                        if self.tt.is_none() {
                            for i in 0..self.env.len() {
                                if self.live[i] {
                                    if let Some(Some(g0)) = self.sig.get(i).copied() {
                                        match self.signature(self.env[i]) {
                                            Some(g) if g == g0 => {}
                                            Some(g) => self.fail(&["C05"], format!("h{} = {} had values {:#x} on the samples before the collection and {:#x} after", i, show_ref(self.env[i]), g0, g)),
                                            None => self.fail(&["C05"], format!("h{} = {} is reachable from the roots but can no longer be evaluated", i, show_ref(self.env[i]))),
                                        }
                                    }
                                }
                            }
                        }
                        // references of dead handles may be reused for other functions from now on
                        self.sig_of_ref.clear();
                        for i in 0..self.env.len() {
                            if self.live[i] {
                                if let Some(Some(g0)) = self.sig.get(i).copied() {
                                    self.sig_of_ref.entry(self.env[i]).or_insert(g0);
                                }
                            }
                        }
                        // C05: every live handle denotes what it denoted
                        self.canon.clear();
                        self.byref.clear();
                        if self.tt.is_some() {
                            for i in 0..self.env.len() {
                                if !self.live[i] {
                                    continue;
                                }
                                if let Some(e) = self.exp[i] {
                                    match self.walk(self.env[i]) {
                                        Ok(a) if a == e => {
                                            self.canon.entry(a).or_insert(self.env[i]);
                                            self.byref.entry(self.env[i]).or_insert(a);
                                        }
                                        Ok(a) => self.fail(&["C05"], format!("h{} = {} denoted {:#x} before the collection and {:#x} after", i, show_ref(self.env[i]), e, a)),
                                        Err(m) => self.fail(&["C05"], format!("h{} = {} is reachable from the roots but: {}", i, show_ref(self.env[i]), m)),
                                    }
                                }
                            }
                        }
                        "ok".into()
                    }
                    Err(p) => {
                        let c = panic_class(p);
                        self.fail(&["C05"], format!("collect_garbage panicked ({})", c));
                        format!("panic {}", c)
                    }
                }
            }
            "bracket" => {
                let f = hh!(toks[1]);
                let rf = self.env[f];
                let r = catch_unwind(AssertUnwindSafe(|| self.bdd().to_bracket_string(rf)));
                match r {
                    Ok(s) => {
                        if let (Some(t), Some(x)) = (tt, self.e(f)) {
                            match crate::reparse::bracket_fn(&s, &t) {
                                Ok(y) if y == x => {}
                                Ok(y) => self.fail(&["C16"], format!("bracket string re-reads as {:#x}, the function is {:#x}: {}", y, x, s)),
                                Err(m) => self.fail(&["C16"], format!("bracket string does not re-read ({}): {}", m, s)),
                            }
                            self.nontrivial.insert(fnv1a(&format!("bracket {:x}", x)));
                        }
                        if self.abs {
                            self.canon(rf, &mut vec![], 0)
                        } else {
                            s
                        }
                    }
                    Err(p) => format!("panic {}", panic_class(p)),
                }
            }
            "dot" => {
                let mut idx = vec![];
                for t in &toks[1..] {
                    idx.push(hh!(t));
                }
                let rs: Vec<Ref> = idx.iter().map(|&i| self.env[i]).collect();
                let r = catch_unwind(AssertUnwindSafe(|| self.bdd().to_dot(&rs).unwrap()));
                match r {
                    Ok(s) => {
                        if let Some(t) = tt {
                            let want: Option<Vec<u64>> = idx.iter().map(|&i| self.e(i)).collect();
                            let nreach = self.reach(&rs).len();
                            match crate::reparse::dot_fns(&s, &t) {
                                Ok((fs, nnodes)) => {
                                    if let Some(w) = want {
                                        if fs != w {
                                            self.fail(&["C16"], format!("DOT re-reads as {:x?}, the roots are {:x?}", fs, w));
                                        }
                                    }
                                    if nnodes + 1 != nreach {
                                        self.fail(&["C16"], format!("DOT declares {} nodes, {} are reachable", nnodes, nreach - 1));
                                    }
                                }
                                Err(m) => self.fail(&["C16"], format!("DOT does not re-read: {}", m)),
                            }
                        }
                        if self.abs {
                            format!("dot {}", self.reach(&rs).len())
                        } else {
                            crate::reparse::canon_dot(&s)
                        }
                    }
                    Err(p) => format!("panic {}", panic_class(p)),
                }
            }
            "dump" => {
                if self.abs {
                    "-".into()
                } else {
                    self.st_snapshot()
                }
            }
            "digest" => {
                if self.abs {
                    "-".into()
                } else {
                    fnv1a(&self.st_snapshot()).to_string()
                }
            }
            _ => "bad-op".into(),
        }
    }

    // ------------------------------------------------------------------ Table<Item>

    fn step_table(&mut self, toks: &[&str]) -> String {
        match toks[0] {
            "t.new" => {
                self.table = Table::with_bucket_bits(toks[1].parse().unwrap(), toks[2].parse().unwrap());
                self.item_kind = toks[3].parse().unwrap();
                self.items.clear();
                "ok".into()
            }
            "t.put" | "t.add" => {
                let v: u64 = toks[1].parse().unwrap();
                let it = Item { v, kind: self.item_kind };
                let is_put = toks[0] == "t.put";
                let r = catch_unwind(AssertUnwindSafe(|| if is_put { self.table.put(it) } else { self.table.add(it) }));
                match r {
                    Ok(i) => {
                        if is_put {
                            match self.items.get(&v) {
                                Some(&j) if j != i => self.fail(&["C17"], format!("put({}) returned {} but the value lives in cell {}", v, i, j)),
                                Some(_) => {}
                                None => {
                                    if i == 0 || self.items.values().any(|&j| j == i) {
                                        self.fail(&["C17"], format!("put({}) handed out cell {} which is live or 0", v, i));
                                    }
                                    self.items.insert(v, i);
                                }
                            }
                            self.nontrivial.insert(fnv1a(&format!("tput {} {} {} {}", v, i, self.item_kind, self.table.num_buckets())));
                            if self.table.value(i) != &it {
                                self.fail(&["C17"], format!("cell {} does not hold the value just put", i));
                            }
                            if self.table.real_size() != self.items.len() {
                                self.fail(&["C17"], format!("real_size {} but {} distinct values were put", self.table.real_size(), self.items.len()));
                            }
                        }
                        i.to_string()
                    }
                    Err(p) => {
                        let c = panic_class(p);
                        if c != "full" {
                            self.fail(&["C17"], format!("table panicked ({})", c));
                        }
                        format!("panic {}", c)
                    }
                }
            }
            "t.drop" => {
                let i: usize = toks[1].parse().unwrap();
                let r = catch_unwind(AssertUnwindSafe(|| self.table.drop(i)));
                match r {
                    Ok(()) => "ok".into(),
                    Err(p) => format!("panic {}", panic_class(p)),
                }
            }
            // the link word of a cell: `set_next` must not disturb the occupied flag and reads back
            "t.setnext" => {
                let i: usize = toks[1].parse().unwrap();
                let n: usize = toks[2].parse().unwrap();
                if i >= self.table.capacity() {
                    return "bad-op".into();
                }
                let occ0 = self.table.cell_flags(i).0;
                let r = catch_unwind(AssertUnwindSafe(|| self.table.set_next(i, n)));
                match r {
                    Ok(()) => {
                        let (occ, nx) = self.table.cell_flags(i);
                        if occ != occ0 {
                            self.fail(&["C17"], format!("set_next({}, {}) changed the occupied flag of the cell", i, n));
                        }
                        if nx != n || (i != 0 && self.table.next(i) != n) {
                            self.fail(&["C17"], format!("set_next({}, {}) reads back as {}", i, n, nx));
                        }
                        format!("next={} occ={}", nx, occ as u8)
                    }
                    Err(p) => format!("panic {}", panic_class(p)),
                }
            }
            // the value accessors that bypass hashing (`set_value`, `value_mut`, `IndexMut`; `value`, `Index`)
            "t.setvalue" => {
                let i: usize = toks[1].parse().unwrap();
                let v: u64 = toks[2].parse().unwrap();
                let how: u32 = toks[3].parse().unwrap();
                if i >= self.table.capacity() {
                    return "bad-op".into();
                }
                let it = Item { v, kind: self.item_kind };
                let r = catch_unwind(AssertUnwindSafe(|| match how {
                    0 => self.table.set_value(i, it),
                    1 => *self.table.value_mut(i) = it,
                    _ => self.table[i] = it,
                }));
                match r {
                    Ok(()) => {
                        let a = self.table.value(i).v;
                        let b = self.table[i].v;
                        if a != v || b != v {
                            self.fail(&["C17"], format!("cell {} reads back {} / {} after writing {}", i, a, b, v));
                        }
                        format!("{} {}", a, b)
                    }
                    Err(p) => format!("panic {}", panic_class(p)),
                }
            }
            "t.dump" => table_snapshot(&self.table, |it: &Item| it.v.to_string()),
            _ => "bad-op".into(),
        }
    }

    // ------------------------------------------------------------------ packed words, literals, pairing functions

    fn step_bits(&mut self, toks: &[&str]) -> String {
        match toks[0] {
            // `Ref::new(i, n)` and everything that reads the packed word
            "ref.new" => {
                let i: u32 = toks[1].parse().unwrap();
                let n = toks[2] == "1";
                if i == 0 || i >= 0x8000_0000 {
                    return "bad-op".into();
                }
                let r = Ref::new(i, n);
                let m = -r;
                if r.index() != i || r.is_negated() != n {
                    self.fail(&["C01"], format!("Ref::new({}, {}) reads back as index {} negated {}", i, n, r.index(), r.is_negated()));
                }
                if m.index() != i || m.is_negated() == n || -m != r || m == r {
                    self.fail(&["C01"], format!("negation of Ref::new({}, {}) is {} (index {}, negated {}); twice: {}", i, n, m, m.index(), m.is_negated(), -m));
                }
                if (r == Ref::positive(i)) != !n || (r == Ref::negative(i)) != n {
                    self.fail(&["C01"], format!("Ref::new({}, {}) against positive/negative", i, n));
                }
                self.nontrivial.insert(fnv1a(&format!("ref {} {}", i, n)));
                format!("h={} idx={} neg={} nh={} nidx={} nneg={} disp={} ndisp={}", r.hash(), r.index(), r.is_negated() as u8, m.hash(), m.index(), m.is_negated() as u8, r, m)
            }
            // a one-literal cube: which variable, which polarity
            "lit.cube" => {
                let lit: i32 = toks[1].parse().unwrap();
                if lit == 0 || lit == i32::MIN {
                    return "bad-op".into();
                }
                let r = catch_unwind(|| {
                    let b = Bdd::new(4);
                    let c = b.cube([lit]);
                    let d = b.clause([lit]);
                    (b.variable(c.index()), c.is_negated(), b.variable(d.index()), d.is_negated())
                });
                match r {
                    Ok((v, neg, v2, neg2)) => {
                        if v as u64 != lit.unsigned_abs() as u64 || neg != (lit < 0) || v2 != v || neg2 != neg {
                            self.fail(&["C15"], format!("cube([{}]) is the literal of variable {} negated {}; clause: variable {} negated {}", lit, v, neg, v2, neg2));
                        }
                        self.nontrivial.insert(fnv1a(&format!("litcube {}", lit)));
                        format!("var={} neg={}", v, neg as u8)
                    }
                    Err(p) => format!("panic {}", panic_class(p)),
                }
            }
            // one_sat / paths of a single variable: the literal that comes back
            "lit.onesat" => {
                let v: u32 = toks[1].parse().unwrap();
                let neg = toks[2] == "1";
                if v == 0 || v == 0x8000_0000 {
                    return "bad-op".into();
                }
                let r = catch_unwind(|| {
                    let b = Bdd::new(4);
                    let x = b.mk_var(v);
                    let f = if neg { -x } else { x };
                    (b.one_sat(f), b.paths(f).collect::<Vec<_>>())
                });
                match r {
                    Ok((one, paths)) => {
                        let want = if neg { -(v as i64) } else { v as i64 };
                        if v < 0x8000_0000 {
                            if one.as_deref().map(|p| p.iter().map(|&l| l as i64).collect::<Vec<_>>()) != Some(vec![want]) {
                                self.fail(&["C14"], format!("one_sat of the literal {} of variable {} = {:?}", want, v, one));
                            }
                            if paths.iter().map(|p| p.iter().map(|&l| l as i64).collect::<Vec<_>>()).collect::<Vec<_>>() != vec![vec![want]] {
                                self.fail(&["C14"], format!("paths of the literal {} of variable {} = {:?}", want, v, paths));
                            }
                        }
                        self.nontrivial.insert(fnv1a(&format!("litsat {} {}", v, neg)));
                        format!("{:?} {:?}", one, paths)
                    }
                    Err(p) => format!("panic {}", panic_class(p)),
                }
            }
            // the pairing functions of utils.rs that the manager itself does not use
            "pair.cantor" | "pair.hopcroft" | "pair.four" => {
                let a: Vec<u64> = toks[1..].iter().map(|t| t.parse().unwrap()).collect();
                let which = toks[0].to_string();
                let r = catch_unwind(move || match which.as_str() {
                    "pair.cantor" => bdd_rs::utils::pairing_cantor(a[0], a[1]),
                    "pair.hopcroft" => bdd_rs::utils::pairing_hopcroft(a[0], a[1]),
                    _ => bdd_rs::utils::pairing4(a[0], a[1], a[2], a[3]),
                });
                match r {
                    Ok(x) => x.to_string(),
                    Err(p) => format!("panic {}", panic_class(p)),
                }
            }
            _ => "bad-op".into(),
        }
    }

    // ------------------------------------------------------------------ Table<Node>

    fn step_tnode(&mut self, toks: &[&str]) -> String {
        match toks[0] {
            "tn.new" => {
                self.tnode = Table::with_bucket_bits(toks[1].parse().unwrap(), toks[2].parse().unwrap());
                self.tnode_items.clear();
                "ok".into()
            }
            "tn.put" => {
                let (v, lo, hi): (u32, u32, u32) = (toks[1].parse().unwrap(), toks[2].parse().unwrap(), toks[3].parse().unwrap());
                if lo < 2 || hi < 2 {
                    return "bad-op".into();
                }
                let node = Node { variable: v, low: Ref::new(lo >> 1, lo & 1 == 1), high: Ref::new(hi >> 1, hi & 1 == 1) };
                let r = catch_unwind(AssertUnwindSafe(|| self.tnode.put(node)));
                match r {
                    Ok(i) => {
                        let key = (v, lo, hi);
                        match self.tnode_items.get(&key) {
                            Some(&j) if j != i => self.fail(&["C17", "C01"], format!("put({:?}) returned {} but the triple lives in cell {}", key, i, j)),
                            Some(_) => {}
                            None => {
                                if i == 0 || self.tnode_items.values().any(|&j| j == i) {
                                    let other = self.tnode_items.iter().find(|e| *e.1 == i).map(|e| *e.0);
                                    self.fail(&["C17", "C01"], format!("put({:?}) returned cell {}, which holds the different triple {:?}", key, i, other));
                                }
                                self.tnode_items.insert(key, i);
                            }
                        }
                        self.nontrivial.insert(fnv1a(&format!("tnput {:?} {}", key, i)));
                        let got = self.tnode.value(i);
                        if (got.variable, raw_of(got.low) as u32, raw_of(got.high) as u32) != key && self.tnode_items.get(&key) == Some(&i) {
                            self.fail(&["C17", "C01"], format!("cell {} does not hold the triple just put", i));
                        }
                        i.to_string()
                    }
                    Err(p) => {
                        let c = panic_class(p);
                        if c != "full" {
                            self.fail(&["C17"], format!("table panicked ({})", c));
                        }
                        format!("panic {}", c)
                    }
                }
            }
            "tn.drop" => {
                let i: usize = toks[1].parse().unwrap();
                let r = catch_unwind(AssertUnwindSafe(|| self.tnode.drop(i)));
                match r {
                    Ok(()) => {
                        self.tnode_items.retain(|_, j| *j != i);
                        "ok".into()
                    }
                    Err(p) => format!("panic {}", panic_class(p)),
                }
            }
            "tn.dump" => table_snapshot(&self.tnode, |n: &Node| format!("{},{},{}", n.variable, raw_of(n.low), raw_of(n.high))),
            _ => "bad-op".into(),
        }
    }

    // ------------------------------------------------------------------ Cache

    fn step_cache(&mut self, toks: &[&str]) -> String {
        match toks[0] {
            "c.new" => {
                self.cache = Cache::new(toks[1].parse().unwrap());
                self.cache_shadow.clear();
                self.cache_lookups = 0;
                "ok".into()
            }
            "c.insert" => {
                let k: (u64, u64) = (toks[1].parse().unwrap(), toks[2].parse().unwrap());
                let v: u64 = toks[3].parse().unwrap();
                self.cache.insert(k, v);
                let slot = (pairing2(k.0, k.1) & (self.cache.num_slots() as u64 - 1)) as usize;
                self.cache_shadow.insert(slot, (k, v));
                "ok".into()
            }
            "c.get" => {
                let k: (u64, u64) = (toks[1].parse().unwrap(), toks[2].parse().unwrap());
                let got = self.cache.get(&k).copied();
                self.cache_lookups += 1;
                let slot = (pairing2(k.0, k.1) & (self.cache.num_slots() as u64 - 1)) as usize;
                let want = match self.cache_shadow.get(&slot) {
                    Some((k2, v)) if *k2 == k => Some(*v),
                    _ => None,
                };
                if self.cache_shadow.contains_key(&slot) {
                    // non-trivial lookup: the slot is occupied (hit, or a colliding key)
                    self.nontrivial.insert(fnv1a(&format!("cget {:?} {:?} {}", k, self.cache_shadow.get(&slot).map(|e| e.0), self.cache.num_slots())));
                }
                if got != want {
                    self.fail(&["C18"], format!("get({:?}) = {:?}, the last insert on its slot since the last clear says {:?}", k, got, want));
                }
                if self.cache.hits() + self.cache.misses() != self.cache_lookups || self.cache.faults() > self.cache.misses() {
                    self.fail(&["C18"], format!("statistics: hits {} misses {} faults {} after {} lookups", self.cache.hits(), self.cache.misses(), self.cache.faults(), self.cache_lookups));
                }
                match got {
                    Some(v) => format!("some {}", v),
                    None => "none".into(),
                }
            }
            "c.rep" => {
                // `c.rep insert a b v n` / `c.rep get a b n` / `c.rep clear n`: the same call n times
                match toks[1] {
                    "insert" => {
                        let k: (u64, u64) = (toks[2].parse().unwrap(), toks[3].parse().unwrap());
                        let v: u64 = toks[4].parse().unwrap();
                        let n: u64 = toks[5].parse().unwrap();
                        for i in 0..n {
                            self.cache.insert(std::hint::black_box(k), std::hint::black_box(v));
                            if i & 0xFF_FFFF == 0 {
                                self.beacon.started_ms.store(now_ms(), Ordering::SeqCst); // still making progress
                            }
                        }
                        if n > 0 {
                            let slot = (pairing2(k.0, k.1) & (self.cache.num_slots() as u64 - 1)) as usize;
                            self.cache_shadow.insert(slot, (k, v));
                        }
                        "ok".into()
                    }
                    "get" => {
                        let k: (u64, u64) = (toks[2].parse().unwrap(), toks[3].parse().unwrap());
                        let n: u64 = toks[4].parse().unwrap();
                        if n == 0 {
                            return "bad-op".into();
                        }
                        let slot = (pairing2(k.0, k.1) & (self.cache.num_slots() as u64 - 1)) as usize;
                        let want = match self.cache_shadow.get(&slot) {
                            Some((k2, v)) if *k2 == k => Some(*v),
                            _ => None,
                        };
                        let mut got = None;
                        let mut differs = false;
                        for i in 0..n {
                            got = self.cache.get(std::hint::black_box(&k)).copied();
                            differs |= got != want;
                            if i & 0xFF_FFFF == 0 {
                                self.beacon.started_ms.store(now_ms(), Ordering::SeqCst);
                            }
                        }
                        self.cache_lookups += n as usize;
                        if differs {
                            self.fail(&["C18"], format!("one of {} repeated get({:?}) differed from {:?}", n, k, want));
                        }
                        if self.cache.hits() + self.cache.misses() != self.cache_lookups || self.cache.faults() > self.cache.misses() {
                            self.fail(&["C18"], format!("statistics: hits {} misses {} faults {} after {} lookups", self.cache.hits(), self.cache.misses(), self.cache.faults(), self.cache_lookups));
                        }
                        match got {
                            Some(v) => format!("some {}", v),
                            None => "none".into(),
                        }
                    }
                    "clear" => {
                        let n: u64 = toks[2].parse().unwrap();
                        for i in 0..n {
                            std::hint::black_box(&mut self.cache).clear();
                            if i & 0xFF_FFFF == 0 {
                                self.beacon.started_ms.store(now_ms(), Ordering::SeqCst);
                            }
                        }
                        if n > 0 {
                            self.cache_shadow.clear();
                            if self.cache.entries().count() != 0 {
                                self.fail(&["C18"], "clear left an entry".into());
                            }
                        }
                        "ok".into()
                    }
                    _ => "bad-op".into(),
                }
            }
            "c.clear" => {
                self.cache.clear();
                self.cache_shadow.clear();
                if self.cache.entries().count() != 0 {
                    self.fail(&["C18"], "clear left an entry".into());
                }
                "ok".into()
            }
            "c.dump" => {
                let c = &self.cache;
                let mut s = format!("slots={}", c.num_slots());
                for (i, k, v) in c.entries() {
                    s.push_str(&format!(" {}:{},{}={}", i, k.0, k.1, v));
                }
                s.push_str(&format!(" hits={} faults={} misses={}", c.hits(), c.faults(), c.misses()));
                s
            }
            _ => "bad-op".into(),
        }
    }

    // ------------------------------------------------------------------ Cache<OpKey, Ref>

    fn step_kcache(&mut self, toks: &[&str]) -> String {
        fn rf(raw: u32) -> Ref {
            // raw 0 / 1: the public `Ref::ZERO` sentinel and its complement (no constructor makes them)
            match raw {
                0 => Ref::ZERO,
                1 => -Ref::ZERO,
                _ => Ref::new(raw >> 1, raw & 1 == 1),
            }
        }
        // own Szudzik pairing (not the repository's): the slot the entry must land in
        fn pair(a: u64, b: u64) -> u64 {
            if a < b {
                b.wrapping_mul(b).wrapping_add(a)
            } else {
                a.wrapping_mul(a).wrapping_add(a).wrapping_add(b)
            }
        }
        let key = |toks: &[&str]| -> Option<((u8, u32, u32, u32), OpKey, u64)> {
            let f: u32 = toks[2].parse().ok()?;
            let g: u32 = toks[3].parse().ok()?;
            let h: u32 = toks[4].parse().ok()?;

            Some(match toks[1] {
                "ite" => ((0, f, g, h), OpKey::Ite(rf(f), rf(g), rf(h)), pair(pair(f as u64, g as u64), h as u64)),
                "con" => ((1, f, g, 0), OpKey::Constrain(rf(f), rf(g)), pair(f as u64, g as u64)),
                "res" => ((2, f, g, 0), OpKey::Restrict(rf(f), rf(g)), pair(f as u64, g as u64)),
                _ => return None,
            })
        };
        match toks[0] {
            "ck.new" => {
                self.kcache = Cache::new(toks[1].parse().unwrap());
                self.kcache_shadow.clear();
                self.kcache_lookups = 0;
                "ok".into()
            }
            "ck.insert" => {
                let (id, k, hash) = match key(toks) {
                    Some(x) => x,
                    None => return "bad-op".into(),
                };
                let v: u32 = toks[5].parse().unwrap();
                self.kcache.insert(k, rf(v));
                let slot = (hash & (self.kcache.num_slots() as u64 - 1)) as usize;
                self.kcache_shadow.insert(slot, (id, v));
                "ok".into()
            }
            "ck.get" => {
                let (id, k, hash) = match key(toks) {
                    Some(x) => x,
                    None => return "bad-op".into(),
                };
                let got = self.kcache.get(&k).copied();
                self.kcache_lookups += 1;
                let slot = (hash & (self.kcache.num_slots() as u64 - 1)) as usize;
                let want = match self.kcache_shadow.get(&slot) {
                    Some((id2, v)) if *id2 == id => Some(rf(*v)),
                    _ => None,
                };
                if let Some((id2, _)) = self.kcache_shadow.get(&slot) {
                    self.nontrivial.insert(fnv1a(&format!("ckget {:?} {:?} {}", id, id2, self.kcache.num_slots())));
                }
                if got != want {
                    self.fail(&["C18", "C07"], format!("get({:?}) = {:?}, the last insert on its slot since the last clear says {:?}", k, got, want));
                }
                if self.kcache.hits() + self.kcache.misses() != self.kcache_lookups || self.kcache.faults() > self.kcache.misses() {
                    self.fail(&["C18"], format!("statistics: hits {} misses {} faults {} after {} lookups", self.kcache.hits(), self.kcache.misses(), self.kcache.faults(), self.kcache_lookups));
                }
                match got {
                    Some(v) => format!("some {}", raw_of(v)),
                    None => "none".into(),
                }
            }
            "ck.clear" => {
                self.kcache.clear();
                self.kcache_shadow.clear();
                if self.kcache.entries().count() != 0 {
                    self.fail(&["C18"], "clear left an entry".into());
                }
                "ok".into()
            }
            "ck.dump" => {
                let c = &self.kcache;
                let mut s = format!("slots={}", c.num_slots());
                for (i, k, v) in c.entries() {
                    s.push_str(&format!(" {}:{}={}", i, show_key(k), raw_of(*v)));
                }
                s.push_str(&format!(" hits={} faults={} misses={}", c.hits(), c.faults(), c.misses()));
                s
            }
            _ => "bad-op".into(),
        }
    }

    // ------------------------------------------------------------------ RawTable

    fn step_raw(&mut self, toks: &[&str]) -> String {
        let reply = self.step_raw_u(toks);
        // the mirrored table with droppable values must answer identically (state dumps included)
        let reply_d = self.step_raw_d(toks);
        if let Some(rd) = reply_d {
            if rd != reply && !reply.starts_with("panic") {
                let cut = |x: &str| x.chars().take(160).collect::<String>();
                self.fail(&["C19"], format!("the same history on RawTable<(u64, value with a destructor)> answers `{}`, on RawTable<(u64, u64)> `{}`", cut(&rd), cut(&reply)));
            }
            let held = self.raw_d.iter().len() as i64;
            if self.raw_d_live.get() != held && !reply.starts_with("panic") {
                self.fail(&["C19"], format!("{} values with a destructor are alive, the table holds {}", self.raw_d_live.get(), held));
            }
        }
        reply
    }

    /// the mirrored operation; None when the operation is not mirrored
    fn step_raw_d(&mut self, toks: &[&str]) -> Option<String> {
        let kind = if toks[0] == "raw.new" { toks[1].parse().unwrap() } else { self.raw_kind };
        let hk = move |k: u64| raw_hash(kind, k);
        if toks[0] == "raw.new" {
            // (a dropped RawTable does not destroy the values it still holds — that leak is outside the
            // property and not modelled — so every table gets its own counter)
            self.raw_d_live = std::rc::Rc::new(std::cell::Cell::new(0));
        }
        let live = self.raw_d_live.clone();
        let r: Result<String, Box<dyn std::any::Any + Send>> = match toks[0] {
            "raw.new" => {
                self.raw_d = RawTable::new();
                Ok("ok".into())
            }
            "raw.insert" => {
                let k: u64 = toks[1].parse().unwrap();
                let v: u64 = toks[2].parse().unwrap();
                catch_unwind(AssertUnwindSafe(|| self.raw_d.insert(hk(k), |p| p.0 == k, (k, Dv::new(v, &live))))).map(|x| match x {
                    Ok(i) => format!("Ok({})", i),
                    Err(i) => format!("Err({})", i),
                })
            }
            "raw.get" => {
                let k: u64 = toks[1].parse().unwrap();
                catch_unwind(AssertUnwindSafe(|| self.raw_d.get(hk(k), |p| p.0 == k).map(|p| p.1.v))).map(|x| match x {
                    Some(v) => format!("some {}", v),
                    None => "none".into(),
                })
            }
            "raw.getmut" => {
                let k: u64 = toks[1].parse().unwrap();
                let v: u64 = toks[2].parse().unwrap();
                // the old value is dropped, a new one takes its place: live count unchanged
                catch_unwind(AssertUnwindSafe(|| {
                    self.raw_d.get_mut(hk(k), |p| p.0 == k).map(|e| {
                        let old = e.1.v;
                        e.1 = Dv::new(v, &live);
                        old
                    })
                }))
                .map(|x| match x {
                    Some(v) => format!("some {}", v),
                    None => "none".into(),
                })
            }
            "raw.find" => {
                let k: u64 = toks[1].parse().unwrap();
                catch_unwind(AssertUnwindSafe(|| self.raw_d.find(hk(k), |p| p.0 == k))).map(|x| match x {
                    Some(v) => format!("some {}", v),
                    None => "none".into(),
                })
            }
            "raw.fof" => {
                let k: u64 = toks[1].parse().unwrap();
                catch_unwind(AssertUnwindSafe(|| self.raw_d.find_or_free(hk(k), |p| p.0 == k))).map(|x| match x {
                    Ok(i) => format!("Ok({})", i),
                    Err(i) => format!("Err({})", i),
                })
            }
            "raw.remove" => {
                let k: u64 = toks[1].parse().unwrap();
                catch_unwind(AssertUnwindSafe(|| self.raw_d.remove(hk(k), |p| p.0 == k).map(|p| p.1.v))).map(|x| match x {
                    Some(v) => format!("some {}", v),
                    None => "none".into(),
                })
            }
            "raw.clear" => catch_unwind(AssertUnwindSafe(|| self.raw_d.clear())).map(|_| "ok".into()),
            "raw.reserve" => {
                let n: usize = toks[1].parse().unwrap();
                catch_unwind(AssertUnwindSafe(|| self.raw_d.reserve(n))).map(|_| "ok".into())
            }
            "raw.iter" => catch_unwind(AssertUnwindSafe(|| self.raw_d.iter().map(|p| p.1.v).collect::<Vec<u64>>())).map(|v| format!("{:?}", v)),
            "raw.len" => Ok(self.raw_d.iter().len().to_string()),
            "raw.dump" => {
                // statuses and counters only have to agree (compared against the other table's hook view)
                let (a, la, fa) = self.raw_d.debug_slots();
                let (b, lb, fb) = self.raw.debug_slots();
                if a != b || la != lb || fa != fb {
                    self.fail(&["C19"], format!("slot states differ between the two element types: len {} / {}, free {} / {}", la, lb, fa, fb));
                }
                return None;
            }
            _ => return None,
        };
        Some(match r {
            Ok(x) => x,
            Err(_) => "panic assert".into(),
        })
    }

    fn step_raw_u(&mut self, toks: &[&str]) -> String {
        let kind = self.raw_kind;
        let hk = move |k: u64| raw_hash(kind, k);
        let res: Result<String, Box<dyn std::any::Any + Send>> = match toks[0] {
            "raw.new" => {
                self.raw = RawTable::new();
                self.raw_kind = toks[1].parse().unwrap();
                self.raw_shadow.clear();
                Ok("ok".into())
            }
            "raw.insert" => {
                let k: u64 = toks[1].parse().unwrap();
                let v: u64 = toks[2].parse().unwrap();
                let r = catch_unwind(AssertUnwindSafe(|| self.raw.insert(hk(k), |p| p.0 == k, (k, v))));
                r.map(|x| {
                    self.nontrivial.insert(fnv1a(&format!("rins {} {} {} {}", k, x.is_ok(), self.raw_kind, self.raw_shadow.len())));
                    let was = self.raw_shadow.insert(k, v);
                    match x {
                        Ok(i) => {
                            if was.is_none() {
                                self.fail(&["C19"], format!("insert({}) reported the key present, it was absent", k));
                            }
                            format!("Ok({})", i)
                        }
                        Err(i) => {
                            if was.is_some() {
                                self.fail(&["C19"], format!("insert({}) reported the key absent, it was present", k));
                            }
                            format!("Err({})", i)
                        }
                    }
                })
            }
            "raw.get" => {
                let k: u64 = toks[1].parse().unwrap();
                let r = catch_unwind(AssertUnwindSafe(|| self.raw.get(hk(k), |p| p.0 == k).map(|p| p.1)));
                r.map(|x| {
                    self.nontrivial.insert(fnv1a(&format!("rget {} {:?} {} {}", k, x.is_some(), self.raw_kind, self.raw_shadow.len())));
                    if x != self.raw_shadow.get(&k).copied() {
                        self.fail(&["C19"], format!("get({}) = {:?}, a map says {:?}", k, x, self.raw_shadow.get(&k)));
                    }
                    match x {
                        Some(v) => format!("some {}", v),
                        None => "none".into(),
                    }
                })
            }
            "raw.getmut" => {
                let k: u64 = toks[1].parse().unwrap();
                let v: u64 = toks[2].parse().unwrap();
                let r = catch_unwind(AssertUnwindSafe(|| {
                    self.raw.get_mut(hk(k), |p| p.0 == k).map(|e| {
                        let old = e.1;
                        e.1 = v;
                        old
                    })
                }));
                r.map(|x| {
                    self.nontrivial.insert(fnv1a(&format!("rgm {} {:?} {} {}", k, x.is_some(), self.raw_kind, self.raw_shadow.len())));
                    let want = self.raw_shadow.get(&k).copied();
                    if x != want {
                        self.fail(&["C19"], format!("get_mut({}) = {:?}, a map says {:?}", k, x, want));
                    }
                    if want.is_some() {
                        self.raw_shadow.insert(k, v);
                    }
                    if self.raw.get(hk(k), |p| p.0 == k).map(|p| p.1) != self.raw_shadow.get(&k).copied() {
                        self.fail(&["C19"], format!("after writing {} through get_mut({}) the table holds {:?}", v, k, self.raw.get(hk(k), |p| p.0 == k).map(|p| p.1)));
                    }
                    match x {
                        Some(v) => format!("some {}", v),
                        None => "none".into(),
                    }
                })
            }
            "raw.find" => {
                let k: u64 = toks[1].parse().unwrap();
                let r = catch_unwind(AssertUnwindSafe(|| self.raw.find(hk(k), |p| p.0 == k)));
                r.map(|x| {
                    if x.is_some() != self.raw_shadow.contains_key(&k) {
                        self.fail(&["C19"], format!("find({}) = {:?}, a map says present = {}", k, x, self.raw_shadow.contains_key(&k)));
                    }
                    match x {
                        Some(v) => format!("some {}", v),
                        None => "none".into(),
                    }
                })
            }
            "raw.fof" => {
                let k: u64 = toks[1].parse().unwrap();
                let r = catch_unwind(AssertUnwindSafe(|| self.raw.find_or_free(hk(k), |p| p.0 == k)));
                r.map(|x| match x {
                    Ok(i) => format!("Ok({})", i),
                    Err(i) => format!("Err({})", i),
                })
            }
            "raw.remove" => {
                let k: u64 = toks[1].parse().unwrap();
                let r = catch_unwind(AssertUnwindSafe(|| self.raw.remove(hk(k), |p| p.0 == k).map(|p| p.1)));
                r.map(|x| {
                    self.nontrivial.insert(fnv1a(&format!("rrem {} {:?} {} {}", k, x.is_some(), self.raw_kind, self.raw_shadow.len())));
                    let want = self.raw_shadow.remove(&k);
                    if x != want {
                        self.fail(&["C19"], format!("remove({}) = {:?}, a map says {:?}", k, x, want));
                    }
                    match x {
                        Some(v) => format!("some {}", v),
                        None => "none".into(),
                    }
                })
            }
            "raw.clear" => {
                let r = catch_unwind(AssertUnwindSafe(|| self.raw.clear()));
                r.map(|_| {
                    self.raw_shadow.clear();
                    "ok".into()
                })
            }
            "raw.reserve" => {
                let n: usize = toks[1].parse().unwrap();
                let r = catch_unwind(AssertUnwindSafe(|| self.raw.reserve(n)));
                r.map(|_| "ok".into())
            }
            "raw.iter" => {
                let r = catch_unwind(AssertUnwindSafe(|| self.raw.iter().map(|p| p.1).collect::<Vec<u64>>()));
                r.map(|v| {
                    let mut a = v.clone();
                    a.sort();
                    let mut b: Vec<u64> = self.raw_shadow.values().copied().collect();
                    b.sort();
                    if a != b {
                        self.fail(&["C19"], format!("iteration yields {:?}, a map holds {:?}", a, b));
                    }
                    format!("{:?}", v)
                })
            }
            "raw.len" => {
                let n = self.raw.iter().len();
                if n != self.raw_shadow.len() {
                    self.fail(&["C19"], format!("length {} but {} distinct keys are present", n, self.raw_shadow.len()));
                }
                Ok(n.to_string())
            }
            "raw.dump" => {
                let (st, len, free) = self.raw.debug_slots();
                let mut s = format!("cap={} len={} free={} |", st.len(), len, free);
                let nfree = st.iter().filter(|&&x| x == u64::MAX).count();
                let nfull = st.iter().filter(|&&x| x <= (u64::MAX >> 1)).count();
                if nfull != len {
                    self.fail(&["C19"], format!("len counter {} but {} slots are full", len, nfull));
                }
                if free > nfree || (!st.is_empty() && nfree == 0) {
                    self.fail(&["C19"], format!("free counter {} with {} FREE slots", free, nfree));
                }
                for (i, &x) in st.iter().enumerate() {
                    if x == u64::MAX {
                        s.push_str(" F");
                    } else if x == u64::MAX - 1 {
                        s.push_str(" D");
                    } else {
                        let p = unsafe { self.raw.get_at_slot(i) };
                        s.push_str(&format!(" {}/{}/{}", x, p.0, p.1));
                    }
                }
                Ok(s)
            }
            _ => Ok("bad-op".into()),
        };
        match res {
            Ok(s) => s,
            Err(p) => {
                let msg = if let Some(s) = p.downcast_ref::<&str>() {
                    s.to_string()
                } else if let Some(s) = p.downcast_ref::<String>() {
                    s.clone()
                } else {
                    String::new()
                };
                // a request for more than isize::MAX bytes cannot be satisfied: the allocator's
                // "capacity overflow" panic is the expected outcome, like "Storage is full"
                let unsatisfiable = toks[0] == "raw.reserve" && msg.contains("capacity overflow") && toks[1].parse::<u64>().map_or(false, |n| n >= 1 << 58);
                if !unsatisfiable {
                    self.fail(&["C19"], format!("a safe RawTable call panicked ({})", msg));
                }
                "panic assert".into()
            }
        }
    }

    // ------------------------------------------------------------------ eda

    fn step_eda(&mut self, toks: &[&str]) -> String {
        use eda::ast::{Arena, ExprBoxed};
        use eda::signal::Signal;
        fn parse(toks: &[&str], pos: &mut usize) -> Option<ExprBoxed<Z7>> {
            let t = *toks.get(*pos)?;
            *pos += 1;
            Some(match t {
                "T" => {
                    let n: u64 = toks.get(*pos)?.parse().ok()?;
                    *pos += 1;
                    ExprBoxed::Term(Z7((n % 256) as u8))
                }
                "N" => ExprBoxed::Not(Box::new(parse(toks, pos)?)),
                "n" => ExprBoxed::not(parse(toks, pos)?),
                "A" => {
                    let a = parse(toks, pos)?;
                    let b = parse(toks, pos)?;
                    ExprBoxed::and(a, b)
                }
                "O" => {
                    let a = parse(toks, pos)?;
                    let b = parse(toks, pos)?;
                    ExprBoxed::or(a, b)
                }
                "X" => {
                    let a = parse(toks, pos)?;
                    let b = parse(toks, pos)?;
                    ExprBoxed::xor(a, b)
                }
                "I" => {
                    let a = parse(toks, pos)?;
                    let b = parse(toks, pos)?;
                    let c = parse(toks, pos)?;
                    ExprBoxed::ite(a, b, c)
                }
                _ => return None,
            })
        }
        fn value(e: &ExprBoxed<Z7>) -> Option<Z7> {
            Some(match e {
                ExprBoxed::Term(t) => *t,
                ExprBoxed::Not(a) => -value(a)?,
                ExprBoxed::And(a, b) => value(a)? * value(b)?,
                ExprBoxed::Or(a, b) => value(a)? + value(b)?,
                _ => return None,
            })
        }
        let show = |o: Option<Z7>| o.map(|z| z.to_string()).unwrap_or("panic".into());
        match toks[0] {
            "eda.boxed" => {
                let mut pos = 1;
                let e = match parse(toks, &mut pos) {
                    Some(e) if pos == toks.len() => e,
                    _ => return "bad-op".into(),
                };
                let s0 = e.to_string();
                let arena = Arena::from_boxed(&e);
                let dbg = format!("{:?}", arena);
                let ts = catch_unwind(AssertUnwindSafe(|| arena.to_string())).unwrap_or("panic".into());
                let ev = catch_unwind(AssertUnwindSafe(|| arena.eval())).ok();
                let direct = value(&e);
                let back = catch_unwind(AssertUnwindSafe(|| arena.to_boxed())).ok();
                let back_s = back.as_ref().map(|b| b.to_string()).unwrap_or("panic".into());
                let back_v = back.as_ref().and_then(|b| value(b));
                if ts != s0 {
                    self.fail(&["C20"], format!("arena prints '{}', the tree prints '{}'", ts, s0));
                }
                if ev != direct {
                    self.fail(&["C20"], format!("arena evaluates to {}, direct recursion gives {} for {}", show(ev), show(direct), s0));
                }
                if back_v != direct {
                    self.fail(&["C20"], format!("to_boxed has value {}, the original {} for {}", show(back_v), show(direct), s0));
                }
                // negating any expression negates its value
                let negd = ExprBoxed::not(e.clone());
                if let Some(d) = direct {
                    if value(&negd) != Some(-d) {
                        self.fail(&["C20"], format!("ExprBoxed::not({}) has value {}, expected {}", s0, show(value(&negd)), -d));
                    }
                }
                // the same with the free term algebra as the value type
                fn to_sym(e: &ExprBoxed<Z7>) -> ExprBoxed<Sym> {
                    match e {
                        ExprBoxed::Term(t) => ExprBoxed::Term(Sym(t.0.to_string())),
                        ExprBoxed::Not(a) => ExprBoxed::Not(Box::new(to_sym(a))),
                        ExprBoxed::And(a, b) => ExprBoxed::And(Box::new(to_sym(a)), Box::new(to_sym(b))),
                        ExprBoxed::Or(a, b) => ExprBoxed::Or(Box::new(to_sym(a)), Box::new(to_sym(b))),
                        ExprBoxed::Xor(a, b) => ExprBoxed::Xor(Box::new(to_sym(a)), Box::new(to_sym(b))),
                        ExprBoxed::Ite(a, b, c) => ExprBoxed::Ite(Box::new(to_sym(a)), Box::new(to_sym(b)), Box::new(to_sym(c))),
                    }
                }
                fn value_sym(e: &ExprBoxed<Z7>) -> Option<String> {
                    Some(match e {
                        ExprBoxed::Term(t) => t.0.to_string(),
                        ExprBoxed::Not(a) => format!("-({})", value_sym(a)?),
                        ExprBoxed::And(a, b) => format!("({}*{})", value_sym(a)?, value_sym(b)?),
                        ExprBoxed::Or(a, b) => format!("({}+{})", value_sym(a)?, value_sym(b)?),
                        _ => return None,
                    })
                }
                // printing with terms whose own text looks like syntax (a leading minus, operators,
                // parentheses, nothing at all): both printers must still agree character by character
                const WEIRD: [&str; 7] = ["-3", "~x", "(p & q)", "", "- 1", "a ? b : c", "0"];
                #[derive(Clone)]
                struct Txt(&'static str);
                impl std::fmt::Display for Txt {
                    fn fmt(&self, f: &mut std::fmt::Formatter<'_>) -> std::fmt::Result {
                        write!(f, "{}", self.0)
                    }
                }
                fn to_txt(e: &ExprBoxed<Z7>) -> ExprBoxed<Txt> {
                    match e {
                        ExprBoxed::Term(t) => ExprBoxed::Term(Txt(WEIRD[(t.0 % 7) as usize])),
                        ExprBoxed::Not(a) => ExprBoxed::Not(Box::new(to_txt(a))),
                        ExprBoxed::And(a, b) => ExprBoxed::And(Box::new(to_txt(a)), Box::new(to_txt(b))),
                        ExprBoxed::Or(a, b) => ExprBoxed::Or(Box::new(to_txt(a)), Box::new(to_txt(b))),
                        ExprBoxed::Xor(a, b) => ExprBoxed::Xor(Box::new(to_txt(a)), Box::new(to_txt(b))),
                        ExprBoxed::Ite(a, b, c) => ExprBoxed::Ite(Box::new(to_txt(a)), Box::new(to_txt(b)), Box::new(to_txt(c))),
                    }
                }
                let et = to_txt(&e);
                let txt_tree = et.to_string();
                let txt_arena = catch_unwind(AssertUnwindSafe(|| Arena::from_boxed(&et).to_string())).unwrap_or("panic".into());
                if txt_tree != txt_arena {
                    let cut = |x: &str| x.chars().take(120).collect::<String>();
                    self.fail(&["C20"], format!("with terms printed as {:?} the arena prints '{}', the tree prints '{}'", WEIRD, cut(&txt_arena), cut(&txt_tree)));
                }
                let txt_digest = format!("{}/{}", fnv1a(&txt_tree), fnv1a(&txt_arena));
                let arena_s = Arena::from_boxed(&to_sym(&e));
                let ev_s = catch_unwind(AssertUnwindSafe(|| arena_s.eval())).ok().map(|x| x.0);
                let direct_s = value_sym(&e);
                if ev_s != direct_s {
                    let cut = |o: &Option<String>| o.as_ref().map(|x| x.chars().take(120).collect::<String>()).unwrap_or("panic".into());
                    self.fail(&["C20"], format!("over the free term algebra the arena evaluates to {}, direct recursion gives {}", cut(&ev_s), cut(&direct_s)));
                }
                let sym_digest = ev_s.as_ref().map(|x| fnv1a(x).to_string()).unwrap_or("panic".into());
                self.nontrivial.insert(fnv1a(&s0));
                format!("{} | {} | {} | {} | {} | {} | {} | {} | {}", s0, dbg, ts, show(ev), show(direct), back_s, show(back_v), sym_digest, txt_digest)
            }
            "eda.signal" => {
                let raw: u32 = toks[1].parse().unwrap();
                let s0 = Signal::from_index(raw >> 1);
                let s = if raw & 1 == 1 { !s0 } else { s0 };
                let classes = [s.is_const(), s.is_input(), s.is_var()].iter().filter(|&&b| b).count();
                if classes != 1 {
                    self.fail(&["C20"], format!("signal {:#x} falls into {} classes", raw, classes));
                }
                if (!s).raw() != raw ^ 1 || !!s != s {
                    self.fail(&["C20"], format!("complementing signal {:#x} does not flip only the polarity", raw));
                }
                if (!s).is_const() != s.is_const() || (!s).is_input() != s.is_input() || (!s).is_var() != s.is_var() {
                    self.fail(&["C20"], format!("complementing signal {:#x} changes its class", raw));
                }
                self.nontrivial.insert(raw as u64);
                format!(
                    "raw={} index={} const={} input={} var={} neg={} varv={} inputv={} not={} disp={} rnot={} dbg={:?}",
                    s.raw(),
                    s.index(),
                    s.is_const() as u8,
                    s.is_input() as u8,
                    s.is_var() as u8,
                    s.is_negated() as u8,
                    if s.is_var() { s.var().to_string() } else { "-".into() },
                    if s.is_input() { s.input().to_string() } else { "-".into() },
                    (!s).raw(),
                    s,
                    (!&s).raw(),
                    s
                )
            }
            "eda.consts" => {
                let (z, o) = (Signal::zero(), Signal::one());
                let (f0, f1): (Signal, Signal) = (false.into(), true.into());
                if f0 != z || f1 != o || !z != o || !&o != z || !z.is_const() || !o.is_const() || z.is_negated() || !o.is_negated() {
                    self.fail(&["C20"], "the constant signals are not 0 / 1 or not each other's complement".into());
                }
                format!("zero={} one={} f0={} f1={} zc={} oc={} nz={} dz={} do={}", z.raw(), o.raw(), f0.raw(), f1.raw(), z.is_const() as u8, o.is_const() as u8, (!z).raw(), z, o)
            }
            "eda.fromvar" => {
                let v: u32 = toks[1].parse().unwrap();
                let s = Signal::from_var(v);
                if v <= (1 << 30) - 2 && !(s.is_var() && s.var() == v) {
                    self.fail(&["C20"], format!("variable {} does not round-trip through Signal", v));
                }
                self.nontrivial.insert((1u64 << 40) | v as u64);
                s.raw().to_string()
            }
            "eda.frominput" => {
                let v: u32 = toks[1].parse().unwrap();
                let s = Signal::from_input(v);
                if v <= (1 << 30) - 1 && !(s.is_input() && s.input() == v) {
                    self.fail(&["C20"], format!("input {} does not round-trip through Signal", v));
                }
                self.nontrivial.insert((1u64 << 41) | v as u64);
                s.raw().to_string()
            }
            _ => "bad-op".into(),
        }
    }
}

fn tt_trivial(t: &TT, a: u64) -> bool {
    a == 0 || a == t.full()
}

pub fn table_snapshot<T>(st: &Table<T>, show: impl Fn(&T) -> String) -> String {
    let mut s = format!("T cap={} last={} minfree={} real={} nb={}", st.capacity(), st.size(), st.min_free(), st.real_size(), st.num_buckets());
    s.push_str(" | B");
    for b in 0..st.num_buckets() {
        s.push_str(&format!(" {}", st.bucket(b)));
    }
    s.push_str(" | C");
    for i in 0..=st.size().min(st.capacity() - 1) {
        let (occ, next) = st.cell_flags(i);
        if occ {
            if i == 0 {
                s.push_str(&format!(" 0:1:-:{}", next));
            } else {
                s.push_str(&format!(" {}:1:{}:{}", i, show(st.cell_value(i)), next));
            }
        } else {
            s.push_str(&format!(" {}:0", i));
        }
    }
    let rest = (st.size() + 1..st.capacity()).filter(|&i| st.cell_flags(i).0).count();
    s.push_str(&format!(" | rest_occ={}", rest));
    s
}

// ---------------------------------------------------------------------- expression reader

/// the function an expression denotes, over expected tables of the handles
pub enum EFn {
    H(usize),
    Not(Box<EFn>),
    And(Box<EFn>, Box<EFn>),
    Or(Box<EFn>, Box<EFn>),
    Xor(Box<EFn>, Box<EFn>),
}
impl EFn {
    /// value under one assignment, handles evaluated by walking their diagrams
    pub fn eval_s(&self, ex: &Exec, e: u64) -> Result<Option<bool>, String> {
        Ok(Some(match self {
            EFn::H(i) => ex.eval_at(ex.env[*i], e)?,
            EFn::Not(a) => match a.eval_s(ex, e)? {
                Some(x) => !x,
                None => return Ok(None),
            },
            EFn::And(a, b) | EFn::Or(a, b) | EFn::Xor(a, b) => {
                let (x, y) = match (a.eval_s(ex, e)?, b.eval_s(ex, e)?) {
                    (Some(x), Some(y)) => (x, y),
                    _ => return Ok(None),
                };
                match self {
                    EFn::And(..) => x & y,
                    EFn::Or(..) => x | y,
                    _ => x ^ y,
                }
            }
        }))
    }
    pub fn eval(&self, t: &TT, exp: &[Option<u64>]) -> Option<u64> {
        Some(match self {
            EFn::H(i) => exp[*i]?,
            EFn::Not(a) => t.not(a.eval(t, exp)?),
            EFn::And(a, b) => a.eval(t, exp)? & b.eval(t, exp)?,
            EFn::Or(a, b) => a.eval(t, exp)? | b.eval(t, exp)?,
            EFn::Xor(a, b) => a.eval(t, exp)? ^ b.eval(t, exp)?,
        })
    }
}

struct P<'a> {
    toks: &'a [&'a str],
    pos: usize,
    env: &'a [Ref],
}

/// Precedence climbing with Rust's precedence (unary `-` > `*` > `+` > `^`, left associative),
/// applying the *real* overloaded operators of `eval.rs` to build the value.
impl<'a> P<'a> {
    fn peek(&self) -> Option<&'a str> {
        self.toks.get(self.pos).copied()
    }
    fn primary(&mut self) -> Option<(Val, EFn)> {
        let t = self.peek()?;
        self.pos += 1;
        if t == "(" {
            let v = self.xor()?;
            if self.peek()? != ")" {
                return None;
            }
            self.pos += 1;
            Some(v)
        } else if t == "t" {
            let (v, f) = self.primary()?;
            Some((
                match v {
                    Val::R(r) => Val::E(Expr::term(r)),
                    Val::E(e) => Val::E(e),
                },
                f,
            ))
        } else if let Some(rest) = t.strip_prefix('h') {
            let i: usize = rest.parse().ok()?;
            let r = *self.env.get(i)?;
            Some((Val::R(r), EFn::H(i)))
        } else {
            None
        }
    }
    fn unary(&mut self) -> Option<(Val, EFn)> {
        if self.peek()? == "-" {
            self.pos += 1;
            let (v, f) = self.unary()?;
            Some((
                match v {
                    Val::R(r) => Val::R(-r),
                    Val::E(e) => Val::E(-e),
                },
                EFn::Not(Box::new(f)),
            ))
        } else {
            self.primary()
        }
    }
    fn mul(&mut self) -> Option<(Val, EFn)> {
        let (mut v, mut f) = self.unary()?;
        while self.peek() == Some("*") {
            self.pos += 1;
            let (w, g) = self.unary()?;
            v = Val::E(match (v, w) {
                (Val::R(a), Val::R(b)) => a * b,
                (Val::R(a), Val::E(b)) => a * b,
                (Val::E(a), Val::R(b)) => a * b,
                (Val::E(a), Val::E(b)) => a * b,
            });
            f = EFn::And(Box::new(f), Box::new(g));
        }
        Some((v, f))
    }
    fn add(&mut self) -> Option<(Val, EFn)> {
        let (mut v, mut f) = self.mul()?;
        while self.peek() == Some("+") {
            self.pos += 1;
            let (w, g) = self.mul()?;
            v = Val::E(match (v, w) {
                (Val::R(a), Val::R(b)) => a + b,
                (Val::R(a), Val::E(b)) => a + b,
                (Val::E(a), Val::R(b)) => a + b,
                (Val::E(a), Val::E(b)) => a + b,
            });
            f = EFn::Or(Box::new(f), Box::new(g));
        }
        Some((v, f))
    }
    fn xor(&mut self) -> Option<(Val, EFn)> {
        let (mut v, mut f) = self.add()?;
        while self.peek() == Some("^") {
            self.pos += 1;
            let (w, g) = self.add()?;
            v = Val::E(match (v, w) {
                (Val::R(a), Val::R(b)) => a ^ b,
                (Val::R(a), Val::E(b)) => a ^ b,
                (Val::E(a), Val::R(b)) => a ^ b,
                (Val::E(a), Val::E(b)) => a ^ b,
            });
            f = EFn::Xor(Box::new(f), Box::new(g));
        }
        Some((v, f))
    }
}

pub fn parse_expr(toks: &[&str], env: &[Ref]) -> Option<(Val, EFn)> {
    let mut p = P { toks, pos: 0, env };
    let r = p.xor()?;
    if p.pos == toks.len() {
        Some(r)
    } else {
        None
    }
}


// ---------------------------------------------------------------------- compiled operator expressions

/// Expressions written literally in Rust source: rustc's own precedence and associativity decide
/// how they are read. Each comes with the token string the `expr` operation (dynamic interpreter in
/// this harness, `parseRust` in the model) receives; the two must produce the same handle.
macro_rules! lits {
    ($( $toks:literal => |$a:ident, $b:ident, $c:ident, $d:ident| $e:expr ; )*) => {
        pub const COMPILED_TOKENS: &[&str] = &[ $( $toks ),* ];
        pub fn compiled_expr(k: usize, bdd: &Bdd, h: [Ref; 4]) -> Ref {
            let mut i = 0;
            $(
                if i == k {
                    #[allow(unused_variables)]
                    let ($a, $b, $c, $d) = (h[0], h[1], h[2], h[3]);
                    return bdd.eval($e);
                }
                i += 1;
            )*
            let _ = i;
            unreachable!()
        }
    };
}

lits! {
    "a + b * c" => |a, b, c, d| a + b * c;
    "a * b + c" => |a, b, c, d| a * b + c;
    "a ^ b + c" => |a, b, c, d| a ^ b + c;
    "a + b ^ c" => |a, b, c, d| a + b ^ c;
    "a ^ b * c" => |a, b, c, d| a ^ b * c;
    "a * b ^ c" => |a, b, c, d| a * b ^ c;
    "- a * b" => |a, b, c, d| -a * b;
    "a * - b" => |a, b, c, d| a * -b;
    "- a + b" => |a, b, c, d| -a + b;
    "a * b * c" => |a, b, c, d| a * b * c;
    "a + b + c" => |a, b, c, d| a + b + c;
    "a ^ b ^ c" => |a, b, c, d| a ^ b ^ c;
    "- - a" => |a, b, c, d| -(-a);
    "( a + b ) * c" => |a, b, c, d| (a + b) * c;
    "a * ( b + c )" => |a, b, c, d| a * (b + c);
    "- ( a + b )" => |a, b, c, d| -(a + b);
    "- - ( a + b )" => |a, b, c, d| -(-(a + b));
    "- ( a + b ) * c" => |a, b, c, d| -(a + b) * c;
    "t a" => |a, b, c, d| Expr::term(a);
    "- t a" => |a, b, c, d| -Expr::term(a);
    "- - t a" => |a, b, c, d| -(-Expr::term(a));
    "t a * b" => |a, b, c, d| Expr::term(a) * b;
    "a * t b" => |a, b, c, d| a * Expr::term(b);
    "a ^ b + c * d" => |a, b, c, d| a ^ b + c * d;
    "a * b + c ^ d" => |a, b, c, d| a * b + c ^ d;
    "a + b * c ^ d + a" => |a, b, c, d| a + b * c ^ d + a;
    "- a * - b + - c ^ - d" => |a, b, c, d| -a * -b + -c ^ -d;
    "( a ^ b ) * ( c + d )" => |a, b, c, d| (a ^ b) * (c + d);
    "- ( a * b ) + - ( c ^ d ) * a" => |a, b, c, d| -(a * b) + -(c ^ d) * a;
    "a + ( b * ( c ^ ( d + a ) ) )" => |a, b, c, d| a + (b * (c ^ (d + a)));
    "- ( - ( a * b ) )" => |a, b, c, d| -(-(a * b));
    "a * b * c + a * - b * d ^ c" => |a, b, c, d| a * b * c + a * -b * d ^ c;
}

//! Suites: structured generators of operation histories. Every random choice derives from one
//! PRNG state (the seed), so a run replays exactly.

use std::collections::HashMap;

use crate::exec::Exec;
use crate::tt::TT;

pub struct Rng(pub u64);
impl Rng {
    pub fn next(&mut self) -> u64 {
        self.0 = self.0.wrapping_add(0x9E3779B97F4A7C15);
        let mut z = self.0;
        z = (z ^ (z >> 30)).wrapping_mul(0xBF58476D1CE4E5B9);
        z = (z ^ (z >> 27)).wrapping_mul(0x94D049BB133111EB);
        z ^ (z >> 31)
    }
    pub fn below(&mut self, n: u64) -> u64 {
        if n == 0 {
            0
        } else {
            self.next() % n
        }
    }
    pub fn chance(&mut self, num: u64, den: u64) -> bool {
        self.below(den) < num
    }
    pub fn pick<'a, T>(&mut self, v: &'a [T]) -> &'a T {
        &v[self.below(v.len() as u64) as usize]
    }
}

macro_rules! cx_op {
    ($cx:expr, $e:expr) => {{
        let l = $e;
        $cx.op(l)
    }};
}
macro_rules! cx_begin {
    ($cx:expr, $n:expr, $e:expr, $k:expr) => {{
        let l = $e;
        let n = $n;
        $cx.begin(n, l, $k)
    }};
}

pub struct Ctx {
    pub ex: Exec,
    pub rng: Rng,
    pub thorough: bool,
    pub samples: Vec<Vec<String>>,
    pub notes: Vec<String>,
}

impl Ctx {
    pub fn op(&mut self, line: String) -> usize {
        let before = self.ex.env.len();
        self.ex.step(&line);
        before
    }
    pub fn reply(&self) -> &str {
        self.ex.replies.last().map(|s| s.as_str()).unwrap_or("")
    }
    fn begin(&mut self, n: u32, new_line: String, scan_every: usize) {
        self.ex.begin_case();
        self.ex.tt = None;
        self.ex.scan_every = scan_every;
        if n >= 1 && n <= 6 {
            // the oracle's universe travels with the case, so that a replay file is self-contained
            let vs: Vec<String> = (1..=n).map(|v| v.to_string()).collect();
            self.op(format!("vmap {}", vs.join(" ")));
        }
        self.op(new_line);
    }
    fn end(&mut self) {
        if self.ex.bdd.is_some() {
            self.op("dump".into());
        }
        if self.samples.len() < 3 {
            let start = *self.ex.case_starts.last().unwrap();
            let sample: Vec<String> = self.ex.lines[start..].iter().take(12).cloned().collect();
            self.samples.push(sample);
        }
    }
    /// live handle indices
    fn live(&self) -> Vec<usize> {
        (0..self.ex.env.len()).filter(|&i| self.ex.live[i]).collect()
    }
}

/// build the function with table `f` over `n` variables bottom-up with `node` operations
pub fn build(cx: &mut Ctx, memo: &mut HashMap<u64, usize>, f: u64) -> usize {
    let tt = cx.ex.tt.unwrap();
    if f == tt.full() {
        return 0;
    }
    if f == 0 {
        return 1;
    }
    if let Some(&h) = memo.get(&f) {
        return h;
    }
    let v = tt.top_var(f).unwrap();
    let lo = build(cx, memo, tt.cof(f, v, false));
    let hi = build(cx, memo, tt.cof(f, v, true));
    let h = cx_op!(cx, format!("node {} {} {}", v, lo, hi));
    memo.insert(f, h);
    h
}

fn build_all3(cx: &mut Ctx) -> Vec<usize> {
    let mut memo = HashMap::new();
    (0..256u64).map(|f| build(cx, &mut memo, f)).collect()
}

fn rand_fn(cx: &mut Ctx, n: u32) -> u64 {
    let tt = TT::ident(n);
    let r = cx.rng.next();
    // mix of dense random tables and structured ones (cubes, few minterms)
    match cx.rng.below(4) {
        0 => r & tt.full(),
        1 => (r & cx.rng.next()) & tt.full(),
        2 => (r | cx.rng.next()) & tt.full(),
        _ => {
            let v = 1 + cx.rng.below(n as u64) as u32;
            let w = 1 + cx.rng.below(n as u64) as u32;
            (tt.var(v) ^ (tt.var(w) & r)) & tt.full()
        }
    }
}

// ------------------------------------------------------------------------------------------

/// C15 / C01 / C04: constructors
pub fn s_mk(cx: &mut Ctx) {
    // all functions over three variables, bottom-up, then again by other routes
    cx_begin!(cx, 3, "new 9 3 4".into(), 1);
    let hs = build_all3(cx);
    for v in 1..=3 {
        cx_op!(cx, format!("var {}", v));
    }
    // equal children, complemented/constant children
    for &f in &[0x0fu64, 0x33, 0x3c, 0xc3] {
        let h = hs[f as usize];
        cx_op!(cx, format!("node 1 {} {}", h, h));
        let nh = cx_op!(cx, format!("not {}", h));
        if TT::ident(3).top_var(f).unwrap() > 1 {
            cx_op!(cx, format!("node 1 {} {}", h, nh));
            cx_op!(cx, format!("node 1 {} {}", nh, h));
            cx_op!(cx, format!("node 1 {} 0", nh));
            cx_op!(cx, format!("node 1 1 {}", nh));
        }
    }
    cx.end();
    // cube / clause: all sign patterns x all permutations up to 4 literals, in one manager
    cx_begin!(cx, 5, "new 10 4 4".into(), 8);
    cx.op("cube".into());
    cx.op("clause".into());
    let var_sets: Vec<Vec<i32>> = vec![vec![1], vec![3], vec![1, 2], vec![2, 5], vec![1, 3, 4], vec![2, 3, 5], vec![1, 2, 4, 5]];
    for vs in var_sets {
        let k = vs.len();
        for signs in 0..(1u32 << k) {
            let lits: Vec<i32> = (0..k).map(|i| if (signs >> i) & 1 == 1 { -vs[i] } else { vs[i] }).collect();
            for perm in permutations(&lits) {
                let s: Vec<String> = perm.iter().map(|l| l.to_string()).collect();
                cx_op!(cx, format!("cube {}", s.join(" ")));
                cx_op!(cx, format!("clause {}", s.join(" ")));
            }
        }
    }
    cx.end();
    // very large variable indices (64-bit hash wrap-around in the Szudzik pairing, u32 limits); no truth
    // tables here: the strict comparison with the model and the structural scans are the oracles
    cx_begin!(cx, 0, "newdefault 10".to_string(), 1);
    // a chain x_v1 ∧ (x_v2 ⊕ …) over descending variables, built bottom-up
    let mut prev = 0usize; // starts at `one`
    for v in [4294967295u64, 4294967294, 4000000000, 2147483648, 2147483647, 1000000007, 65537, 65536, 65535, 300, 7] {
        let np = cx_op!(cx, format!("not {}", prev));
        let a = cx_op!(cx, format!("node {} {} {}", v, np, prev)); // x_v ? prev : ~prev
        prev = a;
        cx_op!(cx, format!("var {}", v));
        cx_op!(cx, format!("size {}", prev));
        cx_op!(cx, format!("bracket {}", prev));
        if v == 2147483648 {
            // everything so far uses variables that do not fit an `i32` literal: counts and exports only
            cx_op!(cx, format!("satcount {} 64", prev));
            cx_op!(cx, format!("dot {} {}", prev, a));
            prev = 0;
        }
    }
    cx_op!(cx, format!("satcount {} 64", prev));
    cx_op!(cx, format!("onesat {}", prev));
    cx_op!(cx, format!("paths {}", prev));
    cx.op("cube 2147483647 -1000000 65536 3".into());
    cx.op("clause -2147483647 1000000 -65536 3".into());
    cx_op!(cx, format!("gc {}", prev));
    cx.op("cube 2147483647 -1000000 65536 3".into());
    cx.end();
    // random functions over 4..6 variables bottom-up, tiny buckets
    let cases = if cx.thorough { 400 } else { 12 };
    for _ in 0..cases {
        let n = 4 + cx.rng.below(3) as u32;
        let bb = cx.rng.below(4);
        cx_begin!(cx, n, format!("new 11 {} 3", bb), 16);
        let mut memo = HashMap::new();
        for _ in 0..20 {
            let f = rand_fn(cx, n);
            build(cx, &mut memo, f);
        }
        cx.end();
    }
}

fn permutations(v: &[i32]) -> Vec<Vec<i32>> {
    if v.len() <= 1 {
        return vec![v.to_vec()];
    }
    let mut out = vec![];
    for i in 0..v.len() {
        let mut rest = v.to_vec();
        let x = rest.remove(i);
        for mut p in permutations(&rest) {
            p.insert(0, x);
            out.push(p);
        }
    }
    out
}

/// C02: if-then-else over all (quick: a structured subset of) triples of 3-variable functions,
/// in cold, warm and tiny caches
pub fn s_ite3(cx: &mut Ctx) {
    let reps: Vec<u64> = vec![0x00, 0xff, 0xaa, 0x55, 0xcc, 0x33, 0xf0, 0x0f, 0x88, 0x77, 0x96, 0x69, 0xe8, 0x17, 0xca, 0x35];
    for (ci, cb) in [0u32, 2, 8].iter().enumerate() {
        cx_begin!(cx, 3, format!("new 10 {} {}", 3 - ci.min(3), cb), 64);
        let hs = build_all3(cx);
        let mut k = 0u64;
        if cx.thorough && ci == 2 {
            for f in 0..256 {
                for g in 0..256 {
                    for h in 0..256 {
                        cx_op!(cx, format!("ite {} {} {}", hs[f], hs[g], hs[h]));
                    }
                }
                cx.op("digest".into());
            }
        } else {
            for f in 0..256usize {
                for &g in &reps {
                    for &h in &reps {
                        cx_op!(cx, format!("ite {} {} {}", hs[f], hs[g as usize], hs[h as usize]));
                        k += 1;
                        if k % 64 == 0 {
                            cx.op("digest".into());
                        }
                    }
                }
            }
            // shortcut shapes with arbitrary f, g: (f,f,h) (f,g,f) (f,~f,h) (f,g,~f) (f,g,~g) (f,1,h) (f,g,0) (f,g,1) (f,0,h)
            for _ in 0..4000 {
                let f = cx.rng.below(256) as usize;
                let g = cx.rng.below(256) as usize;
                let (nf, ng) = (255 - f, 255 - g);
                let shapes = [(f, f, g), (f, g, f), (f, nf, g), (f, g, nf), (f, g, ng), (f, 255, g), (f, g, 0), (f, g, 255), (f, 0, g)];
                let (a, b, c) = *cx.rng.pick(&shapes);
                cx_op!(cx, format!("ite {} {} {}", hs[a], hs[b], hs[c]));
            }
            let extra = if cx.thorough { 200000 } else { 20000 };
            for i in 0..extra {
                let (f, g, h) = (cx.rng.below(256) as usize, cx.rng.below(256) as usize, cx.rng.below(256) as usize);
                cx_op!(cx, format!("ite {} {} {}", hs[f], hs[g], hs[h]));
                if i % 256 == 0 {
                    cx.op("digest".into());
                }
            }
        }
        cx.end();
    }
    // larger random functions, tiny caches, collections in between
    let cases = if cx.thorough { 300 } else { 8 };
    for _ in 0..cases {
        let n = 4 + cx.rng.below(3) as u32;
        let cb = cx.rng.below(4);
        cx_begin!(cx, n, format!("new 12 {} {}", cx.rng.below(5), cb), 32);
        let mut memo = HashMap::new();
        let mut hs = vec![0usize, 1];
        for _ in 0..12 {
            let f = rand_fn(cx, n);
            hs.push(build(cx, &mut memo, f));
        }
        for i in 0..300 {
            let (a, b, c) = (*cx.rng.pick(&hs), *cx.rng.pick(&hs), *cx.rng.pick(&hs));
            let r = cx_op!(cx, format!("ite {} {} {}", a, b, c));
            if cx.rng.chance(1, 3) {
                hs.push(r);
            }
            if i % 16 == 0 {
                cx.op("digest".into());
            }
        }
        cx.end();
    }
}

fn gen_expr(cx: &mut Ctx, hs: &[usize], depth: u32) -> String {
    if depth == 0 || cx.rng.chance(1, 4) {
        let h = *cx.rng.pick(hs);
        return match cx.rng.below(6) {
            0 => format!("- h{}", h),
            1 => format!("t h{}", h),
            2 => format!("- t h{}", h),
            3 => format!("- - h{}", h),
            _ => format!("h{}", h),
        };
    }
    let a = gen_expr(cx, hs, depth - 1);
    let b = gen_expr(cx, hs, depth - 1);
    match cx.rng.below(8) {
        0 => format!("{} * {}", a, b),
        1 => format!("{} + {}", a, b),
        2 => format!("{} ^ {}", a, b),
        3 => format!("( {} ) * ( {} )", a, b),
        4 => format!("- ( {} )", a),
        5 => format!("( {} ) ^ {}", a, b),
        6 => format!("- - ( {} + {} )", a, b),
        _ => format!("{} + ( {} )", a, b),
    }
}

/// C03: connectives, n-ary folds, expressions
pub fn s_conn(cx: &mut Ctx) {
    cx_begin!(cx, 3, "new 10 4 6".into(), 128);
    let hs = build_all3(cx);
    let stride = if cx.thorough { 1 } else { 5 };
    let mut k = 0;
    for f in 0..256usize {
        for g in (f % stride..256usize).step_by(stride) {
            for op in ["and", "or", "xor", "eq", "imply"] {
                cx_op!(cx, format!("{} {} {}", op, hs[f], hs[g]));
            }
            k += 1;
            if k % 64 == 0 {
                cx.op("digest".into());
            }
        }
        cx_op!(cx, format!("not {}", hs[f]));
    }
    cx.end();
    // folds and expressions over 4..5 variables
    let cases = if cx.thorough { 400 } else { 15 };
    for _ in 0..cases {
        let n = 4 + cx.rng.below(2) as u32;
        cx_begin!(cx, n, format!("new 12 {} {}", cx.rng.below(5), cx.rng.below(5)), 32);
        let mut memo = HashMap::new();
        let mut hs = vec![0usize, 1];
        for v in 1..=n {
            hs.push(cx_op!(cx, format!("var {}", v)));
        }
        for _ in 0..6 {
            let f = rand_fn(cx, n);
            hs.push(build(cx, &mut memo, f));
        }
        cx.op("andmany".into());
        cx.op("ormany".into());
        for _ in 0..20 {
            let len = cx.rng.below(6);
            let items: Vec<String> = (0..len).map(|_| cx.rng.pick(&hs).to_string()).collect();
            let op = if cx.rng.chance(1, 2) { "andmany" } else { "ormany" };
            let r = cx_op!(cx, format!("{} {}", op, items.join(" ")));
            hs.push(r);
        }
        // expressions compiled from literal Rust source: rustc decides how they are read
        for k in 0..crate::exec::COMPILED_TOKENS.len() {
            let h: Vec<usize> = (0..4).map(|_| *cx.rng.pick(&hs)).collect();
            let toks: Vec<String> = crate::exec::COMPILED_TOKENS[k]
                .split(' ')
                .map(|t| match t {
                    "a" => format!("h{}", h[0]),
                    "b" => format!("h{}", h[1]),
                    "c" => format!("h{}", h[2]),
                    "d" => format!("h{}", h[3]),
                    x => x.to_string(),
                })
                .collect();
            let r1 = cx_op!(cx, format!("expr {}", toks.join(" ")));
            let r2 = cx_op!(cx, format!("exprc {} {}", k, toks.join(" ")));
            if !cx.reply().starts_with("panic") && cx.ex.env[r1] != cx.ex.env[r2] {
                let m = format!("`{}` compiled by rustc gives {}, the token reader gives {}", crate::exec::COMPILED_TOKENS[k], crate::exec::show_ref(cx.ex.env[r2]), crate::exec::show_ref(cx.ex.env[r1]));
                cx.ex.fail(&["C03"], m);
            }
        }
        // every combination of operand kinds for every overloaded operator: a bare handle, a negated
        // handle, a term expression, a compound expression, a negated compound (an explicit Not node), a
        // doubly negated compound — on either side
        {
            let kinds = |a: usize, b: usize| -> Vec<String> {
                vec![
                    format!("h{}", a),
                    format!("- h{}", a),
                    format!("t h{}", a),
                    format!("( h{} * h{} )", a, b),
                    format!("- ( h{} + h{} )", a, b),
                    format!("- - ( h{} ^ h{} )", a, b),
                    format!("- t h{}", b),
                ]
            };
            for op in ["*", "+", "^"] {
                let (a, b, c, d) = (*cx.rng.pick(&hs), *cx.rng.pick(&hs), *cx.rng.pick(&hs), *cx.rng.pick(&hs));
                for l in kinds(a, b) {
                    for r in kinds(c, d) {
                        cx_op!(cx, format!("expr {} {} {}", l, op, r));
                    }
                }
            }
        }
        // every shape of up to three stacked negations (raw / simplifying) over a term and over a product
        for pat in 0..8u32 {
            for base in ["T {a}", "A T {a} T {b}", "o T {a} N T {b}"] {
                let (a, b) = (*cx.rng.pick(&hs), *cx.rng.pick(&hs));
                let mut e = base.replace("{a}", &a.to_string()).replace("{b}", &b.to_string());
                for k in 0..3 {
                    e = format!("{} {}", if (pat >> k) & 1 == 1 { "N" } else { "n" }, e);
                    cx_op!(cx, format!("exprtree {}", e));
                }
            }
        }
        for _ in 0..40 {
            let d = 1 + cx.rng.below(5) as u32;
            let e = rand_exprtree(cx, &hs, d);
            cx_op!(cx, format!("exprtree {}", e));
        }
        for _ in 0..60 {
            let d = 1 + cx.rng.below(4) as u32;
            let e = gen_expr(cx, &hs, d);
            let r = cx_op!(cx, format!("expr {}", e));
            if cx.rng.chance(1, 4) {
                hs.push(r);
            }
        }
        cx.end();
    }
    // n-ary folds of every length 0..=64 in which every operand matters: the conjunction of `len`
    // distinct complemented minterms / the disjunction of `len` distinct minterms over 6 variables
    let reps = if cx.thorough { 6 } else { 1 };
    for _ in 0..reps {
        cx_begin!(cx, 6, "new 12 5 6".into(), 64);
        for v in 1..=6 {
            cx_op!(cx, format!("var {}", v));
        }
        let mut mt = vec![];
        let mut nmt = vec![];
        for m in 0..64u32 {
            let lits: Vec<String> = (1..=6).map(|v| if (m >> (v - 1)) & 1 == 1 { v.to_string() } else { format!("-{}", v) }).collect();
            let h = cx_op!(cx, format!("cube {}", lits.join(" ")));
            mt.push(h);
            nmt.push(cx_op!(cx, format!("not {}", h)));
        }
        for len in 0..=64usize {
            let mut perm: Vec<usize> = (0..64).collect();
            for i in (1..64).rev() {
                let j = cx.rng.below(i as u64 + 1) as usize;
                perm.swap(i, j);
            }
            let a: Vec<String> = perm[..len].iter().map(|&i| nmt[i].to_string()).collect();
            let o: Vec<String> = perm[..len].iter().map(|&i| mt[i].to_string()).collect();
            cx_op!(cx, format!("andmany {}", a.join(" ")));
            cx_op!(cx, format!("ormany {}", o.join(" ")));
        }
        cx.end();
    }
}

/// the table over six variables of the function with table `t` over the variables `sub` (ascending)
fn expand(t: u64, sub: &[u32]) -> u64 {
    let mut r = 0u64;
    for e in 0..64u64 {
        let mut i = 0;
        for (k, &v) in sub.iter().enumerate() {
            i |= ((e >> (v - 1)) & 1) << k;
        }
        if (t >> i) & 1 == 1 {
            r |= 1 << e;
        }
    }
    r
}

/// C09 C10 C11 C02: arguments with interleaved supports. Six variables are split between the arguments
/// (3 + 3 for the binary operations and compose, 2 + 2 + 2 for ITE) in every possible way, and ALL
/// functions over each part are combined: every order relationship between the arguments' variables
/// (an argument's top variable above, between or below the other's) occurs with every pair of shapes
pub fn s_split(cx: &mut Ctx) {
    // 3 + 3
    let mut parts: Vec<Vec<u32>> = vec![];
    for m in 0..64u32 {
        if m.count_ones() == 3 {
            parts.push((1..=6).filter(|v| (m >> (v - 1)) & 1 == 1).collect());
        }
    }
    let nparts = if cx.thorough { parts.len() } else { 5 };
    for pi in 0..nparts {
        let s_f = if cx.thorough { parts[pi].clone() } else { parts[cx.rng.below(parts.len() as u64) as usize].clone() };
        let s_g: Vec<u32> = (1..=6).filter(|v| !s_f.contains(v)).collect();
        cx_begin!(cx, 6, format!("new 14 {} {}", 3 + pi % 4, 4 + pi % 6), 256);
        let mut memo = HashMap::new();
        let fs: Vec<usize> = (0..256u64).map(|t| build(cx, &mut memo, expand(t, &s_f))).collect();
        let gs: Vec<usize> = (0..256u64).map(|t| build(cx, &mut memo, expand(t, &s_g))).collect();
        let (sf, sg) = if cx.thorough { (1, 1) } else { (5, 7) };
        let mut k = 0u64;
        for f in ((pi % sf)..256).step_by(sf) {
            for g in ((f % sg)..256).step_by(sg) {
                for &v in &s_f {
                    cx_op!(cx, format!("compose {} {} {}", fs[f], v, gs[g]));
                }
                cx_op!(cx, format!("compose {} {} {}", gs[g], s_g[f % 3], fs[f]));
                cx_op!(cx, format!("constrain {} {}", fs[f], gs[g]));
                cx_op!(cx, format!("restrict {} {}", fs[f], gs[g]));
                k += 1;
                if k % 512 == 0 {
                    cx.op("digest".into());
                }
                if k % 4096 == 0 {
                    // keep the table small: only the argument functions survive
                    let roots: Vec<String> = fs.iter().chain(gs.iter()).map(|h| h.to_string()).collect();
                    cx_op!(cx, format!("gc {}", roots.join(" ")));
                }
            }
        }
        cx.end();
        if pi == 0 {
            cx.notes.push(format!("first 3+3 split: f over {:?}, g over {:?}", s_f, s_g));
        }
    }
    // every query first: sizes of all functions are memoised before the operations run (and again in
    // between), so an operation that consults a query cache finds it full
    for (oi, op) in ["restrict", "constrain", "compose", "and", "xor"].iter().enumerate() {
        cx_begin!(cx, 3, format!("new 11 {} {}", 2 + oi % 3, 9 + oi % 3), 256);
        let hs = build_all3(cx);
        for &h in &hs {
            cx_op!(cx, format!("size {}", h));
        }
        let (sf, sg) = if cx.thorough { (1, 1) } else { (3, 5) };
        let mut k = 0u64;
        for f in ((oi % sf)..256).step_by(sf) {
            for g in ((f % sg)..256).step_by(sg) {
                let r = if *op == "compose" {
                    cx_op!(cx, format!("compose {} {} {}", hs[f], 1 + (f + g) % 3, hs[g]))
                } else {
                    cx_op!(cx, format!("{} {} {}", op, hs[f], hs[g]))
                };
                k += 1;
                if k % 7 == 0 {
                    cx_op!(cx, format!("size {}", r));
                }
                if k % 1024 == 0 {
                    cx.op("digest".into());
                }
            }
        }
        cx.end();
    }
    // arguments that are built from each other's sub-diagrams: a "tower" t0, t1 = node(v, a, t0),
    // t2 = node(v', b, t1) … (each level has the previous one as a child), and ALL pairs of arguments
    // f = node(x1, t_i, t_j), g = node(x1, t_k, t_l): every pointer coincidence between cofactors of
    // the two arguments and their children occurs (children equal to the other argument's cofactor,
    // to its child, to its complement …)
    // quick: 16 towers with random side children; thorough: every combination of side children
    // (false, true, complement of the previous level, an earlier level) for then-towers and else-towers
    let towers = if cx.thorough { 512 } else { 16 };
    for ti in 0..towers {
        cx_begin!(cx, 6, format!("new 13 {} {}", 2 + ti % 4, 4 + ti % 6), 256);
        let mut vs = vec![0usize];
        for v in 1..=6 {
            vs.push(cx_op!(cx, format!("var {}", v)));
        }
        let mut t: Vec<usize> = vec![];
        // level 0 over variable 6
        t.push(if ti % 4 < 2 { vs[6] } else { cx_op!(cx, format!("not {}", vs[6])) });
        let as_else = ti % 2 == 1;
        let code = if cx.thorough { ti / 2 } else { cx.rng.below(256) as usize };
        for (lvl, v) in [5u32, 4, 3, 2].iter().enumerate() {
            let prev = t[lvl];
            // the other child
            let other = match (code >> (2 * lvl)) & 3 {
                0 => 1usize, // false
                1 => 0,      // true
                2 => cx_op!(cx, format!("not {}", prev)),
                _ => {
                    let x = t[cx.rng.below(t.len() as u64) as usize];
                    if cx.rng.chance(1, 2) {
                        x
                    } else {
                        cx_op!(cx, format!("not {}", x))
                    }
                }
            };
            let h = if as_else {
                cx_op!(cx, format!("node {} {} {}", v, prev, other)) // previous level as the else-child
            } else {
                cx_op!(cx, format!("node {} {} {}", v, other, prev)) // previous level as the then-child
            };
            if cx.reply().starts_with("r ") {
                t.push(h);
            } else {
                t.push(prev);
            }
        }
        // three arguments over one top variable whose cofactors are taken from the same pool in every
        // way (in particular cyclically: F1 = G0, G1 = H0, H1 = F0), each ITE asked cold and warm, with
        // and without complemented arguments
        if ti % 4 == 0 {
            let mut pool: Vec<usize> = t.clone();
            for &x in &t {
                pool.push(cx_op!(cx, format!("not {}", x)));
            }
            pool.truncate(8);
            let m = pool.len();
            let mut made: HashMap<(usize, usize), usize> = HashMap::new();
            let mut mk = |cx: &mut Ctx, a: usize, b: usize| -> usize {
                if let Some(&h) = made.get(&(a, b)) {
                    return h;
                }
                let h = cx_op!(cx, format!("node 1 {} {}", pool[a], pool[b]));
                made.insert((a, b), h);
                h
            };
            for a in 0..m {
                for b in 0..m {
                    for c in 0..m {
                        if a == b || b == c {
                            continue;
                        }
                        let (f, g, h) = (mk(cx, a, b), mk(cx, b, c), mk(cx, c, a));
                        let ng = cx_op!(cx, format!("not {}", g));
                        let nh = cx_op!(cx, format!("not {}", h));
                        let nf = cx_op!(cx, format!("not {}", f));
                        for (x, y, z) in [(f, g, h), (f, ng, h), (f, ng, nh), (f, g, nh), (nf, g, h), (g, h, f)] {
                            let r1 = cx_op!(cx, format!("ite {} {} {}", x, y, z));
                            let r2 = cx_op!(cx, format!("ite {} {} {}", x, y, z));
                            if cx.ex.env[r1] != cx.ex.env[r2] {
                                let msg = format!("the same ITE asked twice gives {} then {}", crate::exec::show_ref(cx.ex.env[r1]), crate::exec::show_ref(cx.ex.env[r2]));
                                cx.ex.fail(&["C07", "C02"], msg);
                            }
                        }
                    }
                }
                cx.op("digest".into());
            }
        }
        let n = t.len();
        for i in 0..n {
            for j in 0..n {
                if i == j {
                    continue;
                }
                let f = cx_op!(cx, format!("node 1 {} {}", t[i], t[j]));
                for k in 0..n {
                    for l in 0..n {
                        if k == l {
                            continue;
                        }
                        let g = cx_op!(cx, format!("node 1 {} {}", t[k], t[l]));
                        cx_op!(cx, format!("restrict {} {}", f, g));
                        cx_op!(cx, format!("constrain {} {}", f, g));
                        if (i + j + k + l) % 3 == 0 {
                            cx_op!(cx, format!("compose {} {} {}", f, 2 + (i + k) % 5, g));
                            cx_op!(cx, format!("ite {} {} {}", g, f, t[(i + l) % n]));
                            cx_op!(cx, format!("itec {} {} {}", f, g, t[(j + k) % n]));
                            cx_op!(cx, format!("implies {} {}", f, g));
                        }
                    }
                }
                cx.op("digest".into());
            }
        }
        cx.end();
    }
    // "combs": the same sub-diagram h as the else-child (or then-child) at several levels of one argument,
    // g = node(v1, h, node(v2, h, x)), with the other arguments' variables above, between and below
    let combs = if cx.thorough { 24 } else { 4 };
    for ci in 0..combs {
        // (a structural scan after every operation: a result that is the right function in the wrong
        // shape — unordered, not canonical — is charged to the operation that produced it)
        cx_begin!(cx, 6, format!("new 11 {} {}", 1 + ci % 4, 3 + ci % 6), 1);
        let mut vs = vec![0usize];
        for v in 1..=6 {
            vs.push(cx_op!(cx, format!("var {}", v)));
        }
        let nv6 = cx_op!(cx, format!("not {}", vs[6]));
        let a56 = cx_op!(cx, format!("and {} {}", vs[5], vs[6]));
        let o56 = cx_op!(cx, format!("or {} {}", vs[5], vs[6]));
        let hpool = [vs[6], nv6, a56, o56, vs[5]];
        let xpool = [0usize, 1, vs[6], nv6, vs[5]];
        // comb levels: increasing variables among 1..=4
        let levelsets: [&[u32]; 8] = [&[1, 3], &[1, 2], &[2, 4], &[1, 4], &[1, 2, 3], &[1, 3, 4], &[2, 3, 4], &[1, 2, 4]];
        let mut gs: Vec<(usize, usize)> = vec![]; // (comb, its h)
        for (li, lv) in levelsets.iter().enumerate() {
            for (hi, &h) in hpool.iter().enumerate() {
                if (li + hi + ci) % 2 == 1 && !cx.thorough {
                    continue;
                }
                for &x in &xpool {
                    if x == h {
                        continue;
                    }
                    for side in 0..2 {
                        let mut cur = x;
                        for &v in lv.iter().rev() {
                            cur = if side == 0 { cx_op!(cx, format!("node {} {} {}", v, h, cur)) } else { cx_op!(cx, format!("node {} {} {}", v, cur, h)) };
                        }
                        if cx.reply().starts_with("r ") {
                            gs.push((cur, h));
                        }
                    }
                }
            }
        }
        // the third argument: every function of two of the variables 1..4 (16 per pair, a few pairs)
        let mut fs: Vec<usize> = vec![];
        for (p, q) in [(2usize, 3usize), (1, 2), (3, 4), (2, 4)] {
            let np = cx_op!(cx, format!("not {}", vs[p]));
            for &l in &[vs[p], np] {
                fs.push(cx_op!(cx, format!("and {} {}", l, vs[q])));
                fs.push(cx_op!(cx, format!("or {} {}", l, vs[q])));
                fs.push(cx_op!(cx, format!("xor {} {}", l, vs[q])));
            }
            fs.push(vs[p]);
        }
        let mut k = 0u64;
        for &(g, h) in &gs {
            for &f in &fs {
                k += 1;
                if !cx.thorough && (k + ci as u64) % 3 != 0 {
                    continue;
                }
                cx_op!(cx, format!("ite {} {} {}", f, g, h));
                cx_op!(cx, format!("ite {} {} {}", f, h, g));
                cx_op!(cx, format!("ite {} {} {}", g, f, h));
                if k % 5 == 0 {
                    cx_op!(cx, format!("itec {} {} {}", f, g, h));
                    cx_op!(cx, format!("constrain {} {}", g, f));
                    cx_op!(cx, format!("restrict {} {}", g, f));
                }
            }
            if k % 64 == 0 {
                cx.op("digest".into());
            }
        }
        cx.end();
    }
    // ite_constant / is_implies on arguments whose un-memoised walk is exponential although the
    // diagrams are tiny (parity over n variables): the answer is compared with the ITE itself
    for (pi, &n) in (if cx.thorough { vec![8usize, 12, 16, 17, 18, 19, 20, 21, 22] } else { vec![10, 19, 21] }).iter().enumerate() {
        cx.ex.begin_case();
        cx.ex.tt = None;
        cx.ex.scan_every = 1_000_000_000;
        cx_op!(cx, format!("new 12 6 {}", 6 + pi % 3));
        let mut vs = vec![0usize];
        for v in 1..=(n + 2) {
            vs.push(cx_op!(cx, format!("var {}", v)));
        }
        let mut p = vs[n];
        for v in (1..n).rev() {
            p = cx_op!(cx, format!("xor {} {}", vs[v], p));
        }
        let (z, w) = (vs[n + 1], vs[n + 2]);
        let f = cx_op!(cx, format!("and {} {}", p, z));
        let g = cx_op!(cx, format!("or {} {}", p, w));
        let np = cx_op!(cx, format!("not {}", p));
        // collections in between so that the operation cache does not answer for the probe
        let roots = format!("gc {} {} {} {} {} {} {}", f, g, p, np, z, w, vs[1]);
        let mut ask = |cx: &mut Ctx, a: usize, b: usize, c: usize| {
            cx.op(roots.clone());
            cx_op!(cx, format!("itec {} {} {}", a, b, c));
            let said = cx.reply().to_string();
            cx.op(roots.clone());
            cx_op!(cx, format!("implies {} {}", a, b));
            cx.op(roots.clone());
            let r = cx_op!(cx, format!("ite {} {} {}", a, b, c));
            let want = if cx.ex.env[r] == cx.ex.env[0] { "some1" } else if cx.ex.env[r] == cx.ex.env[1] { "some0" } else { "none" };
            if !said.starts_with("panic") && said != want {
                let m = format!("ite_constant says {}, the ITE itself is {}", said, crate::exec::show_ref(cx.ex.env[r]));
                cx.ex.fail(&["C12"], m);
            }
        };
        ask(cx, f, g, 0);  // f -> g holds
        ask(cx, g, f, 0);
        ask(cx, f, g, 1);
        ask(cx, p, g, np); // ITE(p, g, ~p) = 1
        ask(cx, p, f, np);
        ask(cx, np, f, 1);
        // genuine three-argument instances: sub-triples of both polarities inside one long walk
        if n >= 16 && n <= 19 {
            let x = vs[n + 1];
            let big = cx_op!(cx, format!("ite {} {} {}", x, p, np));   // x XNOR-ish p: p below another variable
            let nbig = cx_op!(cx, format!("not {}", big));
            let q = cx_op!(cx, format!("xor {} {}", p, vs[n + 2]));
            let nq = cx_op!(cx, format!("not {}", q));
            let roots2 = format!("gc {} {} {} {} {} {} {} {} {} {} {}", f, g, p, np, z, w, big, nbig, q, nq, vs[1]);
            let mut ask2 = |cx: &mut Ctx, a: usize, b: usize, c: usize| {
                cx.op(roots2.clone());
                cx_op!(cx, format!("itec {} {} {}", a, b, c));
                let said = cx.reply().to_string();
                cx.op(roots2.clone());
                let r = cx_op!(cx, format!("ite {} {} {}", a, b, c));
                let want = if cx.ex.env[r] == cx.ex.env[0] { "some1" } else if cx.ex.env[r] == cx.ex.env[1] { "some0" } else { "none" };
                if !said.starts_with("panic") && said != want {
                    let m = format!("ite_constant says {}, the ITE itself is {}", said, crate::exec::show_ref(cx.ex.env[r]));
                    cx.ex.fail(&["C12"], m);
                }
            };
            ask2(cx, p, big, nbig);
            ask2(cx, big, p, np);
            ask2(cx, p, q, nq);
            ask2(cx, q, big, nbig);
            // the same parity with and without the TOP variable: p2 = x2 ^ … ^ xn, so that the cofactors of the
            // other two arguments by x1 are p2 and its complement (both polarities of one triple in one walk)
            let p2 = cx_op!(cx, format!("xor {} {}", p, vs[1]));
            let np2 = cx_op!(cx, format!("not {}", p2));
            let roots3 = format!("gc {} {} {} {} {} {} {} {} {} {} {} {} {}", f, g, p, np, z, w, big, nbig, q, nq, p2, np2, vs[1]);
            let mut ask3 = |cx: &mut Ctx, a: usize, b: usize, c: usize| {
                cx.op(roots3.clone());
                cx_op!(cx, format!("itec {} {} {}", a, b, c));
                let said = cx.reply().to_string();
                cx.op(roots3.clone());
                let r = cx_op!(cx, format!("ite {} {} {}", a, b, c));
                let want = if cx.ex.env[r] == cx.ex.env[0] { "some1" } else if cx.ex.env[r] == cx.ex.env[1] { "some0" } else { "none" };
                if !said.starts_with("panic") && said != want {
                    let m = format!("ite_constant says {}, the ITE itself is {}", said, crate::exec::show_ref(cx.ex.env[r]));
                    cx.ex.fail(&["C12"], m);
                }
            };
            for &a in &[p2, np2] {
                for &(b, c) in &[(np, p), (p, np), (q, nq), (nbig, big)] {
                    ask3(cx, a, b, c);
                }
            }
            for &a in &[p, q] {
                ask3(cx, a, p2, np2);
                ask3(cx, a, np2, p2);
            }
        }
        cx.end();
    }
    // 2 + 2 + 2 for ITE
    let mut parts3: Vec<(Vec<u32>, Vec<u32>, Vec<u32>)> = vec![];
    for a in 0..64u32 {
        if a.count_ones() != 2 {
            continue;
        }
        for b in 0..64u32 {
            if b.count_ones() != 2 || a & b != 0 {
                continue;
            }
            let c = 63 & !(a | b);
            let set = |m: u32| -> Vec<u32> { (1..=6).filter(|v| (m >> (v - 1)) & 1 == 1).collect() };
            parts3.push((set(a), set(b), set(c)));
        }
    }
    let n3 = if cx.thorough { parts3.len() } else { 6 };
    for pi in 0..n3 {
        let p = if cx.thorough { parts3[pi].clone() } else { parts3[cx.rng.below(parts3.len() as u64) as usize].clone() };
        cx_begin!(cx, 6, format!("new 13 {} {}", 2 + pi % 4, 3 + pi % 5), 256);
        let mut memo = HashMap::new();
        let fs: Vec<usize> = (0..16u64).map(|t| build(cx, &mut memo, expand(t, &p.0))).collect();
        let gs: Vec<usize> = (0..16u64).map(|t| build(cx, &mut memo, expand(t, &p.1))).collect();
        let hs: Vec<usize> = (0..16u64).map(|t| build(cx, &mut memo, expand(t, &p.2))).collect();
        for f in 0..16 {
            for g in 0..16 {
                for h in 0..16 {
                    cx_op!(cx, format!("ite {} {} {}", fs[f], gs[g], hs[h]));
                    if (f + g + h) % 4 == 0 {
                        cx_op!(cx, format!("itec {} {} {}", fs[f], gs[g], hs[h]));
                    }
                }
            }
            cx.op("digest".into());
        }
        cx.end();
    }
}

/// random histories mixing every operation with collections — C01, C04, C05, C06, C07, C17 …
pub fn s_hist(cx: &mut Ctx) {
    let cases = if cx.thorough { 2500 } else { 40 };
    for ci in 0..cases {
        let n = 3 + cx.rng.below(4) as u32;
        let sb = 5 + cx.rng.below(6);
        let bb = cx.rng.below(4.min(sb));
        let cb = cx.rng.below(5);
        cx_begin!(cx, n, format!("new {} {} {}", sb, bb, cb), 1);
        let len = if cx.thorough { 600 } else { 250 };
        let mut vars = vec![];
        for v in 1..=n {
            vars.push(cx_op!(cx, format!("var {}", v)));
        }
        // a lazy paths() iterator that stays alive across other operations (its function is kept as a root)
        let mut open_it: Option<usize> = None;
        for step in 0..len {
            if let Some(_) = open_it {
                if cx.rng.chance(1, 3) {
                    cx.op("pathsi.next".into());
                    if cx.reply() == "end" {
                        // poll past the end once or twice more, then drop the iterator
                        for _ in 0..(1 + cx.rng.below(2)) {
                            cx.op("pathsi.next".into());
                        }
                        cx.op("pathsi.close".into());
                        open_it = None;
                    } else if cx.reply().starts_with("panic") || cx.reply() == "closed" {
                        open_it = None;
                    }
                }
            }
            let live = cx.live();
            let pick = |cx: &mut Ctx| -> usize {
                // prefer recent handles
                if cx.rng.chance(1, 2) && live.len() > 8 {
                    live[live.len() - 1 - cx.rng.below(8) as usize]
                } else {
                    *cx.rng.pick(&live)
                }
            };
            let (a, b, c) = (pick(cx), pick(cx), pick(cx));
            let v = 1 + cx.rng.below(n as u64 + 1);
            match cx.rng.below(43) {
                42 => {
                    let which = *cx.rng.pick(&["cache", "size", "storage"]);
                    let k = cx.rng.below(4);
                    let mut roots: Vec<usize> = (0..k).map(|_| pick(cx)).collect();
                    roots.extend(vars.iter().copied().filter(|&i| cx.ex.live[i]));
                    if let Some(h) = open_it {
                        roots.push(h);
                    }
                    let s: Vec<String> = roots.iter().map(|r| r.to_string()).collect();
                    cx_op!(cx, format!("heldgc {} {}", which, s.join(" ")));
                }
                40 | 41 => {
                    if open_it.is_none() {
                        cx_op!(cx, format!("pathsi.open {}", a));
                        if cx.reply() == "ok" {
                            open_it = Some(a);
                        }
                    } else if cx.rng.chance(1, 4) {
                        cx.op("pathsi.close".into());
                        open_it = None;
                    }
                }
                0..=6 => {
                    cx_op!(cx, format!("ite {} {} {}", a, b, c));
                }
                7..=11 => {
                    let op = *cx.rng.pick(&["and", "or", "xor", "eq", "imply"]);
                    cx_op!(cx, format!("{} {} {}", op, a, b));
                }
                12 => {
                    cx_op!(cx, format!("not {}", a));
                }
                13 => {
                    cx_op!(cx, format!("var {}", 1 + cx.rng.below(n as u64)));
                }
                14 => {
                    cx_op!(cx, format!("subst {} {} {}", a, v, cx.rng.below(2)));
                }
                15 => {
                    let lits = asc_lits(cx, n);
                    cx_op!(cx, format!("substm {} {}", a, lits));
                }
                16 => {
                    let lits = asc_lits(cx, n);
                    cx_op!(cx, format!("cofcube {} {}", a, lits));
                }
                17 | 18 => {
                    cx_op!(cx, format!("compose {} {} {}", a, v, b));
                }
                19 | 20 => {
                    cx_op!(cx, format!("constrain {} {}", a, b));
                }
                21 | 22 => {
                    cx_op!(cx, format!("restrict {} {}", a, b));
                }
                23 => {
                    cx_op!(cx, format!("itec {} {} {}", a, b, c));
                }
                24 => {
                    cx_op!(cx, format!("implies {} {}", a, b));
                }
                25 => {
                    cx_op!(cx, format!("satcount {} {}", a, n as u64 + cx.rng.below(70)));
                }
                26 => {
                    cx_op!(cx, format!("onesat {}", a));
                }
                27 => {
                    cx_op!(cx, format!("paths {}", a));
                }
                28 | 29 => {
                    cx_op!(cx, format!("size {}", a));
                }
                30 => {
                    cx_op!(cx, format!("desc {} {}", a, b));
                }
                31 => {
                    cx_op!(cx, format!("bracket {}", a));
                }
                32 => {
                    cx_op!(cx, format!("dot {} {} {}", a, b, a));
                }
                33 => {
                    let lits = any_lits(cx, n);
                    let op = if cx.rng.chance(1, 2) { "cube" } else { "clause" };
                    cx_op!(cx, format!("{} {}", op, lits));
                }
                34 => {
                    cx_op!(cx, format!("low {}", a));
                    cx_op!(cx, format!("high {}", a));
                    cx_op!(cx, format!("acc {}", b));
                    cx.op("debugfmt".into());
                }
                35 => {
                    let e = gen_expr(cx, &[a, b, c], 2);
                    cx_op!(cx, format!("expr {}", e));
                }
                _ => {
                    // collection with a random root subset (empty, duplicated, complemented, constant roots)
                    let k = match cx.rng.below(6) {
                        0 => 0,
                        1 => 1,
                        _ => 1 + cx.rng.below(6),
                    };
                    let mut roots: Vec<usize> = (0..k).map(|_| pick(cx)).collect();
                    if cx.rng.chance(1, 3) && !roots.is_empty() {
                        roots.push(roots[0]);
                    }
                    if cx.rng.chance(1, 4) {
                        roots.push(cx.rng.below(2) as usize);
                    }
                    if cx.rng.chance(1, 2) {
                        roots.extend(vars.iter().copied().filter(|&i| cx.ex.live[i]));
                    }
                    if let Some(h) = open_it {
                        roots.push(h);
                    }
                    let s: Vec<String> = roots.iter().map(|r| r.to_string()).collect();
                    cx_op!(cx, format!("gc {}", s.join(" ")));
                    cx.op("dump".into());
                }
            }
            if step % 8 == 0 {
                cx.op("digest".into());
            }
        }
        cx.end();
        if ci == 0 {
            cx.notes.push(format!("first history: {} vars, storage_bits {}, bucket_bits {}, cache_bits {}", n, sb, bb, cb));
        }
    }
}

fn asc_lits(cx: &mut Ctx, n: u32) -> String {
    let mut out = vec![];
    for v in 1..=n + 1 {
        if cx.rng.chance(1, 3) {
            out.push(if cx.rng.chance(1, 2) { v as i32 } else { -(v as i32) }.to_string());
        }
    }
    out.join(" ")
}

fn any_lits(cx: &mut Ctx, n: u32) -> String {
    let mut out: Vec<i32> = vec![];
    for v in 1..=n {
        if cx.rng.chance(1, 2) {
            out.push(if cx.rng.chance(1, 2) { v as i32 } else { -(v as i32) });
        }
    }
    // shuffle
    for i in (1..out.len()).rev() {
        let j = cx.rng.below(i as u64 + 1) as usize;
        out.swap(i, j);
    }
    out.iter().map(|l| l.to_string()).collect::<Vec<_>>().join(" ")
}

fn szudzik(a: u64, b: u64) -> u64 {
    if a < b {
        b.wrapping_mul(b).wrapping_add(a)
    } else {
        a.wrapping_mul(a).wrapping_add(a).wrapping_add(b)
    }
}

/// two different ITE keys (f,g,h), (f2,g2,h2) over raw references in 4..=maxraw with equal wrapped
/// 64-bit hashes, f/g/f2/g2 regular (the form the cache sees): solve (a-a2)(a+a2+1) = h2-h (mod 2^64)
fn find_ite_twins(rng: &mut crate::gen::Rng, maxraw: u64, ok: &dyn Fn(u64) -> bool) -> Option<([u64; 3], [u64; 3])> {
    let lim = (maxraw + 1) * (maxraw + 1);
    for _ in 0..40_000_000u64 {
        let d = (1u64 << 28) + rng.below((1u64 << 36) - (1u64 << 28));
        let t = 1 + rng.below((d >> 27).max(1)) as u128;
        let num = t << 64;
        let s = ((num + d as u128 - 1) / d as u128) as u128;
        let r = (d as u128 * s - num) as u64;
        if r >= maxraw || r == 0 || s >= (1u128 << 40) {
            continue;
        }
        let s = s as u64;
        if (d + s) % 2 == 0 || s <= d {
            continue;
        }
        let a = (s + d - 1) / 2;
        let a2 = (s - d - 1) / 2;
        if a >= lim || a2 >= lim {
            continue;
        }
        let (f, g) = unpair(a);
        let (f2, g2) = unpair(a2);
        if [f, g, f2, g2].iter().any(|&x| x % 2 == 1 || x < 4 || x > maxraw || !ok(x)) || f == g || f2 == g2 {
            continue;
        }
        // hash(a,h) - hash(a2,h2) = d*s + h - h2 = r + h - h2 (mod 2^64)
        for _ in 0..64 {
            let h = 4 + rng.below(maxraw - r - 4);
            let h2 = h + r;
            if h2 > maxraw || !ok(h) || !ok(h2) || [f, g].contains(&(h & !1)) || [f2, g2].contains(&(h2 & !1)) {
                continue;
            }
            debug_assert_eq!(szudzik(szudzik(f, g), h), szudzik(szudzik(f2, g2), h2));
            if szudzik(szudzik(f, g), h) == szudzik(szudzik(f2, g2), h2) {
                return Some(([f, g, h], [f2, g2, h2]));
            }
        }
    }
    None
}

/// a pair of raw references (first, second) whose pairing p makes p*p + p carry out of 64 bits after
/// the multiplication wrapped; `both_regular`: the ITE form (f, g regular), otherwise the node form
/// (low any, high regular)
fn find_carry_pair(rng: &mut crate::gen::Rng, maxraw: u64, both_regular: bool, ok: &dyn Fn(u64) -> bool) -> Option<(u64, u64)> {
    let mut budget: u64 = 3_000_000_000;
    while budget > 0 {
        let big = (maxraw * 3 / 4 + rng.below(maxraw / 4)) & !1;
        if !ok(big) {
            budget -= 1;
            continue;
        }
        let first_big = rng.chance(1, 2);
        let step = if both_regular || first_big { 2 } else { 1 };
        let mut small = 4u64;
        while small < big {
            let p = if first_big { big * big + big + small } else { big * big + small };
            if p.wrapping_mul(p).checked_add(p).is_none() && ok(small) {
                // (first, second): first >= second takes the x*x+x+y branch
                return Some(if first_big { (big, small) } else { (small, big) });
            }
            small += step;
        }
        budget = budget.saturating_sub(big / step);
    }
    None
}

/// default-size managers (2^20 cells) holding far more than 2^16 nodes: cell indices and references
/// beyond 16 and 17 bits, hash arithmetic that wraps, long runs of occupied cells, holes far apart,
/// diagrams whose nodes are 2^15 and 2^16 cells apart
pub fn s_huge(cx: &mut Ctx) {
    // the last thorough case: a 2^22-cell manager holding more than 2^20 nodes
    let cases = if cx.thorough { 4 } else { 1 };
    for ci in 0..cases {
        let nblocks: usize = if cx.thorough { [300, 650, 1000, 2600][ci] } else { 280 };
        let bits = if ci == 3 { 22 } else { 20 };
        const BLOCK: usize = 512;
        let t_start = std::time::Instant::now();
        let lap = |what: &str| {
            if std::env::var("VERIF_TIMING").is_ok() {
                eprintln!("huge: {} at {:.1}s", what, t_start.elapsed().as_secs_f64());
            }
        };
        cx.ex.begin_case();
        cx.ex.tt = None;
        cx.ex.scan_every = 1_000_000_000;
        cx_op!(cx, format!("newdefault {}", bits));
        let nv = 40u64;
        let mut vars = vec![];
        for v in 1..=nv {
            vars.push(cx_op!(cx, format!("var {}", v)));
        }
        // nodes nothing else will refer to, at low cell indices (holes after the collection)
        let mut orphan_pairs: Vec<(usize, usize)> = vec![];
        for a in 20..40usize {
            for b in (a + 1)..40usize {
                orphan_pairs.push((a, b));
            }
        }
        let mut next_orphan = 0usize;
        let mut low_orphans = vec![];
        for _ in 0..64 {
            let (a, b) = orphan_pairs[next_orphan];
            next_orphan += 1;
            low_orphans.push(cx_op!(cx, format!("xor {} {}", vars[a], vars[b])));
        }
        // small structured functions at low cell indices: triples (f, g, h) with f <= g and ~f <= h,
        // whose ITE is the constant true without any terminal case applying at the top
        let mut structured: Vec<usize> = vec![];
        let mut const_triples: Vec<(usize, usize, usize)> = vec![];
        {
            let mut made = 0;
            'outer: for a in 8..40usize {
                for b in (a + 1)..40usize {
                    let p = cx_op!(cx, format!("and {} {}", vars[a], vars[b]));
                    let q = cx_op!(cx, format!("or {} {}", vars[a], vars[b]));
                    let np = cx_op!(cx, format!("not {}", p));
                    let nq = cx_op!(cx, format!("not {}", q));
                    structured.extend([p, q]);
                    let mut above = vec![np]; // functions >= ~p
                    let mut below = vec![];   // functions <= p
                    for k in 0..8usize {
                        let c = 8 + (a + b + 5 * k) % 32;
                        if c != a && c != b {
                            let r = cx_op!(cx, format!("and {} {}", p, vars[c]));
                            let nr = cx_op!(cx, format!("not {}", r));
                            structured.push(r);
                            above.push(nr);
                            below.push(r);
                        }
                    }
                    let na = cx_op!(cx, format!("not {}", vars[a]));
                    let nb = cx_op!(cx, format!("not {}", vars[b]));
                    // ITE(p, g, h) = 1 when p <= g and ~p <= h
                    for &g in &[q, vars[a], vars[b]] {
                        for &h in &above {
                            const_triples.push((p, g, h));
                        }
                    }
                    // ITE(p, g, h) = 0 when p & g = 0 and ~p & h = 0
                    for &g in &[nq, na, nb] {
                        for &h in &below {
                            const_triples.push((p, g, h));
                        }
                    }
                    made += 1;
                    if made >= 400 {
                        break 'outer;
                    }
                }
            }
        }
        // filler: blocks of 512 nodes, variables 40 down to 9 inside a block, children from the same block
        let mut tops: Vec<usize> = vec![];
        let mut filler: Vec<usize> = vec![];
        for _ in 0..nblocks {
            let mut block: Vec<(usize, u64)> = vec![]; // (handle, variable)
            for j in 0..BLOCK {
                let v = nv - (j as u64 * 32 / BLOCK as u64); // 40 .. 9
                let cands: Vec<usize> = block.iter().filter(|e| e.1 > v).map(|e| e.0).collect();
                let pickc = |cx: &mut Ctx| -> usize {
                    if cands.is_empty() || cx.rng.chance(1, 12) {
                        cx.rng.below(2) as usize // a terminal
                    } else if cx.rng.chance(1, 2) && cands.len() > 16 {
                        cands[cands.len() - 1 - cx.rng.below(16) as usize]
                    } else {
                        *cx.rng.pick(&cands)
                    }
                };
                let (lo, hi) = (pickc(cx), pickc(cx));
                if lo == hi {
                    continue;
                }
                let h = cx_op!(cx, format!("node {} {} {}", v, lo, hi));
                if cx.reply().starts_with("r ") {
                    block.push((h, v));
                    filler.push(h);
                }
            }
            if let Some(e) = block.last() {
                tops.push(e.0);
            }
        }
        let mut high_orphans = vec![];
        for _ in 0..64 {
            let (a, b) = orphan_pairs[next_orphan];
            next_orphan += 1;
            high_orphans.push(cx_op!(cx, format!("xor {} {}", vars[a], vars[b])));
        }
        lap("filler built");
        cx.op("digest".into());
        cx.ex.scan(false);
        lap("first scan");
        // (a) counting and sizes over diagrams whose nodes lie in blocks far apart
        let rounds = if cx.thorough { 60 } else { 25 };
        let top_idx: Vec<u64> = tops.iter().map(|&h| cx.ex.env[h].index() as u64).collect();
        for k in 0..rounds {
            // two blocks whose cells are 2^15, 2^16, 2^17 (or a random distance) apart
            let delta = [1u64 << 15, 1 << 16, 1 << 17, 3 << 15, 0][k % 5];
            let i = cx.rng.below(tops.len() as u64 / 2) as usize;
            let j = if delta == 0 {
                tops.len() - 1 - cx.rng.below(tops.len() as u64 / 3) as usize
            } else {
                let want = top_idx[i] + delta;
                (0..tops.len()).min_by_key(|&j| (top_idx[j] as i64 - want as i64).abs()).unwrap()
            };
            if i == j {
                continue;
            }
            let (a, b) = (tops[i], tops[j]);
            let f = match k % 3 {
                0 => cx_op!(cx, format!("node 1 {} {}", a, b)),
                1 => cx_op!(cx, format!("ite {} {} {}", vars[1], b, a)),
                _ => cx_op!(cx, format!("xor {} {}", a, b)),
            };
            if !cx.reply().starts_with("r ") {
                continue;
            }
            cx_op!(cx, format!("satcount {} {}", f, nv + cx.rng.below(30)));
            cx_op!(cx, format!("size {}", f));
            cx_op!(cx, format!("onesat {}", f));
            cx_op!(cx, format!("desc {}", f));
            if k % 3 == 0 {
                cx_op!(cx, format!("bracket {}", f));
                cx_op!(cx, format!("dot {}", f));
            }
            if k % 5 == 0 {
                cx_op!(cx, format!("satcount {} {}", a, nv));
                cx_op!(cx, format!("not {}", f));
                let nf = cx.ex.env.len() - 1;
                cx_op!(cx, format!("satcount {} {}", nf, nv + 1));
            }
        }
        cx.op("digest".into());
        // (a2) arguments whose cells are EXACTLY 2^15 / 2^16 / 2^17 apart (the lower index with that bit
        // clear), as the two cofactors of one argument of compose / constrain / restrict / ITE
        {
            let mut cell: HashMap<u64, (usize, bool)> = HashMap::new();
            for &h in filler.iter() {
                let r = cx.ex.env[h];
                cell.entry(r.index() as u64).or_insert((h, r.is_negated()));
            }
            let regular = |cx: &mut Ctx, i: u64| -> usize {
                let (h, neg) = cell[&i];
                if neg {
                    cx_op!(cx, format!("not {}", h))
                } else {
                    h
                }
            };
            let maxidx = cell.keys().copied().max().unwrap_or(0);
            let f1 = cx_op!(cx, format!("xor {} {}", vars[0], vars[1]));
            let f2 = cx_op!(cx, format!("eq {} {}", vars[1], vars[2]));
            let f3 = cx_op!(cx, format!("ite {} {} {}", vars[0], vars[2], vars[1]));
            let tries = if cx.thorough { 12 } else { 4 };
            for bit in [15u32, 16, 17] {
                let delta = 1u64 << bit;
                let mut done = 0;
                for _ in 0..2000 {
                    if done >= tries {
                        break;
                    }
                    let a = 100 + cx.rng.below(maxidx.saturating_sub(delta + 100).max(1));
                    if a & delta != 0 || !cell.contains_key(&a) || !cell.contains_key(&(a + delta)) {
                        continue;
                    }
                    done += 1;
                    let (ha, hb) = (regular(cx, a), regular(cx, a + delta));
                    let g = cx_op!(cx, format!("node 1 {} {}", ha, hb));
                    let g2 = cx_op!(cx, format!("node 2 {} {}", hb, ha));
                    for &f in &[f1, f2, f3] {
                        cx_op!(cx, format!("compose {} 2 {}", f, g));
                        cx_op!(cx, format!("compose {} 1 {}", f, g2));
                    }
                    cx_op!(cx, format!("compose {} 1 {}", g, f2));
                    // … and with the far-apart nodes inside the FIRST argument, below its top variable and above
                    // the substituted variable, the substituted function independent of that top variable (both
                    // nodes are met with the same second argument)
                    if vars.len() >= 6 {
                        let nvv = vars.len();
                        let hd = cx_op!(cx, format!("xor {} {}", vars[nvv - 1], vars[nvv - 3]));
                        for &gg in &[g, g2] {
                            cx_op!(cx, format!("compose {} {} {}", gg, nvv, hd));
                            cx_op!(cx, format!("compose {} {} {}", gg, nvv - 1, hd));
                            cx_op!(cx, format!("compose {} {} {}", gg, nvv / 2 + 1, vars[nvv - 2]));
                            cx_op!(cx, format!("subst {} {} 1", gg, nvv));
                        }
                    }
                    cx_op!(cx, format!("constrain {} {}", f1, g));
                    cx_op!(cx, format!("restrict {} {}", f3, g));
                    cx_op!(cx, format!("constrain {} {}", g, f1));
                    cx_op!(cx, format!("restrict {} {}", g2, f2));
                    cx_op!(cx, format!("ite {} {} {}", f1, g, g2));
                    cx_op!(cx, format!("itec {} {} {}", f1, g, g2));
                    cx_op!(cx, format!("subst {} 1 1", g));
                    cx_op!(cx, format!("size {}", g));
                }
            }
        }
        lap("counting done");
        // (b) a collection that keeps the whole filler: holes only at the bottom and at the top, a run of
        // more than 2^16 occupied cells in between; then allocations that must find both groups of holes
        // a diagram of several thousand nodes that survives the collection …
        // (a selector tree over variables 3..8 with 64 block tops as leaves: some 20 000 nodes)
        let mut level: Vec<usize> = tops.iter().copied().take(64).collect();
        let mut sv = 8u64;
        while level.len() > 1 && sv >= 3 {
            let mut nxt = vec![];
            for pair in level.chunks(2) {
                if pair.len() == 2 && cx.ex.env[pair[0]] != cx.ex.env[pair[1]] {
                    nxt.push(cx_op!(cx, format!("node {} {} {}", sv, pair[0], pair[1])));
                } else {
                    nxt.push(pair[0]);
                }
            }
            level = nxt;
            sv -= 1;
        }
        let bigf = level[0];
        let bigg = cx_op!(cx, format!("not {}", tops[tops.len() - 1]));
        let mut roots: Vec<String> = vars.iter().map(|h| h.to_string()).collect();
        roots.extend(filler.iter().map(|h| h.to_string()));
        roots.extend(structured.iter().map(|h| h.to_string()));
        roots.push(bigf.to_string());
        roots.push(bigg.to_string());
        cx_op!(cx, format!("gc {}", roots.join(" ")));
        // … and young parents over it in the freed LOW cells (parent index below child index)
        {
            let p1 = cx_op!(cx, format!("node 2 1 {}", bigf));
            let p2 = cx_op!(cx, format!("node 1 {} {}", bigg, p1));
            for &p in &[p1, p2] {
                cx_op!(cx, format!("size {}", p));
                cx_op!(cx, format!("satcount {} {}", p, nv));
                cx_op!(cx, format!("satcount {} {}", p, nv + 9));
                cx_op!(cx, format!("onesat {}", p));
                cx_op!(cx, format!("desc {}", p));
            }
            cx_op!(cx, format!("dot {}", p2));
            cx_op!(cx, format!("bracket {}", p1));
            // a further collection in which the old diagram (high cells) is reachable only through its
            // young parents (low cells), in a table that has been used beyond 2^16 cells
            let mut roots2: Vec<String> = vars.iter().map(|h| h.to_string()).collect();
            roots2.extend(filler.iter().map(|h| h.to_string()));
            roots2.extend(structured.iter().map(|h| h.to_string()));
            roots2.push(p2.to_string());
            cx_op!(cx, format!("gc {}", roots2.join(" ")));
            for &p in &[p2, p1, bigf] {
                cx_op!(cx, format!("size {}", p));
                cx_op!(cx, format!("satcount {} {}", p, nv));
            }
            // rebuild the top of the old diagram by another route: the identical handle
            cx_op!(cx, format!("node 2 1 {}", bigf));
        }
        lap("gc done");
        cx.op("digest".into());
        cx.ex.scan(true);
        lap("scan after gc");
        for k in 0..100usize {
            let (a, b) = orphan_pairs[(next_orphan + k) % orphan_pairs.len()];
            cx_op!(cx, format!("xor {} {}", vars[a], vars[b]));
            if k % 16 == 15 {
                cx.op("digest".into());
            }
        }
        cx.op("digest".into());
        cx.ex.scan(false);
        lap("holes refilled");
        // (c) constructed hash events over the references that exist here
        // cell index -> (a handle of that cell, whether the handle is complemented)
        let mut by_idx: HashMap<u64, (usize, bool)> = HashMap::new();
        for &h in filler.iter().chain(vars.iter()).chain(structured.iter()) {
            if cx.ex.live[h] {
                let r = cx.ex.env[h];
                by_idx.entry(r.index() as u64).or_insert((h, r.is_negated()));
            }
        }
        let maxraw = by_idx.keys().copied().max().unwrap_or(2) * 2 + 1;
        let have = |raw: u64| by_idx.contains_key(&(raw >> 1));
        // the handle of a raw reference (a `not` line when it is complemented)
        let handle_of = |cx: &mut Ctx, raw: u64| -> usize {
            let (h, neg) = by_idx[&(raw >> 1)];
            if (raw & 1 == 1) != neg {
                cx_op!(cx, format!("not {}", h))
            } else {
                h
            }
        };
        let twin_rounds = if cx.thorough { 12 } else { 4 };
        let mut twins_found = 0;
        for _ in 0..twin_rounds {
            if let Some((k1, k2)) = find_ite_twins(&mut cx.rng, maxraw, &have) {
                twins_found += 1;
                let h1: Vec<usize> = k1.iter().map(|&r| handle_of(cx, r)).collect();
                let h2: Vec<usize> = k2.iter().map(|&r| handle_of(cx, r)).collect();
                cx_op!(cx, format!("ite {} {} {}", h1[0], h1[1], h1[2]));
                cx_op!(cx, format!("ite {} {} {}", h2[0], h2[1], h2[2]));
                cx_op!(cx, format!("ite {} {} {}", h1[0], h1[1], h1[2]));
                cx_op!(cx, format!("itec {} {} {}", h1[0], h1[1], h1[2]));
                cx_op!(cx, format!("itec {} {} {}", h2[0], h2[1], h2[2]));
                // both triples as the two cofactors of one query
                let f = cx_op!(cx, format!("node 1 {} {}", h2[0], h1[0]));
                let g = cx_op!(cx, format!("node 1 {} {}", h2[1], h1[1]));
                let h = cx_op!(cx, format!("node 1 {} {}", h2[2], h1[2]));
                cx_op!(cx, format!("itec {} {} {}", f, g, h));
                cx_op!(cx, format!("ite {} {} {}", f, g, h));
            }
        }
        lap("twins done");
        let carry_rounds = if cx.thorough { 6 } else { 2 };
        let mut carries = 0;
        for _ in 0..carry_rounds {
            if let Some((f, g)) = find_carry_pair(&mut cx.rng, maxraw, false, &have) {
                carries += 1;
                let (hf, hg) = (handle_of(cx, f), handle_of(cx, g));
                let hh = *cx.rng.pick(&tops);
                cx_op!(cx, format!("ite {} {} {}", hf, hg, hh));
                cx_op!(cx, format!("and {} {}", hf, hg));
            }
            if let Some((lo, hi)) = find_carry_pair(&mut cx.rng, maxraw, true, &have) {
                carries += 1;
                let (hlo, hhi) = (handle_of(cx, lo), handle_of(cx, hi));
                cx_op!(cx, format!("node {} {} {}", 1 + cx.rng.below(8), hlo, hhi));
            }
        }
        // (d) a triple whose ITE is constant and a hash twin of it that is not, as the two cofactors
        // of one ite_constant query
        let mut mixed = 0;
        'cands: for &(f, g, h) in &const_triples {
            if mixed >= 3 || !(cx.ex.live[f] && cx.ex.live[g] && cx.ex.live[h]) {
                continue;
            }
            let raw = |cx: &Ctx, x: usize| crate::exec::raw_of(cx.ex.env[x]);
            let (rf, rg, rh) = (raw(cx, f), raw(cx, g), raw(cx, h));
            let a = szudzik(rf, rg);
            if a < rh {
                continue;
            }
            let hash1 = (a as u128) * (a as u128) + a as u128 + rh as u128;
            if hash1 >> 64 != 0 {
                continue;
            }
            for t in 1u128..=((maxraw as u128 + 1).pow(4) >> 64) {
                let n = hash1 + (t << 64);
                // largest a2 with a2*a2 + a2 <= n
                let mut a2 = ((n as f64).sqrt()) as u128;
                while a2 * a2 + a2 > n {
                    a2 -= 1;
                }
                while (a2 + 1) * (a2 + 1) + (a2 + 1) <= n {
                    a2 += 1;
                }
                let h2 = n - a2 * a2 - a2;
                if h2 < 4 || h2 > maxraw as u128 || a2 >= (maxraw as u128 + 1) * (maxraw as u128 + 1) {
                    continue;
                }
                let (f2, g2) = unpair(a2 as u64);
                let h2 = h2 as u64;
                if f2 < 4 || g2 < 4 || f2 > maxraw || g2 > maxraw || !have(f2) || !have(g2) || !have(h2) || f2 == g2 {
                    continue;
                }
                if szudzik(szudzik(f2, g2), h2) != szudzik(szudzik(rf, rg), rh) {
                    continue;
                }
                let (hf2, hg2, hh2) = (handle_of(cx, f2), handle_of(cx, g2), handle_of(cx, h2));
                cx_op!(cx, format!("itec {} {} {}", f, g, h));
                cx_op!(cx, format!("itec {} {} {}", hf2, hg2, hh2));
                let ff = cx_op!(cx, format!("node 1 {} {}", hf2, f));
                let gg = cx_op!(cx, format!("node 1 {} {}", hg2, g));
                let hh = cx_op!(cx, format!("node 1 {} {}", hh2, h));
                cx_op!(cx, format!("itec {} {} {}", ff, gg, hh));
                // the other order: the twin on the x1 = 1 side
                let ff2 = cx_op!(cx, format!("node 1 {} {}", f, hf2));
                let gg2 = cx_op!(cx, format!("node 1 {} {}", g, hg2));
                let hh3 = cx_op!(cx, format!("node 1 {} {}", h, hh2));
                cx_op!(cx, format!("itec {} {} {}", ff2, gg2, hh3));
                cx_op!(cx, format!("ite {} {} {}", ff, gg, hh));
                mixed += 1;
                continue 'cands;
            }
        }
        cx.op("digest".into());
        cx.ex.scan(false);
        lap("carries done");
        cx.notes.push(format!("case {}: {} filler nodes, {} ITE hash twins, {} carrying keys, {} constant/non-constant twin queries; largest reference {}", ci, filler.len(), twins_found, carries, mixed, maxraw));
        cx.end();
    }
}

/// many variables and long argument lists (32, 33, 64, 65, 128, 129 … entries): cubes, clauses, n-ary
/// folds, substitution maps, cofactor cubes, care-set cubes, root lists. The entry points that must
/// agree are compared as handles (canonicity makes that exact): cube = and_many = iterated and;
/// substitute_multi = cofactor_cube = iterated substitute = constrain/restrict by the cube
pub fn s_wide(cx: &mut Ctx) {
    let cases = if cx.thorough { 60 } else { 5 };
    for ci in 0..cases {
        let n = [40usize, 66, 100, 130, 200][ci % 5];
        cx.ex.begin_case();
        cx.ex.tt = None;
        cx.ex.scan_every = 97;
        cx_op!(cx, format!("new {} {} {}", 15 + ci % 3, 6 + ci % 5, 8 + ci % 4));
        let mut v = vec![0usize];
        let mut nv = vec![0usize];
        for i in 1..=n {
            v.push(cx_op!(cx, format!("var {}", i)));
        }
        for i in 1..=n {
            nv.push(cx_op!(cx, format!("not {}", v[i])));
        }
        let same = |cx: &mut Ctx, a: usize, b: usize, props: &[&'static str], what: &str| {
            if cx.ex.env[a] != cx.ex.env[b] {
                let m = format!("{}: h{} = {} but h{} = {}", what, a, crate::exec::show_ref(cx.ex.env[a]), b, crate::exec::show_ref(cx.ex.env[b]));
                cx.ex.fail(props, m);
            }
        };
        let rounds = if cx.thorough { 12 } else { 6 };
        for round in 0..rounds {
            let k = [32usize, 33, 34, 63, 64, 65, 100, 128, 129][(ci + round) % 9].min(n - 2);
            // k distinct variables with signs
            let mut pool: Vec<usize> = (1..=n).collect();
            for i in (1..pool.len()).rev() {
                let j = cx.rng.below(i as u64 + 1) as usize;
                pool.swap(i, j);
            }
            let mut lits: Vec<i64> = pool[..k].iter().map(|&x| if cx.rng.chance(1, 2) { x as i64 } else { -(x as i64) }).collect();
            let shuffled: Vec<String> = lits.iter().map(|l| l.to_string()).collect();
            lits.sort_by_key(|l| l.unsigned_abs());
            let asc: Vec<String> = lits.iter().map(|l| l.to_string()).collect();
            let lit_h = |l: i64| -> usize { if l > 0 { v[l as usize] } else { nv[(-l) as usize] } };
            // cube three ways, clause three ways
            let c1 = cx_op!(cx, format!("cube {}", shuffled.join(" ")));
            let hs: Vec<String> = shuffled.iter().map(|s| lit_h(s.parse().unwrap()).to_string()).collect();
            let c2 = cx_op!(cx, format!("andmany {}", hs.join(" ")));
            let mut c3 = lit_h(lits[k - 1]);
            for i in (0..k - 1).rev() {
                c3 = cx_op!(cx, format!("and {} {}", lit_h(lits[i]), c3));
            }
            same(cx, c1, c2, &["C15", "C03", "C01"], "cube vs apply_and_many of its literals");
            same(cx, c1, c3, &["C15", "C03", "C01"], "cube vs iterated apply_and");
            let d1 = cx_op!(cx, format!("clause {}", shuffled.join(" ")));
            let d2 = cx_op!(cx, format!("ormany {}", hs.join(" ")));
            same(cx, d1, d2, &["C15", "C03", "C01"], "clause vs apply_or_many of its literals");
            cx_op!(cx, format!("satcount {} {}", c1, n));
            cx_op!(cx, format!("satcount {} {}", d1, n + 3));
            cx_op!(cx, format!("onesat {}", c1));
            cx_op!(cx, format!("paths {}", c1));
            cx_op!(cx, format!("size {}", c1));
            cx_op!(cx, format!("size {}", d1));
            if k <= 66 {
                cx_op!(cx, format!("paths {}", d1));
            }
            // a function with wide support: a few products over random variables, xor-ed / or-ed
            let mut f = cx.rng.below(2) as usize;
            for t in 0..4 {
                let w = 3 + cx.rng.below(30) as usize;
                let mut term: Vec<String> = vec![];
                for _ in 0..w {
                    let x = 1 + cx.rng.below(n as u64) as usize;
                    term.push(if cx.rng.chance(1, 2) { v[x] } else { nv[x] }.to_string());
                }
                let p = cx_op!(cx, format!("andmany {}", term.join(" ")));
                f = cx_op!(cx, format!("{} {} {}", if t % 2 == 0 { "or" } else { "xor" }, f, p));
            }
            // the substitution four ways
            let r1 = cx_op!(cx, format!("substm {} {}", f, asc.join(" ")));
            let r2 = cx_op!(cx, format!("cofcube {} {}", f, asc.join(" ")));
            let mut r3 = f;
            for &l in &lits {
                r3 = cx_op!(cx, format!("subst {} {} {}", r3, l.unsigned_abs(), if l > 0 { 1 } else { 0 }));
            }
            same(cx, r1, r2, &["C08"], "substitute_multi vs cofactor_cube");
            same(cx, r1, r3, &["C08"], "substitute_multi vs iterated substitute");
            let r4 = cx_op!(cx, format!("constrain {} {}", f, c1));
            same(cx, r1, r4, &["C10", "C08"], "constrain by a cube vs the cofactor");
            let r5 = cx_op!(cx, format!("restrict {} {}", f, c1));
            same(cx, r1, r5, &["C11", "C08"], "restrict by a cube vs the cofactor");
            // composition with a literal is a substitution of a function that is then fixed
            let x = lits[0].unsigned_abs() as usize;
            let r6 = cx_op!(cx, format!("compose {} {} {}", f, x, if lits[0] > 0 { 0 } else { 1 }));
            let r7 = cx_op!(cx, format!("subst {} {} {}", f, x, if lits[0] > 0 { 1 } else { 0 }));
            same(cx, r6, r7, &["C09", "C08"], "compose with a constant vs substitute");
            cx_op!(cx, format!("size {}", f));
            cx_op!(cx, format!("bracket {}", r1));
            cx_op!(cx, format!("dot {} {} {}", f, c1, d1));
            cx_op!(cx, format!("desc {} {} {}", f, c1, r1));
            // a collection with a long root list (every variable, every literal, this round's results)
            if round % 2 == 1 {
                let mut roots: Vec<String> = v[1..].iter().chain(nv[1..].iter()).map(|h| h.to_string()).collect();
                roots.extend([f, c1, d1, r1].iter().map(|h| h.to_string()));
                cx_op!(cx, format!("gc {}", roots.join(" ")));
                cx.op("digest".into());
            }
        }
        cx.end();
        if ci == 0 {
            cx.notes.push("list lengths 32, 33, 34, 63, 64, 65, 100, 128, 129 over 40–200 variables".into());
        }
    }
}

/// chain-shaped diagrams of every "round" depth: cubes, clauses and parity chains of L variables for
/// L at and around powers of two, powers of ten and multiples of 100 up to 1300 (plus every L up to 40),
/// with random signs: counting with n = L, L+1 and more, one_sat, paths, size, exports
pub fn s_deep(cx: &mut Ctx) {
    let mut lens: Vec<usize> = (1..=40).collect();
    for k in 5..=10 {
        lens.extend([(1usize << k) - 1, 1 << k, (1 << k) + 1]);
    }
    for j in 1..=13 {
        lens.extend([100 * j - 1, 100 * j, 100 * j + 1]);
    }
    lens.extend([255, 256, 257, 1023, 1024, 1025, 1299, 1300]);
    lens.sort();
    lens.dedup();
    let maxl = 1302usize;
    let reps = if cx.thorough { 4 } else { 1 };
    for rep in 0..reps {
        cx.ex.begin_case();
        cx.ex.tt = None;
        cx.ex.scan_every = 1_000_000_000;
        cx_op!(cx, format!("new {} {} {}", 18, 10 + rep, 10 + rep));
        let mut v = vec![0usize];
        for i in 1..=maxl {
            v.push(cx_op!(cx, format!("var {}", i)));
        }
        for (li, &l) in lens.iter().enumerate() {
            // variables 1..=l or a random ascending selection of l variables out of 1..=1300
            let vars: Vec<usize> = if li % 3 == 0 && l < 1000 {
                let mut pool: Vec<usize> = (1..=1300).collect();
                for i in (1..pool.len()).rev() {
                    let j = cx.rng.below(i as u64 + 1) as usize;
                    pool.swap(i, j);
                }
                let mut s: Vec<usize> = pool[..l].to_vec();
                s.sort();
                s
            } else {
                (1..=l).collect()
            };
            let top = *vars.last().unwrap();
            let signs: Vec<bool> = (0..l).map(|i| match (li + rep) % 4 { 0 => true, 1 => i + 1 != l, 2 => cx.rng.chance(1, 2), _ => cx.rng.chance(7, 8) }).collect();
            let lits: Vec<String> = (0..l).map(|i| if signs[i] { vars[i].to_string() } else { format!("-{}", vars[i]) }).collect();
            let c = cx_op!(cx, format!("cube {}", lits.join(" ")));
            let d = cx_op!(cx, format!("clause {}", lits.join(" ")));
            for &f in &[c, d] {
                cx_op!(cx, format!("satcount {} {}", f, top));
                cx_op!(cx, format!("satcount {} {}", f, top + 1));
                cx_op!(cx, format!("satcount {} {}", f, maxl + 7));
                cx_op!(cx, format!("onesat {}", f));
                cx_op!(cx, format!("size {}", f));
            }
            cx_op!(cx, format!("paths {}", c));
            if l <= 130 {
                cx_op!(cx, format!("paths {}", d));
            }
            let nc = cx_op!(cx, format!("not {}", c));
            cx_op!(cx, format!("satcount {} {}", nc, top));
            cx_op!(cx, format!("onesat {}", nc));
            if l <= 130 {
                cx_op!(cx, format!("paths {}", nc));
            }
            if l <= 300 {
                cx_op!(cx, format!("bracket {}", c));
                cx_op!(cx, format!("dot {}", c));
            }
            // a parity chain (two nodes per level but one, both polarities of every sub-function)
            if l <= 257 || l % 100 == 0 {
                let mut x = v[vars[l - 1]];
                for i in (0..l - 1).rev() {
                    x = cx_op!(cx, format!("xor {} {}", v[vars[i]], x));
                }
                cx_op!(cx, format!("satcount {} {}", x, top));
                cx_op!(cx, format!("satcount {} {}", x, top + 2));
                cx_op!(cx, format!("onesat {}", x));
                cx_op!(cx, format!("size {}", x));
            }
            if li % 16 == 15 {
                let roots: Vec<String> = v[1..].iter().map(|h| h.to_string()).collect();
                cx_op!(cx, format!("gc {}", roots.join(" ")));
                cx.op("digest".into());
            }
        }
        cx.end();
    }
    // diagrams deeper than 2^16 and 2^17 levels, built bottom-up with mk_node (the recursive operations
    // would exhaust the native stack): x1 ∧ … ∧ xL ∧ (x(L+1) ∨ x(L+2)) and a variant with branching
    // nodes spread along the chain; only the iterative queries are asked
    let depths: &[usize] = if cx.thorough { &[65534, 65535, 65536, 65537, 70000, 131073] } else { &[65537] };
    for (di, &l) in depths.iter().enumerate() {
        cx.ex.begin_case();
        cx.ex.tt = None;
        cx.ex.scan_every = 1_000_000_000;
        cx_op!(cx, format!("new {} 12 6", if l > 100_000 { 19 } else { 18 }));
        let a = cx_op!(cx, format!("var {}", l + 2));
        let mut prev = cx_op!(cx, format!("node {} {} 0", l + 1, a)); // x(L+1) ∨ x(L+2)
        for v in (1..=l).rev() {
            // mostly "x_v ∧ rest"; every 9973rd level (variant 1) "x_v ∨ rest" or "¬x_v ∧ rest"
            let line = if di % 2 == 1 && v % 9973 == 0 {
                format!("node {} {} 0", v, prev)
            } else if di % 2 == 1 && v % 7919 == 0 {
                format!("node {} {} 1", v, prev)
            } else {
                format!("node {} 1 {}", v, prev)
            };
            prev = cx.op(line);
        }
        cx_op!(cx, format!("size {}", prev));
        cx_op!(cx, format!("paths {}", prev));
        cx_op!(cx, format!("pathsi.open {}", prev));
        cx.op("pathsi.next".into());
        cx.op("pathsi.next".into());
        cx.op("pathsi.next".into());
        cx.op("pathsi.close".into());
        cx_op!(cx, format!("desc {}", prev));
        cx.op("digest".into());
        cx.end();
    }
    cx.notes.push(format!("{} chain lengths up to 1300; bottom-up chains of {:?} levels", lens.len(), depths));
}

/// boundary values of the variable type (`u32`; literals are `i32`)
const VAR_POOL: &[u64] = &[
    1, 2, 3, 7, 1 << 15, 1 << 16, (1 << 16) + 1, (1 << 30) - 1, 1 << 30, (1 << 30) + 1, (1 << 31) - 2, (1 << 31) - 1, 1 << 31, (1 << 31) + 1, (1 << 31) + 5,
    3 << 30, 4_000_000_000, (1 << 32) - 2, (1 << 32) - 1,
];

/// histories like `hist`, over variables numbered at the limits of `u32` / `i32` instead of 1..n:
/// the truth-table oracle works on positions, `vmap` tells it which number each position carries
pub fn s_hugevar(cx: &mut Ctx) {
    let cases = if cx.thorough { 2500 } else { 60 };
    for ci in 0..cases {
        let n = 2 + cx.rng.below(4) as usize;
        // i32-safe cases may use the literal-based operations as well
        let safe = ci % 3 == 0;
        let pool: Vec<u64> = VAR_POOL.iter().copied().filter(|&v| !safe || v < (1 << 31)).collect();
        let mut vm: Vec<u64> = vec![];
        while vm.len() < n + 1 {
            let v = if cx.rng.chance(1, 6) { 1 + cx.rng.below(if safe { (1 << 31) - 1 } else { (1 << 32) - 1 }) } else { *cx.rng.pick(&pool) };
            if !vm.contains(&v) {
                vm.push(v);
            }
        }
        let outside = vm.pop().unwrap();
        if safe && ci % 2 == 0 && !vm.contains(&((1 << 31) - 1)) && outside != (1 << 31) - 1 {
            vm[0] = (1 << 31) - 1; // the largest variable a literal can name
        }
        vm.sort();
        let sb = 5 + cx.rng.below(6);
        let bb = cx.rng.below(4.min(sb));
        let cb = cx.rng.below(5);
        cx.ex.begin_case();
        cx.ex.scan_every = 1;
        cx.ex.tt = None;
        cx_op!(cx, format!("vmap {}", vm.iter().map(|v| v.to_string()).collect::<Vec<_>>().join(" ")));
        if ci % 7 == 3 {
            cx_op!(cx, format!("newdefault {}", 10 + cx.rng.below(6)));
        } else {
            cx_op!(cx, format!("new {} {} {}", sb, bb, cb));
        }
        let len = if cx.thorough { 400 } else { 200 };
        let mut vars = vec![];
        for &v in &vm {
            vars.push(cx_op!(cx, format!("var {}", v)));
        }
        // position (1..=n+1, the last one outside the universe) -> number
        let num = |p: usize| -> u64 { if p <= n { vm[p - 1] } else { outside } };
        for step in 0..len {
            let live = cx.live();
            let pick = |cx: &mut Ctx| -> usize {
                if cx.rng.chance(1, 2) && live.len() > 8 {
                    live[live.len() - 1 - cx.rng.below(8) as usize]
                } else {
                    *cx.rng.pick(&live)
                }
            };
            let (a, b, c) = (pick(cx), pick(cx), pick(cx));
            let v = num(1 + cx.rng.below(n as u64 + 1) as usize);
            let lits = |cx: &mut Ctx, shuffle: bool, upto: usize| -> String {
                let mut out: Vec<i64> = vec![];
                for p in 1..=upto {
                    if cx.rng.chance(1, 2) {
                        out.push(if cx.rng.chance(1, 2) { num(p) as i64 } else { -(num(p) as i64) });
                    }
                }
                if !shuffle {
                    out.sort_by_key(|l| l.unsigned_abs());
                } else {
                    for i in (1..out.len()).rev() {
                        let j = cx.rng.below(i as u64 + 1) as usize;
                        out.swap(i, j);
                    }
                }
                out.iter().map(|l| l.to_string()).collect::<Vec<_>>().join(" ")
            };
            let literal_ok = safe && outside < (1 << 31);
            match cx.rng.below(40) {
                0..=5 => {
                    cx_op!(cx, format!("ite {} {} {}", a, b, c));
                }
                6..=9 => {
                    let op = *cx.rng.pick(&["and", "or", "xor", "eq", "imply"]);
                    cx_op!(cx, format!("{} {} {}", op, a, b));
                }
                10 => {
                    cx_op!(cx, format!("not {}", a));
                }
                11 => {
                    cx_op!(cx, format!("var {}", num(1 + cx.rng.below(n as u64) as usize)));
                }
                12 | 13 => {
                    cx_op!(cx, format!("subst {} {} {}", a, v, cx.rng.below(2)));
                }
                14 | 15 => {
                    let l = lits(cx, false, n + 1);
                    cx_op!(cx, format!("substm {} {}", a, l));
                }
                16 => {
                    if literal_ok {
                        let l = lits(cx, false, n + 1);
                        cx_op!(cx, format!("cofcube {} {}", a, l));
                    }
                }
                17..=19 => {
                    cx_op!(cx, format!("compose {} {} {}", a, v, b));
                }
                20 | 21 => {
                    cx_op!(cx, format!("constrain {} {}", a, b));
                }
                22 | 23 => {
                    cx_op!(cx, format!("restrict {} {}", a, b));
                }
                24 => {
                    cx_op!(cx, format!("itec {} {} {}", a, b, c));
                    cx_op!(cx, format!("implies {} {}", a, b));
                }
                25 => {
                    cx_op!(cx, format!("topcof {} {}", a, v));
                }
                26 | 38 => {
                    // every stored variable below 2^31: the literal-valued queries are defined
                    if vm.iter().all(|&x| x < (1 << 31)) {
                        cx_op!(cx, format!("onesat {}", a));
                        cx_op!(cx, format!("paths {}", a));
                    }
                }
                27 | 28 => {
                    cx_op!(cx, format!("size {}", a));
                }
                29 => {
                    cx_op!(cx, format!("desc {} {}", a, b));
                }
                30 | 31 => {
                    cx_op!(cx, format!("bracket {}", a));
                }
                32 => {
                    cx_op!(cx, format!("dot {} {} {}", a, b, a));
                }
                33 | 34 => {
                    if literal_ok {
                        let l = lits(cx, true, n);
                        let op = if cx.rng.chance(1, 2) { "cube" } else { "clause" };
                        cx_op!(cx, format!("{} {}", op, l));
                    }
                }
                35 => {
                    cx_op!(cx, format!("low {}", a));
                    cx_op!(cx, format!("high {}", a));
                }
                36 => {
                    let e = gen_expr(cx, &[a, b, c], 2);
                    cx_op!(cx, format!("expr {}", e));
                }
                37 => {
                    // a node built directly: variable above both children
                    let p = 1 + cx.rng.below(n as u64) as usize;
                    let vnum = num(p);
                    let cands: Vec<usize> = live.iter().copied().filter(|&h| cx.ex.top_var_of(cx.ex.env[h]) > vnum).collect();
                    if cands.len() >= 2 {
                        let (lo, hi) = (*cx.rng.pick(&cands), *cx.rng.pick(&cands));
                        cx_op!(cx, format!("node {} {} {}", vnum, lo, hi));
                    }
                }
                _ => {
                    let k = cx.rng.below(6);
                    let mut roots: Vec<usize> = (0..k).map(|_| pick(cx)).collect();
                    if cx.rng.chance(1, 2) {
                        roots.extend(vars.iter().copied().filter(|&i| cx.ex.live[i]));
                    }
                    let s: Vec<String> = roots.iter().map(|r| r.to_string()).collect();
                    cx_op!(cx, format!("gc {}", s.join(" ")));
                    cx.op("dump".into());
                }
            }
            if step % 8 == 0 {
                cx.op("digest".into());
            }
        }
        if vm.iter().all(|&x| x < (1 << 31)) {
            for &h in &vars {
                if cx.ex.live[h] {
                    cx_op!(cx, format!("onesat {}", h));
                    cx_op!(cx, format!("paths {}", h));
                }
            }
        }
        cx.end();
        if ci == 0 {
            cx.notes.push(format!("first history: variables {:?} (+ {} outside), storage_bits {}", vm, outside, sb));
        }
    }
}

/// C05 / C17: every alive/dead pattern of a single hash chain (one bucket), then rebuild
pub fn s_gc_chain(cx: &mut Ctx) {
    let maxk = if cx.thorough { 6 } else { 5 };
    for k in 1..=maxk {
        for pattern in 0..(1u32 << k) {
            for bb in [0u32, 1] {
                cx_begin!(cx, 6.min(k), format!("new 5 {} 2", bb), 1);
                // k independent nodes in chain order: variables k..1 (each its own cell)
                let mut hs = vec![];
                for v in 1..=k {
                    hs.push(cx_op!(cx, format!("var {}", v)));
                }
                // plus one shared node so that some cells have children
                let x = cx_op!(cx, format!("and {} {}", hs[0], hs[(k as usize) - 1]));
                let roots: Vec<String> = (0..k as usize).filter(|i| (pattern >> i) & 1 == 1).map(|i| hs[i].to_string()).collect();
                let mut roots = roots;
                if pattern % 3 == 0 {
                    roots.push(x.to_string());
                }
                cx_op!(cx, format!("gc {}", roots.join(" ")));
                cx.op("dump".into());
                // rebuild everything by another route; freed slots are reused
                for v in (1..=k).rev() {
                    cx_op!(cx, format!("cube {}", v));
                }
                cx_op!(cx, format!("ite {} {} 1", cx.ex.env.len() - 1, cx.ex.env.len() - k as usize));
                cx_op!(cx, format!("gc"));
                cx.op("dump".into());
                for v in 1..=k {
                    cx_op!(cx, format!("var {}", v));
                }
                cx.end();
            }
        }
    }
}

/// C06: build / discard / collect soak in tables small enough to be exhausted; histories continue
/// after the 'Storage is full' panic
pub fn s_soak(cx: &mut Ctx) {
    let cases = if cx.thorough { 300 } else { 14 };
    for ci in 0..cases {
        // the last four quick cases (every tenth thorough one): tables of 1, 2, 4 cells, more buckets than cells
        let tiny = if cx.thorough { ci % 10 == 9 } else { ci >= 10 };
        let sb = if tiny { cx.rng.below(3) } else { 3 + cx.rng.below(4) };
        let n = 3 + cx.rng.below(4) as u32;
        let bb = if tiny { cx.rng.below(5) } else { cx.rng.below(3.min(sb)) };
        cx_begin!(cx, n, format!("new {} {} {}", sb, bb, cx.rng.below(3)), 1);
        if cx.reply().starts_with("panic") {
            // no manager at all (2^0 cells: the terminal does not fit); every later line says so
            cx.op("var 1".into());
            cx.ex.begin_case();
            continue;
        }
        let rounds = if cx.thorough { 3000 } else { 500 };
        let mut keep: Vec<usize> = vec![];
        for step in 0..rounds {
            let live = cx.live();
            let a = *cx.rng.pick(&live);
            let b = *cx.rng.pick(&live);
            match cx.rng.below(10) {
                0..=2 => {
                    cx_op!(cx, format!("var {}", 1 + cx.rng.below(n as u64)));
                }
                3..=6 => {
                    let op = *cx.rng.pick(&["and", "or", "xor"]);
                    let r = cx_op!(cx, format!("{} {} {}", op, a, b));
                    if cx.rng.chance(1, 4) {
                        keep.push(r);
                    }
                }
                7 => {
                    let lits = any_lits(cx, n);
                    cx_op!(cx, format!("cube {}", lits));
                }
                _ => {
                    keep.retain(|&i| cx.ex.live[i]);
                    while keep.len() > 3 {
                        keep.remove(0);
                    }
                    let roots: Vec<String> = keep.iter().map(|r| r.to_string()).collect();
                    cx_op!(cx, format!("gc {}", roots.join(" ")));
                    cx.op("dump".into());
                }
            }
            if cx.reply().starts_with("panic full") {
                // the manager keeps working after the caught panic
                cx.op("dump".into());
                keep.retain(|&i| cx.ex.live[i]);
                if keep.len() > 1 {
                    keep.truncate(1);
                }
                let roots: Vec<String> = keep.iter().map(|r| r.to_string()).collect();
                cx_op!(cx, format!("gc {}", roots.join(" ")));
            }
            if step % 16 == 0 {
                cx.op("digest".into());
            }
        }
        cx.end();
    }
}

/// C07: the same operations before and after a flush return identical handles, in 1..4-slot caches
pub fn s_memo(cx: &mut Ctx) {
    let cases = if cx.thorough { 1000 } else { 30 };
    for _ in 0..cases {
        let n = 3 + cx.rng.below(3) as u32;
        let cb = cx.rng.below(3);
        cx_begin!(cx, n, format!("new 10 {} {}", cx.rng.below(4), cb), 1);
        let mut memo = HashMap::new();
        let mut hs = vec![0usize, 1];
        for _ in 0..8 {
            let f = rand_fn(cx, n);
            hs.push(build(cx, &mut memo, f));
        }
        let mut script: Vec<(String, usize)> = vec![];
        for _ in 0..40 {
            let (a, b, c) = (*cx.rng.pick(&hs), *cx.rng.pick(&hs), *cx.rng.pick(&hs));
            let v = 1 + cx.rng.below(n as u64);
            let line = match cx.rng.below(9) {
                0 | 1 => format!("ite {} {} {}", a, b, c),
                2 => format!("constrain {} {}", a, b),
                3 => format!("restrict {} {}", a, b),
                4 => format!("compose {} {} {}", a, v, b),
                5 => format!("xor {} {}", a, b),
                6 => format!("subst {} {} 1", a, v),
                7 => format!("restrict {} {}", b, a),
                _ => format!("constrain {} {}", b, a),
            };
            let r = cx.op(line.clone());
            script.push((line, r));
            if cx.rng.chance(1, 6) {
                cx_op!(cx, format!("size {}", r));
            }
        }
        // flush: a collection that keeps every live handle
        let live: Vec<String> = cx.live().iter().map(|i| i.to_string()).collect();
        cx_op!(cx, format!("gc {}", live.join(" ")));
        cx.op("dump".into());
        for (line, r0) in script {
            let r1 = cx.op(line.clone());
            if cx.ex.env[r1] != cx.ex.env[r0] {
                let m = format!("'{}' returned {} before the flush and {} after", line, crate::exec::show_ref(cx.ex.env[r0]), crate::exec::show_ref(cx.ex.env[r1]));
                cx.ex.fail(&["C07"], m);
            }
        }
        cx.end();
    }
}

/// C08: substitution / cofactor entry points and accessors, exhaustively over three variables
pub fn s_subst(cx: &mut Ctx) {
    // cross-kind memo traffic: the care set / second operand is a node stored in cell N for a small N, and
    // the substitution that follows names variable N — whatever another operation kind memoised under a
    // key built from "N" must not be taken for a substitution result (large cache, no collection between)
    for round in 0..(if cx.thorough { 4 } else { 1 }) {
        cx_begin!(cx, 4, format!("new 11 4 {}", 9 + round % 2), 64);
        let mut memo = HashMap::new();
        let hs: Vec<usize> = (0..256u64).map(|f| build(cx, &mut memo, f)).collect();
        // handles by cell index
        let mut by_cell: HashMap<u32, usize> = HashMap::new();
        for &h in &hs {
            by_cell.entry(cx.ex.env[h].index()).or_insert(h);
        }
        for cell in 2..=4u32 {
            let g = match by_cell.get(&cell) {
                Some(&g) => g,
                None => continue,
            };
            let ng = cx_op!(cx, format!("not {}", g));
            for f in (round % 3..256usize).step_by(if cx.thorough { 1 } else { 3 }) {
                // (Constrain and Restrict keys over the same pair share a slot: the kind asked last before
                // the substitution is the one whose entry is still there — alternate)
                let kinds: [&str; 3] = if (f + cell as usize) % 2 == 0 { ["and", "constrain", "restrict"] } else { ["and", "restrict", "constrain"] };
                for k in kinds {
                    for &c in &[g, ng] {
                        cx_op!(cx, format!("{} {} {}", k, hs[f], c));
                    }
                }
                for b in 0..2 {
                    cx_op!(cx, format!("subst {} {} {}", hs[f], cell, b));
                }
                cx_op!(cx, format!("compose {} {} {}", hs[f], cell.min(4), g));
                cx_op!(cx, format!("substm {} {}", hs[f], cell));
                cx_op!(cx, format!("cofcube {} -{}", hs[f], cell));
            }
        }
        cx.end();
    }
    cx_begin!(cx, 4, "new 11 4 5".into(), 64);
    let mut memo = HashMap::new();
    let hs: Vec<usize> = (0..256u64).map(|f| build(cx, &mut memo, f)).collect();
    for f in 0..256usize {
        for v in 1..=4 {
            for b in 0..2 {
                cx_op!(cx, format!("subst {} {} {}", hs[f], v, b));
            }
        }
        cx_op!(cx, format!("low {}", hs[f]));
        cx_op!(cx, format!("high {}", hs[f]));
        for v in 1..=3 {
            cx_op!(cx, format!("topcof {} {}", hs[f], v));
        }
        // all maps / ascending cubes over subsets of {1,2,3,4} (quick: a rotating third of them)
        for mask in 0..16u32 {
            for signs in 0..16u32 {
                if signs & !mask != 0 {
                    continue;
                }
                if !cx.thorough && (f as u32 + mask + signs) % 3 != 0 {
                    continue;
                }
                let lits: Vec<String> = (0..4).filter(|i| (mask >> i) & 1 == 1).map(|i| if (signs >> i) & 1 == 1 { format!("-{}", i + 1) } else { format!("{}", i + 1) }).collect();
                let a = cx_op!(cx, format!("substm {} {}", hs[f], lits.join(" ")));
                let b = cx_op!(cx, format!("cofcube {} {}", hs[f], lits.join(" ")));
                if cx.ex.env[a] != cx.ex.env[b] {
                    let m = format!("substitute_multi and cofactor_cube disagree on {:?}", lits);
                    cx.ex.fail(&["C08"], m);
                }
            }
        }
        cx.op("digest".into());
    }
    cx.end();
    // functions over 4..6 variables
    let cases = if cx.thorough { 300 } else { 8 };
    for _ in 0..cases {
        let n = 4 + cx.rng.below(3) as u32;
        cx_begin!(cx, n, format!("new 12 {} 4", cx.rng.below(5)), 32);
        let mut memo = HashMap::new();
        for _ in 0..10 {
            let f = rand_fn(cx, n);
            let h = build(cx, &mut memo, f);
            for _ in 0..6 {
                let v = 1 + cx.rng.below(n as u64 + 1);
                cx_op!(cx, format!("subst {} {} {}", h, v, cx.rng.below(2)));
                let lits = asc_lits(cx, n);
                cx_op!(cx, format!("substm {} {}", h, lits));
                cx_op!(cx, format!("cofcube {} {}", h, lits));
            }
        }
        cx.end();
    }
}

/// C09: compose over all 256 x 256 x 3 cases (quick: a structured sixth), cold and warm
pub fn s_compose(cx: &mut Ctx) {
    cx_begin!(cx, 3, "new 11 4 6".into(), 256);
    let hs = build_all3(cx);
    let stride = if cx.thorough { 1 } else { 6 };
    let mut k = 0;
    for round in 0..2 {
        for f in 0..256usize {
            for g in ((f + round) % stride..256usize).step_by(stride) {
                for v in 1..=4 {
                    if v == 4 && g % 16 != 0 {
                        continue;
                    }
                    cx_op!(cx, format!("compose {} {} {}", hs[f], v, hs[g]));
                }
                k += 1;
                if k % 64 == 0 {
                    cx.op("digest".into());
                }
            }
        }
        if !cx.thorough {
            break;
        }
    }
    cx.end();
    let cases = if cx.thorough { 300 } else { 8 };
    for _ in 0..cases {
        let n = 4 + cx.rng.below(3) as u32;
        cx_begin!(cx, n, format!("new 12 {} {}", cx.rng.below(5), cx.rng.below(4)), 32);
        let mut memo = HashMap::new();
        let mut hs = vec![0usize, 1];
        for _ in 0..10 {
            let f = rand_fn(cx, n);
            hs.push(build(cx, &mut memo, f));
        }
        for _ in 0..80 {
            let (a, b) = (*cx.rng.pick(&hs), *cx.rng.pick(&hs));
            cx_op!(cx, format!("compose {} {} {}", a, 1 + cx.rng.below(n as u64 + 1), b));
        }
        cx.end();
    }
}

/// C10 / C11: constrain and restrict over all pairs of 3-variable functions, interleaved in a
/// 1-slot cache (their keys hash alike), plus the algebraic laws as handle identities
pub fn s_cr(cx: &mut Ctx, which: &str) {
    for (cb, stride) in [(6u32, 1usize), (0, 7)] {
        cx_begin!(cx, 3, format!("new 11 4 {}", cb), 256);
        let hs = build_all3(cx);
        let mut k = 0;
        for f in 0..256usize {
            for g in (f % stride..256usize).step_by(stride) {
                if cb == 0 {
                    // interleave the twin operation on the same pair: equal hashes, one slot
                    let other = if which == "constrain" { "restrict" } else { "constrain" };
                    cx_op!(cx, format!("{} {} {}", other, hs[f], hs[g]));
                }
                cx_op!(cx, format!("{} {} {}", which, hs[f], hs[g]));
                k += 1;
                if k % 128 == 0 {
                    cx.op("digest".into());
                }
            }
        }
        cx.end();
    }
    // laws as handle identities (C10 only): negation, distribution over connectives
    if which == "constrain" {
        cx_begin!(cx, 3, "new 11 4 6".into(), 0);
        let hs = build_all3(cx);
        let m = if cx.thorough { 20000 } else { 3000 };
        for _ in 0..m {
            let (f, h, g) = (cx.rng.below(256) as usize, cx.rng.below(256) as usize, 1 + cx.rng.below(255) as usize);
            let op = *cx.rng.pick(&["and", "or", "xor", "eq", "imply"]);
            let fh = cx_op!(cx, format!("{} {} {}", op, hs[f], hs[h]));
            let lhs = cx_op!(cx, format!("constrain {} {}", fh, hs[g]));
            let cf = cx_op!(cx, format!("constrain {} {}", hs[f], hs[g]));
            let ch = cx_op!(cx, format!("constrain {} {}", hs[h], hs[g]));
            let rhs = cx_op!(cx, format!("{} {} {}", op, cf, ch));
            if cx.ex.env[lhs] != cx.ex.env[rhs] {
                let m = format!("constrain does not distribute over {} for tables {:#x} {:#x} | {:#x}", op, f, h, g);
                cx.ex.fail(&["C10"], m);
            }
            let nf = cx_op!(cx, format!("not {}", hs[f]));
            let cn = cx_op!(cx, format!("constrain {} {}", nf, hs[g]));
            if cx.ex.env[cn] != -cx.ex.env[cf] {
                let m = format!("constrain does not commute with negation for {:#x} | {:#x}", f, g);
                cx.ex.fail(&["C10"], m);
            }
        }
        cx.end();
    }
    // 4..6 variables
    let cases = if cx.thorough { 400 } else { 8 };
    for _ in 0..cases {
        let n = 4 + cx.rng.below(3) as u32;
        cx_begin!(cx, n, format!("new 12 {} {}", cx.rng.below(5), cx.rng.below(4)), 32);
        let mut memo = HashMap::new();
        let mut hs = vec![0usize, 1];
        for _ in 0..12 {
            let f = rand_fn(cx, n);
            hs.push(build(cx, &mut memo, f));
        }
        // cubes as care sets: constrain/restrict by a cube is the plain cofactor
        for _ in 0..6 {
            let lits = any_lits(cx, n);
            hs.push(cx_op!(cx, format!("cube {}", lits)));
        }
        for _ in 0..100 {
            let (a, b) = (*cx.rng.pick(&hs), *cx.rng.pick(&hs));
            cx_op!(cx, format!("{} {} {}", which, a, b));
        }
        cx.end();
    }
}

/// C12: ite_constant / is_implies with the same and related ITE instances already cached
pub fn s_itec(cx: &mut Ctx) {
    let reps: Vec<u64> = vec![0x00, 0xff, 0xaa, 0x55, 0xcc, 0x33, 0xf0, 0x0f, 0x88, 0x77, 0x96, 0x69, 0xe8, 0x17, 0xca, 0x35];
    for (cb, warm) in [(8u32, false), (8, true), (1, true)] {
        cx_begin!(cx, 3, format!("new 10 4 {}", cb), 256);
        let hs = build_all3(cx);
        let all = cx.thorough && warm && cb == 8;
        let gs: Vec<u64> = if all { (0..256).collect() } else { reps.clone() };
        let mut k = 0;
        for f in 0..256usize {
            for &g in &gs {
                for &h in &gs {
                    if warm && (f + g as usize + h as usize) % 3 == 0 {
                        cx_op!(cx, format!("ite {} {} {}", hs[f], hs[g as usize], hs[h as usize]));
                    }
                    cx_op!(cx, format!("itec {} {} {}", hs[f], hs[g as usize], hs[h as usize]));
                    k += 1;
                    if k % 128 == 0 {
                        cx.op("digest".into());
                    }
                }
            }
            for &g in &gs {
                if warm && (f + g as usize) % 2 == 0 {
                    cx_op!(cx, format!("imply {} {}", hs[f], hs[g as usize]));
                }
                cx_op!(cx, format!("implies {} {}", hs[f], hs[g as usize]));
            }
        }
        cx.end();
    }
    // all pairs for is_implies
    cx_begin!(cx, 3, "new 10 4 6".into(), 0);
    let hs = build_all3(cx);
    let stride = if cx.thorough { 1 } else { 3 };
    for f in 0..256usize {
        for g in (f % stride..256usize).step_by(stride) {
            cx_op!(cx, format!("implies {} {}", hs[f], hs[g]));
        }
    }
    cx.end();
}

/// C13 / C14: counting, one_sat, paths
pub fn s_count(cx: &mut Ctx) {
    for n in [3u32, 4] {
        if n == 4 && !cx.thorough {
            continue;
        }
        cx_begin!(cx, n, "new 17 8 4".into(), 0);
        let mut memo = HashMap::new();
        let total = 1u64 << (1 << n);
        for f in 0..total {
            let h = build(cx, &mut memo, f);
            for nv in [n as u64, n as u64 + 1, 64, 70] {
                cx_op!(cx, format!("satcount {} {}", h, nv));
            }
            if f % 37 == 0 {
                // arbitrary precision far beyond 64 bits
                cx_op!(cx, format!("satcount {} {}", h, 200 + f % 5000));
            }
            // numbers of variables at and around every machine-word boundary (carries out of 32, 64,
            // 128, 256 … bits), rotating through the list
            const BOUND: [u64; 36] = [31, 32, 33, 34, 62, 63, 64, 65, 66, 67, 126, 127, 128, 129, 130, 131, 132, 133, 134, 135, 136, 140, 191, 192, 193, 194, 255, 256, 257, 258, 511, 512, 513, 1023, 1024, 1025];
            for k in 0..3 {
                cx_op!(cx, format!("satcount {} {}", h, BOUND[(f as usize * 3 + k) % BOUND.len()]));
            }
            let nh = cx_op!(cx, format!("not {}", h));
            cx_op!(cx, format!("satcount {} {}", nh, n));
            cx_op!(cx, format!("onesat {}", h));
            cx_op!(cx, format!("paths {}", h));
            cx_op!(cx, format!("paths {}", nh));
        }
        cx.end();
    }
    // random functions over 5..6 variables (oracle) and 10..14 (correspondence only)
    let cases = if cx.thorough { 400 } else { 12 };
    for i in 0..cases {
        let big = i % 3 == 2;
        let n = if big { 10 + cx.rng.below(5) as u32 } else { 5 + cx.rng.below(2) as u32 };
        cx_begin!(cx, n, format!("new 14 {} 4", 2 + cx.rng.below(6)), 0);
        let mut hs = vec![0usize, 1];
        for v in 1..=n {
            hs.push(cx_op!(cx, format!("var {}", v)));
        }
        for _ in 0..40 {
            let (a, b, c) = (*cx.rng.pick(&hs), *cx.rng.pick(&hs), *cx.rng.pick(&hs));
            let r = cx_op!(cx, format!("ite {} {} {}", a, b, c));
            hs.push(r);
        }
        for _ in 0..25 {
            let a = *cx.rng.pick(&hs);
            cx_op!(cx, format!("satcount {} {}", a, n as u64 + cx.rng.below(60)));
            cx_op!(cx, format!("satcount {} {}", a, 120 + cx.rng.below(24)));
            cx_op!(cx, format!("satcount {} {}", a, [60u64, 250][cx.rng.below(2) as usize] + cx.rng.below(12)));
            cx_op!(cx, format!("onesat {}", a));
            if !big {
                cx_op!(cx, format!("paths {}", a));
            }
        }
        cx.end();
    }
}

/// C16: exports and purity of queries
pub fn s_export(cx: &mut Ctx) {
    cx_begin!(cx, 3, "new 10 4 4".into(), 0);
    let hs = build_all3(cx);
    for f in 0..256usize {
        let before = storage_digest(cx);
        cx_op!(cx, format!("bracket {}", hs[f]));
        let nf = cx_op!(cx, format!("not {}", hs[f]));
        cx_op!(cx, format!("bracket {}", nf));
        let g = cx.rng.below(256) as usize;
        // shared sub-graphs, complemented, constant and duplicate roots
        cx_op!(cx, format!("dot {} {} {} {}", hs[f], hs[g], nf, hs[f]));
        if f % 16 == 0 {
            cx_op!(cx, format!("dot {} 0 1", hs[f]));
            cx.op("dot".into());
            cx.op("dot 1".into());
        }
        for q in ["size", "onesat", "paths"] {
            cx_op!(cx, format!("{} {}", q, hs[f]));
        }
        cx_op!(cx, format!("desc {} {}", hs[f], hs[g]));
        cx_op!(cx, format!("satcount {} 5", hs[f]));
        cx_op!(cx, format!("itec {} {} {}", hs[f], hs[g], nf));
        cx_op!(cx, format!("implies {} {}", hs[f], hs[g]));
        cx_op!(cx, format!("low {}", hs[f]));
        cx_op!(cx, format!("topcof {} 1", hs[f]));
        if storage_digest(cx) != before {
            let m = format!("a query changed the node store (function {:#x})", f);
            cx.ex.fail(&["C16"], m);
        }
    }
    cx.end();
    let cases = if cx.thorough { 300 } else { 10 };
    for _ in 0..cases {
        let n = 4 + cx.rng.below(3) as u32;
        cx_begin!(cx, n, format!("new 12 {} 3", cx.rng.below(5)), 0);
        let mut memo = HashMap::new();
        let mut hs = vec![0usize, 1];
        for _ in 0..10 {
            let f = rand_fn(cx, n);
            hs.push(build(cx, &mut memo, f));
        }
        for _ in 0..30 {
            let before = storage_digest(cx);
            let k = cx.rng.below(5);
            let roots: Vec<String> = (0..k).map(|_| cx.rng.pick(&hs).to_string()).collect();
            cx_op!(cx, format!("dot {}", roots.join(" ")));
            let a = *cx.rng.pick(&hs);
            cx_op!(cx, format!("bracket {}", a));
            // a later operation gives the same result as before the queries
            let b = *cx.rng.pick(&hs);
            let r0 = cx_op!(cx, format!("and {} {}", a, b));
            cx_op!(cx, format!("size {}", a));
            cx_op!(cx, format!("paths {}", b));
            let r1 = cx_op!(cx, format!("and {} {}", a, b));
            if cx.ex.env[r0] != cx.ex.env[r1] {
                cx.ex.fail(&["C16"], "a query changed a later result".into());
            }
            let _ = before;
        }
        cx.end();
    }
}

fn storage_digest(cx: &Ctx) -> u64 {
    let s = cx.ex.st_snapshot();
    let cut = s.find(" | K ").unwrap_or(s.len());
    crate::exec::fnv1a(&s[..cut])
}

/// C17: Table<T> driven directly with adversarial hashes (all equal, two classes, identity)
pub fn s_table(cx: &mut Ctx) {
    let cases = if cx.thorough { 1500 } else { 40 };
    for i in 0..cases {
        cx.ex.begin_case();
        let bits = 1 + cx.rng.below(6);
        let bb = cx.rng.below(bits.min(4) + 1);
        let kind = i % 4;
        cx_op!(cx, format!("t.new {} {} {}", bits, bb, kind));
        let cap = 1u64 << bits;
        let universe = 1 + cx.rng.below(cap * 2);
        let steps = cap * 3 + 5;
        for s in 0..steps {
            let v = cx.rng.below(universe);
            cx_op!(cx, format!("t.put {}", v));
            if s % 4 == 0 {
                cx.op("t.dump".into());
            }
        }
        cx.op("t.dump".into());
        if cx.samples.len() < 3 {
            let start = *cx.ex.case_starts.last().unwrap();
            cx.samples.push(cx.ex.lines[start..].iter().take(10).cloned().collect());
        }
    }
}

/// C18: Cache<K,V> driven directly, key universes with forced collisions
pub fn s_cache(cx: &mut Ctx) {
    let cases = if cx.thorough { 3000 } else { 60 };
    for _ in 0..cases {
        cx.ex.begin_case();
        let bits = cx.rng.below(5);
        cx_op!(cx, format!("c.new {}", bits));
        // a small universe: Szudzik collisions under the mask are frequent; also exact hash twins
        let uni = 2 + cx.rng.below(6);
        let steps = 120;
        for s in 0..steps {
            let k = (cx.rng.below(uni), cx.rng.below(uni));
            match cx.rng.below(12) {
                0..=4 => {
                    cx_op!(cx, format!("c.insert {} {} {}", k.0, k.1, cx.rng.below(1000)));
                }
                5..=9 => {
                    cx_op!(cx, format!("c.get {} {}", k.0, k.1));
                }
                10 => {
                    // wrap-around keys: hashes overflow u64
                    let big = u64::MAX - cx.rng.below(4);
                    cx_op!(cx, format!("c.insert {} {} {}", big, k.1, s));
                    cx_op!(cx, format!("c.get {} {}", big, k.1));
                }
                _ => {
                    cx.op("c.clear".into());
                }
            }
            if s % 8 == 0 {
                cx.op("c.dump".into());
            }
        }
        cx.op("c.dump".into());
        if cx.samples.len() < 3 {
            let start = *cx.ex.case_starts.last().unwrap();
            cx.samples.push(cx.ex.lines[start..].iter().take(10).cloned().collect());
        }
    }
}

/// C18: large tables — thousands of distinct slots filled between two clears (counts at and around
/// every power of two up to the table size), then every key asked again after the clear, a partial
/// refill, and the keys of the first generation asked once more
pub fn s_cache_large(cx: &mut Ctx) {
    let plans: Vec<(u64, Vec<u64>)> = if cx.thorough {
        vec![(10, vec![511, 512, 513, 1023, 1024, 1025, 3000]), (11, vec![1023, 1024, 1025, 2047, 2048, 2049, 5000]),
             (12, vec![1024, 1025, 2049, 4095, 4096, 4097, 9000]), (14, vec![1025, 4097, 8193, 16383, 16385, 40000]),
             (16, vec![1025, 4097, 32769, 65535, 65537, 150000])]
    } else {
        vec![(10, vec![1023, 1025]), (11, vec![1024, 1025, 2049]), (12, vec![1025, 4097]), (16, vec![1025, 40000])]
    };
    for (bits, counts) in plans {
        for &n in &counts {
            for shape in 0..2u64 {
                cx.ex.begin_case();
                cx_op!(cx, format!("c.new {}", bits));
                let key = |i: u64| -> (u64, u64) {
                    if shape == 0 { (i, 0) } else { (i % 97, i / 97 + (i % 3) * 1000) }
                };
                // an earlier generation, cleared
                for i in 0..7 {
                    let k = key(i * 13 + 5);
                    cx_op!(cx, format!("c.insert {} {} {}", k.0, k.1, 900 + i));
                }
                cx.op("c.clear".into());
                for i in 0..n {
                    let k = key(i);
                    cx_op!(cx, format!("c.insert {} {} {}", k.0, k.1, i % 1000));
                }
                // a sample of lookups before the clear
                let stride = 1 + n / 50;
                let mut i = 0;
                while i < n {
                    let k = key(i);
                    cx_op!(cx, format!("c.get {} {}", k.0, k.1));
                    i += stride;
                }
                cx.op("c.clear".into());
                // the last keys inserted (and a sample of the others) must be gone
                for i in n.saturating_sub(40)..n {
                    let k = key(i);
                    cx_op!(cx, format!("c.get {} {}", k.0, k.1));
                }
                let mut i = 0;
                while i < n {
                    let k = key(i);
                    cx_op!(cx, format!("c.get {} {}", k.0, k.1));
                    i += stride;
                }
                if bits <= 12 {
                    cx.op("c.dump".into());
                }
                // partial refill, then the first generation once more
                for i in 0..20 {
                    let k = key(n + i);
                    cx_op!(cx, format!("c.insert {} {} {}", k.0, k.1, i));
                }
                for i in (n.saturating_sub(30)..n).chain(n..n + 20) {
                    let k = key(i);
                    cx_op!(cx, format!("c.get {} {}", k.0, k.1));
                }
                cx.op("c.clear".into());
                let k = key(n + 3);
                cx_op!(cx, format!("c.get {} {}", k.0, k.1));
                if bits <= 12 {
                    cx.op("c.dump".into());
                }
            }
        }
    }
}

/// a "level-skipping" truth table over six variables: every node picks its variable with gaps and its two
/// cofactors skip levels independently of each other (random dense tables depend on every variable at
/// every node; these do not)
fn sparse_fn(cx: &mut Ctx, tt: &TT, level: u32) -> u64 {
    let mut v = level;
    while v <= 6 && cx.rng.chance(2, 5) {
        v += 1;
    }
    if v > 6 {
        return if cx.rng.chance(1, 2) { tt.full() } else { 0 };
    }
    let a = sparse_fn(cx, tt, v + 1);
    let b = match cx.rng.below(6) {
        0 => !a & tt.full(),
        _ => sparse_fn(cx, tt, v + 1),
    };
    ((tt.var(v) & a) | (!tt.var(v) & b)) & tt.full()
}

/// C09–C12 (and C02, C03, C08): arguments whose sub-functions start at different levels — the two
/// branches of `f` have different top variables, the care set / the substituted function lives on the
/// levels in between or skips them — through every operation that walks two or three diagrams in
/// parallel, with the truth-table oracle
pub fn s_sparse(cx: &mut Ctx) {
    let cases = if cx.thorough { 200 } else { 14 };
    for c in 0..cases {
        cx_begin!(cx, 6, format!("new {} {} {}", 11 + c % 3, c % 5, 1 + (c * 3) % 9), if c % 4 == 0 { 1 } else { 64 });
        let tt = cx.ex.tt.unwrap();
        let mut memo = HashMap::new();
        let mut pool: Vec<usize> = vec![];
        let mut tabs: Vec<u64> = vec![];
        for k in 0..22 {
            // some start below the top level, so that one argument lies strictly inside the other's levels
            let t = sparse_fn(cx, &tt, 1 + (k % 3) as u32);
            if t == 0 || t == tt.full() {
                continue;
            }
            tabs.push(t);
            pool.push(build(cx, &mut memo, t));
        }
        if pool.len() < 4 {
            cx.end();
            continue;
        }
        let pairs = if cx.thorough { 400 } else { 160 };
        for k in 0..pairs {
            let f = *cx.rng.pick(&pool);
            let g = *cx.rng.pick(&pool);
            let h = *cx.rng.pick(&pool);
            match k % 4 {
                0 => {
                    cx_op!(cx, format!("restrict {} {}", f, g));
                    cx_op!(cx, format!("constrain {} {}", f, g));
                }
                1 => {
                    let v = 1 + cx.rng.below(6);
                    cx_op!(cx, format!("compose {} {} {}", f, v, g));
                    cx_op!(cx, format!("restrict {} {}", g, f));
                }
                2 => {
                    cx_op!(cx, format!("ite {} {} {}", f, g, h));
                    cx_op!(cx, format!("itec {} {} {}", f, g, h));
                    cx_op!(cx, format!("implies {} {}", f, g));
                }
                _ => {
                    cx_op!(cx, format!("constrain {} {}", g, f));
                    let v = 1 + cx.rng.below(6);
                    cx_op!(cx, format!("subst {} {} {}", f, v, k % 2));
                    cx_op!(cx, format!("and {} {}", f, g));
                }
            }
            if k % 50 == 49 {
                // a collection in between: cold caches for the next block (the pool stays)
                let roots: Vec<String> = pool.iter().map(|h| h.to_string()).collect();
                cx_op!(cx, format!("gc {}", roots.join(" ")));
            }
        }
        cx.end();
    }
}

/// random table over exactly the variables `vs` (positions in the six-variable universe), depending on `vs[0]`
fn table_over(cx: &mut Ctx, tt: &TT, vs: &[u32]) -> u64 {
    for _ in 0..20 {
        // a random function of the chosen variables: random value per assignment of them
        let r = cx.rng.next();
        let mut t = 0u64;
        for a in 0..64u64 {
            // index of the assignment restricted to vs
            let mut k = 0;
            for (i, &v) in vs.iter().enumerate() {
                if (tt.var(v) >> a) & 1 == 1 {
                    k |= 1 << i;
                }
            }
            if (r >> k) & 1 == 1 {
                t |= 1 << a;
            }
        }
        t &= tt.full();
        if tt.cof(t, vs[0], false) != tt.cof(t, vs[0], true) {
            return t;
        }
    }
    tt.var(vs[0])
}

/// staggered arguments: the two branches of `f` start at different levels (one skips further down than the
/// other), the second argument ignores `f`'s top variable, starts above both branches and reaches below
/// the higher of them — five distinct levels a < j < d < ta < tb chosen among the six in every way
pub fn s_staggered(cx: &mut Ctx) {
    let rounds = if cx.thorough { 40 } else { 2 };
    for round in 0..rounds {
        for skip in 1..=6u32 {
            let lv: Vec<u32> = (1..=6).filter(|&v| v != skip).collect();
            let (a, j, dl, ta, tb) = (lv[0], lv[1], lv[2], lv[3], lv[4]);
            cx_begin!(cx, 6, format!("new 12 {} {}", (round + skip as usize) % 5, 4 + (skip as usize) % 7), 64);
            let tt = cx.ex.tt.unwrap();
            let mut memo = HashMap::new();
            let below_b: Vec<u32> = (tb..=6).collect();
            let below_a: Vec<u32> = (ta..=6).collect();
            let mut gv: Vec<u32> = vec![j, dl];
            gv.extend((ta..=6).filter(|_| true));
            let n_f = if cx.thorough { 10 } else { 6 };
            let n_g = if cx.thorough { 16 } else { 10 };
            let mut fs = vec![];
            for k in 0..n_f {
                let fb = table_over(cx, &tt, &below_b);
                let fa = table_over(cx, &tt, &below_a);
                // the deeper branch on the low side and on the high side
                let (lo, hi) = if k % 2 == 0 { (fb, fa) } else { (fa, fb) };
                let t = ((tt.var(a) & hi) | (!tt.var(a) & lo)) & tt.full();
                fs.push(build(cx, &mut memo, t));
            }
            let mut gs = vec![];
            for _ in 0..n_g {
                let mut t = table_over(cx, &tt, &gv);
                if t == 0 {
                    t = tt.var(j);
                }
                gs.push(build(cx, &mut memo, t));
            }
            for &f in &fs {
                for &g in &gs {
                    cx_op!(cx, format!("restrict {} {}", f, g));
                    cx_op!(cx, format!("constrain {} {}", f, g));
                    cx_op!(cx, format!("compose {} {} {}", f, dl, g));
                    cx_op!(cx, format!("compose {} {} {}", f, ta, g));
                    cx_op!(cx, format!("restrict {} {}", g, f));
                    cx_op!(cx, format!("itec {} {} {}", g, f, 1));
                }
                let roots: Vec<String> = fs.iter().chain(gs.iter()).map(|h| h.to_string()).collect();
                cx_op!(cx, format!("gc {}", roots.join(" ")));
            }
            cx.end();
        }
    }
}

/// C09 (and C02, C10, C11): an operation that runs out of storage part-way, the panic caught, and the
/// same kind of operation asked again at once or after a collection made room — with the same operands
/// and another variable, with swapped operands.  The table is filled to leave exactly `k` free cells
/// (k = 0 … 12) before the first attempt.
pub fn s_retry(cx: &mut Ctx) {
    let rounds = if cx.thorough { 30 } else { 3 };
    for round in 0..rounds {
        for k in 0..13u64 {
            for kind in 0..3 {
                cx.ex.begin_case();
                cx.ex.tt = None;
                cx.ex.scan_every = 1;
                cx_op!(cx, format!("new 6 {} {}", (round + k as usize) % 4, 2 + (k as usize + kind) % 6));
                let nv = 7usize;
                let mut vs = vec![0usize];
                for v in 1..=nv {
                    vs.push(cx_op!(cx, format!("var {}", v)));
                }
                // two operands over the seven variables (parity-like and mux-like mixes: many shared sub-pairs)
                let mut mk = |cx: &mut Ctx| -> usize {
                    let mut acc = vs[1 + cx.rng.below(nv as u64) as usize];
                    for _ in 0..(3 + cx.rng.below(3)) {
                        let x = vs[1 + cx.rng.below(nv as u64) as usize];
                        let y = vs[1 + cx.rng.below(nv as u64) as usize];
                        acc = match cx.rng.below(4) {
                            0 => cx_op!(cx, format!("xor {} {}", acc, x)),
                            1 => cx_op!(cx, format!("ite {} {} {}", x, acc, y)),
                            2 => cx_op!(cx, format!("and {} {}", acc, x)),
                            _ => cx_op!(cx, format!("or {} {}", acc, x)),
                        };
                    }
                    acc
                };
                let f = mk(cx);
                let g = mk(cx);
                let keep = format!("gc {} {}", f, g);
                cx.op(keep.clone());
                // fill the table with single-node functions of fresh variables until exactly k cells are free
                let (cap, real) = { let st = cx.ex.bdd().storage(); (st.capacity() as u64, st.real_size() as u64) };
                let free = cap - 1 - real;
                let mut junk = 0u64;
                while free > k + junk {
                    cx_op!(cx, format!("var {}", 100 + junk));
                    junk += 1;
                }
                let v1 = 1 + cx.rng.below(nv as u64);
                let mut v2 = 1 + cx.rng.below(nv as u64);
                if v2 == v1 {
                    v2 = 1 + v1 % nv as u64;
                }
                let first = match kind {
                    0 => format!("compose {} {} {}", f, v1, g),
                    1 => format!("constrain {} {}", f, g),
                    _ => format!("restrict {} {}", f, g),
                };
                cx.op(first.clone());
                let panicked = cx.reply().starts_with("panic");
                // at once: the same operands, another variable / the twin operation (may fail again)
                match kind {
                    0 => cx_op!(cx, format!("compose {} {} {}", f, v2, g)),
                    1 => cx_op!(cx, format!("restrict {} {}", f, g)),
                    _ => cx_op!(cx, format!("constrain {} {}", f, g)),
                };
                // after a collection that makes room
                cx.op(keep.clone());
                match kind {
                    0 => {
                        cx_op!(cx, format!("compose {} {} {}", f, v2, g));
                        cx_op!(cx, format!("compose {} {} {}", f, v1, g));
                        cx_op!(cx, format!("compose {} {} {}", g, v1, f));
                    }
                    1 => {
                        cx_op!(cx, format!("constrain {} {}", f, g));
                        cx_op!(cx, format!("restrict {} {}", f, g));
                    }
                    _ => {
                        cx_op!(cx, format!("restrict {} {}", f, g));
                        cx_op!(cx, format!("constrain {} {}", f, g));
                    }
                };
                if panicked {
                    cx.ex.bump("retry:first-attempt-panicked");
                }
                cx.end();
            }
        }
    }
}

/// the machine-word layer: `Ref` packing, the link word of a table cell, `i32` literals at the limits of
/// the type, the value accessors of `Table` that bypass hashing, and the pairing functions of `utils.rs`
/// that the manager does not use itself
pub fn s_bits(cx: &mut Ctx) {
    let lim: Vec<u64> = vec![1, 2, 3, 7, 255, 256, 32767, 32768, 65535, 65536, 65537, (1 << 30) - 1, 1 << 30, (1 << 30) + 1,
                             (1u64 << 31) - 2, (1u64 << 31) - 1];
    let beyond: Vec<u64> = vec![(1u64 << 31) + 1, 3u64 << 30, (1u64 << 32) - 2, (1u64 << 32) - 1];
    let rounds = if cx.thorough { 40 } else { 4 };
    for round in 0..rounds {
        cx.ex.begin_case();
        let mut idx = lim.clone();
        for _ in 0..12 {
            idx.push(1 + cx.rng.below((1u64 << 31) - 1));
        }
        for &i in &idx {
            for n in 0..2 {
                cx_op!(cx, format!("ref.new {} {}", i, n));
            }
        }
        for &v in &idx {
            cx_op!(cx, format!("lit.cube {}", v));
            cx_op!(cx, format!("lit.cube -{}", v));
        }
        let mut vars = idx.clone();
        vars.extend(beyond.iter().copied());
        for _ in 0..6 {
            vars.push((1u64 << 31) + 1 + cx.rng.below((1u64 << 31) - 1));
        }
        for &v in &vars {
            for n in 0..2 {
                cx_op!(cx, format!("lit.onesat {} {}", v, n));
            }
        }
        // pairing functions: all small pairs once, then larger ones that still fit in 64 bits
        if round == 0 {
            for a in 0..12u64 {
                for b in 0..12u64 {
                    cx_op!(cx, format!("pair.cantor {} {}", a, b));
                    cx_op!(cx, format!("pair.hopcroft {} {}", a, b));
                }
            }
        }
        for _ in 0..40 {
            let a = cx.rng.below(1u64 << 31);
            let b = cx.rng.below(1u64 << 31);
            cx_op!(cx, format!("pair.cantor {} {}", a, b));
            cx_op!(cx, format!("pair.hopcroft {} {}", a + 1, b + 1));
            let w = |r: &mut crate::gen::Rng| -> u64 {
                match r.below(4) {
                    0 => r.below(16),
                    1 => u64::MAX - r.below(16),
                    2 => (1u64 << 32) - 2 + r.below(4),
                    _ => r.below(u64::MAX),
                }
            };
            let (p, q, r, t) = (w(&mut cx.rng), w(&mut cx.rng), w(&mut cx.rng), w(&mut cx.rng));
            cx_op!(cx, format!("pair.four {} {} {} {}", p, q, r, t));
        }
        // the link word and the value accessors of a table cell
        let bits = 3 + cx.rng.below(3);
        cx_op!(cx, format!("t.new {} {} {}", bits, cx.rng.below(3), cx.rng.below(4)));
        let cap = 1u64 << bits;
        for k in 0..(cap / 2) {
            cx_op!(cx, format!("t.put {}", 10 + k * 3));
        }
        cx.op("t.dump".into());
        for &n in &[0u64, 1, 5, (1 << 30) + 1, (1u64 << 31) - 1, 1u64 << 31, (1u64 << 32) - 1, 1u64 << 32] {
            for &i in &[0u64, 1, 2, cap / 2, cap - 1] {
                cx_op!(cx, format!("t.setnext {} {}", i, n));
            }
        }
        cx.op("t.dump".into());
        for how in 0..3 {
            for &i in &[0u64, 1, 2, cap / 2 + 1, cap - 1] {
                cx_op!(cx, format!("t.setvalue {} {} {}", i, 500 + how * 10 + i, how));
            }
        }
        cx.op("t.dump".into());
        if cx.samples.len() < 2 {
            let start = *cx.ex.case_starts.last().unwrap();
            cx.samples.push(cx.ex.lines[start..].iter().take(8).cloned().collect());
        }
    }
}

/// C18: one call repeated 2^8, 2^16, 2^32 times (and one more / one less) between clears — counters
/// of those widths wrap there
pub fn s_cacherep(cx: &mut Ctx) {
    let counts: Vec<u64> = if cx.thorough {
        vec![255, 256, 257, 65535, 65536, 65537, (1 << 32) - 1, 1 << 32, (1 << 32) + 1]
    } else {
        vec![256, 65536, 1 << 32]
    };
    for &n in &counts {
        for what in 0..3 {
            cx.ex.begin_case();
            cx_op!(cx, format!("c.new {}", 1 + what));
            cx.op("c.insert 1 2 10".into());
            cx.op("c.insert 3 4 11".into());
            cx.op("c.clear".into());
            match what {
                0 => {
                    // n insertions, then a clear must still forget them
                    cx_op!(cx, format!("c.rep insert 5 6 12 {}", n));
                    cx.op("c.get 5 6".into());
                    cx.op("c.clear".into());
                    cx.op("c.get 5 6".into());
                    cx.op("c.get 1 2".into());
                }
                1 => {
                    // n clears between an insertion and a lookup
                    cx.op("c.insert 5 6 12".into());
                    cx_op!(cx, format!("c.rep clear {}", n));
                    cx.op("c.get 5 6".into());
                    cx.op("c.get 1 2".into());
                    cx.op("c.insert 7 8 13".into());
                    cx.op("c.get 7 8".into());
                }
                _ => {
                    // n lookups: the statistics and the answer
                    if n > (1 << 20) && !cx.thorough {
                        continue;
                    }
                    cx.op("c.insert 5 6 12".into());
                    cx_op!(cx, format!("c.rep get 5 6 {}", n));
                    cx_op!(cx, format!("c.rep get 9 9 {}", n));
                    cx.op("c.clear".into());
                    cx.op("c.get 5 6".into());
                }
            }
            cx.op("c.dump".into());
        }
    }
    cx.notes.push(format!("repetition counts: {:?}", counts));
}

/// Szudzik unpairing on [0, 2^64): the (a, b) with pairing(a, b) = z, both below 2^32
fn unpair(z: u64) -> (u64, u64) {
    let mut s = (z as f64).sqrt() as u64;
    while s.checked_mul(s).map_or(true, |q| q > z) {
        s -= 1;
    }
    while (s + 1).checked_mul(s + 1).map_or(false, |q| q <= z) {
        s += 1;
    }
    let r = z - s * s;
    if r < s {
        (r, s)
    } else {
        (s, r - s)
    }
}

/// C18 / C07: the operation cache with its real key type, including pairs of *different* keys
/// whose wrapped 64-bit hashes are equal (constructed, not found by chance)
pub fn s_kcache(cx: &mut Ctx) {
    let cases = if cx.thorough { 2000 } else { 60 };
    for _ in 0..cases {
        cx.ex.begin_case();
        let bits = cx.rng.below(6);
        cx_op!(cx, format!("ck.new {}", bits));
        let uni = 2 + cx.rng.below(6);
        let kinds = ["ite", "con", "res"];
        for s in 0..120u64 {
            let kind = kinds[cx.rng.below(3) as usize];
            // operands from a small universe that includes the sentinel words 0 and 1
            let lo = if cx.rng.chance(1, 3) { 0 } else { 2 };
            let (f, g, h) = (lo + cx.rng.below(uni), lo + cx.rng.below(uni), lo + cx.rng.below(uni));
            match cx.rng.below(12) {
                0..=3 => {
                    cx_op!(cx, format!("ck.insert {} {} {} {} {}", kind, f, g, h, 2 + cx.rng.below(1000)));
                }
                4..=7 => {
                    cx_op!(cx, format!("ck.get {} {} {} {}", kind, f, g, h));
                }
                8 | 9 => {
                    // hash twins: a = pair(f,g), a' = 2^64-1-a gives a*a+a = a'*a'+a' (mod 2^64)
                    let (f, g) = ((1u64 << 31) + cx.rng.below(1 << 31), 2 + cx.rng.below(1 << 32 - 1));
                    let h = 2 + cx.rng.below(1 << 31);
                    let a = if f < g { g.wrapping_mul(g).wrapping_add(f) } else { f.wrapping_mul(f).wrapping_add(f).wrapping_add(g) };
                    let (f2, g2) = unpair(u64::MAX - a);
                    if f2 >= 2 && g2 >= 2 && f2 < (1 << 32) && g2 < (1 << 32) {
                        cx_op!(cx, format!("ck.insert ite {} {} {} {}", f, g, h, 2 + s));
                        cx_op!(cx, format!("ck.get ite {} {} {}", f2, g2, h));
                        cx_op!(cx, format!("ck.get ite {} {} {}", f, g, h));
                        cx_op!(cx, format!("ck.insert ite {} {} {} {}", f2, g2, h, 3 + s));
                        cx_op!(cx, format!("ck.get ite {} {} {}", f, g, h));
                    }
                }
                10 => {
                    // Constrain and Restrict keys over the same pair hash alike; so do the ITE keys with
                    // the same two operands and a sentinel word as the third
                    cx_op!(cx, format!("ck.insert con {} {} 0 {}", f, g, 2 + s));
                    cx_op!(cx, format!("ck.get res {} {} 0", f, g));
                    cx_op!(cx, format!("ck.get ite {} {} 0", f, g));
                    cx_op!(cx, format!("ck.get ite {} {} 1", f, g));
                    cx_op!(cx, format!("ck.get con {} {} 0", f, g));
                    cx_op!(cx, format!("ck.insert res {} {} 0 {}", g, f, 3 + s));
                    cx_op!(cx, format!("ck.get ite {} {} 1", g, f));
                    cx_op!(cx, format!("ck.get ite {} {} 0", g, f));
                    cx_op!(cx, format!("ck.get con {} {} 0", g, f));
                }
                _ => {
                    cx.op("ck.clear".into());
                }
            }
            if s % 8 == 0 {
                cx.op("ck.dump".into());
            }
        }
        cx.op("ck.dump".into());
        if cx.samples.len() < 3 {
            let start = *cx.ex.case_starts.last().unwrap();
            cx.samples.push(cx.ex.lines[start..].iter().take(10).cloned().collect());
        }
    }
}

/// C17 / C01: the unique table with its real value type, including pairs of *different* triples
/// whose wrapped 64-bit hashes are equal
pub fn s_tnode(cx: &mut Ctx) {
    let cases = if cx.thorough { 2000 } else { 60 };
    let szu = |a: u64, b: u64| -> u64 {
        if a < b {
            b.wrapping_mul(b).wrapping_add(a)
        } else {
            a.wrapping_mul(a).wrapping_add(a).wrapping_add(b)
        }
    };
    for _ in 0..cases {
        cx.ex.begin_case();
        let bits = 4 + cx.rng.below(5);
        let bb = cx.rng.below(bits.min(4));
        cx_op!(cx, format!("tn.new {} {}", bits, bb));
        let uni = 2 + cx.rng.below(5);
        for s in 0..(10 + cx.rng.below(40)) {
            match cx.rng.below(10) {
                0..=4 => {
                    cx_op!(cx, format!("tn.put {} {} {}", 1 + cx.rng.below(3), 2 + cx.rng.below(uni), 2 + cx.rng.below(uni)));
                }
                5..=7 => {
                    // hash twins: P = pair(lo,hi), P' = 2^64-1-P gives P*P+P = P'*P'+P' (mod 2^64)
                    let (lo, hi) = ((1u64 << 31) + cx.rng.below(1 << 31), 2 + cx.rng.below((1 << 32) - 2));
                    let vmax = if cx.rng.chance(1, 2) { 40 } else { (1 << 32) - 1 };
                    let v = 1 + cx.rng.below(vmax);
                    let p = szu(lo, hi);
                    let (lo2, hi2) = unpair(u64::MAX - p);
                    if lo2 >= 2 && hi2 >= 2 && lo2 < (1 << 32) && hi2 < (1 << 32) && p >= v && u64::MAX - p >= v {
                        cx_op!(cx, format!("tn.put {} {} {}", v, lo, hi));
                        cx_op!(cx, format!("tn.put {} {} {}", v, lo2, hi2));
                        cx_op!(cx, format!("tn.put {} {} {}", v, lo, hi));
                    }
                }
                _ => {
                    cx.op("tn.dump".into());
                }
            }
            let _ = s;
        }
        cx.op("tn.dump".into());
        if cx.samples.len() < 3 {
            let start = *cx.ex.case_starts.last().unwrap();
            cx.samples.push(cx.ex.lines[start..].iter().take(10).cloned().collect());
        }
    }
}

/// C19: RawTable histories over small key universes with adversarial hashes
pub fn s_raw(cx: &mut Ctx, dbg: bool) {
    let cases = if cx.thorough { 4000 } else { 70 };
    for i in 0..cases {
        cx.ex.begin_case();
        let kind = i % 7;
        cx_op!(cx, format!("raw.new {} {}", kind, if dbg { 1 } else { 0 }));
        let uni = 1 + cx.rng.below(12);
        let steps = 40 + cx.rng.below(200);
        if i % 5 == 0 {
            cx.op("raw.find 3".into());
            cx.op("raw.get 3".into());
            cx.op("raw.iter".into());
            cx.op("raw.clear".into());
        }
        for s in 0..steps {
            let k = cx.rng.below(uni);
            match cx.rng.below(20) {
                0..=6 => {
                    cx_op!(cx, format!("raw.insert {} {}", k, cx.rng.below(1000)));
                }
                7..=9 => {
                    cx_op!(cx, format!("raw.get {}", k));
                }
                10 => {
                    cx_op!(cx, format!("raw.getmut {} {}", k, 1000 + cx.rng.below(1000)));
                }
                11 => {
                    cx_op!(cx, format!("raw.find {}", k));
                }
                12..=15 => {
                    cx_op!(cx, format!("raw.remove {}", k));
                }
                16 => {
                    cx.op("raw.iter".into());
                    cx.op("raw.len".into());
                }
                17 => {
                    if cx.rng.chance(1, 4) {
                        // a request whose byte size exceeds isize::MAX: `Vec::with_capacity` panics
                        // ("capacity overflow") before anything is touched; the table must stay usable
                        let n = (1u64 << (59 + cx.rng.below(4))) + cx.rng.below(1000);
                        cx_op!(cx, format!("raw.reserve {}", n.min((1 << 62) + 999)));
                        cx_op!(cx, format!("raw.get {}", k));
                        cx.op("raw.len".into());
                    } else {
                        cx_op!(cx, format!("raw.reserve {}", cx.rng.below(6)));
                    }
                }
                18 => {
                    if cx.rng.chance(1, 4) {
                        cx.op("raw.clear".into());
                    } else {
                        cx_op!(cx, format!("raw.fof {}", k));
                    }
                }
                _ => {
                    cx.op("raw.dump".into());
                }
            }
            if s % 6 == 0 {
                cx.op("raw.dump".into());
            }
        }
        cx.op("raw.iter".into());
        cx.op("raw.dump".into());
        if cx.samples.len() < 3 {
            let start = *cx.ex.case_starts.last().unwrap();
            cx.samples.push(cx.ex.lines[start..].iter().take(10).cloned().collect());
        }
    }
    // guided histories: drive the table towards "no live entry, tombstones everywhere, hardly a FREE
    // slot" by reading the slot states (hook) and always choosing the removal that leaves a tombstone
    // (the successor slot is not FREE); when every remaining entry sits before a FREE slot, fill that
    // slot first. Identity hashes, so a key's home slot is key mod capacity.
    let guided = if cx.thorough { 40 } else { 6 };
    for gi in 0..guided {
        cx.ex.begin_case();
        cx_op!(cx, format!("raw.new 1 {}", if dbg { 1 } else { 0 }));
        let target = [7usize, 15, 31, 15, 63, 15][gi % 6]; // fill to capacity - 1
        let mut next_key = 0u64;
        for _ in 0..target {
            cx_op!(cx, format!("raw.insert {} {}", next_key, next_key % 97));
            next_key += 1;
        }
        cx.op("raw.dump".into());
        const FREE_W: u64 = u64::MAX;
        for _step in 0..600 {
            let (st, len, free) = cx.ex.raw.debug_slots();
            let cap = st.len();
            if cap == 0 || (len == 0 && free <= 1) {
                break;
            }
            let occupied: Vec<usize> = (0..cap).filter(|&i| st[i] <= (u64::MAX >> 1)).collect();
            // (a) an entry whose successor slot is not FREE: removing it leaves a tombstone
            let cand: Vec<usize> = occupied.iter().copied().filter(|&i| st[(i + 1) % cap] != FREE_W).collect();
            // (c) a FREE slot whose successor is not FREE: an entry put there dies into a tombstone
            let fillable: Vec<usize> = (0..cap).filter(|&j| st[j] == FREE_W && st[(j + 1) % cap] != FREE_W).collect();
            if !cand.is_empty() && (gi % 5 != 4 || cx.rng.chance(5, 6)) {
                let i = *cx.rng.pick(&cand);
                cx_op!(cx, format!("raw.remove {}", st[i]));
            } else if free >= 2 && !fillable.is_empty() && gi % 3 != 2 {
                // (no growth: `reserve(2)` is satisfied) a fresh key whose home slot is j
                let j = *cx.rng.pick(&fillable);
                let mut k = j as u64;
                while k < next_key {
                    k += cap as u64;
                }
                next_key = k + 1;
                cx_op!(cx, format!("raw.insert {} {}", k, 7));
            } else if !occupied.is_empty() {
                let i = *cx.rng.pick(&occupied);
                cx_op!(cx, format!("raw.remove {}", st[i]));
            } else {
                break;
            }
        }
        cx.op("raw.dump".into());
        cx.op("raw.len".into());
        cx.op("raw.iter".into());
        // whatever state was reached: everything must still terminate and behave like a map
        for r in 0..3u64 {
            cx_op!(cx, format!("raw.get {}", 1000 + r));
            cx_op!(cx, format!("raw.reserve {}", 1 + r));
            cx_op!(cx, format!("raw.insert {} {}", 2000 + r * 17, r));
            cx_op!(cx, format!("raw.find {}", 3000 + r));
            cx_op!(cx, format!("raw.fof {}", 4000 + r * 5));
            cx_op!(cx, format!("raw.remove {}", 2000 + r * 17));
            cx_op!(cx, format!("raw.get {}", 2000 + r * 17));
            cx.op("raw.len".into());
            cx.op("raw.dump".into());
        }
        for k in 0..20u64 {
            cx_op!(cx, format!("raw.insert {} {}", 5000 + k, k));
            cx_op!(cx, format!("raw.get {}", 6000 + k));
        }
        cx.op("raw.iter".into());
        cx.op("raw.clear".into());
        cx_op!(cx, format!("raw.get {}", 5));
        cx.op("raw.dump".into());
    }
    // large tables: more than 2^16 live entries (2^17 and 2^18 slots), hashes with the top bit set
    // (kind 3), spread over all 64 bits (kind 4), identity (kind 1), descending from 2^64-1 (kind 6)
    let big_kinds: &[u64] = if cx.thorough { &[3, 4, 1, 6, 3] } else { &[3, 4] };
    for (bi, &kind) in big_kinds.iter().enumerate() {
        cx.ex.begin_case();
        cx_op!(cx, format!("raw.new {} {}", kind, if dbg { 1 } else { 0 }));
        let nkeys: u64 = if cx.thorough { 70_000 + 40_000 * bi as u64 } else { 70_000 };
        for k in 0..nkeys {
            cx_op!(cx, format!("raw.insert {} {}", k, k % 997));
            if k % 4096 == 4095 {
                cx.op("raw.len".into());
                cx_op!(cx, format!("raw.get {}", cx.rng.below(k)));
            }
        }
        cx.op("raw.len".into());
        for k in (0..nkeys).step_by(3) {
            cx_op!(cx, format!("raw.get {}", k));
        }
        for k in (0..nkeys).step_by(11) {
            cx_op!(cx, format!("raw.find {}", k));
        }
        for k in (0..nkeys).step_by(5) {
            match k % 3 {
                0 => cx_op!(cx, format!("raw.remove {}", k)),
                1 => cx_op!(cx, format!("raw.insert {} {}", k, 5000 + k % 13)), // a present key: the value is replaced
                _ => {
                    // an absent key (few of them: with sequential hashes the probe walks the whole run)
                    if k % 1024 < 5 {
                        cx_op!(cx, format!("raw.get {}", nkeys + k))
                    } else {
                        cx_op!(cx, format!("raw.get {}", k))
                    }
                }
            };
        }
        cx.op("raw.len".into());
        for k in (0..nkeys).step_by(7) {
            cx_op!(cx, format!("raw.get {}", k));
        }
        cx.op("raw.iter".into());
        cx.op("raw.dump".into());
    }
}

fn trees(size: u32, terms: &[u32]) -> Vec<String> {
    // all trees with exactly `size` constructors
    if size == 1 {
        return terms.iter().map(|t| format!("T {}", t)).collect();
    }
    let mut out = vec![];
    for a in trees(size - 1, terms) {
        out.push(format!("N {}", a));
    }
    for op in ["A", "O", "X"] {
        for l in 1..size - 1 {
            let r = size - 1 - l;
            if r < 1 {
                continue;
            }
            for a in trees(l, terms) {
                for b in trees(r, terms) {
                    out.push(format!("{} {} {}", op, a, b));
                }
            }
        }
    }
    if size >= 4 {
        for l in 1..size - 2 {
            for m in 1..size - 1 - l {
                let r = size - 1 - l - m;
                if r < 1 {
                    continue;
                }
                for a in trees(l, terms) {
                    for b in trees(m, terms) {
                        for c in trees(r, terms) {
                            out.push(format!("I {} {} {}", a, b, c));
                        }
                    }
                }
            }
        }
    }
    out
}

fn rand_tree(cx: &mut Ctx, budget: u32, nao_only: bool) -> String {
    if budget <= 1 || cx.rng.chance(1, 6) {
        return format!("T {}", cx.rng.below(7));
    }
    let k = if nao_only { cx.rng.below(4) } else { cx.rng.below(7) };
    match k {
        0 => format!("N {}", rand_tree(cx, budget - 1, nao_only)),
        1 => format!("n {}", rand_tree(cx, budget - 1, nao_only)),
        2 => format!("A {} {}", rand_tree(cx, budget / 2, nao_only), rand_tree(cx, budget / 2, nao_only)),
        3 => format!("O {} {}", rand_tree(cx, budget / 2, nao_only), rand_tree(cx, budget / 2, nao_only)),
        4 => format!("X {} {}", rand_tree(cx, budget / 2, nao_only), rand_tree(cx, budget / 2, nao_only)),
        5 => format!("I {} {} {}", rand_tree(cx, budget / 3, nao_only), rand_tree(cx, budget / 3, nao_only), rand_tree(cx, budget / 3, nao_only)),
        _ => format!("n T {}", cx.rng.below(7)),
    }
}

/// a tree with exactly `n` constructor applications (plain constructors only), prefix notation
fn sized_tree(cx: &mut Ctx, n: u64, out: &mut Vec<String>) {
    if n <= 1 {
        out.push("T".into());
        out.push(cx.rng.below(7).to_string());
        return;
    }
    let k = if n == 2 { 0 } else if n >= 4 { cx.rng.below(5) } else { 1 + cx.rng.below(3) };
    match k {
        0 => {
            out.push("N".into());
            sized_tree(cx, n - 1, out);
        }
        4 => {
            out.push("I".into());
            let a = 1 + cx.rng.below(n - 3);
            let b = 1 + cx.rng.below(n - 2 - a);
            sized_tree(cx, a, out);
            sized_tree(cx, b, out);
            sized_tree(cx, n - 1 - a - b, out);
        }
        _ => {
            out.push(["A", "O", "X"][(k - 1) as usize].into());
            // mostly balanced, sometimes lopsided
            let a = if cx.rng.chance(1, 4) { 1 + cx.rng.below(n - 2) } else { (n - 1) / 2 };
            sized_tree(cx, a, out);
            sized_tree(cx, n - 1 - a, out);
        }
    }
}

/// a random expression in constructor-by-constructor prefix notation (raw variants and the
/// simplifying constructors mixed, so that e.g. Not directly over Not occurs)
pub fn rand_exprtree(cx: &mut Ctx, hs: &[usize], depth: u32) -> String {
    if depth == 0 || cx.rng.chance(1, 5) {
        return format!("T {}", cx.rng.pick(hs));
    }
    match cx.rng.below(9) {
        0 | 1 => format!("N {}", rand_exprtree(cx, hs, depth - 1)),
        2 | 3 => format!("n {}", rand_exprtree(cx, hs, depth - 1)),
        k => {
            let op = ["A", "a", "O", "o", "X"][(k - 4) as usize];
            format!("{} {} {}", op, rand_exprtree(cx, hs, depth - 1), rand_exprtree(cx, hs, depth - 1))
        }
    }
}

/// C20: eda arena and Signal
pub fn s_eda(cx: &mut Ctx) {
    cx.ex.begin_case();
    let maxs = if cx.thorough { 5 } else { 4 };
    for size in 1..=maxs {
        let terms: Vec<u32> = if size <= 3 { vec![1, 2, 3] } else { vec![2, 3] };
        for t in trees(size, &terms) {
            cx_op!(cx, format!("eda.boxed {}", t));
            cx_op!(cx, format!("eda.boxed n {}", t));
        }
    }
    let m = if cx.thorough { 40000 } else { 600 };
    for i in 0..m {
        let b = 2 + cx.rng.below(if i % 10 == 0 { 400 } else { 40 }) as u32;
        let t = rand_tree(cx, b, i % 2 == 0);
        cx_op!(cx, format!("eda.boxed {}", t));
    }
    cx.samples.push(cx.ex.lines.iter().rev().take(3).cloned().collect());
    // trees around and beyond 2^16 and 2^17 nodes (arena indices wider than 16 / 17 bits)
    cx.ex.begin_case();
    let sizes: &[u64] = if cx.thorough { &[65535, 65536, 65537, 70001, 131071, 131072, 131073, 200_000, 300_001] } else { &[65535, 65536, 65537, 70001] };
    for &n in sizes {
        let mut toks = vec![];
        sized_tree(cx, n, &mut toks);
        cx_op!(cx, format!("eda.boxed {}", toks.join(" ")));
    }
    cx.notes.push(format!("large trees: {:?} nodes", sizes));
    cx.ex.begin_case();
    let b30 = 1u64 << 30;
    let mut idx: Vec<u64> = vec![0, 1, 2, 3, b30 - 3, b30 - 2, b30 - 1, b30, b30 + 1, (1 << 31) - 2, (1 << 31) - 1, 1 << 31, u32::MAX as u64 - 1, u32::MAX as u64];
    for _ in 0..(if cx.thorough { 40000 } else { 600 }) {
        idx.push(cx.rng.below(1 << 32));
        idx.push(cx.rng.below(b30));
    }
    cx.op("eda.consts".into());
    for i in idx {
        cx_op!(cx, format!("eda.signal {}", i));
        if i < b30 {
            cx_op!(cx, format!("eda.fromvar {}", i));
            cx_op!(cx, format!("eda.frominput {}", i));
        }
    }
    cx.samples.push(cx.ex.lines.iter().rev().take(3).cloned().collect());
}


/// "compute, collect without the result, let the freed cells be reused, compute again": the classic way
/// a stale cache entry or a mis-linked chain shows up (C02, C05, C07, C10, C11) — few buckets, so that
/// the dying result sits behind a live node in its chain
pub fn s_gc_reuse(cx: &mut Ctx) {
    let cases = if cx.thorough { 3000 } else { 80 };
    for ci in 0..cases {
        let n = 3 + cx.rng.below(3) as u32;
        let bb = cx.rng.below(3);
        let cb = 2 + cx.rng.below(5);
        cx_begin!(cx, n, format!("new 8 {} {}", bb, cb), 1);
        let mut memo = HashMap::new();
        let mut hs = vec![];
        for v in 1..=n {
            hs.push(cx_op!(cx, format!("var {}", v)));
        }
        for _ in 0..(2 + cx.rng.below(4)) {
            let f = rand_fn(cx, n);
            hs.push(build(cx, &mut memo, f));
        }
        for round in 0..6 {
            let (a, b, c) = (*cx.rng.pick(&hs), *cx.rng.pick(&hs), *cx.rng.pick(&hs));
            let v = 1 + cx.rng.below(n as u64);
            let line = match (ci + round) % 5 {
                0 | 1 => format!("ite {} {} {}", a, b, c),
                2 => format!("constrain {} {}", a, b),
                3 => format!("restrict {} {}", a, b),
                _ => format!("compose {} {} {}", a, v, b),
            };
            let r0 = cx.op(line.clone());
            if cx.rng.chance(1, 2) {
                cx_op!(cx, format!("size {}", r0));
            }
            // collect: the arguments stay, the result dies
            hs.retain(|&i| cx.ex.live[i]);
            let roots: Vec<String> = hs.iter().map(|r| r.to_string()).collect();
            cx_op!(cx, format!("gc {}", roots.join(" ")));
            cx.op("dump".into());
            // reuse the freed cells for different nodes
            for _ in 0..(1 + cx.rng.below(4)) {
                let (x, y) = (*cx.rng.pick(&hs), *cx.rng.pick(&hs));
                let op = *cx.rng.pick(&["xor", "and", "or", "eq"]);
                let t = cx_op!(cx, format!("{} {} {}", op, x, y));
                if cx.rng.chance(1, 3) {
                    cx_op!(cx, format!("size {}", t));
                }
            }
            // the same operation again: same function, and every cache entry it meets must be true
            let r1 = cx.op(line.clone());
            cx_op!(cx, format!("size {}", r1));
            if cx.rng.chance(1, 3) {
                hs.push(r1);
            }
            cx.op("digest".into());
        }
        // the other way round: the RESULT survives the collection, an OPERAND does not; a different
        // one-node function takes the operand's cell; the same connective with the same co-operand again
        // (a memo entry kept because its result is alive would now answer for the wrong operand)
        for round in 0..4 {
            hs.retain(|&i| cx.ex.live[i]);
            let i = 1 + cx.rng.below(n as u64 - 1);
            let j = i + 1 + cx.rng.below((n as u64 - i).max(1)).min(n as u64 - i - 1);
            let k = 1 + (j % n as u64);
            let ops = ["and", "or", "xor", "eq", "imply"];
            let mk1 = ops[(ci + round) % 2];
            let mk2 = ops[(ci + round + 1) % 2];
            let a = cx_op!(cx, format!("{} {} {}", mk1, i + 1, j + 1));          // handles of the variables are 2..=n+1
            let b = *cx.rng.pick(&hs);
            let op = ops[(ci + round) % 5];
            let r = cx_op!(cx, format!("{} {} {}", op, a, b));
            let r_ite = cx_op!(cx, format!("ite {} {} {}", a, b, *cx.rng.pick(&hs)));
            let mut roots: Vec<String> = hs.iter().map(|r| r.to_string()).collect();
            roots.push(r.to_string());
            roots.push(r_ite.to_string());
            cx_op!(cx, format!("gc {}", roots.join(" ")));
            let a2 = cx_op!(cx, format!("{} {} {}", mk2, i + 1, k + 1));
            cx_op!(cx, format!("{} {} {}", op, a2, b));
            cx_op!(cx, format!("{} {} {}", op, b, a2));
            let c = *cx.rng.pick(&hs);
            cx_op!(cx, format!("ite {} {} {}", a2, b, c));
            if cx.ex.live[r] {
                hs.push(r);
            }
            cx.op("digest".into());
        }
        cx.end();
    }
}

/// long runs of collections between a memoised operation and its repetition: K collections for K
/// around 2^8 and 2^16 (counters of those widths wrap there), then the freed cells are reused for
/// different functions and the first operations are asked again
pub fn s_gcwrap(cx: &mut Ctx) {
    let ks: &[u64] = if cx.thorough { &[255, 256, 257, 65535, 65536, 65537, 131072] } else { &[256, 65536] };
    let variants = if cx.thorough { 12 } else { 4 };
    for (ci, &k) in ks.iter().enumerate() {
        for variant in 0..variants {
            let n = 4u32;
            cx_begin!(cx, n, format!("new 7 {} {}", variant % 2, 3 + variant % 3), 1_000_000);
            let mut vars = vec![];
            for v in 1..=n {
                vars.push(cx_op!(cx, format!("var {}", v)));
            }
            let roots: Vec<String> = vars.iter().map(|r| r.to_string()).collect();
            // one-node functions: each takes exactly one fresh cell, so the second round's handles
            // carry the Ref values of the first round's
            let one_node = |cx: &mut Ctx, vars: &[usize]| -> String {
                let a = cx.rng.below(3) as usize;
                let b = a + 1 + cx.rng.below(3 - a as u64) as usize;
                match cx.rng.below(3) {
                    0 => format!("and {} {}", vars[a], vars[b]),
                    1 => format!("or {} {}", vars[a], vars[b]),
                    _ => {
                        let c = if b < 3 { b + 1 } else { b };
                        if c != b && a < b {
                            format!("ite {} {} {}", vars[a], vars[b], vars[c])
                        } else {
                            format!("and {} {}", vars[a], vars[b])
                        }
                    }
                }
            };
            let first: Vec<String> = if variant == 0 {
                vec![
                    format!("and {} {}", vars[0], vars[2]),
                    format!("or {} {}", vars[0], vars[3]),
                    format!("ite {} {} {}", vars[0], vars[1], vars[2]),
                    format!("or {} {}", vars[2], vars[3]),
                ]
            } else {
                (0..4).map(|_| one_node(cx, &vars)).collect()
            };
            let mut made = vec![];
            for l in &first {
                made.push(cx.op(l.clone()));
            }
            // second-level questions, by position
            let qs: Vec<(u64, usize, usize, usize)> = (0..6).map(|i| if variant == 0 && i < 3 { (i as u64, [1, 2, 2][i], [0, 3, 3][i], 0) } else { (cx.rng.below(5), cx.rng.below(4) as usize, cx.rng.below(4) as usize, cx.rng.below(4) as usize) }).collect();
            let ask = |cx: &mut Ctx, m: &[usize]| {
                for &(kind, a, b, c) in &qs {
                    let l = match kind {
                        0 => format!("constrain {} {}", m[a], m[b]),
                        1 => format!("restrict {} {}", m[a], m[b]),
                        2 => format!("compose {} {} {}", m[a], 2, m[b]),
                        3 => format!("ite {} {} {}", m[a], m[b], m[c]),
                        _ => format!("xor {} {}", m[a], m[b]),
                    };
                    let r = cx.op(l);
                    cx_op!(cx, format!("size {}", r));
                }
            };
            ask(cx, &made);
            cx.op("digest".into());
            for _ in 0..k {
                cx_op!(cx, format!("gc {}", roots.join(" ")));
            }
            cx.op("dump".into());
            cx.ex.scan(true);
            // the same cells, different functions
            let other: Vec<String> = if variant == 0 {
                vec![
                    format!("and {} {}", vars[0], vars[1]),
                    format!("and {} {}", vars[2], vars[3]),
                    format!("ite {} {} {}", vars[0], vars[2], vars[3]),
                    format!("or {} {}", vars[0], vars[3]),
                ]
            } else {
                (0..4).map(|_| one_node(cx, &vars)).collect()
            };
            let mut made2 = vec![];
            for l in &other {
                made2.push(cx.op(l.clone()));
            }
            cx.ex.scan_every = 1;
            // the first questions again: same Ref values, different functions behind them
            ask(cx, &made2);
            for l in &first {
                cx.op(l.clone());
            }
            cx.op("dump".into());
            cx.end();
        }
        if ci == 0 {
            cx.notes.push(format!("collection counts between memoisation and reuse: {:?}", ks));
        }
    }
}

/// classic function families over 2n variables (selectors s1..sn = variables 1..n, data d1..dn =
/// variables n+1..2n): multiplexer chains, thresholds "at least k of d", parities, conjunctions,
/// comparators — operands on which constrain / restrict / compose are known to blow up or to shrink
/// dramatically — all pairs through every binary operation; constrain is checked pointwise against the
/// closest-point definition on the stored diagrams
pub fn s_family(cx: &mut Ctx) {
    let ns: &[usize] = if cx.thorough { &[3, 4, 6, 8, 12, 16] } else { &[4, 8, 16] };
    for (ci, &n) in ns.iter().enumerate() {
        cx.ex.begin_case();
        cx.ex.tt = None;
        cx.ex.scan_every = 257;
        if n <= 3 {
            cx.op("vmap 1 2 3 4 5 6".into());
        }
        cx_op!(cx, format!("new {} 10 {}", if n >= 12 { 18 } else { 15 }, 10 + ci % 3));
        let mut sv = vec![0usize];
        let mut dv = vec![0usize];
        for i in 1..=n {
            sv.push(cx_op!(cx, format!("var {}", i)));
        }
        for i in 1..=n {
            dv.push(cx_op!(cx, format!("var {}", n + i)));
        }
        let mut fam: Vec<usize> = vec![];
        // multiplexer chain s1 ? d1 : (s2 ? d2 : … : last)
        for last in [1usize, 0] {
            let mut m = last;
            for i in (1..=n).rev() {
                m = cx_op!(cx, format!("ite {} {} {}", sv[i], dv[i], m));
            }
            fam.push(m);
        }
        // thresholds: t[k] = "at least k of d_i..d_n", built from the last data variable upwards
        let mut t: Vec<usize> = vec![0]; // at least 0 of nothing = true; at least k>0 of nothing = false
        for _ in 1..=n {
            t.push(1);
        }
        for i in (1..=n).rev() {
            let mut nt = vec![0usize];
            for k in 1..=n {
                nt.push(cx_op!(cx, format!("ite {} {} {}", dv[i], t[k - 1], t[k])));
            }
            t = nt;
        }
        for k in [1, (n + 1) / 2, n / 2 + 1, n] {
            fam.push(t[k.min(n)]);
        }
        // parities and conjunctions
        let mut pd = dv[n];
        let mut ps = sv[n];
        for i in (1..n).rev() {
            pd = cx_op!(cx, format!("xor {} {}", dv[i], pd));
            ps = cx_op!(cx, format!("xor {} {}", sv[i], ps));
        }
        fam.push(pd);
        fam.push(ps);
        fam.push(cx_op!(cx, format!("andmany {}", dv[1..].iter().map(|h| h.to_string()).collect::<Vec<_>>().join(" "))));
        fam.push(cx_op!(cx, format!("ormany {}", sv[1..].iter().map(|h| h.to_string()).collect::<Vec<_>>().join(" "))));
        // comparator: s (as a number, s1 most significant) > d
        {
            let mut gt = 1usize; // false
            for i in (1..=n).rev() {
                let nd = cx_op!(cx, format!("not {}", dv[i]));
                let here = cx_op!(cx, format!("and {} {}", sv[i], nd));
                let same = cx_op!(cx, format!("eq {} {}", sv[i], dv[i]));
                let keep = cx_op!(cx, format!("and {} {}", same, gt));
                gt = cx_op!(cx, format!("or {} {}", here, keep));
            }
            fam.push(gt);
        }
        // pairwise interactions "s_i and d_i" (selectors and data interleaved in meaning, far apart in order)
        {
            let mut acc = 1usize;
            for i in 1..=n {
                let p = cx_op!(cx, format!("and {} {}", sv[i], dv[i]));
                acc = cx_op!(cx, format!("or {} {}", acc, p));
            }
            fam.push(acc);
        }
        let roots: Vec<String> = fam.iter().chain(sv[1..].iter()).chain(dv[1..].iter()).map(|h| h.to_string()).collect();
        for (ai, &a) in fam.iter().enumerate() {
            for (bi, &b) in fam.iter().enumerate() {
                if ai == bi {
                    continue;
                }
                let r1 = cx_op!(cx, format!("constrain {} {}", a, b));
                cx_op!(cx, format!("restrict {} {}", a, b));
                if (ai + bi) % 2 == 0 {
                    cx_op!(cx, format!("compose {} {} {}", a, 1 + (ai * 7 + bi) % (2 * n), b));
                    cx_op!(cx, format!("and {} {}", a, b));
                    cx_op!(cx, format!("size {}", r1));
                }
                if (ai + 2 * bi) % 5 == 0 {
                    cx_op!(cx, format!("ite {} {} {}", fam[(ai + bi) % fam.len()], a, b));
                    cx_op!(cx, format!("implies {} {}", a, b));
                }
            }
            // keep the table small: the family survives, the results do not
            cx_op!(cx, format!("gc {}", roots.join(" ")));
            cx.op("digest".into());
        }
        cx.end();
    }
}

/// parents that are younger than their children but sit in LOWER cells: padding is created and
/// discarded, an old diagram D survives a collection high up in the table, new parents over D are
/// allocated into the freed low cells (several layers), then a collection keeps only the newest parent.
/// Anything that assumes "children have smaller indices" (a one-pass mark, a bottom-up sweep for
/// counting or exporting) goes wrong exactly here.
pub fn s_young_low(cx: &mut Ctx) {
    let cases = if cx.thorough { 20000 } else { 30 };
    for ci in 0..cases {
        let n = 6u32;
        let bb = cx.rng.below(4);
        cx_begin!(cx, n, format!("new {} {} {}", 7 + ci % 3, bb, 2 + cx.rng.below(4)), 1);
        // padding in the low cells
        let pad = 3 + cx.rng.below(10);
        let mut padh = vec![];
        for _ in 0..pad {
            let (a, b) = (1 + cx.rng.below(6), 1 + cx.rng.below(6));
            if a != b {
                let va = cx_op!(cx, format!("var {}", a.min(b)));
                let vb = cx_op!(cx, format!("var {}", a.max(b)));
                padh.push(cx_op!(cx, format!("{} {} {}", cx.rng.pick(&["and", "or", "xor"]), va, vb)));
            }
        }
        // the old diagram over variables 4..6 (a few nodes deep)
        let mut memo = HashMap::new();
        let t3 = (cx.rng.next() & 0xff) | 0x100; // some function of three variables, not constant
        let sub: Vec<u32> = vec![4, 5, 6];
        let mut tab = expand(t3 & 0xff, &sub);
        if tab == 0 || tab == u64::MAX {
            tab = expand(0x96, &sub);
        }
        let d = build(cx, &mut memo, tab);
        cx_op!(cx, format!("gc {}", d));
        cx.op("dump".into());
        // young parents in the freed low cells, several layers
        let side = |cx: &mut Ctx, d: usize| -> usize {
            match cx.rng.below(4) {
                0 => 0usize,
                1 => 1,
                2 => d,
                _ => cx_op!(cx, format!("not {}", d)),
            }
        };
        let mut cur = d;
        let mut layers = vec![d];
        for v in [3u32, 2, 1] {
            let o = side(cx, d);
            let h = if cx.rng.chance(1, 2) { cx_op!(cx, format!("node {} {} {}", v, o, cur)) } else { cx_op!(cx, format!("node {} {} {}", v, cur, o)) };
            if cx.reply().starts_with("r ") && cx.ex.env[h] != cx.ex.env[cur] {
                cur = h;
                layers.push(h);
            }
            if cx.rng.chance(1, 3) {
                break;
            }
        }
        // queries that walk the diagram, then a collection that keeps only the newest parent
        for q in ["size", "satcount", "onesat", "paths", "bracket", "dot", "desc"] {
            match q {
                "satcount" => cx_op!(cx, format!("satcount {} {}", cur, 6 + cx.rng.below(3))),
                _ => cx_op!(cx, format!("{} {}", q, cur)),
            };
        }
        let roots: Vec<String> = match ci % 3 {
            0 => vec![cur.to_string()],
            1 => vec![cur.to_string(), cur.to_string()],
            _ => vec![cur.to_string(), layers[cx.rng.below(layers.len() as u64) as usize].to_string()],
        };
        cx_op!(cx, format!("gc {}", roots.join(" ")));
        cx.op("dump".into());
        for q in ["size", "paths", "dot", "desc"] {
            cx_op!(cx, format!("{} {}", q, cur));
        }
        cx_op!(cx, format!("satcount {} 6", cur));
        // reuse whatever was freed, then look at the survivor again
        for _ in 0..(2 + cx.rng.below(5)) {
            let (a, b) = (1 + cx.rng.below(6), 1 + cx.rng.below(6));
            if a != b {
                let va = cx_op!(cx, format!("var {}", a));
                let vb = cx_op!(cx, format!("var {}", b));
                cx_op!(cx, format!("{} {} {}", cx.rng.pick(&["and", "or", "xor"]), va, vb));
            }
        }
        cx_op!(cx, format!("size {}", cur));
        cx_op!(cx, format!("satcount {} 6", cur));
        cx_op!(cx, format!("gc {}", cur));
        cx.op("dump".into());
        cx.end();
    }
}

/// histories over 8–40 variables in managers created by `Bdd::new(bits)` itself (default bucket and cache
/// sizes, up to 2^20 cells); oracles: sampled evaluation on 64 assignments, signatures across collections,
/// structural scans every 64 operations
pub fn s_big(cx: &mut Ctx) {
    let cases = if cx.thorough { 120 } else { 8 };
    for ci in 0..cases {
        let n = 8 + cx.rng.below(33) as u32;
        let sb = if ci % 4 == 3 { 20 } else { 10 + cx.rng.below(7) };
        cx.ex.begin_case();
        cx.ex.tt = None;
        cx.ex.scan_every = 64;
        if ci % 4 == 3 {
            cx.op("default".into()); // `Bdd::default()`
        } else {
            cx_op!(cx, format!("newdefault {}", sb));
        }
        let mut hs = vec![0usize, 1];
        for v in 1..=n {
            hs.push(cx_op!(cx, format!("var {}", v)));
        }
        let len = if cx.thorough { 1200 } else { 400 };
        for step in 0..len {
            hs.retain(|&i| cx.ex.live[i]);
            let pick = |cx: &mut Ctx, hs: &Vec<usize>| -> usize {
                if cx.rng.chance(2, 3) && hs.len() > 12 {
                    hs[hs.len() - 1 - cx.rng.below(12) as usize]
                } else {
                    *cx.rng.pick(hs)
                }
            };
            let (a, b, c) = (pick(cx, &hs), pick(cx, &hs), pick(cx, &hs));
            let v = 1 + cx.rng.below(n as u64 + 1);
            let r = match cx.rng.below(30) {
                0..=7 => Some(cx_op!(cx, format!("ite {} {} {}", a, b, c))),
                8..=13 => {
                    let op = *cx.rng.pick(&["and", "or", "xor", "eq", "imply"]);
                    Some(cx_op!(cx, format!("{} {} {}", op, a, b)))
                }
                14 => Some(cx_op!(cx, format!("subst {} {} {}", a, v, cx.rng.below(2)))),
                15 => {
                    let lits = asc_lits(cx, n);
                    Some(cx_op!(cx, format!("substm {} {}", a, lits)))
                }
                16 => {
                    let lits = asc_lits(cx, n);
                    Some(cx_op!(cx, format!("cofcube {} {}", a, lits)))
                }
                17 | 18 => Some(cx_op!(cx, format!("compose {} {} {}", a, v, b))),
                19 => Some(cx_op!(cx, format!("constrain {} {}", a, b))),
                20 => Some(cx_op!(cx, format!("restrict {} {}", a, b))),
                21 => {
                    cx_op!(cx, format!("itec {} {} {}", a, b, c));
                    cx_op!(cx, format!("implies {} {}", a, b));
                    None
                }
                22 => {
                    cx_op!(cx, format!("satcount {} {}", a, n as u64 + cx.rng.below(40)));
                    cx_op!(cx, format!("onesat {}", a));
                    None
                }
                23 => {
                    cx_op!(cx, format!("size {}", a));
                    None
                }
                24 => {
                    let lits = any_lits(cx, n.min(12));
                    let op = if cx.rng.chance(1, 2) { "cube" } else { "clause" };
                    Some(cx_op!(cx, format!("{} {}", op, lits)))
                }
                25 => {
                    let e = gen_expr(cx, &[a, b, c], 3);
                    Some(cx_op!(cx, format!("expr {}", e)))
                }
                26 => Some(cx_op!(cx, format!("not {}", a))),
                _ => {
                    // keep a few handles and the variables, collect the rest
                    let mut roots: Vec<usize> = hs.iter().copied().filter(|_| cx.rng.chance(1, 4)).collect();
                    roots.extend(2..(2 + n as usize).min(hs.len()));
                    let s: Vec<String> = roots.iter().map(|r| r.to_string()).collect();
                    cx_op!(cx, format!("gc {}", s.join(" ")));
                    cx.op("digest".into());
                    None
                }
            };
            if let Some(r) = r {
                // do not let diagrams explode: keep results of moderate size only
                if cx.ex.live[r] && cx.rng.chance(1, 2) {
                    hs.push(r);
                }
            }
            if step % 32 == 0 {
                cx.op("digest".into());
            }
        }
        cx.op("digest".into());
        if cx.samples.len() < 3 {
            let start = *cx.ex.case_starts.last().unwrap();
            cx.samples.push(cx.ex.lines[start..].iter().take(12).cloned().collect());
        }
    }
}

pub fn run_suite(name: &str, cx: &mut Ctx) -> bool {
    match name {
        "mk" => s_mk(cx),
        "ite3" => s_ite3(cx),
        "conn" => s_conn(cx),
        "hist" => s_hist(cx),
        "gc_chain" => s_gc_chain(cx),
        "gc_reuse" => s_gc_reuse(cx),
        "big" => s_big(cx),
        "soak" => s_soak(cx),
        "memo" => s_memo(cx),
        "subst" => s_subst(cx),
        "compose" => s_compose(cx),
        "constrain" => s_cr(cx, "constrain"),
        "restrict" => s_cr(cx, "restrict"),
        "itec" => s_itec(cx),
        "count" => s_count(cx),
        "export" => s_export(cx),
        "table" => s_table(cx),
        "hugevar" => s_hugevar(cx),
        "family" => s_family(cx),
        "young_low" => s_young_low(cx),
        "deep" => s_deep(cx),
        "split" => s_split(cx),
        "wide" => s_wide(cx),
        "huge" => s_huge(cx),
        "tnode" => s_tnode(cx),
        "gcwrap" => s_gcwrap(cx),
        "bits" => s_bits(cx),
        "sparse" => {
            s_sparse(cx);
            s_staggered(cx)
        }
        "retry" => s_retry(cx),
        "cache" => {
            s_cache(cx);
            s_cache_large(cx)
        }
        "cacherep" => s_cacherep(cx),
        "kcache" => s_kcache(cx),
        "raw" => s_raw(cx, cfg!(debug_assertions)),
        "eda" => s_eda(cx),
        _ => return false,
    }
    true
}

pub const ALL_SUITES: &[&str] = &[
    "mk", "ite3", "conn", "hist", "gc_chain", "gc_reuse", "big", "soak", "memo", "subst", "compose", "constrain", "restrict", "itec", "count", "export", "table", "cache", "cacherep", "kcache", "raw", "eda", "hugevar", "gcwrap", "tnode", "huge", "wide", "split", "deep", "young_low", "family",
];

#!/usr/bin/env python3
"""seedcheck.py <seed-id> <worktree> <property> [--all]

Confirms a seeded change (tests still pass with it, demo fails with it, passes without it) in the
scratch worktree, stores it under /verif/seeded/<seed-id>/, then applies it to /repo, runs the
property's check (and with --all every check), records which checks raised an alarm, and restores
/repo."""
import json
import os
import shutil
import subprocess
import sys
import time

V = "/verif"


def sh(cmd, cwd=None, timeout=3600):
    e = dict(os.environ)
    e["CARGO_NET_OFFLINE"] = "true"
    p = subprocess.run(cmd, cwd=cwd, shell=True, stdout=subprocess.PIPE, stderr=subprocess.STDOUT, env=e, timeout=timeout)
    return p.returncode, p.stdout.decode("utf-8", "replace")


def main():
    sid, wt, prop = sys.argv[1], sys.argv[2], sys.argv[3]
    run_all = "--all" in sys.argv
    seed = os.path.join(wt, "_seed")
    patch = os.path.join(seed, "patch.diff")
    assert os.path.exists(patch), "no patch.diff"
    is_eda_demo = os.path.exists(os.path.join(wt, "examples/eda/examples/seed_demo.rs"))
    demo_cmd = "cargo run --offline --example seed_demo" + (" -p eda" if is_eda_demo else "")
    if not is_eda_demo and not os.path.exists(os.path.join(wt, "examples/seed_demo.rs")):
        shutil.copy(os.path.join(seed, "demo.rs"), os.path.join(wt, "examples/seed_demo.rs"))
    meta = dict(seed_id=sid, property=prop, confirmed={}, checks={})
    # 1. confirm in the scratch worktree
    sh("git checkout -- src examples/eda/src", cwd=wt)
    rc0, out0 = sh(demo_cmd, cwd=wt)
    meta["confirmed"]["demo_passes_without_change"] = rc0 == 0
    rc, out = sh("git apply _seed/patch.diff", cwd=wt)
    assert rc == 0, "patch does not apply: " + out
    rct, outt = sh("cargo test --workspace --no-fail-fast --offline 2>&1 | grep -E '^test result|FAILED|failed' ", cwd=wt)
    passed = sum(int(l.split(" passed")[0].split()[-1]) for l in outt.splitlines() if l.startswith("test result"))
    failed = sum(int(l.split(" failed")[0].split()[-1]) for l in outt.splitlines() if l.startswith("test result"))
    meta["confirmed"]["tests_with_change"] = dict(passed=passed, failed=failed)
    rc1, out1 = sh(demo_cmd, cwd=wt)
    meta["confirmed"]["demo_fails_with_change"] = rc1 != 0
    meta["confirmed"]["demo_output_with_change"] = out1[-600:]
    sh("git checkout -- src examples/eda/src", cwd=wt)
    ok = rc0 == 0 and rc1 != 0 and failed == 0 and passed >= 70
    meta["confirmed"]["all"] = ok
    print("confirmed:", meta["confirmed"]["demo_passes_without_change"], meta["confirmed"]["tests_with_change"], meta["confirmed"]["demo_fails_with_change"])
    if not ok:
        print("NOT CONFIRMED — not kept")
        print(out0[-500:], out1[-500:], outt[-500:])
        sys.exit(1)
    # 2. keep it
    dst = os.path.join(V, "seeded", sid)
    os.makedirs(dst, exist_ok=True)
    shutil.copy(patch, os.path.join(dst, "patch.diff"))
    shutil.copy(os.path.join(seed, "demo.rs"), os.path.join(dst, "demo.rs"))
    if os.path.exists(os.path.join(seed, "NOTES.md")):
        shutil.copy(os.path.join(seed, "NOTES.md"), os.path.join(dst, "NOTES.md"))
    # 3. run the checks against it in /repo
    rc, out = sh("git status --short", cwd="/repo")
    assert out.strip() == "", "/repo is not clean: " + out
    rc, out = sh("git apply %s" % os.path.join(dst, "patch.diff"), cwd="/repo")
    assert rc == 0, out
    try:
        props = [prop]
        if run_all:
            props += [p for p in ["C%02d" % i for i in range(1, 21)] if p != prop]
        for p in props:
            t0 = time.time()
            rc, out = sh("./check %s --tier quick" % p, cwd=V, timeout=3600)
            lines = [l for l in out.splitlines() if l.startswith("VIOLATION") or l.startswith(p + ":")]
            meta["checks"][p] = dict(exit=rc, lines=lines[-3:], wall_s=round(time.time() - t0, 1))
            print(p, rc, (lines[-1] if lines else out[-200:]))
    finally:
        sh("git checkout -- .", cwd="/repo")
    meta["what_it_needs"] = open(os.path.join(dst, "NOTES.md")).read()[:1500] if os.path.exists(os.path.join(dst, "NOTES.md")) else ""
    meta["ran"] = ["cargo test --workspace --no-fail-fast --offline (with the change)", demo_cmd + " (with / without the change)", "./check <ID> --tier quick with the patch applied to /repo"]
    json.dump(meta, open(os.path.join(dst, "meta.json"), "w"), indent=1)


if __name__ == "__main__":
    main()

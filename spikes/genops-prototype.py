import random, sys
seed=int(sys.argv[1]); n=int(sys.argv[2]); nv=int(sys.argv[3])
random.seed(seed)
cnt=2  # handles: 0=one 1=zero
out=[]
for v in range(1,nv+1):
    out.append(f"var {v}"); cnt+=1
for _ in range(n):
    op=random.choice(["ite"]*4+["and","or","xor","not","constrain","restrict","compose","subst","itec","satcount","cube","cofcube","substm","onesat","paths"])
    h=lambda: random.randrange(cnt)
    if op=="ite": out.append(f"ite {h()} {h()} {h()}"); cnt+=1
    elif op in("and","or","xor","constrain","restrict"): out.append(f"{op} {h()} {h()}"); cnt+=1
    elif op=="not": out.append(f"not {h()}"); cnt+=1
    elif op=="compose": out.append(f"compose {h()} {random.randint(1,nv)} {h()}"); cnt+=1
    elif op=="subst": out.append(f"subst {h()} {random.randint(1,nv)} {random.randint(0,1)}"); cnt+=1
    elif op=="itec": out.append(f"itec {h()} {h()} {h()}")
    elif op in ("cube","cofcube","substm"):
        vs=[v for v in range(1,nv+1) if random.random()<0.5]
        lits=[(v if random.random()<0.5 else -v) for v in vs]
        if op=="cube":
            random.shuffle(lits); out.append("cube "+" ".join(map(str,lits))) if lits else out.append("cube"); cnt+=1
        elif op=="cofcube": out.append(("cofcube %d "%h()+" ".join(map(str,lits))).strip()); cnt+=1
        else:
            random.shuffle(lits); out.append(("substm %d "%h()+" ".join(map(str,lits))).strip()); cnt+=1
    elif op=="onesat": out.append(f"onesat {h()}")
    elif op=="paths": out.append(f"paths {h()}")
    elif op=="satcount": out.append(f"satcount {h()} {random.choice([nv,nv+1,70])}")
print("\n".join(out))

import Proto.Sem
/-! Feasibility spike: mk_node and apply_ite (fuel model, op cache) are semantically correct. -/
namespace P

def Ref.zero : Ref := ⟨1, true⟩

@[simp] theorem Ref.not_not (r : Ref) : r.not.not = r := by cases r; simp [Ref.not]
@[simp] theorem Ref.not_idx (r : Ref) : r.not.idx = r.idx := rfl

def Valid (nd : Nodes) (r : Ref) (φ : Fn) : Prop := ∃ d, Den nd d r φ

theorem Den.det {nd} (h1 : nd 1 = none) {d r φ} (h : Den nd d r φ) : ∀ {d' ψ}, Den nd d' r ψ → φ = ψ := by
  induction h with
  | one =>
    intro d' ψ h'
    cases h' with
    | one => rfl
    | node hn => rw [h1] at hn; cases hn
  | @node i n d0 d1 φ0 φ1 hn _ _ ih0 ih1 =>
    intro d' ψ h'
    cases h' with
    | one => rw [h1] at hn; cases hn
    | @node _ n' _ _ _ _ hn' h0' h1' =>
      have : n = n' := by rw [hn] at hn'; exact Option.some.inj hn'
      subst this
      rw [ih0 h0', ih1 h1']
  | neg _ ih =>
    intro d' ψ h'
    cases h' with
    | neg h'' => rw [ih h'']

theorem Valid.det {nd} (h1 : nd 1 = none) {r φ ψ} (a : Valid nd r φ) (b : Valid nd r ψ) : φ = ψ := by
  obtain ⟨_, a⟩ := a; obtain ⟨_, b⟩ := b; exact a.det h1 b

def Sub (nd nd' : Nodes) : Prop := ∀ i n, nd i = some n → nd' i = some n

theorem Den.mono {nd nd'} (hs : Sub nd nd') {d r φ} (h : Den nd d r φ) : Den nd' d r φ := by
  induction h with
  | one => exact .one
  | node hn _ _ ih0 ih1 => exact .node (hs _ _ hn) ih0 ih1
  | neg _ ih => exact .neg ih

theorem Valid.mono {nd nd'} (hs : Sub nd nd') {r φ} (h : Valid nd r φ) : Valid nd' r φ := by
  obtain ⟨d, h⟩ := h; exact ⟨d, h.mono hs⟩

theorem TopGe.mono {nd nd'} (hs : Sub nd nd') {r v} (h : TopGe nd r v) : TopGe nd' r v := by
  rcases h with h | ⟨n, hn, hv⟩
  · exact Or.inl h
  · exact Or.inr ⟨n, hs _ _ hn, hv⟩

theorem TopGe.le {nd r v w} (h : TopGe nd r v) (hw : w ≤ v) : TopGe nd r w := by
  rcases h with h | ⟨n, hn, hv⟩
  · exact Or.inl h
  · exact Or.inr ⟨n, hn, Nat.le_trans hw hv⟩

theorem TopGe.not {nd r v} (h : TopGe nd r v) : TopGe nd r.not v := h

theorem Valid.one {nd} : Valid nd Ref.one (fun _ => true) := ⟨0, .one⟩
theorem Valid.zero {nd} : Valid nd Ref.zero (fun _ => false) := ⟨0, by simpa [Ref.zero] using Den.neg (Den.one (nd := nd))⟩

theorem Valid.not {nd r φ} (h : Valid nd r φ) : Valid nd r.not (fun e => !φ e) := by
  obtain ⟨d, h⟩ := h
  rcases r with ⟨i, b⟩
  cases b with
  | false => exact ⟨d, .neg h⟩
  | true =>
    obtain ⟨ψ, hψ, rfl⟩ := h.negInv
    refine ⟨d, ?_⟩
    simpa [Ref.not] using hψ

/-! ## state -/

inductive OpKey
  | ite (f g h : Ref)
  | constrain (f g : Ref)
  | restrict (f g : Ref)
deriving DecidableEq

inductive Fault | storageFull | outOfFuel | assertion
deriving DecidableEq, Repr

structure St where
  nodes : Nodes
  next : Nat
  cache : OpKey → Option Ref

def St.put (s : St) (n : Node) : St × Nat :=
  match (List.range s.next).find? (fun i => s.nodes i == some n) with
  | some i => (s, i)
  | none => ({ s with nodes := fun j => if j = s.next then some n else s.nodes j, next := s.next + 1 }, s.next)

def St.var (s : St) (r : Ref) : Nat := match s.nodes r.idx with | some n => n.var | none => 0
def St.low (s : St) (i : Nat) : Ref := match s.nodes i with | some n => n.low | none => ⟨0, false⟩
def St.high (s : St) (i : Nat) : Ref := match s.nodes i with | some n => n.high | none => ⟨0, false⟩

def isOne (r : Ref) : Bool := r == Ref.one
def isZero (r : Ref) : Bool := r == Ref.zero
def isTerminal (r : Ref) : Bool := isOne r || isZero r

def mkNodeReg (s : St) (v : Nat) (low high : Ref) : St × Ref :=
  if low = high then (s, low) else
  let p := s.put ⟨v, low, high⟩
  (p.1, ⟨p.2, false⟩)

def mkNode (s : St) (v : Nat) (low high : Ref) : Except Fault (St × Ref) :=
  if v = 0 then .error .assertion else
  if high.neg then
    let p := mkNodeReg s v low.not high.not
    .ok (p.1, p.2.not)
  else .ok (mkNodeReg s v low high)

def topCofactors (s : St) (r : Ref) (v : Nat) : Except Fault (Ref × Ref) :=
  if v = 0 then .error .assertion else
  if isTerminal r then .ok (r, r) else
  if v < s.var r then .ok (r, r) else
  if v ≠ s.var r then .error .assertion else
  if r.neg then .ok ((s.low r.idx).not, (s.high r.idx).not) else .ok (s.low r.idx, s.high r.idx)

/-- what a cache entry asserts -/
def Fact (nd : Nodes) : OpKey → Ref → Prop
  | .ite f g h, r => ∃ φf φg φh, Valid nd f φf ∧ Valid nd g φg ∧ Valid nd h φh ∧ Valid nd r (ITE φf φg φh)
  | .constrain f g, r => ∃ φf φg h, Valid nd f φf ∧ Valid nd g φg ∧ Valid nd r h ∧ ConstrainSpec φf φg h
  | .restrict f g, r => ∃ φf φg h, Valid nd f φf ∧ Valid nd g φg ∧ Valid nd r h ∧ RestrictRel φf φg h

theorem Fact.mono {nd nd'} (hs : Sub nd nd') {k r} (h : Fact nd k r) : Fact nd' k r := by
  cases k with
  | ite f g h' => obtain ⟨a, b, c, x, y, z, w⟩ := h; exact ⟨a, b, c, x.mono hs, y.mono hs, z.mono hs, w.mono hs⟩
  | constrain f g => obtain ⟨a, b, c, x, y, z, w⟩ := h; exact ⟨a, b, c, x.mono hs, y.mono hs, z.mono hs, w⟩
  | restrict f g => obtain ⟨a, b, c, x, y, z, w⟩ := h; exact ⟨a, b, c, x.mono hs, y.mono hs, z.mono hs, w⟩

/-- good states -/
structure Good (s : St) : Prop where
  inv : NInv s.nodes
  bnd : ∀ i n, s.nodes i = some n → 2 ≤ i ∧ i < s.next
  var0 : ∀ i n, s.nodes i = some n → n.var ≠ 0
  next2 : 2 ≤ s.next
  cache : ∀ k r, s.cache k = some r → Fact s.nodes k r

theorem put_spec {s : St} (hg : Good s) (n : Node) {s' i} (h : s.put n = (s', i)) :
    s'.nodes i = some n ∧ Sub s.nodes s'.nodes ∧ s'.cache = s.cache ∧
    (∀ j m, s'.nodes j = some m → s.nodes j = some m ∨ (j = i ∧ m = n)) ∧
    (∀ j m, s'.nodes j = some m → 2 ≤ j ∧ j < s'.next) ∧ 2 ≤ i ∧ s.next ≤ s'.next ∧
    (s.nodes i = some n ∨ ∀ j, s.nodes j ≠ some n) := by
  unfold St.put at h
  cases hf : (List.range s.next).find? (fun i => s.nodes i == some n) with
  | some k =>
    rw [hf] at h
    cases h
    have := List.find?_some hf
    have hk' : s.nodes i = some n := by simpa using this
    exact ⟨hk', fun _ _ h => h, rfl, fun j m h => Or.inl h, hg.bnd, (hg.bnd _ _ hk').1, Nat.le_refl _, Or.inl hk'⟩
  | none =>
    rw [hf] at h
    cases h
    have hfresh : s.nodes s.next = none := by
      cases hx : s.nodes s.next with
      | none => rfl
      | some m => have := (hg.bnd _ _ hx).2; omega
    refine ⟨by simp, ?_, rfl, ?_, ?_, ?_, by simp, ?_⟩
    · intro j m hj
      have : j ≠ s.next := by intro e; subst e; rw [hfresh] at hj; cases hj
      simp [this, hj]
    · intro j m hj
      by_cases e : j = s.next
      · subst e; simp at hj; exact Or.inr ⟨rfl, hj.symm⟩
      · simp [e] at hj; exact Or.inl hj
    · intro j m hj
      by_cases e : j = s.next
      · subst e
        have := hg.next2
        simp; omega
      · simp [e] at hj; have := hg.bnd _ _ hj; simp; omega
    · exact hg.next2
    · right
      intro j hj
      have hb := (hg.bnd _ _ hj).2
      have := List.find?_eq_none.mp hf j (by simpa using hb)
      simp [hj] at this

theorem topGe_of_supp {nd} (hI : NInv nd) {r φ v} (h : Valid nd r φ) (hs : SuppGe φ v) : TopGe nd r v := by
  obtain ⟨d, h⟩ := h
  -- reduce to the regular ref
  have key : ∀ i ψ, Den nd d ⟨i, false⟩ ψ → SuppGe ψ v → TopGe nd ⟨i, false⟩ v := by
    intro i ψ hr hsψ
    rcases hr.regInv with ⟨rfl, -, -⟩ | ⟨n, d0, d1, φ0, φ1, hn, h0, h1, hdd, hφ⟩
    · exact Or.inl rfl
    · refine Or.inr ⟨n, hn, ?_⟩
      apply Classical.byContradiction
      intro hlt
      have hlt : n.var < v := by omega
      have hc : CanonUpTo nd (max d0 d1) := fun a b r r' φ _ _ x y => canonicity hI x y
      obtain ⟨e, he⟩ := depends_top hI hc hn h0 h1 (Nat.le_max_left _ _) (Nat.le_max_right _ _)
      apply he
      have := hsψ (upd e n.var true) (upd e n.var false) (upd_agree e n.var true false v hlt)
      rw [hφ] at this
      exact this
  rcases r with ⟨i, b⟩
  cases b with
  | false => exact key i φ h hs
  | true =>
    obtain ⟨ψ, hψ, rfl⟩ := h.negInv
    have : SuppGe ψ v := by
      intro e e' hee
      have := hs e e' hee
      simpa using this
    exact key i ψ hψ this

theorem valid_stored {nd} {r φ} (h : Valid nd r φ) : r.idx = 1 ∨ ∃ n, nd r.idx = some n := by
  obtain ⟨d, h⟩ := h
  cases h with
  | one => exact Or.inl rfl
  | node hn => exact Or.inr ⟨_, hn⟩
  | neg h' =>
    cases h' with
    | one => exact Or.inl rfl
    | node hn => exact Or.inr ⟨_, hn⟩


theorem Good.of_put {s : St} (hg : Good s) {v low high φ0 φ1} (hv : v ≠ 0)
    (h0 : Valid s.nodes low φ0) (h1 : Valid s.nodes high φ1)
    (s0 : SuppGe φ0 (v + 1)) (s1 : SuppGe φ1 (v + 1)) (hreg : high.neg = false) (hne : low ≠ high)
    {s' i} (h : s.put ⟨v, low, high⟩ = (s', i)) : Good s' := by
  obtain ⟨hi, hsub, hcache, hcases, hbnd, hi2, hnext, hfound⟩ := put_spec hg _ h
  have t0 := topGe_of_supp hg.inv h0 s0
  have t1 := topGe_of_supp hg.inv h1 s1
  refine ⟨⟨?_, ?_, ?_, ?_, ?_, ?_⟩, hbnd, ?_, by have := hg.next2; omega, ?_⟩
  · intro a b n ha hb
    rcases hcases _ _ ha with ha' | ⟨rfl, rfl⟩ <;> rcases hcases _ _ hb with hb' | ⟨rfl, hb2⟩
    · exact hg.inv.uniq _ _ _ ha' hb'
    · subst hb2
      rcases hfound with hf | hf
      · exact hg.inv.uniq _ _ _ ha' hf
      · exact absurd ha' (hf _)
    · rcases hfound with hf | hf
      · exact hg.inv.uniq _ _ _ hf hb'
      · exact absurd hb' (hf _)
    · rfl
  · cases hx : s'.nodes 1 with
    | none => rfl
    | some m => have := (hbnd _ _ hx).1; omega
  · intro a n ha
    rcases hcases _ _ ha with ha' | ⟨rfl, rfl⟩
    · exact hg.inv.highReg _ _ ha'
    · exact hreg
  · intro a n ha
    rcases hcases _ _ ha with ha' | ⟨rfl, rfl⟩
    · exact hg.inv.reduced _ _ ha'
    · exact hne
  · intro a n ha
    rcases hcases _ _ ha with ha' | ⟨rfl, rfl⟩
    · exact (hg.inv.ordLow _ _ ha').mono hsub
    · exact t0.mono hsub
  · intro a n ha
    rcases hcases _ _ ha with ha' | ⟨rfl, rfl⟩
    · exact (hg.inv.ordHigh _ _ ha').mono hsub
    · exact t1.mono hsub
  · intro a n ha
    rcases hcases _ _ ha with ha' | ⟨rfl, rfl⟩
    · exact hg.var0 _ _ ha'
    · exact hv
  · intro k r hc
    rw [hcache] at hc
    exact (hg.cache _ _ hc).mono hsub

theorem mkNodeReg_spec {s : St} (hg : Good s) {v low high φ0 φ1} (hv : v ≠ 0)
    (h0 : Valid s.nodes low φ0) (h1 : Valid s.nodes high φ1)
    (s0 : SuppGe φ0 (v + 1)) (s1 : SuppGe φ1 (v + 1)) (hreg : high.neg = false) :
    let p := mkNodeReg s v low high
    Good p.1 ∧ Sub s.nodes p.1.nodes ∧ p.1.cache = s.cache ∧
      Valid p.1.nodes p.2 (fun e => if e v then φ1 e else φ0 e) := by
  unfold mkNodeReg
  by_cases hne : low = high
  · subst hne
    have : φ0 = φ1 := h0.det hg.inv.noterm h1
    subst this
    simp only [↓reduceIte]
    refine ⟨hg, fun _ _ h => h, by first | rfl | trivial, ?_⟩
    have : (fun e : Env => if e v = true then φ0 e else φ0 e) = φ0 := by funext e; simp
    rw [this]; exact h0
  · simp only [hne, ↓reduceIte]
    have hp : s.put ⟨v, low, high⟩ = ((s.put ⟨v, low, high⟩).1, (s.put ⟨v, low, high⟩).2) := rfl
    have hg' := hg.of_put hv h0 h1 s0 s1 hreg hne hp
    obtain ⟨hi, hsub, hcache, -⟩ := put_spec hg _ hp
    refine ⟨hg', hsub, hcache, ?_⟩
    obtain ⟨d0, h0⟩ := h0.mono hsub
    obtain ⟨d1, h1⟩ := h1.mono hsub
    exact ⟨_, Den.node hi h0 h1⟩

theorem mkNode_spec {s : St} (hg : Good s) {v low high φ0 φ1}
    (h0 : Valid s.nodes low φ0) (h1 : Valid s.nodes high φ1)
    (s0 : SuppGe φ0 (v + 1)) (s1 : SuppGe φ1 (v + 1)) {s' r}
    (h : mkNode s v low high = .ok (s', r)) :
    Good s' ∧ Sub s.nodes s'.nodes ∧ s'.cache = s.cache ∧
      Valid s'.nodes r (fun e => if e v then φ1 e else φ0 e) := by
  unfold mkNode at h
  by_cases hv : v = 0
  · simp [hv] at h
  · simp only [hv, ↓reduceIte] at h
    by_cases hneg : high.neg = true
    · simp only [hneg, ↓reduceIte, Except.ok.injEq, Prod.mk.injEq] at h
      obtain ⟨rfl, rfl⟩ := h
      have hreg : high.not.neg = false := by simp [Ref.not, hneg]
      obtain ⟨a, b, c, d⟩ := mkNodeReg_spec hg hv h0.not h1.not s0.not s1.not hreg
      refine ⟨a, b, c, ?_⟩
      have := d.not
      have e : (fun e : Env => !(if e v = true then !φ1 e else !φ0 e)) = (fun e => if e v = true then φ1 e else φ0 e) := by
        funext e; by_cases hx : e v = true <;> simp [hx]
      rw [e] at this; exact this
    · have hreg : high.neg = false := by simpa using hneg
      simp only [hreg, Bool.false_eq_true, ↓reduceIte, Except.ok.injEq] at h
      obtain ⟨a, b, c, d⟩ := mkNodeReg_spec hg hv h0 h1 s0 s1 hreg
      rw [h] at a b c d
      exact ⟨a, b, c, d⟩


theorem isOne_eq {r} (h : isOne r = true) : r = Ref.one := by simpa [isOne] using h
theorem isZero_eq {r} (h : isZero r = true) : r = Ref.zero := by simpa [isZero] using h

theorem topCofactors_spec {s : St} (hg : Good s) {r φ m r0 r1}
    (hr : Valid s.nodes r φ) (hs : SuppGe φ m)
    (h : topCofactors s r m = .ok (r0, r1)) :
    Valid s.nodes r0 (cof φ m false) ∧ Valid s.nodes r1 (cof φ m true) := by
  unfold topCofactors at h
  by_cases hm : m = 0
  · simp [hm] at h
  simp only [hm, ↓reduceIte] at h
  have same : TopGe s.nodes r (m + 1) → r0 = r → r1 = r →
      Valid s.nodes r0 (cof φ m false) ∧ Valid s.nodes r1 (cof φ m true) := by
    intro ht e0 e1
    obtain ⟨d, hd⟩ := hr
    have := hd.supp hg.inv _ ht
    subst e0; subst e1
    rw [cof_of_supp this, cof_of_supp this]
    exact ⟨⟨d, hd⟩, ⟨d, hd⟩⟩
  by_cases ht : isTerminal r = true
  · simp only [ht, ↓reduceIte, Except.ok.injEq, Prod.mk.injEq] at h
    apply same _ h.1.symm h.2.symm
    left
    simp only [isTerminal, Bool.or_eq_true] at ht
    rcases ht with h1 | h1
    · rw [isOne_eq h1]; rfl
    · rw [isZero_eq h1]; rfl
  simp only [ht, Bool.false_eq_true, ↓reduceIte] at h
  by_cases hlt : m < s.var r
  · simp only [hlt, ↓reduceIte, Except.ok.injEq, Prod.mk.injEq] at h
    apply same _ h.1.symm h.2.symm
    rcases valid_stored hr with h1 | ⟨n, hn⟩
    · exact Or.inl h1
    · refine Or.inr ⟨n, hn, ?_⟩
      simp only [St.var, hn] at hlt
      omega
  simp only [hlt, ↓reduceIte] at h
  by_cases hne : m ≠ s.var r
  · simp [hne] at h
  simp only [hne, ↓reduceIte] at h
  have hmv : m = s.var r := by simpa using hne
  -- `r` is a stored node with variable `m`
  obtain ⟨n, hn⟩ : ∃ n, s.nodes r.idx = some n := by
    cases hx : s.nodes r.idx with
    | some n => exact ⟨n, rfl⟩
    | none => simp [St.var, hx] at hmv; exact absurd hmv hm
  have hnv : n.var = m := by simp [St.var, hn] at hmv; exact hmv.symm
  have hlow : s.low r.idx = n.low := by simp [St.low, hn]
  have hhigh : s.high r.idx = n.high := by simp [St.high, hn]
  rw [hlow, hhigh] at h
  obtain ⟨d, hd⟩ := hr
  have hnt : r.idx ≠ 1 := by
    intro e; rw [e, hg.inv.noterm] at hn; cases hn
  -- regular part
  have key : ∀ ψ, Den s.nodes d ⟨r.idx, false⟩ ψ →
      Valid s.nodes n.low (cof ψ m false) ∧ Valid s.nodes n.high (cof ψ m true) := by
    intro ψ hψ
    rcases hψ.regInv with ⟨e1, -, -⟩ | ⟨n', d0, d1, φ0, φ1, hn', h0, h1, -, hφ⟩
    · exact absurd e1 hnt
    · have : n' = n := by rw [hn] at hn'; exact (Option.some.inj hn').symm
      subst this
      have s0 := h0.supp hg.inv _ (hg.inv.ordLow _ _ hn)
      have s1 := h1.supp hg.inv _ (hg.inv.ordHigh _ _ hn)
      rw [hnv] at s0 s1
      have c0 : cof ψ m false = φ0 := by
        rw [hφ]; funext e; simp only [cof, hnv, upd_same]
        simpa using (s0 e (upd e m false) (upd_agree' e m false _ (Nat.lt_succ_self _))).symm
      have c1 : cof ψ m true = φ1 := by
        rw [hφ]; funext e; simp only [cof, hnv, upd_same]
        simpa using (s1 e (upd e m true) (upd_agree' e m true _ (Nat.lt_succ_self _))).symm
      rw [c0, c1]
      exact ⟨⟨_, h0⟩, ⟨_, h1⟩⟩
  rcases r with ⟨i, b⟩
  cases b with
  | false =>
    simp only [Bool.false_eq_true, ↓reduceIte, Except.ok.injEq, Prod.mk.injEq] at h
    obtain ⟨rfl, rfl⟩ := h
    exact key φ hd
  | true =>
    simp only [↓reduceIte, Except.ok.injEq, Prod.mk.injEq] at h
    obtain ⟨rfl, rfl⟩ := h
    obtain ⟨ψ, hψ, rfl⟩ := hd.negInv
    obtain ⟨a, b⟩ := key ψ hψ
    exact ⟨a.not, b.not⟩


def St.cacheInsert (s : St) (k : OpKey) (r : Ref) : St :=
  { s with cache := fun k' => if k' = k then some r else s.cache k' }

def min3 (i j k : Nat) : Nat :=
  let m := i
  let m := if j ≠ 0 then min m j else m
  if k ≠ 0 then min m k else m

abbrev Rec := St → Ref → Ref → Ref → Except Fault (St × Ref)

/-- cache probe, Shannon expansion, mk_node, cache insert — on an already normalised triple -/
def iteCore (rec : Rec) (s : St) (f g h : Ref) (m : Nat) : Except Fault (St × Ref) :=
  match s.cache (.ite f g h) with
  | some res => .ok (s, res)
  | none =>
    if m = 0 then .error .assertion else
    match topCofactors s f m, topCofactors s g m, topCofactors s h m with
    | .ok (f0, f1), .ok (g0, g1), .ok (h0, h1) =>
      match rec s f0 g0 h0 with
      | .error e => .error e
      | .ok (s1, e) =>
        match rec s1 f1 g1 h1 with
        | .error e => .error e
        | .ok (s2, t) =>
          match mkNode s2 m e t with
          | .error e => .error e
          | .ok (s3, res) => .ok (s3.cacheInsert (.ite f g h) res, res)
    | _, _, _ => .error .assertion

def applyIte : Nat → St → Ref → Ref → Ref → Except Fault (St × Ref)
  | 0, _, _, _, _ => .error .outOfFuel
  | fuel + 1, s, f, g, h =>
    if isOne f then .ok (s, g) else
    if isZero f then .ok (s, h) else
    if g = h then .ok (s, g) else
    if isOne g && isZero h then .ok (s, f) else
    if isZero g && isOne h then .ok (s, f.not) else
    if isOne g && h = f.not then .ok (s, Ref.one) else
    if g = f && isOne h then .ok (s, Ref.one) else
    if g = f.not && isZero h then .ok (s, Ref.zero) else
    if isZero g && h = f then .ok (s, Ref.zero) else
    -- standard triples
    if g = f then applyIte fuel s f Ref.one h else
    if h = f then applyIte fuel s f g Ref.zero else
    if g = f.not then applyIte fuel s f Ref.zero h else
    if h = f.not then applyIte fuel s f g Ref.one else
    let i := s.var f
    let j := s.var g
    let k := s.var h
    if i = 0 then .error .assertion else
    -- equivalent pairs
    if isOne g && k < i then (if k = 0 then .error .assertion else applyIte fuel s h Ref.one f) else
    if isZero h && j < i then (if j = 0 then .error .assertion else applyIte fuel s g f Ref.zero) else
    if isOne h && j < i then (if j = 0 then .error .assertion else applyIte fuel s g.not f.not Ref.one) else
    if isZero g && k < i then (if k = 0 then .error .assertion else applyIte fuel s h.not Ref.zero f.not) else
    if g = h.not && j < i then (if j = 0 then .error .assertion else applyIte fuel s g f f.not) else
    -- regularise
    let f' := if f.neg then f.not else f
    let g1 := if f.neg then h else g
    let h1 := if f.neg then g else h
    let n := g1.neg
    let g' := if n then g1.not else g1
    let h' := if n then h1.not else h1
    match iteCore (applyIte fuel) s f' g' h' (min3 i j k) with
    | .error e => .error e
    | .ok (s', res) => .ok (s', if n then res.not else res)

def RecSpec (rec : Rec) : Prop :=
  ∀ s f g h φf φg φh s' r, Good s → Valid s.nodes f φf → Valid s.nodes g φg → Valid s.nodes h φh →
    rec s f g h = .ok (s', r) →
    Good s' ∧ Sub s.nodes s'.nodes ∧ Valid s'.nodes r (ITE φf φg φh)

theorem SuppGe.ite {a b c : Fn} {v} (ha : SuppGe a v) (hb : SuppGe b v) (hc : SuppGe c v) : SuppGe (ITE a b c) v := by
  intro e e' hee; simp [ITE, ha e e' hee, hb e e' hee, hc e e' hee]

theorem Good.cacheInsert {s : St} (hg : Good s) {k r} (hf : Fact s.nodes k r) : Good (s.cacheInsert k r) := by
  refine ⟨hg.inv, hg.bnd, hg.var0, hg.next2, ?_⟩
  intro k2 r2 hc
  simp only [St.cacheInsert] at hc
  split at hc
  · rename_i heq
    cases heq; cases hc
    exact hf
  · exact hg.cache _ _ hc

theorem iteCore_spec {rec : Rec} (hrec : RecSpec rec) {s : St} (hg : Good s) {f g h a b c m s' r}
    (hf : Valid s.nodes f a) (hgg : Valid s.nodes g b) (hh : Valid s.nodes h c)
    (sa : SuppGe a m) (sb : SuppGe b m) (sc : SuppGe c m)
    (hres : iteCore rec s f g h m = .ok (s', r)) :
    Good s' ∧ Sub s.nodes s'.nodes ∧ Valid s'.nodes r (ITE a b c) := by
  unfold iteCore at hres
  cases hc : s.cache (.ite f g h) with
  | some res =>
    simp only [hc, Except.ok.injEq, Prod.mk.injEq] at hres
    obtain ⟨rfl, rfl⟩ := hres
    obtain ⟨a', b', c', ha', hb', hc', hr⟩ := hg.cache _ _ hc
    have h1 := hg.inv.noterm
    rw [hf.det h1 ha', hgg.det h1 hb', hh.det h1 hc']
    exact ⟨hg, fun _ _ x => x, hr⟩
  | none =>
    simp only [hc] at hres
    by_cases hm : m = 0
    · simp [hm] at hres
    simp only [hm, ↓reduceIte] at hres
    cases hcf : topCofactors s f m with
    | error e => simp [hcf] at hres
    | ok pf =>
    cases hcg : topCofactors s g m with
    | error e => simp [hcf, hcg] at hres
    | ok pg =>
    cases hch : topCofactors s h m with
    | error e => simp [hcf, hcg, hch] at hres
    | ok ph =>
    obtain ⟨f0, f1⟩ := pf; obtain ⟨g0, g1⟩ := pg; obtain ⟨h0, h1⟩ := ph
    simp only [hcf, hcg, hch] at hres
    obtain ⟨vf0, vf1⟩ := topCofactors_spec hg hf sa hcf
    obtain ⟨vg0, vg1⟩ := topCofactors_spec hg hgg sb hcg
    obtain ⟨vh0, vh1⟩ := topCofactors_spec hg hh sc hch
    cases hr1 : rec s f0 g0 h0 with
    | error e => simp [hr1] at hres
    | ok p1 =>
    obtain ⟨s1, e⟩ := p1
    simp only [hr1] at hres
    obtain ⟨g1', sub1, ve⟩ := hrec _ _ _ _ _ _ _ _ _ hg vf0 vg0 vh0 hr1
    cases hr2 : rec s1 f1 g1 h1 with
    | error e => simp [hr2] at hres
    | ok p2 =>
    obtain ⟨s2, t⟩ := p2
    simp only [hr2] at hres
    obtain ⟨g2', sub2, vt⟩ := hrec _ _ _ _ _ _ _ _ _ g1' (vf1.mono sub1) (vg1.mono sub1) (vh1.mono sub1) hr2
    cases hmk : mkNode s2 m e t with
    | error e => simp [hmk] at hres
    | ok p3 =>
    obtain ⟨s3, res⟩ := p3
    simp only [hmk, Except.ok.injEq, Prod.mk.injEq] at hres
    obtain ⟨rfl, rfl⟩ := hres
    have se : SuppGe (ITE (cof a m false) (cof b m false) (cof c m false)) (m + 1) :=
      SuppGe.ite (suppGe_cof_succ sa) (suppGe_cof_succ sb) (suppGe_cof_succ sc)
    have st : SuppGe (ITE (cof a m true) (cof b m true) (cof c m true)) (m + 1) :=
      SuppGe.ite (suppGe_cof_succ sa) (suppGe_cof_succ sb) (suppGe_cof_succ sc)
    obtain ⟨g3', sub3, hcache3, vres⟩ := mkNode_spec g2' (ve.mono sub2) vt se st hmk
    have sub03 : Sub s.nodes s3.nodes := fun i n x => sub3 _ _ (sub2 _ _ (sub1 _ _ x))
    have hfun : (fun e => if e m = true then ITE (cof a m true) (cof b m true) (cof c m true) e
        else ITE (cof a m false) (cof b m false) (cof c m false) e) = ITE a b c := by
      rw [shannon (ITE a b c) m]; rfl
    rw [hfun] at vres
    exact ⟨g3'.cacheInsert ⟨_, _, _, hf.mono sub03, hgg.mono sub03, hh.mono sub03, vres⟩, sub03, vres⟩



theorem one_fn {nd} (h1 : nd 1 = none) {x φ} (c : isOne x = true) (v : Valid nd x φ) : φ = fun _ => true := by
  rw [isOne_eq c] at v; exact v.det h1 Valid.one
theorem zero_fn {nd} (h1 : nd 1 = none) {x φ} (c : isZero x = true) (v : Valid nd x φ) : φ = fun _ => false := by
  rw [isZero_eq c] at v; exact v.det h1 Valid.zero
theorem eq_fn {nd} (h1 : nd 1 = none) {x y φ ψ} (c : x = y) (v : Valid nd x φ) (w : Valid nd y ψ) : φ = ψ := by
  subst c; exact v.det h1 w
theorem not_fn {nd} (h1 : nd 1 = none) {x y φ ψ} (c : x = y.not) (v : Valid nd x φ) (w : Valid nd y ψ) :
    φ = fun e => !ψ e := by
  subst c; exact v.det h1 w.not

theorem var_not (s : St) (r : Ref) : s.var r.not = s.var r := rfl

theorem supp_of_var {s : St} (hg : Good s) {r φ} (v : Valid s.nodes r φ) {m} (hm : s.var r ≠ 0 → m ≤ s.var r) :
    SuppGe φ m := by
  obtain ⟨d, hd⟩ := v
  apply hd.supp hg.inv
  rcases valid_stored ⟨d, hd⟩ with h | ⟨n, hn⟩
  · exact Or.inl h
  · refine Or.inr ⟨n, hn, ?_⟩
    have : s.var r = n.var := by simp [St.var, hn]
    rw [this] at hm
    exact hm (hg.var0 _ _ hn)

theorem min3_le (i j k : Nat) : min3 i j k ≤ i ∧ (j ≠ 0 → min3 i j k ≤ j) ∧ (k ≠ 0 → min3 i j k ≤ k) := by
  unfold min3
  by_cases hj : j = 0 <;> by_cases hk : k = 0 <;> simp [hj, hk] <;> omega

theorem ITE_swap (a b c : Fn) : ITE (fun e => !a e) c b = ITE a b c := by
  funext e; simp only [ITE]; by_cases h : a e = true <;> simp [h]
theorem ITE_negout (a b c : Fn) : (fun e => !(ITE a (fun e => !b e) (fun e => !c e) e)) = ITE a b c := by
  funext e; simp only [ITE]; by_cases h : a e = true <;> simp [h]

macro "boolfn" : tactic =>
  `(tactic| (funext e; simp only [ITE]; (repeat' split) <;> simp_all))

theorem applyIte_spec : ∀ fuel, RecSpec (applyIte fuel) := by
  intro fuel
  induction fuel with
  | zero => intro s f g h φf φg φh s' r _ _ _ _ hres; simp [applyIte] at hres
  | succ fuel ih =>
    intro s f g h φf φg φh s' r hg vf vg vh hres
    have h1 := hg.inv.noterm
    have triv : ∀ {x ψ}, Valid s.nodes x ψ → ITE φf φg φh = ψ → (.ok (s, x) : Except Fault (St × Ref)) = .ok (s', r) →
        Good s' ∧ Sub s.nodes s'.nodes ∧ Valid s'.nodes r (ITE φf φg φh) := by
      intro x ψ vx hfun heq
      simp only [Except.ok.injEq, Prod.mk.injEq] at heq
      obtain ⟨rfl, rfl⟩ := heq
      rw [hfun]; exact ⟨hg, fun _ _ x => x, vx⟩
    have recur : ∀ {f2 g2 h2 a b c}, Valid s.nodes f2 a → Valid s.nodes g2 b → Valid s.nodes h2 c →
        ITE φf φg φh = ITE a b c → applyIte fuel s f2 g2 h2 = .ok (s', r) →
        Good s' ∧ Sub s.nodes s'.nodes ∧ Valid s'.nodes r (ITE φf φg φh) := by
      intro f2 g2 h2 a b c va vb vc hfun heq
      rw [hfun]; exact ih _ _ _ _ _ _ _ _ _ hg va vb vc heq
    unfold applyIte at hres
    by_cases c : isOne f = true
    · rw [if_pos c] at hres
      have := one_fn h1 c vf; subst this
      exact triv vg (by boolfn) hres
    rw [if_neg c] at hres; clear c
    by_cases c : isZero f = true
    · rw [if_pos c] at hres
      have := zero_fn h1 c vf; subst this
      exact triv vh (by boolfn) hres
    rw [if_neg c] at hres; clear c
    by_cases c : g = h
    · rw [if_pos c] at hres
      have := eq_fn h1 c vg vh; subst this
      exact triv vg (by boolfn) hres
    rw [if_neg c] at hres; clear c
    by_cases c : (isOne g && isZero h) = true
    · rw [if_pos c] at hres
      simp only [Bool.and_eq_true, decide_eq_true_eq] at c
      have := one_fn h1 c.1 vg; subst this; have := zero_fn h1 c.2 vh; subst this
      exact triv vf (by boolfn) hres
    rw [if_neg c] at hres; clear c
    by_cases c : (isZero g && isOne h) = true
    · rw [if_pos c] at hres
      simp only [Bool.and_eq_true, decide_eq_true_eq] at c
      have := zero_fn h1 c.1 vg; subst this; have := one_fn h1 c.2 vh; subst this
      exact triv vf.not (by boolfn) hres
    rw [if_neg c] at hres; clear c
    by_cases c : (isOne g && decide (h = f.not)) = true
    · rw [if_pos c] at hres
      simp only [Bool.and_eq_true, decide_eq_true_eq] at c
      have := one_fn h1 c.1 vg; subst this; have := not_fn h1 c.2 vh vf; subst this
      exact triv Valid.one (by boolfn) hres
    rw [if_neg c] at hres; clear c
    by_cases c : (decide (g = f) && isOne h) = true
    · rw [if_pos c] at hres
      simp only [Bool.and_eq_true, decide_eq_true_eq] at c
      have := eq_fn h1 c.1 vg vf; subst this; have := one_fn h1 c.2 vh; subst this
      exact triv Valid.one (by boolfn) hres
    rw [if_neg c] at hres; clear c
    by_cases c : (decide (g = f.not) && isZero h) = true
    · rw [if_pos c] at hres
      simp only [Bool.and_eq_true, decide_eq_true_eq] at c
      have := not_fn h1 c.1 vg vf; subst this; have := zero_fn h1 c.2 vh; subst this
      exact triv Valid.zero (by boolfn) hres
    rw [if_neg c] at hres; clear c
    by_cases c : (isZero g && decide (h = f)) = true
    · rw [if_pos c] at hres
      simp only [Bool.and_eq_true, decide_eq_true_eq] at c
      have := zero_fn h1 c.1 vg; subst this; have := eq_fn h1 c.2 vh vf; subst this
      exact triv Valid.zero (by boolfn) hres
    rw [if_neg c] at hres; clear c
    -- standard triples
    by_cases c : g = f
    · rw [if_pos c] at hres
      have := eq_fn h1 c vg vf; subst this
      exact recur vf Valid.one vh (by boolfn) hres
    rw [if_neg c] at hres; clear c
    by_cases c : h = f
    · rw [if_pos c] at hres
      have := eq_fn h1 c vh vf; subst this
      exact recur vf vg Valid.zero (by boolfn) hres
    rw [if_neg c] at hres; clear c
    by_cases c : g = f.not
    · rw [if_pos c] at hres
      have := not_fn h1 c vg vf; subst this
      exact recur vf Valid.zero vh (by boolfn) hres
    rw [if_neg c] at hres; clear c
    by_cases c : h = f.not
    · rw [if_pos c] at hres
      have := not_fn h1 c vh vf; subst this
      exact recur vf vg Valid.one (by boolfn) hres
    rw [if_neg c] at hres; clear c
    simp only at hres
    by_cases hi0 : s.var f = 0
    · rw [if_pos hi0] at hres; cases hres
    rw [if_neg hi0] at hres
    -- equivalent pairs
    by_cases c : (isOne g && decide (s.var h < s.var f)) = true
    · rw [if_pos c] at hres
      simp only [Bool.and_eq_true, decide_eq_true_eq] at c
      by_cases cz : s.var h = 0
      · rw [if_pos cz] at hres; cases hres
      rw [if_neg cz] at hres
      have := one_fn h1 c.1 vg; subst this
      exact recur vh Valid.one vf (by boolfn) hres
    rw [if_neg c] at hres; clear c
    by_cases c : (isZero h && decide (s.var g < s.var f)) = true
    · rw [if_pos c] at hres
      simp only [Bool.and_eq_true, decide_eq_true_eq] at c
      by_cases cz : s.var g = 0
      · rw [if_pos cz] at hres; cases hres
      rw [if_neg cz] at hres
      have := zero_fn h1 c.1 vh; subst this
      exact recur vg vf Valid.zero (by boolfn) hres
    rw [if_neg c] at hres; clear c
    by_cases c : (isOne h && decide (s.var g < s.var f)) = true
    · rw [if_pos c] at hres
      simp only [Bool.and_eq_true, decide_eq_true_eq] at c
      by_cases cz : s.var g = 0
      · rw [if_pos cz] at hres; cases hres
      rw [if_neg cz] at hres
      have := one_fn h1 c.1 vh; subst this
      exact recur vg.not vf.not Valid.one (by boolfn) hres
    rw [if_neg c] at hres; clear c
    by_cases c : (isZero g && decide (s.var h < s.var f)) = true
    · rw [if_pos c] at hres
      simp only [Bool.and_eq_true, decide_eq_true_eq] at c
      by_cases cz : s.var h = 0
      · rw [if_pos cz] at hres; cases hres
      rw [if_neg cz] at hres
      have := zero_fn h1 c.1 vg; subst this
      exact recur vh.not Valid.zero vf.not (by boolfn) hres
    rw [if_neg c] at hres; clear c
    by_cases c : (decide (g = h.not) && decide (s.var g < s.var f)) = true
    · rw [if_pos c] at hres
      simp only [Bool.and_eq_true, decide_eq_true_eq] at c
      by_cases cz : s.var g = 0
      · rw [if_pos cz] at hres; cases hres
      rw [if_neg cz] at hres
      have := not_fn h1 c.1 vg vh; subst this
      exact recur vg vf vf.not (by boolfn) hres
    rw [if_neg c] at hres; clear c
    -- general case
    have core : ∀ (f' g' h' : Ref) (a b c : Fn) (n : Bool) (m : Nat),
        Valid s.nodes f' a → Valid s.nodes g' b → Valid s.nodes h' c →
        SuppGe a m → SuppGe b m → SuppGe c m →
        (ITE φf φg φh = if n then (fun e => !(ITE a b c e)) else ITE a b c) →
        (match iteCore (applyIte fuel) s f' g' h' m with
          | .error e => (.error e : Except Fault (St × Ref))
          | .ok (s', res) => .ok (s', if n then res.not else res)) = .ok (s', r) →
        Good s' ∧ Sub s.nodes s'.nodes ∧ Valid s'.nodes r (ITE φf φg φh) := by
      intro f' g' h' a b c n m va vb vc sa sb sc hfun heq
      cases hcore : iteCore (applyIte fuel) s f' g' h' m with
      | error e => simp [hcore] at heq
      | ok p =>
        obtain ⟨s2, res⟩ := p
        simp only [hcore, Except.ok.injEq, Prod.mk.injEq] at heq
        obtain ⟨rfl, rfl⟩ := heq
        obtain ⟨x, y, z⟩ := iteCore_spec ih hg va vb vc sa sb sc hcore
        refine ⟨x, y, ?_⟩
        rw [hfun]
        cases n with
        | false => simpa using z
        | true => simpa using z.not
    have ml := min3_le (s.var f) (s.var g) (s.var h)
    have sf : SuppGe φf (min3 (s.var f) (s.var g) (s.var h)) := supp_of_var hg vf (fun _ => ml.1)
    have sg : SuppGe φg (min3 (s.var f) (s.var g) (s.var h)) := supp_of_var hg vg ml.2.1
    have sh : SuppGe φh (min3 (s.var f) (s.var g) (s.var h)) := supp_of_var hg vh ml.2.2
    cases hfn : f.neg <;> simp only [hfn, Bool.false_eq_true, ↓reduceIte] at hres
    · cases hgn : g.neg <;> simp only [hgn, Bool.false_eq_true, ↓reduceIte] at hres
      · exact core _ _ _ _ _ _ false _ vf vg vh sf sg sh (by simp) hres
      · exact core _ _ _ _ _ _ true _ vf vg.not vh.not sf sg.not sh.not (by simp [ITE_negout]) hres
    · cases hgn : h.neg <;> simp only [hgn, Bool.false_eq_true, ↓reduceIte] at hres
      · exact core _ _ _ _ _ _ false _ vf.not vh vg sf.not sh sg (by simp [ITE_swap]) hres
      · exact core _ _ _ _ _ _ true _ vf.not vh.not vg.not sf.not sh.not sg.not (by simp [ITE_negout, ITE_swap]) hres

#print axioms applyIte_spec

end P

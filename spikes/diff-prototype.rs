use bdd_rs::bdd::Bdd;
use bdd_rs::reference::Ref;
use std::io::BufRead;
use std::panic::{catch_unwind, AssertUnwindSafe};
fn show(r: Ref) -> String { format!("{}:{}", r.index(), if r.is_negated() { 1 } else { 0 }) }
fn main() {
    std::panic::set_hook(Box::new(|_| {}));
    let bdd = Bdd::default();
    let mut env: Vec<Ref> = vec![bdd.one, bdd.zero];
    let stdin = std::io::stdin();
    for line in stdin.lock().lines() {
        let line = line.unwrap();
        let t: Vec<&str> = line.trim().split(' ').collect();
        let h = |s: &str| env[s.parse::<usize>().unwrap()];
        let res: Result<Option<Ref>, ()> = catch_unwind(AssertUnwindSafe(|| match t[0] {
            "var" => Some(bdd.mk_var(t[1].parse().unwrap())),
            "not" => Some(-h(t[1])),
            "ite" => Some(bdd.apply_ite(h(t[1]), h(t[2]), h(t[3]))),
            "and" => Some(bdd.apply_and(h(t[1]), h(t[2]))),
            "or" => Some(bdd.apply_or(h(t[1]), h(t[2]))),
            "xor" => Some(bdd.apply_xor(h(t[1]), h(t[2]))),
            "constrain" => Some(bdd.constrain(h(t[1]), h(t[2]))),
            "restrict" => Some(bdd.restrict(h(t[1]), h(t[2]))),
            "compose" => Some(bdd.compose(h(t[1]), t[2].parse().unwrap(), h(t[3]))),
            "subst" => Some(bdd.substitute(h(t[1]), t[2].parse().unwrap(), t[3] == "1")),
            "itec" => { println!("{}", match bdd.ite_constant(h(t[1]), h(t[2]), h(t[3])) { Some(true) => "some1", Some(false) => "some0", None => "none" }); None }
            "satcount" => { println!("{}", bdd.sat_count(h(t[1]), t[2].parse().unwrap())); None }
            "cube" => Some(bdd.cube(t[1..].iter().map(|x| x.parse::<i32>().unwrap()))),
            "cofcube" => { let c: Vec<i32> = t[2..].iter().map(|x| x.parse().unwrap()).collect(); Some(bdd.cofactor_cube(h(t[1]), &c)) }
            "substm" => { let m: std::collections::HashMap<u32,bool> = t[2..].iter().map(|x| { let i: i32 = x.parse().unwrap(); (i.unsigned_abs(), i > 0) }).collect(); Some(bdd.substitute_multi(h(t[1]), &m)) }
            "onesat" => { match bdd.one_sat(h(t[1])) { Some(p) => println!("{:?}", p), None => println!("None") }; None }
            "paths" => { let ps: Vec<Vec<i32>> = bdd.paths(h(t[1])).collect(); println!("{:?}", ps); None }
            _ => { println!("bad-op"); None }
        })).map_err(|_| ());
        match res { Ok(Some(r)) => { env.push(r); println!("{}", show(r)); } Ok(None) => {} Err(_) => { env.push(bdd.zero); println!("err"); } }
    }
}

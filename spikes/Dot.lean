import Proto.GcExact
/-! Feasibility spike: the DOT export as a structured value (C16, second half): one record per
reachable node, decoded back to exactly the stored triple; roots decoded back to the handles. -/
namespace P

inductive LowKind where
  | zero                 -- `id -- 0 [style=dashed]`
  | compl (t : Nat)      -- `id -- t [style=dotted, dir=forward, arrowhead=odot]`
  | reg (t : Nat)        -- `id -- t [style=dashed]`
deriving DecidableEq

structure DotRec where
  id : Nat
  var : Nat              -- `id [label=<x<SUB>var</SUB>>]`, grouped by level
  hi : Nat               -- `id -- hi;` (solid; the code asserts the then-edge is regular)
  low : LowKind

inductive RootKind where
  | zero                 -- `r_i -- 0;`
  | compl (t : Nat)      -- `r_i -- t [dir=forward, arrowhead=odot];`
  | reg (t : Nat)        -- `r_i -- t;`

def dotNode (s : St) (id : Nat) : DotRec :=
  let lo := s.low id
  { id := id, var := s.var ⟨id, false⟩, hi := (s.high id).idx,
    low := if lo.neg then (if lo.idx = 1 then .zero else .compl lo.idx) else .reg lo.idx }

def dotRoot (r : Ref) : RootKind :=
  if r.neg then (if r.idx = 1 then .zero else .compl r.idx) else .reg r.idx

/-- the structured export: node records for every descendant except the terminal, and the roots -/
def toDot (s : St) (fuel : Nat) (roots : List Ref) : List DotRec × List RootKind :=
  (((descendants s fuel roots).filter (· ≠ 1)).map (dotNode s), roots.map dotRoot)

/-- reading a record back -/
def DotRec.decode (r : DotRec) : Node :=
  { var := r.var, high := ⟨r.hi, false⟩,
    low := match r.low with | .zero => ⟨1, true⟩ | .compl t => ⟨t, true⟩ | .reg t => ⟨t, false⟩ }

def RootKind.decode : RootKind → Ref
  | .zero => ⟨1, true⟩ | .compl t => ⟨t, true⟩ | .reg t => ⟨t, false⟩

theorem decode_dotNode {s : St} (hg : Good s) {id n} (hn : s.nodes id = some n) : (dotNode s id).decode = n := by
  have hh := hg.inv.highReg _ _ hn
  rcases n with ⟨v, ⟨li, lb⟩, ⟨hi, hb⟩⟩
  simp only at hh; subst hh
  simp only [dotNode, DotRec.decode, St.low, St.high, St.var, hn]
  cases lb with
  | false => simp
  | true =>
    by_cases h1 : li = 1
    · subst h1; simp
    · simp [h1]

theorem decode_dotRoot (r : Ref) : (dotRoot r).decode = r := by
  rcases r with ⟨i, b⟩
  cases b with
  | false => simp [dotRoot, RootKind.decode]
  | true =>
    by_cases h1 : i = 1
    · subst h1; simp [dotRoot, RootKind.decode]
    · simp [dotRoot, RootKind.decode, h1]

/-- C16 for DOT: every reachable node is declared exactly once, each record decodes to the stored
node, and the root list decodes to the handles — so the functions rebuilt from the export are the
original ones -/
theorem toDot_faithful {s : St} (hg : Good s) (roots : List Ref) (hlive : ∀ r, r ∈ roots → Live s r.idx) :
    let fuel := 2 * (s.next + 1) + roots.length + 1
    let G := toDot s fuel roots
    (G.1.map (·.id)).Nodup ∧
    (∀ i, i ∈ G.1.map (·.id) ↔ (i ≠ 1 ∧ RI s (roots.map Ref.idx) i)) ∧
    (∀ r, r ∈ G.1 → ∀ n, s.nodes r.id = some n → r.decode = n) ∧
    G.2.map RootKind.decode = roots := by
  intro fuel G
  have hids : G.1.map (·.id) = (descendants s fuel roots).filter (· ≠ 1) := by
    simp only [G, toDot, List.map_map]
    conv => rhs; rw [← List.map_id ((descendants s fuel roots).filter (· ≠ 1))]
    apply List.map_congr_left
    intro a _; rfl
  refine ⟨?_, ?_, ?_, ?_⟩
  · rw [hids]; exact (descendants_nodup s fuel roots).filter _
  · intro i
    rw [hids, List.mem_filter, descendants_exact hg roots hlive i]
    simp [and_comm]
  · intro r hr n hn
    simp only [G, toDot] at hr
    obtain ⟨id, _, rfl⟩ := List.mem_map.mp hr
    exact decode_dotNode hg hn
  · simp only [G, toDot, List.map_map]
    conv => rhs; rw [← List.map_id roots]
    apply List.map_congr_left
    intro r _; exact decode_dotRoot r

#print axioms toDot_faithful
end P

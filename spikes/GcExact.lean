import Proto.Gc
/-! Feasibility spike: `descendants(roots)` is *exactly* the set of cells reachable from the roots
(terminal included) — the mark phase is sound and complete (C06 exactness, C04 size). -/
namespace P

/-- reachable indices: the terminal, the roots, and children of reachable stored nodes -/
inductive RI (s : St) (roots : List Nat) : Nat → Prop
  | one : RI s roots 1
  | root {r} : r ∈ roots → RI s roots r
  | low {j n} : RI s roots j → s.nodes j = some n → RI s roots n.low.idx
  | high {j n} : RI s roots j → s.nodes j = some n → RI s roots n.high.idx

/-- soundness of the walk: nothing unreachable is ever visited -/
theorem bfs_sound {s : St} (roots : List Nat) : ∀ fuel q vis,
    (∀ i, i ∈ q → Live s i ∧ RI s roots i) → (∀ i, i ∈ vis → RI s roots i) → 1 ∈ vis →
    (∀ i n, s.nodes i = some n → Live s n.low.idx ∧ Live s n.high.idx) →
    ∀ i, i ∈ bfs s fuel q vis → RI s roots i := by
  intro fuel
  induction fuel with
  | zero => intro q vis _ hv _ _ i hi; exact hv i hi
  | succ fuel ih =>
    intro q vis hq hv h1 hlive i hi
    cases q with
    | nil => exact hv i hi
    | cons j q =>
      simp only [bfs] at hi
      by_cases hc : vis.contains j = true
      · rw [if_pos hc] at hi
        exact ih q vis (fun k hk => hq k (List.mem_cons_of_mem _ hk)) hv h1 hlive i hi
      · rw [if_neg hc] at hi
        have hj := hq j List.mem_cons_self
        have hjv : j ∉ vis := by simpa using hc
        obtain ⟨n, hn⟩ : ∃ n, s.nodes j = some n := by
          rcases hj.1 with e | h
          · exact absurd (e ▸ h1) hjv
          · exact h
        refine ih _ _ ?_ ?_ (List.mem_cons_of_mem _ h1) hlive i hi
        · intro k hk
          rcases List.mem_append.mp hk with e | e
          · exact hq k (List.mem_cons_of_mem _ e)
          · simp only [St.low, St.high, hn, List.mem_cons, List.not_mem_nil, or_false] at e
            rcases e with e | e
            · subst e; exact ⟨(hlive j n hn).1, .low hj.2 hn⟩
            · subst e; exact ⟨(hlive j n hn).2, .high hj.2 hn⟩
        · intro k hk
          rcases List.mem_cons.mp hk with e | e
          · subst e; exact hj.2
          · exact hv k e

/-- completeness: a children-closed set containing 1 and the roots contains everything reachable -/
theorem ri_subset_of_closed {s : St} {roots V : List Nat} (h1 : 1 ∈ V) (hr : ∀ r, r ∈ roots → r ∈ V)
    (hc : Closed s V) : ∀ i, RI s roots i → i ∈ V := by
  intro i hi
  induction hi with
  | one => exact h1
  | root h => exact hr _ h
  | low _ hn ih => exact (hc _ _ ih hn).1
  | high _ hn ih => exact (hc _ _ ih hn).2

/-- the mark phase computes exactly the reachable set -/
theorem descendants_exact {s : St} (hg : Good s) (roots : List Ref)
    (hlive : ∀ r, r ∈ roots → Live s r.idx) :
    ∀ i, i ∈ descendants s (2 * (s.next + 1) + roots.length + 1) roots ↔ RI s (roots.map Ref.idx) i := by
  intro i
  have hq : ∀ j, j ∈ roots.map Ref.idx → Live s j := by
    intro j hj; obtain ⟨r, hr, rfl⟩ := List.mem_map.mp hj; exact hlive r hr
  obtain ⟨hsub, _, hcl⟩ := bfs_closed hg (2 * (s.next + 1) + roots.length + 1) (roots.map Ref.idx) [1] hq
    (fun j hj => by simp at hj; subst hj; exact Or.inl rfl) (by simp)
    (fun j n hj hn => by simp at hj; subst hj; rw [hg.inv.noterm] at hn; cases hn)
  have hnext := hg.next2
  obtain ⟨hroots, hclosed⟩ := hcl (by simp; omega) (by simp) (fun j hj => by simp at hj; subst hj; omega)
  constructor
  · intro hi
    exact bfs_sound (roots.map Ref.idx) _ _ _ (fun j hj => ⟨hq j hj, .root hj⟩)
      (fun j hj => by simp at hj; subst hj; exact .one) (by simp)
      (fun j n hn => live_children hg hn) i hi
  · intro hi
    exact ri_subset_of_closed (hsub 1 (by simp)) hroots hclosed i hi

#print axioms descendants_exact

/-- the visited list never holds an index twice, so its length is the `HashSet`'s `len()` (`size`) -/
theorem bfs_nodup (s : St) : ∀ fuel q vis, vis.Nodup → (bfs s fuel q vis).Nodup := by
  intro fuel
  induction fuel with
  | zero => intro q vis h; exact h
  | succ fuel ih =>
    intro q vis h
    cases q with
    | nil => exact h
    | cons j q =>
      simp only [bfs]
      by_cases hc : vis.contains j = true
      · rw [if_pos hc]; exact ih q vis h
      · rw [if_neg hc]
        have hjv : j ∉ vis := by simpa using hc
        exact ih _ _ (List.nodup_cons.mpr ⟨hjv, h⟩)

theorem descendants_nodup (s : St) (fuel : Nat) (roots : List Ref) : (descendants s fuel roots).Nodup :=
  bfs_nodup s fuel _ [1] (by simp)

end P

import Proto.Paths
/-! Feasibility spike: the explicit-stack iterator `BddPaths` (C14): whatever it has emitted when the
stack runs empty covers every satisfying assignment exactly once. -/
namespace P

/-- `BddPaths::next` run to exhaustion; head of the list = top of the stack; `none` = out of fuel -/
def pathsIter : Nat → St → List (Ref × List Int) → List (List Int) → Option (List (List Int))
  | 0, _, _, _ => none
  | _ + 1, _, [], acc => some acc.reverse
  | fuel + 1, s, (r, pre) :: rest, acc =>
    if isZero r then pathsIter fuel s rest acc else
    if isOne r then pathsIter fuel s rest (pre :: acc) else
    let v : Int := (s.var r : Nat)
    pathsIter fuel s ((s.lowNode r, pre ++ [-v]) :: (s.highNode r, pre ++ [v]) :: rest) acc

/-- what the pending stack still owes for the assignment `e` -/
def owed (e : Env) : List ((Ref × List Int) × Fn) → Nat
  | [] => 0
  | ((_, pre), φ) :: rest => (if Sat e pre && φ e then 1 else 0) + owed e rest

theorem pathsIter_count : ∀ fuel s (stack : List ((Ref × List Int) × Fn)) acc out, Good s →
    (∀ p, p ∈ stack → Valid s.nodes p.1.1 p.2) →
    pathsIter fuel s (stack.map (·.1)) acc = some out →
    ∀ e, out.countP (Sat e) = acc.countP (Sat e) + owed e stack := by
  intro fuel
  induction fuel with
  | zero => intro s stack acc out _ _ h; simp [pathsIter] at h
  | succ fuel ih =>
    intro s stack acc out hg hv h e
    have h1 := hg.inv.noterm
    cases stack with
    | nil =>
      simp only [List.map_nil, pathsIter, Option.some.injEq] at h
      subst h; simp [owed, List.countP_reverse]
    | cons p rest =>
      obtain ⟨⟨r, pre⟩, φ⟩ := p
      have vr : Valid s.nodes r φ := hv _ List.mem_cons_self
      have hvrest : ∀ p, p ∈ rest → Valid s.nodes p.1.1 p.2 := fun p hp => hv p (List.mem_cons_of_mem _ hp)
      simp only [List.map_cons, pathsIter] at h
      by_cases cz : isZero r = true
      · rw [if_pos cz] at h
        have := zero_fn h1 cz vr; subst this
        rw [ih s rest acc out hg hvrest h e]; simp [owed]
      rw [if_neg cz] at h
      by_cases co : isOne r = true
      · rw [if_pos co] at h
        have := one_fn h1 co vr; subst this
        rw [ih s rest (pre :: acc) out hg hvrest h e]
        simp only [owed, List.countP_cons, Bool.and_true]; omega
      rw [if_neg co] at h
      have hnt : isTerminal r = false := by
        simp only [isTerminal, Bool.or_eq_false_iff]; exact ⟨by simpa using co, by simpa using cz⟩
      obtain ⟨d, hden⟩ := vr
      obtain ⟨hv0, d0, d1, φ0, φ1, _, _, vlo, vhi, hφ, _, _⟩ := hden.split hg hnt
      have := ih s (((s.lowNode r, pre ++ [-((s.var r : Nat) : Int)]), φ0) ::
          ((s.highNode r, pre ++ [((s.var r : Nat) : Int)]), φ1) :: rest) acc out hg
        (by
          intro p hp
          rcases List.mem_cons.mp hp with e' | hp
          · subst e'; exact ⟨_, vlo⟩
          · rcases List.mem_cons.mp hp with e' | hp
            · subst e'; exact ⟨_, vhi⟩
            · exact hvrest p hp)
        (by simpa using h) e
      rw [this]
      simp only [owed, Sat_append, sat_lit_pos e _ hv0, sat_lit_neg e _ hv0, hφ]
      cases hp : Sat e pre <;> cases hev : e (s.var r) <;> simp [hev] <;> omega

/-- C14: the cubes yielded by `paths(f)` are pairwise disjoint and their union is exactly `f` -/
theorem paths_iter_exactly_once {fuel s r φ out} (hg : Good s) (v : Valid s.nodes r φ)
    (h : pathsIter fuel s [(r, [])] [] = some out) (e : Env) :
    out.countP (Sat e) = if φ e then 1 else 0 := by
  have := pathsIter_count fuel s [((r, []), φ)] [] out hg
    (by intro p hp; simp at hp; subst hp; exact v) (by simpa using h) e
  rw [this]; simp [owed, Sat]

#print axioms paths_iter_exactly_once
end P

import Proto.Gc
import Proto.CofCube
import Proto.Restrict
/-! Feasibility spike: C01 over whole histories — every state reachable through the public
operations (on live handles, with collections on arbitrary root lists) is good, hence canonical. -/
namespace P

/-- liveness is occupancy: the terminal, or an occupied cell -/
def isLive (s : St) (r : Ref) : Bool := r.idx == 1 || (s.nodes r.idx).isSome

theorem exists_varsLe_upto (s : St) : ∀ n, ∃ V, ∀ i, i < n → ∀ nd, s.nodes i = some nd → nd.var ≤ V := by
  intro n
  induction n with
  | zero => exact ⟨0, fun i h => by omega⟩
  | succ n ih =>
    obtain ⟨V, hV⟩ := ih
    cases hn : s.nodes n with
    | none =>
      refine ⟨V, fun i hi nd h => ?_⟩
      by_cases e : i = n
      · subst e; rw [hn] at h; cases h
      · exact hV i (by omega) nd h
    | some m =>
      refine ⟨max V m.var, fun i hi nd h => ?_⟩
      by_cases e : i = n
      · subst e; rw [hn] at h; cases h; exact Nat.le_max_right _ _
      · exact Nat.le_trans (hV i (by omega) nd h) (Nat.le_max_left _ _)

/-- in a good state every occupied cell denotes a function -/
theorem den_of_stored {s : St} (hg : Good s) : ∀ i n, s.nodes i = some n → ∃ d φ, Den s.nodes d ⟨i, false⟩ φ := by
  obtain ⟨V, hV⟩ := exists_varsLe_upto s s.next
  have hV' : ∀ i n, s.nodes i = some n → n.var ≤ V := fun i n h => hV i (hg.bnd _ _ h).2 n h
  -- induction on `V - var`
  have key : ∀ k i n, s.nodes i = some n → V - n.var ≤ k → ∃ d φ, Den s.nodes d ⟨i, false⟩ φ := by
    intro k
    induction k with
    | zero =>
      intro i n hn hk
      have child : ∀ c : Ref, TopGe s.nodes c (n.var + 1) → ∃ d φ, Den s.nodes d c φ := by
        intro c hc
        rcases hc with e | ⟨m, hm, hle⟩
        · rcases c with ⟨ci, cb⟩; simp at e; subst e
          cases cb with
          | false => exact ⟨0, _, .one⟩
          | true => exact ⟨0, _, .neg .one⟩
        · have := hV' _ _ hm; have := hV' _ _ hn; omega
      obtain ⟨d0, φ0, h0⟩ := child n.low (hg.inv.ordLow _ _ hn)
      obtain ⟨d1, φ1, h1⟩ := child n.high (hg.inv.ordHigh _ _ hn)
      exact ⟨_, _, .node hn h0 h1⟩
    | succ k ih =>
      intro i n hn hk
      have child : ∀ c : Ref, TopGe s.nodes c (n.var + 1) → ∃ d φ, Den s.nodes d c φ := by
        intro c hc
        rcases hc with e | ⟨m, hm, hle⟩
        · rcases c with ⟨ci, cb⟩; simp at e; subst e
          cases cb with
          | false => exact ⟨0, _, .one⟩
          | true => exact ⟨0, _, .neg .one⟩
        · obtain ⟨d, φ, h⟩ := ih c.idx m hm (by have := hV' _ _ hm; omega)
          rcases c with ⟨ci, cb⟩
          cases cb with
          | false => exact ⟨d, φ, h⟩
          | true => exact ⟨d, _, .neg h⟩
      obtain ⟨d0, φ0, h0⟩ := child n.low (hg.inv.ordLow _ _ hn)
      obtain ⟨d1, φ1, h1⟩ := child n.high (hg.inv.ordHigh _ _ hn)
      exact ⟨_, _, .node hn h0 h1⟩
  intro i n hn
  exact key (V - n.var) i n hn (Nat.le_refl _)

/-- a live handle has a denotation -/
theorem valid_of_live {s : St} (hg : Good s) {r : Ref} (h : isLive s r = true) : ∃ φ, Valid s.nodes r φ := by
  simp only [isLive, Bool.or_eq_true, beq_iff_eq] at h
  rcases r with ⟨i, b⟩
  rcases h with e | e
  · simp at e; subst e
    cases b with
    | false => exact ⟨_, Valid.one⟩
    | true => exact ⟨_, Valid.zero⟩
  · simp only [Option.isSome_iff_exists] at e
    obtain ⟨n, hn⟩ := e
    obtain ⟨d, φ, h⟩ := den_of_stored hg i n hn
    cases b with
    | false => exact ⟨φ, d, h⟩
    | true => exact ⟨_, d, .neg h⟩

/-- a fragment of the public API, handles named by their position in the result list -/
inductive Op where
  | not (a : Nat)
  | ite (f g h : Nat)
  | constrain (f g : Nat)
  | restrict (f g : Nat)
  | compose (f v g : Nat)
  | subst (f v : Nat) (b : Bool)
  | gc (roots : List Nat)

structure Mgr where
  s : St
  env : List Ref

def Mgr.get (m : Mgr) (i : Nat) : Option Ref :=
  match m.env[i]? with
  | some r => if isLive m.s r then some r else none
  | none => none

def push (m : Mgr) (x : Except Fault (St × Ref)) : Mgr :=
  match x with
  | .ok (s', r) => ⟨s', m.env ++ [r]⟩
  | .error _ => m      -- a panic leaves the manager as it was (no partial node is ever unlinked)

def step (fuel : Nat) (m : Mgr) : Op → Mgr
  | .not a => match m.get a with | some r => ⟨m.s, m.env ++ [r.not]⟩ | none => m
  | .ite f g h =>
    match m.get f, m.get g, m.get h with
    | some f, some g, some h => push m (applyIte fuel m.s f g h)
    | _, _, _ => m
  | .constrain f g =>
    match m.get f, m.get g with
    | some f, some g => push m (constrain fuel m.s f g)
    | _, _ => m
  | .restrict f g =>
    match m.get f, m.get g with
    | some f, some g => push m (restrict fuel m.s f g)
    | _, _ => m
  | .compose f v g =>
    match m.get f, m.get g with
    | some f, some g => push m ((compose fuel m.s f v g []).map (fun x => (x.1, x.2.1)))
    | _, _ => m
  | .subst f v b =>
    match m.get f with
    | some f => push m ((substitute fuel m.s f v b []).map (fun x => (x.1, x.2.1)))
    | none => m
  | .gc roots =>
    let rs := roots.filterMap m.get
    ⟨collect m.s (descendants m.s (2 * (m.s.next + 1) + rs.length + 1) rs), m.env⟩

theorem get_live {m : Mgr} {i r} (h : m.get i = some r) : isLive m.s r = true := by
  unfold Mgr.get at h
  split at h
  · split at h
    · rename_i hl; cases h; exact hl
    · cases h
  · cases h

theorem push_good {m : Mgr} {x} (hg : Good m.s) (hx : ∀ s' r, x = .ok (s', r) → Good s') : Good (push m x).s := by
  unfold push
  split
  · rename_i s' r; exact hx s' r rfl
  · exact hg

/-- one step keeps the manager good -/
theorem step_good (fuel : Nat) (m : Mgr) (op : Op) (hg : Good m.s) : Good (step fuel m op).s := by
  cases op with
  | not a => simp only [step]; split <;> exact hg
  | ite f g h =>
    simp only [step]
    split
    · rename_i rf rg rh ef eg eh
      obtain ⟨_, vf⟩ := valid_of_live hg (get_live ef)
      obtain ⟨_, vg⟩ := valid_of_live hg (get_live eg)
      obtain ⟨_, vh⟩ := valid_of_live hg (get_live eh)
      exact push_good hg (fun s' r e => (applyIte_spec fuel _ _ _ _ _ _ _ _ _ hg vf vg vh e).1)
    · exact hg
  | constrain f g =>
    simp only [step]
    split
    · rename_i rf rg ef eg
      obtain ⟨_, vf⟩ := valid_of_live hg (get_live ef)
      obtain ⟨_, vg⟩ := valid_of_live hg (get_live eg)
      exact push_good hg (fun s' r e => (constrain_spec fuel _ _ _ _ _ _ _ hg vf vg e).1)
    · exact hg
  | restrict f g =>
    simp only [step]
    split
    · rename_i rf rg ef eg
      obtain ⟨_, vf⟩ := valid_of_live hg (get_live ef)
      obtain ⟨_, vg⟩ := valid_of_live hg (get_live eg)
      exact push_good hg (fun s' r e => (restrict_spec fuel _ _ _ _ _ _ _ hg vf vg e).1)
    · exact hg
  | compose f v g =>
    simp only [step]
    split
    · rename_i rf rg ef eg
      obtain ⟨_, vf⟩ := valid_of_live hg (get_live ef)
      obtain ⟨_, vg⟩ := valid_of_live hg (get_live eg)
      refine push_good hg (fun s' r e => ?_)
      cases hc : compose fuel m.s rf v rg [] with
      | error x => rw [hc] at e; cases e
      | ok p =>
        obtain ⟨s1, r1, memo1⟩ := p
        rw [hc] at e
        simp only [Except.map, Except.ok.injEq, Prod.mk.injEq] at e
        obtain ⟨rfl, rfl⟩ := e
        exact (compose_spec v fuel _ _ _ _ _ _ _ _ _ hg vf vg (fun _ _ _ h => by cases h) hc).1
    · exact hg
  | subst f v b =>
    simp only [step]
    split
    · rename_i rf ef
      obtain ⟨_, vf⟩ := valid_of_live hg (get_live ef)
      refine push_good hg (fun s' r e => ?_)
      cases hc : substitute fuel m.s rf v b [] with
      | error x => rw [hc] at e; cases e
      | ok p =>
        obtain ⟨s1, r1, memo1⟩ := p
        rw [hc] at e
        simp only [Except.map, Except.ok.injEq, Prod.mk.injEq] at e
        obtain ⟨rfl, rfl⟩ := e
        exact (substitute_spec v b fuel _ _ _ _ _ _ _ hg vf (fun _ _ h => by cases h) hc).1
    · exact hg
  | gc roots =>
    simp only [step]
    -- the survivor set computed by `descendants` is children-closed
    have hlive : ∀ i, i ∈ (roots.filterMap m.get).map Ref.idx → Live m.s i := by
      intro i hi
      obtain ⟨r, hr, rfl⟩ := List.mem_map.mp hi
      obtain ⟨j, _, hj⟩ := List.mem_filterMap.mp hr
      have := get_live hj
      simp only [isLive, Bool.or_eq_true, beq_iff_eq, Option.isSome_iff_exists] at this
      exact this
    obtain ⟨_, _, hcl⟩ := bfs_closed hg (2 * (m.s.next + 1) + (roots.filterMap m.get).length + 1)
      ((roots.filterMap m.get).map Ref.idx) [1] hlive
      (fun i hi => by simp at hi; subst hi; exact Or.inl rfl) (by simp)
      (fun i n hi hn => by simp at hi; subst hi; rw [hg.inv.noterm] at hn; cases hn)
    have hnext := hg.next2
    obtain ⟨_, hclosed⟩ := hcl (by simp; omega) (by simp) (fun i hi => by simp at hi; subst hi; omega)
    exact (collect_good hg hclosed).1

def run (fuel : Nat) : Mgr → List Op → Mgr
  | m, [] => m
  | m, op :: ops => run fuel (step fuel m op) ops

/-- C01 over histories: every reachable manager state is good … -/
theorem run_good (fuel : Nat) : ∀ (ops : List Op) (m : Mgr), Good m.s → Good (run fuel m ops).s := by
  intro ops
  induction ops with
  | nil => intro m h; exact h
  | cons op ops ih => intro m h; exact ih _ (step_good fuel m op h)

/-- … hence canonical: two live handles are equal iff they denote the same function -/
theorem run_canonical (fuel : Nat) (ops : List Op) (m : Mgr) (hg : Good m.s) {r r' : Ref} {φ φ' : Fn}
    (v : Valid (run fuel m ops).s.nodes r φ) (v' : Valid (run fuel m ops).s.nodes r' φ') :
    r = r' ↔ φ = φ' := by
  have hG := run_good fuel ops m hg
  constructor
  · intro e; subst e; exact v.det hG.inv.noterm v'
  · intro e; subst e
    obtain ⟨d, h⟩ := v; obtain ⟨d', h'⟩ := v'
    exact canonicity hG.inv h h'

/-- the empty manager is good (non-vacuity of the hypothesis above) -/
def St.init : St := ⟨fun _ => none, 2, fun _ => none⟩
theorem init_good : Good St.init := by
  refine ⟨⟨?_, rfl, ?_, ?_, ?_, ?_⟩, ?_, ?_, Nat.le_refl _, ?_⟩ <;> intro _ _ h <;> (try intros) <;> simp [St.init] at *

#print axioms run_canonical
#print axioms init_good
end P

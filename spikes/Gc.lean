import Proto.Ite
/-! Feasibility spike: `descendants` computes a children-closed set containing the roots, and
restricting the store to such a set (what `collect_garbage` does to the node set) preserves
the invariant and the meaning of everything inside the set. -/
namespace P

/-- `descendants`: breadth-first walk with a queue; `vis` starts as `[1]` -/
def bfs (s : St) : Nat → List Nat → List Nat → List Nat
  | 0, _, vis => vis
  | _ + 1, [], vis => vis
  | fuel + 1, i :: q, vis =>
    if vis.contains i then bfs s fuel q vis
    else bfs s fuel (q ++ [(s.low i).idx, (s.high i).idx]) (i :: vis)

def descendants (s : St) (fuel : Nat) (roots : List Ref) : List Nat :=
  bfs s fuel (roots.map Ref.idx) [1]

/-- an index that may legitimately be visited: the terminal or a stored node -/
def Live (s : St) (i : Nat) : Prop := i = 1 ∨ ∃ n, s.nodes i = some n

/-- children-closed -/
def Closed (s : St) (V : List Nat) : Prop :=
  ∀ i n, i ∈ V → s.nodes i = some n → n.low.idx ∈ V ∧ n.high.idx ∈ V

theorem live_children {s : St} (hg : Good s) {i n} (hn : s.nodes i = some n) :
    Live s n.low.idx ∧ Live s n.high.idx := by
  constructor
  · rcases hg.inv.ordLow _ _ hn with h | ⟨m, hm, _⟩
    · exact Or.inl h
    · exact Or.inr ⟨m, hm⟩
  · rcases hg.inv.ordHigh _ _ hn with h | ⟨m, hm, _⟩
    · exact Or.inl h
    · exact Or.inr ⟨m, hm⟩

theorem nodup_length_le : ∀ (N : Nat) (l : List Nat), l.Nodup → (∀ i, i ∈ l → i < N) → l.length ≤ N := by
  intro N
  induction N with
  | zero =>
    intro l _ h
    cases l with
    | nil => simp
    | cons a l => exact absurd (h a List.mem_cons_self) (by omega)
  | succ N ih =>
    intro l nd h
    by_cases hN : N ∈ l
    · have nd' := nd.erase N
      have hlt : ∀ i, i ∈ l.erase N → i < N := by
        intro i hi
        have := (nd.mem_erase_iff).mp hi
        have := h i this.2
        omega
      have := ih _ nd' hlt
      rw [List.length_erase_of_mem hN] at this
      omega
    · have : ∀ i, i ∈ l → i < N := by
        intro i hi
        have := h i hi
        have : i ≠ N := fun e => hN (e ▸ hi)
        omega
      have := ih l nd this
      omega

/-- loop invariant of the walk, and what it gives when the queue has run empty -/
theorem bfs_closed {s : St} (hg : Good s) : ∀ fuel q vis,
    (∀ i, i ∈ q → Live s i) → (∀ i, i ∈ vis → Live s i) → 1 ∈ vis →
    (∀ i n, i ∈ vis → s.nodes i = some n → (n.low.idx ∈ vis ∨ n.low.idx ∈ q) ∧ (n.high.idx ∈ vis ∨ n.high.idx ∈ q)) →
    let V := bfs s fuel q vis
    (∀ i, i ∈ vis → i ∈ V) ∧ (∀ i, i ∈ V → Live s i) ∧
    (2 * (s.next + 1 - vis.length) + q.length < fuel → vis.Nodup → (∀ i, i ∈ vis → i < s.next + 1) →
      (∀ i, i ∈ q → i ∈ V) ∧ Closed s V) := by
  intro fuel
  induction fuel with
  | zero =>
    intro q vis _ hv _ _
    exact ⟨fun i h => h, hv, fun h => by omega⟩
  | succ fuel ih =>
    intro q vis hq hv h1 hinv
    cases q with
    | nil =>
      simp only [bfs]
      refine ⟨fun i h => h, hv, fun _ _ _ => ⟨fun i h => (by cases h), ?_⟩⟩
      intro i n hi hn
      have := hinv i n hi hn
      simp only [List.not_mem_nil, or_false] at this
      exact this
    | cons i q =>
      simp only [bfs]
      by_cases hc : vis.contains i = true
      · rw [if_pos hc]
        have hi : i ∈ vis := by simpa using hc
        have hinv' : ∀ j n, j ∈ vis → s.nodes j = some n →
            (n.low.idx ∈ vis ∨ n.low.idx ∈ q) ∧ (n.high.idx ∈ vis ∨ n.high.idx ∈ q) := by
          intro j n hj hn
          obtain ⟨a, b⟩ := hinv j n hj hn
          constructor
          · rcases a with a | a
            · exact Or.inl a
            · rcases List.mem_cons.mp a with e | e
              · exact Or.inl (e ▸ hi)
              · exact Or.inr e
          · rcases b with b | b
            · exact Or.inl b
            · rcases List.mem_cons.mp b with e | e
              · exact Or.inl (e ▸ hi)
              · exact Or.inr e
        obtain ⟨x, y, z⟩ := ih q vis (fun j hj => hq j (List.mem_cons_of_mem _ hj)) hv h1 hinv'
        refine ⟨x, y, fun hf nd hb => ?_⟩
        obtain ⟨z1, z2⟩ := z (by simp only [List.length_cons] at hf; omega) nd hb
        refine ⟨fun j hj => ?_, z2⟩
        rcases List.mem_cons.mp hj with e | e
        · exact e ▸ x i hi
        · exact z1 j e
      · rw [if_neg hc]
        have hi : i ∉ vis := by simpa using hc
        have hli : Live s i := hq i List.mem_cons_self
        -- children of `i` are live (or `i` is not a node, in which case they are never looked at again)
        have hq' : ∀ j, j ∈ q ++ [(s.low i).idx, (s.high i).idx] → Live s j := by
          intro j hj
          rcases List.mem_append.mp hj with e | e
          · exact hq j (List.mem_cons_of_mem _ e)
          · rcases hli with e1 | ⟨n, hn⟩
            · exact absurd (e1 ▸ h1) hi
            · have := live_children hg hn
              simp only [St.low, St.high, hn, List.mem_cons, List.not_mem_nil, or_false] at e
              rcases e with e | e
              · exact e ▸ this.1
              · exact e ▸ this.2
        have hv' : ∀ j, j ∈ i :: vis → Live s j := by
          intro j hj
          rcases List.mem_cons.mp hj with e | e
          · exact e ▸ hli
          · exact hv j e
        have hinv' : ∀ j n, j ∈ i :: vis → s.nodes j = some n →
            (n.low.idx ∈ i :: vis ∨ n.low.idx ∈ q ++ [(s.low i).idx, (s.high i).idx]) ∧
            (n.high.idx ∈ i :: vis ∨ n.high.idx ∈ q ++ [(s.low i).idx, (s.high i).idx]) := by
          intro j n hj hn
          rcases List.mem_cons.mp hj with e | e
          · subst e
            simp only [St.low, St.high, hn]
            exact ⟨Or.inr (by simp), Or.inr (by simp)⟩
          · obtain ⟨a, b⟩ := hinv j n e hn
            constructor
            · rcases a with a | a
              · exact Or.inl (List.mem_cons_of_mem _ a)
              · rcases List.mem_cons.mp a with e' | e'
                · exact Or.inl (e' ▸ List.mem_cons_self)
                · exact Or.inr (List.mem_append_left _ e')
            · rcases b with b | b
              · exact Or.inl (List.mem_cons_of_mem _ b)
              · rcases List.mem_cons.mp b with e' | e'
                · exact Or.inl (e' ▸ List.mem_cons_self)
                · exact Or.inr (List.mem_append_left _ e')
        obtain ⟨x, y, z⟩ := ih _ _ hq' hv' (List.mem_cons_of_mem _ h1) hinv'
        refine ⟨fun j hj => x j (List.mem_cons_of_mem _ hj), y, fun hf nd hb => ?_⟩
        have hib : i < s.next + 1 := by
          rcases hli with e | ⟨n, hn⟩
          · have := hg.next2; omega
          · have := (hg.bnd _ _ hn).2; omega
        have hlen : vis.length < s.next + 1 := by
          -- pigeonhole: `i :: vis` is a duplicate-free list of numbers below `next + 1`
          have := nodup_length_le (s.next + 1) (i :: vis) (List.nodup_cons.mpr ⟨hi, nd⟩)
            (fun j hj => by rcases List.mem_cons.mp hj with e | e; exact e ▸ hib; exact hb j e)
          simp only [List.length_cons] at this; omega
        obtain ⟨z1, z2⟩ := z (by simp only [List.length_cons, List.length_append, List.length_nil] at hf ⊢; omega)
          (List.nodup_cons.mpr ⟨hi, nd⟩)
          (fun j hj => by rcases List.mem_cons.mp hj with e | e; exact e ▸ hib; exact hb j e)
        refine ⟨fun j hj => ?_, z2⟩
        rcases List.mem_cons.mp hj with e | e
        · exact e ▸ x i List.mem_cons_self
        · exact z1 j (List.mem_append_left _ e)


/-- what `collect_garbage` does to the node set and the caches -/
def collect (s : St) (V : List Nat) : St :=
  { s with nodes := fun i => if V.contains i then s.nodes i else none, cache := fun _ => none }

theorem collect_nodes {s : St} {V : List Nat} {i n} : (collect s V).nodes i = some n ↔ i ∈ V ∧ s.nodes i = some n := by
  simp only [collect]
  by_cases h : V.contains i = true
  · have : i ∈ V := by simpa using h
    simp [h, this]
  · have : i ∉ V := by simpa using h
    simp [h, this]

theorem Den.collect {s : St} {V : List Nat} (h1 : s.nodes 1 = none) (hc : Closed s V) {d r φ}
    (h : Den s.nodes d r φ) : (r.idx = 1 ∨ r.idx ∈ V) → Den (P.collect s V).nodes d r φ := by
  induction h with
  | one => intro _; exact .one
  | @node i n d0 d1 φ0 φ1 hn h0 h1' ih0 ih1 =>
    intro hi
    have hiV : i ∈ V := by
      rcases hi with e | e
      · simp at e; subst e; rw [h1] at hn; cases hn
      · exact e
    obtain ⟨cl, ch⟩ := hc i n hiV hn
    exact .node (collect_nodes.mpr ⟨hiV, hn⟩) (ih0 (Or.inr cl)) (ih1 (Or.inr ch))
  | neg _ ih => intro hi; exact .neg (ih hi)

/-- C05 (node-set level): after a collection whose survivor set is children-closed, the state is
good again (caches empty), and every handle into the survivor set denotes what it denoted -/
theorem collect_good {s : St} (hg : Good s) {V : List Nat} (hc : Closed s V) :
    Good (collect s V) ∧
    (∀ r φ, Valid s.nodes r φ → (r.idx = 1 ∨ r.idx ∈ V) → Valid (collect s V).nodes r φ) ∧
    (∀ k, (collect s V).cache k = none) := by
  have sub : Sub (collect s V).nodes s.nodes := fun i n h => (collect_nodes.mp h).2
  have topge : ∀ i n, (collect s V).nodes i = some n → ∀ c v, (c = n.low ∨ c = n.high) →
      TopGe s.nodes c v → TopGe (collect s V).nodes c v := by
    intro i n hn c v hcn ht
    obtain ⟨hiV, hn'⟩ := collect_nodes.mp hn
    obtain ⟨cl, ch⟩ := hc i n hiV hn'
    rcases ht with e | ⟨m, hm, hv⟩
    · exact Or.inl e
    · refine Or.inr ⟨m, collect_nodes.mpr ⟨?_, hm⟩, hv⟩
      rcases hcn with e | e <;> subst e <;> assumption
  refine ⟨⟨⟨?_, ?_, ?_, ?_, ?_, ?_⟩, ?_, ?_, hg.next2, ?_⟩, ?_, fun _ => rfl⟩
  · intro i j n hi hj; exact hg.inv.uniq i j n (sub _ _ hi) (sub _ _ hj)
  · cases h : (collect s V).nodes 1 with
    | none => rfl
    | some n => have := sub _ _ h; rw [hg.inv.noterm] at this; cases this
  · intro i n hn; exact hg.inv.highReg i n (sub _ _ hn)
  · intro i n hn; exact hg.inv.reduced i n (sub _ _ hn)
  · intro i n hn; exact topge i n hn _ _ (Or.inl rfl) (hg.inv.ordLow i n (sub _ _ hn))
  · intro i n hn; exact topge i n hn _ _ (Or.inr rfl) (hg.inv.ordHigh i n (sub _ _ hn))
  · intro i n hn; exact hg.bnd i n (sub _ _ hn)
  · intro i n hn; exact hg.var0 i n (sub _ _ hn)
  · intro k r hk; simp [collect] at hk
  · intro r φ ⟨d, hd⟩ hr
    exact ⟨d, hd.collect hg.inv.noterm hc hr⟩

#print axioms bfs_closed
#print axioms collect_good
end P

import Proto.Ite
/-! Feasibility spike: one_sat and paths describe exactly the satisfying set. -/
namespace P

def St.lowNode (s : St) (r : Ref) : Ref := if r.neg then (s.low r.idx).not else s.low r.idx
def St.highNode (s : St) (r : Ref) : Ref := if r.neg then (s.high r.idx).not else s.high r.idx

/-- an assignment satisfies a list of signed literals -/
def Sat (e : Env) (p : List Int) : Bool := p.all (fun l => e l.natAbs == decide (0 < l))

theorem Sat_append (e : Env) (p q : List Int) : Sat e (p ++ q) = (Sat e p && Sat e q) := by
  simp [Sat, List.all_append]

/-- recursive enumeration in the order of the explicit-stack iterator (else-branch first) -/
def pathsRec : Nat → St → Ref → List Int → List (List Int)
  | 0, _, _, _ => []
  | fuel + 1, s, r, pre =>
    if isZero r then [] else
    if isOne r then [pre] else
    let v : Int := (s.var r : Nat)
    pathsRec fuel s (s.lowNode r) (pre ++ [-v]) ++ pathsRec fuel s (s.highNode r) (pre ++ [v])

/-- `_one_sat`: then-branch first -/
def oneSat : Nat → St → Ref → List Int → Option (List Int)
  | 0, _, _, _ => none
  | fuel + 1, s, r, pre =>
    if isZero r then none else
    if isOne r then some pre else
    let v : Int := (s.var r : Nat)
    match oneSat fuel s (s.highNode r) (pre ++ [v]) with
    | some p => some p
    | none => oneSat fuel s (s.lowNode r) (pre ++ [-v])

theorem Den.notDepth {nd d r φ} (h : Den nd d r φ) : Den nd d r.not (fun e => !φ e) := by
  rcases r with ⟨i, b⟩
  cases b with
  | false => exact .neg h
  | true =>
    obtain ⟨ψ, hψ, rfl⟩ := h.negInv
    simpa [Ref.not] using hψ

/-- a non-terminal handle, its two accessors, and how its function splits on its variable -/
theorem Den.split {s : St} (hg : Good s) {d r φ} (h : Den s.nodes d r φ) (hnt : isTerminal r = false) :
    s.var r ≠ 0 ∧ ∃ d0 d1 φ0 φ1, d0 < d ∧ d1 < d ∧ Den s.nodes d0 (s.lowNode r) φ0 ∧ Den s.nodes d1 (s.highNode r) φ1 ∧
      (φ = fun e => if e (s.var r) then φ1 e else φ0 e) ∧
      SuppGe φ0 (s.var r + 1) ∧ SuppGe φ1 (s.var r + 1) := by
  have h1 := hg.inv.noterm
  rcases r with ⟨i, b⟩
  have key : ∀ ψ, Den s.nodes d ⟨i, false⟩ ψ → ∃ n d0 d1 φ0 φ1, s.nodes i = some n ∧ d0 < d ∧ d1 < d ∧
      Den s.nodes d0 n.low φ0 ∧ Den s.nodes d1 n.high φ1 ∧ ψ = fun e => if e n.var then φ1 e else φ0 e := by
    intro ψ hψ
    rcases hψ.regInv with ⟨e1, -, -⟩ | ⟨n, d0, d1, φ0, φ1, hn, h0, h1', hd, hφ⟩
    · subst e1; cases b <;> simp [isTerminal, isOne, isZero, Ref.one, Ref.zero] at hnt
    · exact ⟨n, d0, d1, φ0, φ1, hn, by omega, by omega, h0, h1', hφ⟩
  cases b with
  | false =>
    obtain ⟨n, d0, d1, φ0, φ1, hn, a, b', c, e, f⟩ := key φ h
    have hv : s.var ⟨i, false⟩ = n.var := by simp [St.var, hn]
    have s0 := c.supp hg.inv _ (hg.inv.ordLow _ _ hn)
    have s1 := e.supp hg.inv _ (hg.inv.ordHigh _ _ hn)
    refine ⟨by rw [hv]; exact hg.var0 _ _ hn, d0, d1, φ0, φ1, a, b', ?_, ?_, by rw [hv]; exact f, by rw [hv]; exact s0, by rw [hv]; exact s1⟩
    · simpa [St.lowNode, St.low, hn] using c
    · simpa [St.highNode, St.high, hn] using e
  | true =>
    obtain ⟨ψ, hψ, rfl⟩ := h.negInv
    obtain ⟨n, d0, d1, φ0, φ1, hn, a, b', c, e, f⟩ := key ψ hψ
    have hv : s.var ⟨i, true⟩ = n.var := by simp [St.var, hn]
    have s0 := c.supp hg.inv _ (hg.inv.ordLow _ _ hn)
    have s1 := e.supp hg.inv _ (hg.inv.ordHigh _ _ hn)
    refine ⟨by rw [hv]; exact hg.var0 _ _ hn, d0, d1, (fun x => !φ0 x), (fun x => !φ1 x), a, b', ?_, ?_, ?_,
      by rw [hv]; exact s0.not, by rw [hv]; exact s1.not⟩
    · simpa [St.lowNode, St.low, hn] using c.notDepth
    · simpa [St.highNode, St.high, hn] using e.notDepth
    · rw [hv, f]; funext x; by_cases hx : x n.var = true <;> simp [hx]

theorem sat_lit_pos (e : Env) (v : Nat) (hv : v ≠ 0) : Sat e [(v : Int)] = e v := by
  have h2 : 0 < v := by omega
  simp [Sat, h2]
theorem sat_lit_neg (e : Env) (v : Nat) (hv : v ≠ 0) : Sat e [-(v : Int)] = !e v := by
  have h2 : ¬ ((v : Int) < 0) := by omega
  simp [Sat, h2]

/-- every satisfying assignment lies in exactly one enumerated cube, every other in none -/
theorem pathsRec_count : ∀ fuel s r φ pre d, Good s → Den s.nodes d r φ → d < fuel →
    ∀ e, ((pathsRec fuel s r pre).countP (Sat e)) = if Sat e pre && φ e then 1 else 0 := by
  intro fuel
  induction fuel with
  | zero => intro s r φ pre d _ _ hd e; omega
  | succ fuel ih =>
    intro s r φ pre d hg hden hd e
    have h1 := hg.inv.noterm
    have vr : Valid s.nodes r φ := ⟨d, hden⟩
    unfold pathsRec
    by_cases cz : isZero r = true
    · rw [if_pos cz]; have := zero_fn h1 cz vr; subst this; simp
    rw [if_neg cz]
    by_cases co : isOne r = true
    · rw [if_pos co]; have := one_fn h1 co vr; subst this
      simp [List.countP_cons]
    rw [if_neg co]
    have hnt : isTerminal r = false := by
      simp only [isTerminal, Bool.or_eq_false_iff]; exact ⟨by simpa using co, by simpa using cz⟩
    obtain ⟨hv0, d0, d1, φ0, φ1, hd0, hd1, vlo, vhi, hφ, s0, s1⟩ := hden.split hg hnt
    simp only [List.countP_append]
    rw [ih _ _ _ _ _ hg vlo (by omega) e, ih _ _ _ _ _ hg vhi (by omega) e]
    rw [Sat_append, Sat_append, sat_lit_pos e _ hv0, sat_lit_neg e _ hv0, hφ]
    cases hp : Sat e pre <;> cases hev : e (s.var r) <;> simp [hev]

/-- C14 for `paths`: disjoint, complete, each satisfying assignment exactly once -/
theorem paths_exactly_once {fuel s r φ d} (hg : Good s) (h : Den s.nodes d r φ) (hd : d < fuel) (e : Env) :
    ((pathsRec fuel s r []).countP (Sat e)) = if φ e then 1 else 0 := by
  rw [pathsRec_count fuel s r φ [] d hg h hd e]; simp [Sat]

/-- C14 for `one_sat`: `None` exactly for the constant false, otherwise an implicant -/
theorem oneSat_spec : ∀ fuel s r φ pre d, Good s → Den s.nodes d r φ → d < fuel →
    (oneSat fuel s r pre = none ↔ φ = fun _ => false) ∧
    (∀ p, oneSat fuel s r pre = some p → ∃ q, p = pre ++ q ∧ ∀ e, Sat e q = true → φ e = true) := by
  intro fuel
  induction fuel with
  | zero => intro s r φ pre d _ _ hd; omega
  | succ fuel ih =>
    intro s r φ pre d hg hden hd
    have h1 := hg.inv.noterm
    have vr : Valid s.nodes r φ := ⟨d, hden⟩
    unfold oneSat
    by_cases cz : isZero r = true
    · rw [if_pos cz]; have := zero_fn h1 cz vr; subst this
      exact ⟨⟨fun _ => rfl, fun _ => rfl⟩, fun p hp => by cases hp⟩
    rw [if_neg cz]
    by_cases co : isOne r = true
    · rw [if_pos co]; have := one_fn h1 co vr; subst this
      refine ⟨⟨fun h => (by cases h), fun h => absurd h.symm ?_⟩, fun p hp => ?_⟩
      · intro h'; have := congrFun h' (fun _ => true); cases this
      · cases hp; exact ⟨[], by simp, fun _ _ => rfl⟩
    rw [if_neg co]
    have hnt : isTerminal r = false := by
      simp only [isTerminal, Bool.or_eq_false_iff]; exact ⟨by simpa using co, by simpa using cz⟩
    obtain ⟨hv0, d0, d1, φ0, φ1, hd0, hd1, vlo, vhi, hφ, s0, s1⟩ := hden.split hg hnt
    obtain ⟨nlo, plo⟩ := ih _ _ _ (pre ++ [-((s.var r : Nat) : Int)]) _ hg vlo (by omega)
    obtain ⟨nhi, phi⟩ := ih _ _ _ (pre ++ [((s.var r : Nat) : Int)]) _ hg vhi (by omega)
    have half : φ = (fun _ => false) → φ0 = (fun _ => false) ∧ φ1 = (fun _ => false) := by
      intro h
      constructor
      · funext x
        have := congrFun h (upd x (s.var r) false)
        rw [hφ] at this; simp only [upd_same, Bool.false_eq_true, ↓reduceIte] at this
        rw [← this]; exact s0 _ _ (upd_agree' x _ false _ (Nat.lt_succ_self _))
      · funext x
        have := congrFun h (upd x (s.var r) true)
        rw [hφ] at this; simp only [upd_same, ↓reduceIte] at this
        rw [← this]; exact s1 _ _ (upd_agree' x _ true _ (Nat.lt_succ_self _))
    simp only
    cases hh : oneSat fuel s (s.highNode r) (pre ++ [((s.var r : Nat) : Int)]) with
    | some p =>
      simp only
      refine ⟨⟨fun h => (by cases h), fun h => ?_⟩, fun p' hp' => ?_⟩
      · exfalso
        have := nhi.mpr (half h).2; rw [hh] at this; cases this
      · cases hp'
        obtain ⟨q, hq, himp⟩ := phi p hh
        refine ⟨((s.var r : Nat) : Int) :: q, by rw [hq]; simp, fun e he => ?_⟩
        have : Sat e (((s.var r : Nat) : Int) :: q) = (Sat e [((s.var r : Nat) : Int)] && Sat e q) := by
          rw [← Sat_append]; rfl
        rw [this, sat_lit_pos e _ hv0, Bool.and_eq_true] at he
        rw [hφ]; simp only [he.1, ↓reduceIte]; exact himp e he.2
    | none =>
      simp only
      have h1f : φ1 = fun _ => false := nhi.mp hh
      refine ⟨⟨fun h => ?_, fun h => ?_⟩, fun p' hp' => ?_⟩
      · have h0f := nlo.mp h
        rw [hφ, h1f, h0f]; funext x; simp
      · exact nlo.mpr (half h).1
      · obtain ⟨q, hq, himp⟩ := plo p' hp'
        refine ⟨(-((s.var r : Nat) : Int)) :: q, by rw [hq]; simp, fun e he => ?_⟩
        have : Sat e ((-((s.var r : Nat) : Int)) :: q) = (Sat e [-((s.var r : Nat) : Int)] && Sat e q) := by
          rw [← Sat_append]; rfl
        rw [this, sat_lit_neg e _ hv0, Bool.and_eq_true] at he
        have hev : e (s.var r) = false := by simpa using he.1
        rw [hφ]; simp only [hev, Bool.false_eq_true, ↓reduceIte]; exact himp e he.2

#print axioms paths_exactly_once
#print axioms oneSat_spec
end P

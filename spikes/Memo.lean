import Proto.Reach
import Proto.RestrictSem
/-! Feasibility spike: memoisation is invisible (C07) — repeating an operation later, in any good
state in which the arguments and the first result are still live with the same meaning (after
flushes, collisions, collections, slot reuse), returns the identical handle. -/
namespace P

/-- `s2` keeps the meaning of the handle `r` of `s1` -/
def Keeps (s1 s2 : St) (r : Ref) : Prop := ∀ φ, Valid s1.nodes r φ → Valid s2.nodes r φ

theorem ite_replay {fuel fuel' : Nat} {s s1 s2 s3 : St} {f g h r1 r2 : Ref} {φf φg φh : Fn}
    (hg : Good s) (vf : Valid s.nodes f φf) (vg : Valid s.nodes g φg) (vh : Valid s.nodes h φh)
    (e1 : applyIte fuel s f g h = .ok (s1, r1))
    (hg2 : Good s2) (kf : Keeps s1 s2 f) (kg : Keeps s1 s2 g) (kh : Keeps s1 s2 h) (kr : Keeps s1 s2 r1)
    (e2 : applyIte fuel' s2 f g h = .ok (s3, r2)) : r2 = r1 := by
  obtain ⟨g1, sub1, v1⟩ := applyIte_spec fuel _ _ _ _ _ _ _ _ _ hg vf vg vh e1
  obtain ⟨g3, sub3, v2⟩ := applyIte_spec fuel' _ _ _ _ _ _ _ _ _ hg2
    (kf _ (vf.mono sub1)) (kg _ (vg.mono sub1)) (kh _ (vh.mono sub1)) e2
  obtain ⟨d, hd⟩ := v2
  obtain ⟨d', hd'⟩ := (kr _ v1).mono sub3
  exact canonicity g3.inv hd hd'

/-- the same for restrict, whose result is *defined* by a recursion: `RestrictRel.functional`
makes the function, and canonicity the handle, independent of what the memo held -/
theorem restrict_replay {fuel fuel' : Nat} {s s1 s2 s3 : St} {f g r1 r2 : Ref} {φf φg : Fn}
    (hg : Good s) (vf : Valid s.nodes f φf) (vg : Valid s.nodes g φg)
    (e1 : restrict fuel s f g = .ok (s1, r1))
    (hg2 : Good s2) (kf : Keeps s1 s2 f) (kg : Keeps s1 s2 g) (kr : Keeps s1 s2 r1)
    (e2 : restrict fuel' s2 f g = .ok (s3, r2)) : r2 = r1 := by
  obtain ⟨g1, sub1, h1, v1, rel1⟩ := restrict_spec fuel _ _ _ _ _ _ _ hg vf vg e1
  obtain ⟨g3, sub3, h2, v2, rel2⟩ := restrict_spec fuel' _ _ _ _ _ _ _ hg2
    (kf _ (vf.mono sub1)) (kg _ (vg.mono sub1)) e2
  have : h1 = h2 := rel1.functional rel2
  subst this
  obtain ⟨d, hd⟩ := v2
  obtain ⟨d', hd'⟩ := (kr _ v1).mono sub3
  exact canonicity g3.inv hd hd'

/-- a flush alone (what `collect_garbage` does to the caches, with every live handle as a root) keeps
everything: the instance of `Keeps` needed above -/
theorem keeps_of_flush (s : St) (r : Ref) : Keeps s { s with cache := fun _ => none } r := fun _ h => h

theorem good_of_flush {s : St} (hg : Good s) : Good { s with cache := fun _ => none } :=
  ⟨hg.inv, hg.bnd, hg.var0, hg.next2, fun k r h => by cases h⟩

#print axioms ite_replay
#print axioms restrict_replay
end P

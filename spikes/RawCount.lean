import Proto.RawRehash
/-! Feasibility spike: why repair D3 (`reserve(2)` before the probe of `find_or_free`) is exactly
what the proof needs — with two FREE slots before an insertion, one remains afterwards, so every
later probe loop terminates. -/
namespace R
set_option linter.unusedSectionVars false
variable {κ ν : Type} [DecidableEq κ]

def nFree (t : Raw κ ν) : Nat := Cn.countOcc (fun i => (t.slot i).isFree) t.cap

theorem exists_of_count_pos {occ : Nat → Bool} : ∀ {n : Nat}, 1 ≤ Cn.countOcc occ n → ∃ i, i < n ∧ occ i = true := by
  intro n
  induction n with
  | zero => intro h; simp [Cn.countOcc] at h
  | succ n ih =>
    intro h
    rw [Cn.countOcc_succ] at h
    by_cases ho : occ n = true
    · exact ⟨n, by omega, ho⟩
    · simp only [ho, Bool.false_eq_true, ↓reduceIte, Nat.add_zero] at h
      obtain ⟨i, hi, hoi⟩ := ih h
      exact ⟨i, by omega, hoi⟩

/-- two FREE slots: whichever one an insertion takes, another stays FREE -/
theorem exists_other_free {t : Raw κ ν} (h2 : 2 ≤ nFree t) (p : Nat) (hp : p < t.cap) (hf : (t.slot p).isFree = true) :
    ∃ i, i < t.cap ∧ i ≠ p ∧ t.slot i = .free := by
  have := Cn.countOcc_clear (occ := fun i => (t.slot i).isFree) hp hf
  have h1 : 1 ≤ Cn.countOcc (fun j => if j = p then false else (t.slot j).isFree) t.cap := by
    unfold nFree at h2; omega
  obtain ⟨i, hi, hoi⟩ := exists_of_count_pos h1
  by_cases e : i = p
  · simp [e] at hoi
  · simp only [e, ↓reduceIte] at hoi
    refine ⟨i, hi, e, ?_⟩
    cases hs : t.slot i <;> simp [hs, Slot.isFree] at hoi
    rfl

/-- the counter invariant: `free` never overcounts the FREE slots -/
def FreeOk (t : Raw κ ν) : Prop := t.free ≤ nFree t

/-- C19 / D3: with `free ≥ 2` guaranteed by `reserve(2)`, the hypothesis `hfree2` of
`insert_absent_refines` is met, and after the insertion `free ≥ 1` still holds -/
theorem insert_keeps_a_free_slot {t : Raw κ ν} (hok : FreeOk t) (h2 : 2 ≤ t.free) :
    ∀ p, (t.slot p).isFree = true → p < t.cap → ∃ i, i < t.cap ∧ i ≠ p ∧ t.slot i = .free :=
  fun p hf hp => exists_other_free (Nat.le_trans h2 hok) p hp hf

/-- with only one FREE slot guaranteed (the pinned `reserve(1)`), an insertion may consume it:
the 1-slot table of the D3 witness has `nFree = 0` -/
example : nFree (fullOne : Raw Nat Nat) = 0 := by decide

#print axioms insert_keeps_a_free_slot
end R

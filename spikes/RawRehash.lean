import Proto.RawMore
import Proto.Counts
/-! Feasibility spike: RawTable `reserve_rehash` — moving every element into a fresh table by
"first FREE slot from home" yields a table with the probe invariant that represents the same map. -/
namespace R
set_option linter.unusedSectionVars false
variable {κ ν : Type} [DecidableEq κ]
section
variable (hashOf : κ → Nat)

def emptyRaw (cap : Nat) : Raw κ ν := ⟨cap, fun _ => .free, 0, cap⟩

/-- the inner loop of `reserve_rehash`: probe from the home slot until a FREE slot, write there -/
def placeLoop (new : Raw κ ν) (st : Nat) (k : κ) (v : ν) : Nat → Nat → Out (Raw κ ν)
  | 0, _ => .hang
  | fuel + 1, idx =>
    match new.slot idx with
    | .free => .ok (new.setSlot idx (.full st k v))
    | _ => placeLoop new st k v fuel ((idx + 1) % new.cap)

/-- the invariant of the table under construction: no tombstones, probe reachability, distinct keys -/
structure PInv (t : Raw κ ν) : Prop where
  noDead : ∀ i, i < t.cap → t.slot i ≠ .dead
  reach : ∀ i st k v, i < t.cap → t.slot i = .full st k v →
    st = status hashOf k ∧ ∃ d, d < t.cap ∧ probe hashOf t.cap k d = i ∧
      ∀ d', d' < d → t.slot (probe hashOf t.cap k d') ≠ .free
  distinct : ∀ i j st st' k v v', i < t.cap → j < t.cap →
    t.slot i = .full st k v → t.slot j = .full st' k v' → i = j

theorem first_free_from {t : Raw κ ν} (hc : 0 < t.cap) (k : κ) {i0 : Nat} (hi0 : i0 < t.cap) (hf : t.slot i0 = .free) :
    ∃ D, D < t.cap ∧ t.slot (probe hashOf t.cap k D) = .free ∧
      ∀ d', d' < D → t.slot (probe hashOf t.cap k d') ≠ .free := by
  obtain ⟨D0, hD0, hp⟩ := probe_surj hashOf k hi0
  have : ∃ D, D < t.cap ∧ t.slot (probe hashOf t.cap k D) = .free := ⟨D0, hD0, by rw [hp]; exact hf⟩
  obtain ⟨D1, h1, h2⟩ := this
  induction D1 using Nat.strongRecOn with
  | _ D1 ih =>
    by_cases hall : ∀ d', d' < D1 → t.slot (probe hashOf t.cap k d') ≠ .free
    · exact ⟨D1, h1, h2, hall⟩
    · have : ∃ d', d' < D1 ∧ t.slot (probe hashOf t.cap k d') = .free := by
        apply Classical.byContradiction
        intro hc'; apply hall; intro d' hd' hf'; exact hc' ⟨d', hd', hf'⟩
      obtain ⟨d', hd', hf'⟩ := this
      exact ih d' hd' (by omega) hf'

theorem placeLoop_skip (new : Raw κ ν) (st : Nat) (k : κ) (v : ν) :
    ∀ (n d fuel : Nat), (∀ d', d ≤ d' → d' < d + n → new.slot (probe hashOf new.cap k d') ≠ .free) →
      placeLoop new st k v (fuel + n) (probe hashOf new.cap k d) =
        placeLoop new st k v fuel (probe hashOf new.cap k (d + n)) := by
  intro n
  induction n with
  | zero => intro d fuel _; rfl
  | succ n ih =>
    intro d fuel h
    have hd := h d (Nat.le_refl _) (by omega)
    have hrest := ih (d + 1) fuel (fun d' h1 h2 => h d' (by omega) (by omega))
    rw [show fuel + (n + 1) = (fuel + n) + 1 by omega, show d + (n + 1) = d + 1 + n by omega, ← hrest, probe_succ]
    generalize hs : new.slot (probe hashOf new.cap k d) = sl at hd
    cases sl with
    | free => exact absurd rfl hd
    | dead => simp only [placeLoop, hs]
    | full st' k' v' => simp only [placeLoop, hs]

/-- one placement: terminates, keeps the invariant, adds exactly `k ↦ v` -/
theorem place_spec {new : Raw κ ν} (hP : PInv hashOf new) (hc : 0 < new.cap) {k : κ} (v : ν)
    (habs : ∀ i, i < new.cap → ¬ HasKey new k i)
    {i0 : Nat} (hi0 : i0 < new.cap) (hf : new.slot i0 = .free) :
    ∃ p, p < new.cap ∧ new.slot p = .free ∧
      placeLoop new (status hashOf k) k v new.cap (home hashOf new.cap k) =
        .ok (new.setSlot p (.full (status hashOf k) k v)) ∧
      PInv hashOf (new.setSlot p (.full (status hashOf k) k v)) ∧
      (∀ k' v', Holds (new.setSlot p (.full (status hashOf k) k v)) k' v' ↔
        ((k' = k ∧ v' = v) ∨ Holds new k' v')) := by
  obtain ⟨D, hD, hfree, hpath⟩ := first_free_from hashOf hc k hi0 hf
  have key := placeLoop_skip hashOf new (status hashOf k) k v D 0 (new.cap - D) (fun d' _ hd' => hpath d' (by omega))
  rw [Nat.zero_add, show new.cap - D + D = new.cap by omega, probe_zero] at key
  have hp : probe hashOf new.cap k D < new.cap := probe_lt hashOf hc k D
  refine ⟨probe hashOf new.cap k D, hp, hfree, ?_, ?_, ?_⟩
  · rw [key, show new.cap - D = (new.cap - D - 1) + 1 by omega]
    simp only [placeLoop, hfree]
  · have slot_eq : ∀ j, (new.setSlot (probe hashOf new.cap k D) (.full (status hashOf k) k v)).slot j =
        if j = probe hashOf new.cap k D then .full (status hashOf k) k v else new.slot j := by
      intro j; simp [Raw.setSlot]
    have nofree : ∀ j, new.slot j ≠ .free →
        (new.setSlot (probe hashOf new.cap k D) (.full (status hashOf k) k v)).slot j ≠ .free := by
      intro j hj; rw [slot_eq]; split
      · intro h; cases h
      · exact hj
    refine ⟨?_, ?_, ?_⟩
    · intro i hi
      show (new.setSlot _ _).slot i ≠ .dead
      rw [slot_eq]; split
      · intro h; cases h
      · exact hP.noDead i hi
    · intro i st k' v' hi hs
      change i < new.cap at hi
      rw [slot_eq] at hs
      by_cases hip : i = probe hashOf new.cap k D
      · rw [if_pos hip] at hs; cases hs
        exact ⟨rfl, D, hD, hip.symm, fun d' hd' => nofree _ (hpath d' hd')⟩
      · rw [if_neg hip] at hs
        obtain ⟨a, d, hd, hpd, hpa⟩ := hP.reach i st k' v' hi hs
        exact ⟨a, d, hd, hpd, fun d' hd' => nofree _ (hpa d' hd')⟩
    · intro i j st st' k' v1 v2 hi hj hs hs'
      change i < new.cap at hi; change j < new.cap at hj
      rw [slot_eq] at hs hs'
      by_cases hip : i = probe hashOf new.cap k D <;> by_cases hjp : j = probe hashOf new.cap k D
      · rw [hip, hjp]
      · rw [if_pos hip] at hs; rw [if_neg hjp] at hs'; cases hs
        exact absurd ⟨st', v2, hs'⟩ (habs j hj)
      · rw [if_neg hip] at hs; rw [if_pos hjp] at hs'; cases hs'
        exact absurd ⟨st, v1, hs⟩ (habs i hi)
      · rw [if_neg hip] at hs; rw [if_neg hjp] at hs'
        exact hP.distinct _ _ _ _ _ _ _ hi hj hs hs'
  · intro k' v'
    have slot_eq : ∀ j, (new.setSlot (probe hashOf new.cap k D) (.full (status hashOf k) k v)).slot j =
        if j = probe hashOf new.cap k D then .full (status hashOf k) k v else new.slot j := by
      intro j; simp [Raw.setSlot]
    constructor
    · rintro ⟨i, st, hi, hs⟩
      change i < new.cap at hi
      rw [slot_eq] at hs
      by_cases hip : i = probe hashOf new.cap k D
      · rw [if_pos hip] at hs; cases hs; exact Or.inl ⟨rfl, rfl⟩
      · rw [if_neg hip] at hs; exact Or.inr ⟨i, st, hi, hs⟩
    · rintro (⟨rfl, rfl⟩ | ⟨i, st, hi, hs⟩)
      · exact ⟨_, _, hp, by rw [slot_eq, if_pos rfl]⟩
      · have hip : i ≠ probe hashOf new.cap k D := by
          intro e; rw [e, hfree] at hs; cases hs
        exact ⟨i, st, hi, by rw [slot_eq, if_neg hip]; exact hs⟩

#print axioms place_spec

/-- number of full slots -/
def nFull (t : Raw κ ν) : Nat := Cn.countOcc (fun i => (t.slot i).isFull) t.cap

theorem nFull_set {t : Raw κ ν} {p : Nat} (hp : p < t.cap) (hf : t.slot p = .free) (st : Nat) (k : κ) (v : ν) :
    nFull (t.setSlot p (.full st k v)) = nFull t + 1 := by
  unfold nFull
  have : (fun i => ((t.setSlot p (.full st k v)).slot i).isFull) =
      (fun j => if j = p then true else (fun i => (t.slot i).isFull) j) := by
    funext j; simp only [Raw.setSlot]; split <;> simp [Slot.isFull]
  rw [this]
  exact Cn.countOcc_set hp (by simp [hf, Slot.isFull])

/-- without tombstones, fewer full slots than slots means some slot is FREE -/
theorem exists_free_of_room {t : Raw κ ν} (hnd : ∀ i, i < t.cap → t.slot i ≠ .dead) (hroom : nFull t < t.cap) :
    ∃ i, i < t.cap ∧ t.slot i = .free := by
  apply Classical.byContradiction
  intro hno
  have hall : ∀ i, i < t.cap → (t.slot i).isFull = true := by
    intro i hi
    cases hs : t.slot i with
    | free => exact absurd ⟨i, hi, hs⟩ hno
    | dead => exact absurd hs (hnd i hi)
    | full _ _ _ => rfl
  have : nFull t = t.cap := by
    unfold nFull Cn.countOcc
    rw [List.countP_eq_length.mpr (fun a ha => hall a (List.mem_range.mp ha)), List.length_range]
  omega

/-- the outer loop of `reserve_rehash` over the old slots `is` -/
def moveAll (old : Raw κ ν) : List Nat → Raw κ ν → Out (Raw κ ν)
  | [], new => .ok new
  | i :: is, new =>
    match old.slot i with
    | .full st k v =>
      match placeLoop new st k v new.cap (home hashOf new.cap k) with
      | .ok n => moveAll old is n
      | .hang => .hang
      | .ub => .ub
      | .panic => .panic
    | _ => moveAll old is new

/-- how many of the listed old slots are full -/
def fullAmong (old : Raw κ ν) : List Nat → Nat
  | [] => 0
  | i :: is => (if (old.slot i).isFull then 1 else 0) + fullAmong old is

theorem moveAll_spec {old : Raw κ ν} (hO : RInv hashOf old) : ∀ (is : List Nat) (new : Raw κ ν),
    is.Nodup → (∀ i, i ∈ is → i < old.cap) → PInv hashOf new → 0 < new.cap →
    (∀ i, i ∈ is → ∀ st k v, old.slot i = .full st k v → ∀ j, j < new.cap → ¬ HasKey new k j) →
    nFull new + fullAmong old is < new.cap →
    ∃ new', moveAll hashOf old is new = .ok new' ∧ PInv hashOf new' ∧ new'.cap = new.cap ∧
      nFull new' = nFull new + fullAmong old is ∧
      (∀ k v, Holds new' k v ↔ (Holds new k v ∨ ∃ i st, i ∈ is ∧ old.slot i = .full st k v)) := by
  intro is
  induction is with
  | nil =>
    intro new _ _ hP _ _ _
    exact ⟨new, rfl, hP, rfl, by simp [fullAmong], fun k v => ⟨Or.inl, fun h => h.elim id (fun ⟨_, _, h, _⟩ => by cases h)⟩⟩
  | cons i is ih =>
    intro new nd hlt hP hc hfresh hroom
    have ndis := (List.nodup_cons.mp nd).2
    have hi_notin := (List.nodup_cons.mp nd).1
    have hi := hlt i List.mem_cons_self
    cases hs : old.slot i with
    | full st k v =>
      have hst : st = status hashOf k := (hO.reach i st k v hi hs).1
      subst hst
      have hfa : fullAmong old (i :: is) = 1 + fullAmong old is := by simp [fullAmong, hs, Slot.isFull]
      obtain ⟨i0, hi0, hf0⟩ := exists_free_of_room hP.noDead (by omega)
      obtain ⟨p, hp, hpf, hplace, hP1, hholds⟩ := place_spec hashOf hP hc v
        (hfresh i List.mem_cons_self _ _ _ hs) hi0 hf0
      have hn1 := nFull_set hp hpf (status hashOf k) k v
      have hcap1 : (new.setSlot p (.full (status hashOf k) k v)).cap = new.cap := rfl
      -- the remaining elements are still absent from the enlarged table
      have hfresh1 : ∀ j, j ∈ is → ∀ st' k' v', old.slot j = .full st' k' v' →
          ∀ q, q < (new.setSlot p (.full (status hashOf k) k v)).cap →
            ¬ HasKey (new.setSlot p (.full (status hashOf k) k v)) k' q := by
        intro j hj st' k' v' hs' q hq ⟨st'', v'', hq'⟩
        have hjl := hlt j (List.mem_cons_of_mem _ hj)
        have hne : k' ≠ k := by
          intro e; subst e
          have := hO.distinct _ _ _ _ _ _ _ hjl hi hs' hs
          exact hi_notin (this ▸ hj)
        rcases (hholds k' v'').mp ⟨q, st'', hq, hq'⟩ with ⟨e, _⟩ | ⟨q', st3, hq3, hs3⟩
        · exact hne e
        · exact hfresh j (List.mem_cons_of_mem _ hj) _ _ _ hs' q' hq3 ⟨st3, v'', hs3⟩
      obtain ⟨new', hm, hP', hcap', hn', hh'⟩ := ih _ ndis (fun j hj => hlt j (List.mem_cons_of_mem _ hj)) hP1
        (by rw [hcap1]; exact hc) hfresh1 (by rw [hn1, hcap1]; omega)
      refine ⟨new', ?_, hP', by rw [hcap', hcap1], by rw [hn', hn1, hfa]; omega, ?_⟩
      · simp only [moveAll, hs, hplace]; exact hm
      · intro k' v'
        rw [hh', hholds]
        constructor
        · rintro ((⟨rfl, rfl⟩ | h) | ⟨j, st', hj, hs'⟩)
          · exact Or.inr ⟨i, _, List.mem_cons_self, hs⟩
          · exact Or.inl h
          · exact Or.inr ⟨j, st', List.mem_cons_of_mem _ hj, hs'⟩
        · rintro (h | ⟨j, st', hj, hs'⟩)
          · exact Or.inl (Or.inr h)
          · rcases List.mem_cons.mp hj with e | e
            · subst e; rw [hs] at hs'; cases hs'; exact Or.inl (Or.inl ⟨rfl, rfl⟩)
            · exact Or.inr ⟨j, st', e, hs'⟩
    | free | dead =>
      all_goals
        have hfa : fullAmong old (i :: is) = fullAmong old is := by simp [fullAmong, hs, Slot.isFull]
        obtain ⟨new', hm, hP', hcap', hn', hh'⟩ := ih new ndis (fun j hj => hlt j (List.mem_cons_of_mem _ hj)) hP hc
          (fun j hj => hfresh j (List.mem_cons_of_mem _ hj)) (by rw [← hfa]; exact hroom)
        refine ⟨new', by simp only [moveAll, hs]; exact hm, hP', hcap', by rw [hn', hfa], ?_⟩
        intro k' v'
        rw [hh']
        constructor
        · rintro (h | ⟨j, st', hj, hs'⟩)
          · exact Or.inl h
          · exact Or.inr ⟨j, st', List.mem_cons_of_mem _ hj, hs'⟩
        · rintro (h | ⟨j, st', hj, hs'⟩)
          · exact Or.inl h
          · rcases List.mem_cons.mp hj with e | e
            · subst e; rw [hs] at hs'; cases hs'
            · exact Or.inr ⟨j, st', e, hs'⟩

/-- C19, rehash: moving all old slots into an empty table with room for them represents the same map -/
theorem rehash_refines {old : Raw κ ν} (hO : RInv hashOf old) {newCap : Nat}
    (hroom : fullAmong old (List.range old.cap) < newCap) :
    ∃ new', moveAll hashOf old (List.range old.cap) (emptyRaw newCap) = .ok new' ∧ PInv hashOf new' ∧
      new'.cap = newCap ∧ nFull new' = fullAmong old (List.range old.cap) ∧
      (∀ k v, Holds new' k v ↔ Holds old k v) := by
  have hPe : PInv hashOf (emptyRaw newCap : Raw κ ν) :=
    ⟨fun i _ h => (by cases h), fun i st k v _ h => (by cases h), fun i j st st' k v v' _ _ h => (by cases h)⟩
  have hn0 : nFull (emptyRaw newCap : Raw κ ν) = 0 := by
    unfold nFull Cn.countOcc emptyRaw
    simp [Slot.isFull]
  obtain ⟨new', hm, hP', hcap', hn', hh'⟩ := moveAll_spec hashOf hO (List.range old.cap) (emptyRaw newCap)
    List.nodup_range (fun i hi => List.mem_range.mp hi) hPe (by show 0 < newCap; omega)
    (fun i _ st k v _ j _ ⟨_, _, h⟩ => (by cases h)) (by rw [hn0]; show 0 + _ < newCap; omega)
  refine ⟨new', hm, hP', hcap', by rw [hn', hn0]; omega, ?_⟩
  intro k v
  rw [hh']
  constructor
  · rintro (⟨_, _, _, h⟩ | ⟨i, st, hi, hs⟩)
    · cases h
    · exact ⟨i, st, List.mem_range.mp hi, hs⟩
  · rintro ⟨i, st, hi, hs⟩
    exact Or.inr ⟨i, st, List.mem_range.mpr hi, hs⟩

#print axioms rehash_refines
end
end R

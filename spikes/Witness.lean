import Proto.Reach
/-! Negative witnesses for defects D1 (apply_ite) and D2(iv) (ite_constant): the pinned shortcut
`ite(F,0,F) ⇒ F` is not an identity. -/
namespace P

/-- the pinned rule, as a partial shortcut -/
def pinnedShortcut (f g h : Ref) : Option Ref := if isZero g && h == f then some f else none

/-- the state after `mk_var(1)` and the handle it returns -/
def s1 : St := (mkNodeReg St.init 1 Ref.zero Ref.one).1
def x1 : Ref := (mkNodeReg St.init 1 Ref.zero Ref.one).2

theorem s1_good : Good s1 ∧ Valid s1.nodes x1 (fun e => if e 1 then true else false) := by
  have := mkNodeReg_spec init_good (v := 1) (low := Ref.zero) (high := Ref.one) (by omega)
    Valid.zero Valid.one (SuppGe.const _ _) (SuppGe.const _ _) rfl
  exact ⟨this.1, this.2.2.2⟩

/-- D1: the pinned rule fires on `(x1, 0, x1)` and returns `x1`, whose function is not
`ITE x1 0 x1 = 0` -/
theorem pinned_shortcut_unsound :
    pinnedShortcut x1 Ref.zero x1 = some x1 ∧
    ∃ φ, Valid s1.nodes x1 φ ∧ ITE φ (fun _ => false) φ ≠ φ := by
  refine ⟨rfl, _, s1_good.2, ?_⟩
  intro h
  have := congrFun h (fun _ => true)
  simp [ITE] at this

#print axioms pinned_shortcut_unsound
end P

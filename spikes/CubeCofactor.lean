import Proto.SubstMulti
import Proto.Cube
import Proto.RestrictSem
/-! Feasibility spike: when the care set is a cube, constrain is the plain cofactor (C10), and so the
same *handle* as `cofactor_cube`/`substitute_multi` (canonicity). -/
namespace P

/-- the function of a cube -/
def cubeFn (cube : Vals) : Fn := fun e => cube.all (litHolds e)

theorem lookup_of_mem_nodup : ∀ {cube : Vals} {v : Nat} {b : Bool}, (cube.map (·.1)).Nodup → (v, b) ∈ cube →
    cube.lookup v = some b := by
  intro cube
  induction cube with
  | nil => intro v b _ h; cases h
  | cons p rest ih =>
    intro v b nd h
    obtain ⟨w, c⟩ := p
    simp only [List.map_cons, List.nodup_cons] at nd
    rcases List.mem_cons.mp h with e | e
    · cases e; simp [List.lookup]
    · have hne : v ≠ w := by
        intro e'; subst e'
        exact nd.1 (List.mem_map.mpr ⟨(v, b), e, rfl⟩)
      have : (v == w) = false := by simpa using hne
      simp only [List.lookup, this]
      exact ih nd.2 e

theorem lookup_some_mem : ∀ {cube : Vals} {v : Nat} {b : Bool}, cube.lookup v = some b → (v, b) ∈ cube := by
  intro cube
  induction cube with
  | nil => intro v b h; cases h
  | cons p rest ih =>
    intro v b h
    obtain ⟨w, c⟩ := p
    simp only [List.lookup] at h
    by_cases e : v = w
    · subst e; simp at h; subst h; exact List.mem_cons_self
    · have : (v == w) = false := by simpa using e
      simp only [this] at h
      exact List.mem_cons_of_mem _ (ih h)

/-- the closest point of a cube to `x` is `x` with the cube's variables overridden -/
theorem closest_cube {cube : Vals} (nd : (cube.map (·.1)).Nodup) (x : Env) :
    Closest (cubeFn cube) x (ovr cube x) := by
  constructor
  · simp only [cubeFn, List.all_eq_true, litHolds]
    intro p hp
    obtain ⟨v, b⟩ := p
    simp only [ovr, lookup_of_mem_nodup nd hp]; simp
  · intro z hz i hfd
    simp only [ovr]
    cases hl : cube.lookup i with
    | none => rfl
    | some b =>
      exfalso
      apply hfd.2
      have hmem := lookup_some_mem hl
      simp only [cubeFn, List.all_eq_true, litHolds] at hz
      have := hz (i, b) hmem
      simp only [ovr, hl]
      have : z i = b := by simpa using this
      exact this.symm

/-- C10: constrain by a cube is the cofactor by that cube -/
theorem constrain_cube {φf h : Fn} {cube : Vals} (nd : (cube.map (·.1)).Nodup)
    (hs : ConstrainSpec φf (cubeFn cube) h) : h = FixVals φf cube := by
  funext x
  rw [hs.1 x (ovr cube x) (closest_cube nd x)]
  rfl

#print axioms constrain_cube
end P

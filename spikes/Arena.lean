/-! Feasibility spike: eda `Arena` — breadth-first flattening followed by the reverse fold
computes the direct recursion. -/
namespace A

inductive Tree (τ : Type) where
  | term (t : τ)
  | not (a : Tree τ)
  | and (a b : Tree τ)
  | ite (a b c : Tree τ)

inductive Layer (τ ι : Type) where
  | term (t : τ)
  | not (a : ι)
  | and (a b : ι)
  | ite (a b c : ι)

variable {τ ρ : Type}

def Tree.size : Tree τ → Nat
  | .term _ => 1
  | .not a => a.size + 1
  | .and a b => a.size + b.size + 1
  | .ite a b c => a.size + b.size + c.size + 1

def Tree.children : Tree τ → List (Tree τ)
  | .term _ => []
  | .not a => [a]
  | .and a b => [a, b]
  | .ite a b c => [a, b, c]

/-- one layer with child indices `base, base+1, …` -/
def Tree.layer (base : Nat) : Tree τ → Layer τ Nat
  | .term t => .term t
  | .not _ => .not base
  | .and _ _ => .and base (base + 1)
  | .ite _ _ _ => .ite base (base + 1) (base + 2)

def sizes (l : List (Tree τ)) : Nat := (l.map Tree.size).sum

/-- `expand_exprs`: pop the front seed, push its children to the back; the j-th child gets
index `exprs.len + frontier.len` measured right after its push. -/
def flatten : Nat → List (Layer τ Nat) → List (Tree τ) → List (Layer τ Nat)
  | 0, exprs, _ => exprs
  | _, exprs, [] => exprs
  | fuel + 1, exprs, t :: rest =>
    flatten fuel (exprs ++ [t.layer (exprs.length + rest.length + 1)]) (rest ++ t.children)

/-- direct recursion -/
def fold (alg : Layer τ ρ → ρ) : Tree τ → ρ
  | .term t => alg (.term t)
  | .not a => alg (.not (fold alg a))
  | .and a b => alg (.and (fold alg a) (fold alg b))
  | .ite a b c => alg (.ite (fold alg a) (fold alg b) (fold alg c))

/-- the layer of `t` with its children already folded -/
def Tree.foldLayer (alg : Layer τ ρ → ρ) : Tree τ → Layer τ ρ
  | .term x => .term x
  | .not a => .not (fold alg a)
  | .and a b => .and (fold alg a) (fold alg b)
  | .ite a b c => .ite (fold alg a) (fold alg b) (fold alg c)

theorem fold_eq (alg : Layer τ ρ → ρ) (t : Tree τ) : alg (t.foldLayer alg) = fold alg t := by
  cases t <;> simp [fold, Tree.foldLayer]

abbrev Results (ρ : Type) := Nat → Option ρ

def take (r : Results ρ) (i : Nat) : Option (ρ × Results ρ) :=
  match r i with
  | some x => some (x, fun j => if j = i then none else r j)
  | none => none

def Layer.idxs : Layer τ Nat → List Nat
  | .term _ => []
  | .not a => [a]
  | .and a b => [a, b]
  | .ite a b c => [a, b, c]

def Layer.rebuild : Layer τ Nat → List ρ → Option (Layer τ ρ)
  | .term t, [] => some (.term t)
  | .not _, [x] => some (.not x)
  | .and _ _, [x, y] => some (.and x y)
  | .ite _ _ _, [x, y, z] => some (.ite x y z)
  | _, _ => none

/-- the closure passed to `fmap`: take the children's results in order; `none` = `unwrap` on `None` -/
def takeMany : Results ρ → List Nat → Option (List ρ × Results ρ)
  | r, [] => some ([], r)
  | r, i :: is =>
    match take r i with
    | some (x, r1) =>
      match takeMany r1 is with
      | some (xs, r2) => some (x :: xs, r2)
      | none => none
    | none => none

/-- `expr.fmap(|idx| results[idx].take().unwrap())` then `collapse`, storing at `i`; `none` = panic -/
def processOne (alg : Layer τ ρ → ρ) (L : Layer τ Nat) (i : Nat) (r : Results ρ) : Option (Results ρ) :=
  match takeMany r L.idxs with
  | some (xs, r') =>
    match L.rebuild xs with
    | some L' => some (fun j => if j = i then some (alg L') else r' j)
    | none => none
  | none => none

/-- the reverse loop over `exprs.iter().enumerate().rev()`, on the suffix starting at index `p` -/
def collapseSuffix (alg : Layer τ ρ → ρ) : List (Layer τ Nat) → Nat → Results ρ → Option (Results ρ)
  | [], _, r => some r
  | L :: tail, p, r =>
    match collapseSuffix alg tail (p + 1) r with
    | some r1 => processOne alg L p r1
    | none => none

theorem take_some {r : Results ρ} {i : Nat} {x : ρ} (h : r i = some x) :
    take r i = some (x, fun j => if j = i then none else r j) := by
  simp [take, h]

/-- taking a block of consecutive indices that all hold a value -/
theorem takeMany_block (f : Tree τ → ρ) : ∀ (r : Results ρ) (B : Nat) (cs : List (Tree τ)),
    (∀ k (hk : k < cs.length), r (B + k) = some (f cs[k])) →
    takeMany r ((List.range cs.length).map (B + ·)) =
      some (cs.map f, fun j => if B ≤ j ∧ j < B + cs.length then none else r j) := by
  intro r B cs
  induction cs generalizing r B with
  | nil =>
    intro _
    simp only [List.length_nil, List.range_zero, List.map_nil, takeMany]
    congr 2; funext j; rw [if_neg (by omega)]
  | cons c cs ih =>
    intro h
    have h0 : r B = some (f c) := by have := h 0 (by simp); simpa using this
    have hrange : (List.range (c :: cs).length).map (B + ·) = B :: (List.range cs.length).map (B + 1 + ·) := by
      simp only [List.length_cons, List.range_succ_eq_map, List.map_cons, Nat.add_zero, List.map_map]
      congr 1
      apply List.map_congr_left; intro a _; simp only [Function.comp]; omega
    rw [hrange]
    simp only [takeMany, take_some h0]
    have := ih (fun j => if j = B then none else r j) (B + 1) (by
      intro k hk
      have := h (k + 1) (by simp; omega)
      show (if B + 1 + k = B then none else r (B + 1 + k)) = _
      rw [if_neg (by omega), show B + 1 + k = B + (k + 1) by omega, this]
      simp)
    rw [this]
    simp only [List.map_cons, List.length_cons]
    congr 2; funext j
    by_cases hjB : j = B
    · subst hjB; simp
    · by_cases h1 : B + 1 ≤ j ∧ j < B + 1 + cs.length
      · rw [if_pos h1, if_pos ⟨by omega, by omega⟩]
      · rw [if_neg h1, if_neg hjB, if_neg (by omega)]

/-- what the result vector looks like once every index `≥ p` has been processed -/
def Post (alg : Layer τ ρ → ρ) (p : Nat) (frontier : List (Tree τ)) : Results ρ :=
  fun i => if p ≤ i then (frontier[i - p]?).map (fold alg) else none

theorem flatten_prefix : ∀ (fuel : Nat) (exprs : List (Layer τ Nat)) (fr : List (Tree τ)),
    ∃ more, flatten fuel exprs fr = exprs ++ more := by
  intro fuel
  induction fuel with
  | zero => intro exprs fr; exact ⟨[], by simp [flatten]⟩
  | succ fuel ih =>
    intro exprs fr
    cases fr with
    | nil => exact ⟨[], by simp [flatten]⟩
    | cons t rest =>
      obtain ⟨more, h⟩ := ih (exprs ++ [t.layer (exprs.length + rest.length + 1)]) (rest ++ t.children)
      exact ⟨t.layer (exprs.length + rest.length + 1) :: more, by simp [flatten, h]⟩

theorem size_pos (t : Tree τ) : 0 < t.size := by cases t <;> simp [Tree.size]

theorem sizes_children (t : Tree τ) : sizes t.children + 1 = t.size := by
  cases t <;> simp [sizes, Tree.children, Tree.size] <;> omega

theorem sizes_append (a b : List (Tree τ)) : sizes (a ++ b) = sizes a + sizes b := by
  simp [sizes, List.map_append, List.sum_append]

/-- value of `Post` at an index inside / outside the pending block -/
theorem post_at (alg : Layer τ ρ → ρ) (q : Nat) (l : List (Tree τ)) (i : Nat) (hq : q ≤ i) :
    Post alg q l i = (l[i - q]?).map (fold alg) := by simp [Post, hq]

theorem post_below (alg : Layer τ ρ → ρ) (q : Nat) (l : List (Tree τ)) (i : Nat) (hq : i < q) :
    Post alg q l i = none := by simp [Post]; omega

/-- the step of the main induction: processing index `p` on top of `Post (p+1) (rest ++ children)` -/
theorem processOne_post (alg : Layer τ ρ → ρ) (t : Tree τ) (rest : List (Tree τ)) (p : Nat) :
    processOne alg (t.layer (p + rest.length + 1)) p (Post alg (p + 1) (rest ++ t.children)) =
      some (Post alg p (t :: rest)) := by
  have tail_eq : ∀ (r : Results ρ), (∀ j, j ≠ p → r j = Post alg p (t :: rest) j) → ∀ x, x = fold alg t →
      (fun j => if j = p then some x else r j) = Post alg p (t :: rest) := by
    intro r hr x hx; funext j
    by_cases hj : j = p
    · subst hj; simp [Post, hx]
    · simp [hj, hr j hj]
  -- how the old vector relates to the new one away from `p` and the child slots
  have old_new : ∀ j, j ≠ p → j < p + rest.length + 1 →
      Post alg (p + 1) (rest ++ t.children) j = Post alg p (t :: rest) j := by
    intro j hjp hlt
    by_cases hle : p ≤ j
    · rw [post_at _ _ _ _ (by omega), post_at _ _ _ _ hle]
      have h1 : j - (p + 1) < rest.length := by omega
      rw [List.getElem?_append_left h1]
      rw [show j - p = (j - (p + 1)) + 1 by omega, List.getElem?_cons_succ]
    · rw [post_below _ _ _ _ (by omega), post_below _ _ _ _ (by omega)]
  have new_beyond : ∀ j, p + rest.length + 1 ≤ j → Post alg p (t :: rest) j = none := by
    intro j hj
    rw [post_at _ _ _ _ (by omega)]
    rw [show j - p = (j - (p + 1)) + 1 by omega, List.getElem?_cons_succ]
    rw [List.getElem?_eq_none (by omega)]; rfl
  have old_child : ∀ k, Post alg (p + 1) (rest ++ t.children) (p + rest.length + 1 + k) =
      (t.children[k]?).map (fold alg) := by
    intro k
    rw [post_at _ _ _ _ (by omega)]
    rw [List.getElem?_append_right (by omega)]
    congr 2; omega
  -- taking the children, generically
  have hidx : (t.layer (p + rest.length + 1)).idxs = (List.range t.children.length).map (p + rest.length + 1 + ·) := by
    cases t <;> simp [Tree.layer, Layer.idxs, Tree.children, List.range_succ]
  have hreb : (t.layer (p + rest.length + 1)).rebuild (t.children.map (fold alg)) = some (t.foldLayer alg) := by
    cases t <;> simp [Tree.layer, Layer.rebuild, Tree.children, Tree.foldLayer]
  have htake := takeMany_block (fold alg) (Post alg (p + 1) (rest ++ t.children)) (p + rest.length + 1) t.children
    (fun k hk => by rw [old_child k, List.getElem?_eq_getElem hk]; rfl)
  simp only [processOne, hidx, htake, hreb]
  congr 1
  apply tail_eq _ _ _ (fold_eq alg t)
  intro j hj
  by_cases hlt : j < p + rest.length + 1
  · rw [if_neg (by omega)]; exact old_new j hj hlt
  · rw [new_beyond j (by omega)]
    by_cases hblk : j < p + rest.length + 1 + t.children.length
    · rw [if_pos ⟨by omega, hblk⟩]
    · rw [if_neg (by omega), show j = p + rest.length + 1 + (j - (p + rest.length + 1)) by omega, old_child]
      rw [List.getElem?_eq_none (by omega)]; rfl

theorem sizes_ge_length (l : List (Tree τ)) : l.length ≤ sizes l := by
  induction l with
  | nil => simp [sizes]
  | cons t l ih =>
    have := size_pos t
    simp only [sizes, List.map_cons, List.sum_cons, List.length_cons] at *
    omega

/-- main theorem: the reverse fold over the flattened arena leaves, at the position of each
pending seed, the direct fold of that seed -/
theorem collapse_flatten (alg : Layer τ ρ → ρ) : ∀ (fuel : Nat) (exprs : List (Layer τ Nat)) (fr : List (Tree τ)),
    sizes fr ≤ fuel →
    collapseSuffix alg ((flatten fuel exprs fr).drop exprs.length) exprs.length (fun _ => none) =
      some (Post alg exprs.length fr) := by
  intro fuel
  induction fuel with
  | zero =>
    intro exprs fr h
    have : fr = [] := by
      have := sizes_ge_length fr
      exact List.eq_nil_of_length_eq_zero (by omega)
    subst this
    simp only [flatten, List.drop_length, collapseSuffix]
    congr 1; funext i; simp [Post]
  | succ fuel ih =>
    intro exprs fr h
    cases fr with
    | nil =>
      simp only [flatten, List.drop_length, collapseSuffix]
      congr 1; funext i; simp [Post]
    | cons t rest =>
      have hsz : sizes (rest ++ t.children) ≤ fuel := by
        have := sizes_children t
        rw [sizes_append]
        simp only [sizes, List.map_cons, List.sum_cons] at h this ⊢
        omega
      have := ih (exprs ++ [t.layer (exprs.length + rest.length + 1)]) (rest ++ t.children) hsz
      simp only [List.length_append, List.length_cons, List.length_nil, Nat.zero_add] at this
      obtain ⟨more, hmore⟩ := flatten_prefix fuel (exprs ++ [t.layer (exprs.length + rest.length + 1)]) (rest ++ t.children)
      have hdrop : (flatten (fuel + 1) exprs (t :: rest)).drop exprs.length =
          t.layer (exprs.length + rest.length + 1) ::
            (flatten fuel (exprs ++ [t.layer (exprs.length + rest.length + 1)]) (rest ++ t.children)).drop (exprs.length + 1) := by
        simp only [flatten]
        rw [hmore]
        simp [List.append_assoc, List.drop_append]
      rw [hdrop]
      simp only [collapseSuffix, this]
      exact processOne_post alg t rest exprs.length

/-- `Arena::from_boxed(e).collapse(alg)` is `fold alg e` (and never hits `unwrap` on `None`) -/
theorem arena_round (alg : Layer τ ρ → ρ) (e : Tree τ) :
    (collapseSuffix alg (flatten e.size [] [e]) 0 (fun _ => none)).bind (fun r => r 0) = some (fold alg e) := by
  have := collapse_flatten alg e.size [] [e] (by simp [sizes])
  simp only [List.length_nil, List.drop_zero] at this
  rw [this]
  simp [Post]

#print axioms arena_round

/-! ### the three algebras of `ast.rs` -/

/-- `ExprBoxed::to_string` -/
def Tree.toStr (show_ : τ → String) : Tree τ → String
  | .term t => show_ t
  | .not a => "~" ++ a.toStr show_
  | .and a b => "(" ++ a.toStr show_ ++ " & " ++ b.toStr show_ ++ ")"
  | .ite a b c => "(" ++ a.toStr show_ ++ " ? " ++ b.toStr show_ ++ " : " ++ c.toStr show_ ++ ")"

/-- the closure passed to `collapse_exprs` by `Arena::to_string` -/
def strAlg (show_ : τ → String) : Layer τ String → String
  | .term t => show_ t
  | .not a => "~" ++ a
  | .and a b => "(" ++ a ++ " & " ++ b ++ ")"
  | .ite a b c => "(" ++ a ++ " ? " ++ b ++ " : " ++ c ++ ")"

theorem fold_strAlg (show_ : τ → String) (t : Tree τ) : fold (strAlg show_) t = t.toStr show_ := by
  induction t with
  | term x => rfl
  | not a ih => simp [fold, strAlg, Tree.toStr, ih]
  | and a b iha ihb => simp [fold, strAlg, Tree.toStr, iha, ihb]
  | ite a b c iha ihb ihc => simp [fold, strAlg, Tree.toStr, iha, ihb, ihc]

/-- C20: the arena prints identically to the boxed tree it was built from -/
theorem arena_toString (show_ : τ → String) (e : Tree τ) :
    (collapseSuffix (strAlg show_) (flatten e.size [] [e]) 0 (fun _ => none)).bind (fun r => r 0) =
      some (e.toStr show_) := by
  rw [arena_round, fold_strAlg]

/-- `ExprBoxed::not` after repair D5: cancel a double negation, otherwise wrap -/
def Tree.mkNot : Tree τ → Tree τ
  | .not a => a
  | t => .not t

/-- the closure of `Arena::to_boxed` -/
def boxAlg : Layer τ (Tree τ) → Tree τ
  | .term t => .term t
  | .not a => a.mkNot
  | .and a b => .and a b
  | .ite a b c => .ite a b c

/-- direct evaluation over a value type with `neg`, `mul`, (`ite` stands in for the arms the code
leaves `todo!()`; here it is given a meaning so that the statement is total) -/
def Tree.value (neg : ρ → ρ) (mul : ρ → ρ → ρ) (sel : ρ → ρ → ρ → ρ) : Tree ρ → ρ
  | .term t => t
  | .not a => neg (a.value neg mul sel)
  | .and a b => mul (a.value neg mul sel) (b.value neg mul sel)
  | .ite a b c => sel (a.value neg mul sel) (b.value neg mul sel) (c.value neg mul sel)

theorem value_mkNot {neg : ρ → ρ} {mul sel} (hinv : ∀ x, neg (neg x) = x) (t : Tree ρ) :
    (t.mkNot).value neg mul sel = neg (t.value neg mul sel) := by
  cases t <;> simp [Tree.mkNot, Tree.value, hinv]

/-- C20: converting back from the arena yields an expression with the same value (negation involutive) -/
theorem toBoxed_value {neg : ρ → ρ} {mul sel} (hinv : ∀ x, neg (neg x) = x) (t : Tree ρ) :
    (fold boxAlg t).value neg mul sel = t.value neg mul sel := by
  induction t with
  | term x => rfl
  | not a ih => simp [fold, boxAlg, value_mkNot hinv, Tree.value, ih]
  | and a b iha ihb => simp [fold, boxAlg, Tree.value, iha, ihb]
  | ite a b c iha ihb ihc => simp [fold, boxAlg, Tree.value, iha, ihb, ihc]

/-- negative witness for D5: the pinned `ExprBoxed::not` returns a term unchanged -/
def Tree.mkNotPinned : Tree τ → Tree τ
  | .term t => .term t
  | .not a => a
  | t => .not t
example : (Tree.mkNotPinned (.term (5 : Int))).value (fun x => -x) (· * ·) (fun a _ _ => a) = 5 := rfl
example : (Tree.mkNot (.term (5 : Int))).value (fun x => -x) (· * ·) (fun a _ _ => a) = -5 := rfl

#print axioms arena_toString
#print axioms toBoxed_value
end A

import Proto.IteTotal
/-! Feasibility spike: connectives, n-ary folds and `Expr` evaluation (C03) as corollaries of C02. -/
namespace P

def applyAnd (fuel : Nat) (s : St) (u v : Ref) := applyIte fuel s u v Ref.zero
def applyOr (fuel : Nat) (s : St) (u v : Ref) := applyIte fuel s u Ref.one v
def applyXor (fuel : Nat) (s : St) (u v : Ref) := applyIte fuel s u v.not v
def applyEq (fuel : Nat) (s : St) (u v : Ref) := applyIte fuel s u v v.not
def applyImply (fuel : Nat) (s : St) (u v : Ref) := applyIte fuel s u v Ref.one

abbrev Post (s : St) (s' : St) (r : Ref) (φ : Fn) : Prop := Good s' ∧ Sub s.nodes s'.nodes ∧ Valid s'.nodes r φ

theorem applyAnd_spec {fuel s u v φu φv s' r} (hg : Good s) (vu : Valid s.nodes u φu) (vv : Valid s.nodes v φv)
    (h : applyAnd fuel s u v = .ok (s', r)) : Post s s' r (fun e => φu e && φv e) := by
  obtain ⟨a, b, c⟩ := applyIte_spec fuel _ _ _ _ _ _ _ _ _ hg vu vv Valid.zero h
  refine ⟨a, b, ?_⟩
  have : ITE φu φv (fun _ => false) = fun e => φu e && φv e := by
    funext e; simp only [ITE]; by_cases h : φu e = true <;> simp [h]
  rw [← this]; exact c

theorem applyOr_spec {fuel s u v φu φv s' r} (hg : Good s) (vu : Valid s.nodes u φu) (vv : Valid s.nodes v φv)
    (h : applyOr fuel s u v = .ok (s', r)) : Post s s' r (fun e => φu e || φv e) := by
  obtain ⟨a, b, c⟩ := applyIte_spec fuel _ _ _ _ _ _ _ _ _ hg vu Valid.one vv h
  refine ⟨a, b, ?_⟩
  have : ITE φu (fun _ => true) φv = fun e => φu e || φv e := by
    funext e; simp only [ITE]; by_cases h : φu e = true <;> simp [h]
  rw [← this]; exact c

theorem applyXor_spec {fuel s u v φu φv s' r} (hg : Good s) (vu : Valid s.nodes u φu) (vv : Valid s.nodes v φv)
    (h : applyXor fuel s u v = .ok (s', r)) : Post s s' r (fun e => φu e != φv e) := by
  obtain ⟨a, b, c⟩ := applyIte_spec fuel _ _ _ _ _ _ _ _ _ hg vu vv.not vv h
  refine ⟨a, b, ?_⟩
  have : ITE φu (fun e => !φv e) φv = fun e => φu e != φv e := by
    funext e; simp only [ITE]; by_cases h : φu e = true <;> simp [h]
  rw [← this]; exact c

theorem applyEq_spec {fuel s u v φu φv s' r} (hg : Good s) (vu : Valid s.nodes u φu) (vv : Valid s.nodes v φv)
    (h : applyEq fuel s u v = .ok (s', r)) : Post s s' r (fun e => φu e == φv e) := by
  obtain ⟨a, b, c⟩ := applyIte_spec fuel _ _ _ _ _ _ _ _ _ hg vu vv vv.not h
  refine ⟨a, b, ?_⟩
  have : ITE φu φv (fun e => !φv e) = fun e => φu e == φv e := by
    funext e; simp only [ITE]; by_cases h : φu e = true <;> by_cases h' : φv e = true <;> simp [h, h']
  rw [← this]; exact c

theorem applyImply_spec {fuel s u v φu φv s' r} (hg : Good s) (vu : Valid s.nodes u φu) (vv : Valid s.nodes v φv)
    (h : applyImply fuel s u v = .ok (s', r)) : Post s s' r (fun e => !φu e || φv e) := by
  obtain ⟨a, b, c⟩ := applyIte_spec fuel _ _ _ _ _ _ _ _ _ hg vu vv Valid.one h
  refine ⟨a, b, ?_⟩
  have : ITE φu φv (fun _ => true) = fun e => !φu e || φv e := by
    funext e; simp only [ITE]; by_cases h : φu e = true <;> simp [h]
  rw [← this]; exact c

/-- `apply_and_many`: left fold from `one` -/
def andMany (fuel : Nat) : St → Ref → List Ref → Except Fault (St × Ref)
  | s, acc, [] => .ok (s, acc)
  | s, acc, x :: xs =>
    match applyAnd fuel s acc x with
    | .error e => .error e
    | .ok (s1, r) => andMany fuel s1 r xs

theorem andMany_spec (fuel : Nat) : ∀ (xs : List Ref) (φs : List Fn) (s : St) (acc : Ref) (ψ : Fn) s' r, Good s →
    Valid s.nodes acc ψ → xs.length = φs.length →
    (∀ i (h : i < xs.length) (h' : i < φs.length), Valid s.nodes xs[i] φs[i]) →
    andMany fuel s acc xs = .ok (s', r) → Post s s' r (fun e => ψ e && φs.all (fun φ => φ e)) := by
  intro xs
  induction xs with
  | nil =>
    intro φs s acc ψ s' r hg va hl _ h
    cases φs with
    | cons _ _ => simp at hl
    | nil =>
      simp only [andMany, Except.ok.injEq, Prod.mk.injEq] at h
      obtain ⟨rfl, rfl⟩ := h
      exact ⟨hg, fun _ _ x => x, by simpa using va⟩
  | cons x xs ih =>
    intro φs s acc ψ s' r hg va hl hv h
    cases φs with
    | nil => simp at hl
    | cons φ φs =>
      simp only [andMany] at h
      cases e1 : applyAnd fuel s acc x with
      | error e => simp [e1] at h
      | ok p =>
        obtain ⟨s1, r1⟩ := p
        simp only [e1] at h
        have vx : Valid s.nodes x φ := hv 0 (by simp) (by simp)
        obtain ⟨g1, sub1, v1⟩ := applyAnd_spec hg va vx e1
        obtain ⟨g2, sub2, v2⟩ := ih φs s1 r1 _ s' r g1 v1 (by simpa using hl)
          (fun i h1 h2 => (hv (i + 1) (by simp; omega) (by simp; omega)).mono sub1) h
        refine ⟨g2, fun i n x => sub2 _ _ (sub1 _ _ x), ?_⟩
        have : (fun e => (ψ e && φ e) && φs.all (fun φ => φ e)) = (fun e => ψ e && (φ :: φs).all (fun φ => φ e)) := by
          funext e; simp [Bool.and_assoc]
        rw [← this]; exact v2

/-! ### `Expr` -/

inductive Expr where
  | term (r : Ref)
  | not (a : Expr)
  | and (a b : Expr)
  | or (a b : Expr)
  | xor (a b : Expr)

/-- `Expr::not`: pushes negation into terms, cancels double negation -/
def Expr.mkNot : Expr → Expr
  | .term r => .term r.not
  | .not a => a
  | e => .not e

def Expr.eval (fuel : Nat) : St → Expr → Except Fault (St × Ref)
  | s, .term r => .ok (s, r)
  | s, .not a =>
    match Expr.eval fuel s a with
    | .error e => .error e
    | .ok (s1, r) => .ok (s1, r.not)
  | s, .and a b =>
    match Expr.eval fuel s a with
    | .error e => .error e
    | .ok (s1, ra) =>
      match Expr.eval fuel s1 b with
      | .error e => .error e
      | .ok (s2, rb) => applyAnd fuel s2 ra rb
  | s, .or a b =>
    match Expr.eval fuel s a with
    | .error e => .error e
    | .ok (s1, ra) =>
      match Expr.eval fuel s1 b with
      | .error e => .error e
      | .ok (s2, rb) => applyOr fuel s2 ra rb
  | s, .xor a b =>
    match Expr.eval fuel s a with
    | .error e => .error e
    | .ok (s1, ra) =>
      match Expr.eval fuel s1 b with
      | .error e => .error e
      | .ok (s2, rb) => applyXor fuel s2 ra rb

/-- the meaning of an expression over live terms -/
inductive Expr.Sem (nd : Nodes) : Expr → Fn → Prop
  | term {r φ} : Valid nd r φ → Sem nd (.term r) φ
  | not {a φ} : Sem nd a φ → Sem nd (.not a) (fun e => !φ e)
  | and {a b φ ψ} : Sem nd a φ → Sem nd b ψ → Sem nd (.and a b) (fun e => φ e && ψ e)
  | or {a b φ ψ} : Sem nd a φ → Sem nd b ψ → Sem nd (.or a b) (fun e => φ e || ψ e)
  | xor {a b φ ψ} : Sem nd a φ → Sem nd b ψ → Sem nd (.xor a b) (fun e => φ e != ψ e)

theorem Expr.Sem.mono {nd nd' x φ} (hs : Sub nd nd') (h : Expr.Sem nd x φ) : Expr.Sem nd' x φ := by
  induction h with
  | term v => exact .term (v.mono hs)
  | not _ ih => exact .not ih
  | and _ _ iha ihb => exact .and iha ihb
  | or _ _ iha ihb => exact .or iha ihb
  | xor _ _ iha ihb => exact .xor iha ihb

/-- the simplifications of `Expr::not` never change the meaning -/
theorem Expr.mkNot_sem {nd x φ} (h : Expr.Sem nd x φ) : Expr.Sem nd x.mkNot (fun e => !φ e) := by
  cases h with
  | term v => exact .term v.not
  | not h' =>
    rename_i a ψ
    have : (fun e => !(fun e => !ψ e) e) = ψ := by funext e; simp
    simp only [Expr.mkNot]; rw [this]; exact h'
  | and ha hb => exact .not (.and ha hb)
  | or ha hb => exact .not (.or ha hb)
  | xor ha hb => exact .not (.xor ha hb)

theorem Expr.eval_spec (fuel : Nat) : ∀ (x : Expr) (s : St) (φ : Fn) s' r, Good s → Expr.Sem s.nodes x φ →
    Expr.eval fuel s x = .ok (s', r) → Post s s' r φ := by
  intro x
  induction x with
  | term t =>
    intro s φ s' r hg hs h
    cases hs with
    | term v =>
      simp only [Expr.eval, Except.ok.injEq, Prod.mk.injEq] at h
      obtain ⟨rfl, rfl⟩ := h
      exact ⟨hg, fun _ _ x => x, v⟩
  | not a ih =>
    intro s φ s' r hg hs h
    cases hs with
    | not ha =>
      simp only [Expr.eval] at h
      cases e1 : Expr.eval fuel s a with
      | error e => simp [e1] at h
      | ok p =>
        obtain ⟨s1, r1⟩ := p
        simp only [e1, Except.ok.injEq, Prod.mk.injEq] at h
        obtain ⟨rfl, rfl⟩ := h
        obtain ⟨x, y, z⟩ := ih s _ _ _ hg ha e1
        exact ⟨x, y, z.not⟩
  | and a b iha ihb =>
    intro s φ s' r hg hs h
    cases hs with
    | and ha hb =>
      simp only [Expr.eval] at h
      cases e1 : Expr.eval fuel s a with
      | error e => simp [e1] at h
      | ok p =>
        obtain ⟨s1, ra⟩ := p
        simp only [e1] at h
        obtain ⟨g1, sub1, va⟩ := iha s _ _ _ hg ha e1
        cases e2 : Expr.eval fuel s1 b with
        | error e => simp [e2] at h
        | ok p2 =>
          obtain ⟨s2, rb⟩ := p2
          simp only [e2] at h
          obtain ⟨g2, sub2, vb⟩ := ihb s1 _ _ _ g1 (hb.mono sub1) e2
          obtain ⟨g3, sub3, v3⟩ := applyAnd_spec g2 (va.mono sub2) vb h
          exact ⟨g3, fun i n x => sub3 _ _ (sub2 _ _ (sub1 _ _ x)), v3⟩
  | or a b iha ihb =>
    intro s φ s' r hg hs h
    cases hs with
    | or ha hb =>
      simp only [Expr.eval] at h
      cases e1 : Expr.eval fuel s a with
      | error e => simp [e1] at h
      | ok p =>
        obtain ⟨s1, ra⟩ := p
        simp only [e1] at h
        obtain ⟨g1, sub1, va⟩ := iha s _ _ _ hg ha e1
        cases e2 : Expr.eval fuel s1 b with
        | error e => simp [e2] at h
        | ok p2 =>
          obtain ⟨s2, rb⟩ := p2
          simp only [e2] at h
          obtain ⟨g2, sub2, vb⟩ := ihb s1 _ _ _ g1 (hb.mono sub1) e2
          obtain ⟨g3, sub3, v3⟩ := applyOr_spec g2 (va.mono sub2) vb h
          exact ⟨g3, fun i n x => sub3 _ _ (sub2 _ _ (sub1 _ _ x)), v3⟩
  | xor a b iha ihb =>
    intro s φ s' r hg hs h
    cases hs with
    | xor ha hb =>
      simp only [Expr.eval] at h
      cases e1 : Expr.eval fuel s a with
      | error e => simp [e1] at h
      | ok p =>
        obtain ⟨s1, ra⟩ := p
        simp only [e1] at h
        obtain ⟨g1, sub1, va⟩ := iha s _ _ _ hg ha e1
        cases e2 : Expr.eval fuel s1 b with
        | error e => simp [e2] at h
        | ok p2 =>
          obtain ⟨s2, rb⟩ := p2
          simp only [e2] at h
          obtain ⟨g2, sub2, vb⟩ := ihb s1 _ _ _ g1 (hb.mono sub1) e2
          obtain ⟨g3, sub3, v3⟩ := applyXor_spec g2 (va.mono sub2) vb h
          exact ⟨g3, fun i n x => sub3 _ _ (sub2 _ _ (sub1 _ _ x)), v3⟩

#print axioms Expr.eval_spec
#print axioms andMany_spec
end P

import Proto.Paths
import Proto.Constrain
/-! Feasibility spike: the nodes reachable from `f` are in bijection with the sub-functions of `f`
(cofactors by an assignment to a prefix of the variable order) modulo complement (C04). -/
namespace P

/-- fix the variables `≤ k` according to `a` -/
def prefixCof (φ : Fn) (k : Nat) (a : Env) : Fn := fun e => φ (fun w => if w ≤ k then a w else e w)

/-- regularise: the representative of `{ψ, ¬ψ}` that is true on the all-true assignment -/
def reg (ψ : Fn) : Fn := if ψ (fun _ => true) then ψ else fun e => !ψ e

theorem reg_not (ψ : Fn) : reg (fun e => !ψ e) = reg ψ := by
  unfold reg
  by_cases h : ψ (fun _ => true) = true
  · simp [h]
  · simp [h]

theorem prefixCof_not (ψ : Fn) (k : Nat) (a : Env) : prefixCof (fun e => !ψ e) k a = fun e => !(prefixCof ψ k a e) := rfl

theorem prefixCof_of_supp {φ : Fn} {k : Nat} (h : SuppGe φ (k + 1)) (a : Env) : prefixCof φ k a = φ := by
  funext e; apply h; intro w hw; simp; intro h'; omega

theorem prefixCof_node {φ0 φ1 : Fn} {v k : Nat} (hv : v ≤ k) (a : Env) :
    prefixCof (fun e => if e v then φ1 e else φ0 e) k a = prefixCof (if a v then φ1 else φ0) k a := by
  funext e; simp only [prefixCof, hv, ↓reduceIte]
  by_cases h : a v = true <;> simp [h]

/-- a handle and its regular twin -/
theorem Den.toReg {s : St} (hg : Good s) {d r φ} (h : Den s.nodes d r φ) : Den s.nodes d ⟨r.idx, false⟩ (reg φ) := by
  rcases r with ⟨i, b⟩
  cases b with
  | false =>
    have := h.sign hg.inv
    simp only [Bool.not_false] at this
    simp only [reg, this, ↓reduceIte]; exact h
  | true =>
    obtain ⟨ψ, hψ, rfl⟩ := h.negInv
    have := hψ.sign hg.inv
    simp only [Bool.not_false] at this
    rw [reg_not]
    simp only [reg, this, ↓reduceIte]; exact hψ

/-- reachability through stored nodes -/
inductive Reach (s : St) (f : Ref) : Nat → Prop
  | root : Reach s f f.idx
  | low {j n} : Reach s f j → s.nodes j = some n → Reach s f n.low.idx
  | high {j n} : Reach s f j → s.nodes j = some n → Reach s f n.high.idx

theorem Reach.trans {s : St} {f g : Ref} {i : Nat} (h : Reach s g i) (hg : Reach s f g.idx) : Reach s f i := by
  induction h with
  | root => exact hg
  | low _ hn ih => exact .low ih hn
  | high _ hn ih => exact .high ih hn

theorem lowNode_idx (s : St) (r : Ref) : (s.lowNode r).idx = (s.low r.idx).idx := by
  simp only [St.lowNode]; split <;> rfl
theorem highNode_idx (s : St) (r : Ref) : (s.highNode r).idx = (s.high r.idx).idx := by
  simp only [St.highNode]; split <;> rfl

/-- every sub-function is the function of a reachable node (up to complement) -/
theorem subfn_onto {s : St} (hg : Good s) (k : Nat) (a : Env) : ∀ d f φ, Den s.nodes d f φ →
    ∃ i d', Reach s f i ∧ Den s.nodes d' ⟨i, false⟩ (reg (prefixCof φ k a)) := by
  intro d
  induction d using Nat.strongRecOn with
  | _ d ih =>
    intro f φ hden
    have vf : Valid s.nodes f φ := ⟨d, hden⟩
    by_cases hstop : isTerminal f = true ∨ k < s.var f
    · have hs : SuppGe φ (k + 1) := by
        rcases hstop with ht | hk
        · simp only [isTerminal, Bool.or_eq_true] at ht
          rcases ht with c | c
          · rw [one_fn hg.inv.noterm c vf]; exact SuppGe.const _ _
          · rw [zero_fn hg.inv.noterm c vf]; exact SuppGe.const _ _
        · exact supp_of_var hg vf (fun _ => by omega)
      rw [prefixCof_of_supp hs]
      exact ⟨f.idx, d, .root, hden.toReg hg⟩
    · have hnt : isTerminal f = false := by
        cases h : isTerminal f with
        | false => rfl
        | true => exact absurd (Or.inl h) hstop
      have hvk : s.var f ≤ k := by
        apply Classical.byContradiction; intro h; exact hstop (Or.inr (by omega))
      obtain ⟨hv0, d0, d1, φ0, φ1, hd0, hd1, vlo, vhi, hφ, _, _⟩ := hden.split hg hnt
      obtain ⟨nn, hnn⟩ : ∃ nn, s.nodes f.idx = some nn := by
        rcases valid_stored vf with h | h
        · exfalso; rcases f with ⟨i, b⟩; simp at h; subst h
          cases b <;> simp [isTerminal, isOne, isZero, Ref.one, Ref.zero] at hnt
        · exact h
      rw [hφ, prefixCof_node hvk]
      by_cases hav : a (s.var f) = true
      · simp only [hav, ↓reduceIte]
        obtain ⟨i, d', hr, hd'⟩ := ih d1 hd1 _ _ vhi
        refine ⟨i, d', hr.trans ?_, hd'⟩
        rw [highNode_idx]; simp only [St.high, hnn]; exact .high .root hnn
      · simp only [hav, Bool.false_eq_true, ↓reduceIte]
        obtain ⟨i, d', hr, hd'⟩ := ih d0 hd0 _ _ vlo
        refine ⟨i, d', hr.trans ?_, hd'⟩
        rw [lowNode_idx]; simp only [St.low, hnn]; exact .low .root hnn

#print axioms subfn_onto

theorem prefixCof_compose (φ : Fn) {k k' : Nat} {a a' : Env} (hk : k ≤ k') (hag : ∀ w, w ≤ k → a' w = a w) :
    prefixCof (prefixCof φ k a) k' a' = prefixCof φ k' a' := by
  funext e; simp only [prefixCof]; congr 1; funext w
  by_cases h1 : w ≤ k
  · have : w ≤ k' := by omega
    simp [h1, this, hag w h1]
  · simp [h1]

theorem reg_cases (X : Fn) : X = reg X ∨ X = fun e => !(reg X e) := by
  unfold reg
  by_cases h : X (fun _ => true) = true
  · left; simp [h]
  · right; simp [h]

/-- every reachable node carries (the regular representative of) a sub-function -/
theorem subfn_into {s : St} (hg : Good s) {f : Ref} {φ : Fn} (vf : Valid s.nodes f φ) :
    ∀ i, Reach s f i → ∃ k a d, Den s.nodes d ⟨i, false⟩ (reg (prefixCof φ k a)) ∧
      (∀ n, s.nodes i = some n → k < n.var) := by
  intro i hr
  induction hr with
  | root =>
    obtain ⟨d, hden⟩ := vf
    have hs : SuppGe φ (0 + 1) := supp_of_var hg ⟨d, hden⟩ (fun h => by omega)
    refine ⟨0, fun _ => false, d, ?_, fun n hn => ?_⟩
    · rw [prefixCof_of_supp hs]; exact hden.toReg hg
    · have := hg.var0 _ _ hn; omega
  | @low j n _ hn ih =>
    obtain ⟨k, a, d, hden, hk⟩ := ih
    have hkv := hk n hn
    rcases hden.regInv with ⟨e1, -, -⟩ | ⟨n', d0, d1, φ0, φ1, hn', h0, h1, -, hρ⟩
    · subst e1; rw [hg.inv.noterm] at hn; cases hn
    have : n' = n := by rw [hn] at hn'; exact (Option.some.inj hn').symm
    subst this
    have s0 := h0.supp hg.inv _ (hg.inv.ordLow _ _ hn)
    have s1 := h1.supp hg.inv _ (hg.inv.ordHigh _ _ hn)
    refine ⟨n'.var, fun w => if w = n'.var then false else a w, d0, ?_, fun m hm => ?_⟩
    · have hcomp := prefixCof_compose φ (k := k) (k' := n'.var) (a := a)
        (a' := fun w => if w = n'.var then false else a w) (by omega)
        (fun w hw => by simp; intro h; omega)
      have hnode : prefixCof (reg (prefixCof φ k a)) n'.var (fun w => if w = n'.var then false else a w) = φ0 := by
        rw [hρ, prefixCof_node (Nat.le_refl _)]
        simp only [↓reduceIte, Bool.false_eq_true]
        exact prefixCof_of_supp s0 _
      rw [← hcomp]
      rcases reg_cases (prefixCof φ k a) with e | e
      · rw [e, hnode]; exact h0.toReg hg
      · rw [e, prefixCof_not, hnode, reg_not]; exact h0.toReg hg
    · rcases hg.inv.ordLow _ _ hn with e | ⟨mm, hmm, hle⟩
      · rw [e, hg.inv.noterm] at hm; cases hm
      · rw [hmm] at hm; cases hm; omega
  | @high j n _ hn ih =>
    obtain ⟨k, a, d, hden, hk⟩ := ih
    have hkv := hk n hn
    rcases hden.regInv with ⟨e1, -, -⟩ | ⟨n', d0, d1, φ0, φ1, hn', h0, h1, -, hρ⟩
    · subst e1; rw [hg.inv.noterm] at hn; cases hn
    have : n' = n := by rw [hn] at hn'; exact (Option.some.inj hn').symm
    subst this
    have s0 := h0.supp hg.inv _ (hg.inv.ordLow _ _ hn)
    have s1 := h1.supp hg.inv _ (hg.inv.ordHigh _ _ hn)
    refine ⟨n'.var, fun w => if w = n'.var then true else a w, d1, ?_, fun m hm => ?_⟩
    · have hcomp := prefixCof_compose φ (k := k) (k' := n'.var) (a := a)
        (a' := fun w => if w = n'.var then true else a w) (by omega)
        (fun w hw => by simp; intro h; omega)
      have hnode : prefixCof (reg (prefixCof φ k a)) n'.var (fun w => if w = n'.var then true else a w) = φ1 := by
        rw [hρ, prefixCof_node (Nat.le_refl _)]
        simp only [↓reduceIte, Bool.false_eq_true]
        exact prefixCof_of_supp s1 _
      rw [← hcomp]
      rcases reg_cases (prefixCof φ k a) with e | e
      · rw [e, hnode]; exact h1.toReg hg
      · rw [e, prefixCof_not, hnode, reg_not]; exact h1.toReg hg
    · rcases hg.inv.ordHigh _ _ hn with e | ⟨mm, hmm, hle⟩
      · rw [e, hg.inv.noterm] at hm; cases hm
      · rw [hmm] at hm; cases hm; omega

#print axioms subfn_into
end P

import Proto.Table
import Proto.Arr
/-! Feasibility spike for the port: the executable, array-backed table *refines* the function-view
table `S.Tab` on which all invariants are proved. One simulation lemma per primitive; nothing is
re-proved on arrays. Shown here for `alloc` and `add`. -/
namespace Port
open Arr S

structure ATable (α : Type) where
  vals : Array α
  nxs : Array Nat
  occs : Array Bool
  buckets : Array Nat
  minFree : Nat
  lastIndex : Nat
  realSize : Nat

set_option linter.unusedSectionVars false
variable {α : Type} [Inhabited α]

/-- abstraction function -/
def ATable.toTab (t : ATable α) : Tab α :=
  { val := rd t.vals, nx := rd t.nxs, occ := rd t.occs, bucket := rd t.buckets,
    nb := t.buckets.size, cap := t.vals.size,
    minFree := t.minFree, lastIndex := t.lastIndex, realSize := t.realSize }

/-- representation invariant: the three cell arrays have the same length -/
def ATable.Wf (t : ATable α) : Prop := t.nxs.size = t.vals.size ∧ t.occs.size = t.vals.size

/-- executable `alloc`: same scan, array update -/
def ATable.allocAt (t : ATable α) (i : Nat) : Except TFault (ATable α × Nat) :=
  if i ≥ t.vals.size then .error .storageFull else
  .ok ({ t with occs := wr t.occs i true, minFree := i + 1, realSize := t.realSize + 1,
                 lastIndex := if i > t.lastIndex then i else t.lastIndex }, i)

def ATable.alloc (t : ATable α) : Except TFault (ATable α × Nat) :=
  t.allocAt (firstFree (rd t.occs) (t.lastIndex + 1 - t.minFree) t.minFree)

def ATable.add (t : ATable α) (v : α) : Except TFault (ATable α × Nat) :=
  match t.alloc with
  | .error e => .error e
  | .ok (t1, i) => .ok ({ t1 with vals := wr t1.vals i v, nxs := wr t1.nxs i 0 }, i)

theorem Tab.ext' {a b : Tab α} (h1 : a.val = b.val) (h2 : a.nx = b.nx) (h3 : a.occ = b.occ) (h4 : a.bucket = b.bucket)
    (h5 : a.nb = b.nb) (h6 : a.cap = b.cap) (h7 : a.minFree = b.minFree) (h8 : a.lastIndex = b.lastIndex)
    (h9 : a.realSize = b.realSize) : a = b := by
  cases a; cases b; simp_all

/-- the function-view `alloc`, with the scanned index made a parameter -/
def tabAllocAt (t : Tab α) (i : Nat) : Except TFault (Tab α × Nat) :=
  if i ≥ t.cap then .error .storageFull else
  .ok ({ t with occ := fun j => if j = i then true else t.occ j,
                 minFree := i + 1, realSize := t.realSize + 1,
                 lastIndex := if i > t.lastIndex then i else t.lastIndex }, i)

theorem tab_alloc_eq (t : Tab α) : t.alloc = tabAllocAt t (firstFree t.occ (t.lastIndex + 1 - t.minFree) t.minFree) := rfl

theorem allocAt_sim_ok (t : ATable α) (hw : t.Wf) (i : Nat) {t' k} (h : t.allocAt i = .ok (t', k)) :
    tabAllocAt t.toTab i = .ok (t'.toTab, k) ∧ t'.Wf ∧ k < t'.vals.size := by
  unfold ATable.allocAt at h
  unfold tabAllocAt
  by_cases hge : i ≥ t.vals.size
  · rw [if_pos hge] at h; cases h
  · rw [if_neg hge] at h
    simp only [Except.ok.injEq, Prod.mk.injEq] at h
    obtain ⟨rfl, rfl⟩ := h
    have hcap : t.toTab.cap = t.vals.size := rfl
    rw [if_neg (by rw [hcap]; exact hge)]
    refine ⟨?_, by simp [ATable.Wf, hw.1, hw.2], by simp only; omega⟩
    congr 1
    apply Prod.ext
    · apply Tab.ext' <;> try rfl
      funext j
      show (if j = i then true else rd t.occs j) = rd (wr t.occs i true) j
      rw [rd_wr]
      have hlt : i < t.occs.size := by rw [hw.2]; omega
      by_cases e : j = i
      · rw [if_pos e, if_pos ⟨e.symm, hlt⟩]
      · rw [if_neg e, if_neg (fun x => e x.1.symm)]
    · rfl

theorem allocAt_sim_err (t : ATable α) (i : Nat) {e} (h : t.allocAt i = .error e) : tabAllocAt t.toTab i = .error e := by
  unfold ATable.allocAt at h
  unfold tabAllocAt
  have hcap : t.toTab.cap = t.vals.size := rfl
  by_cases hge : i ≥ t.vals.size
  · rw [if_pos hge] at h; rw [if_pos (by rw [hcap]; exact hge)]
    cases h; rfl
  · rw [if_neg hge] at h; cases h

/-- simulation: array `alloc` and function-view `alloc` agree through `toTab` -/
theorem alloc_sim_ok (t : ATable α) (hw : t.Wf) {t' i} (h : t.alloc = .ok (t', i)) :
    t.toTab.alloc = .ok (t'.toTab, i) ∧ t'.Wf ∧ i < t'.vals.size := by
  rw [tab_alloc_eq]; exact allocAt_sim_ok t hw _ h

theorem alloc_sim_err (t : ATable α) {e} (h : t.alloc = .error e) : t.toTab.alloc = .error e := by
  rw [tab_alloc_eq]; exact allocAt_sim_err t _ h

theorem add_sim_ok (t : ATable α) (hw : t.Wf) (v : α) {t' i} (h : t.add v = .ok (t', i)) :
    t.toTab.add v = .ok (t'.toTab, i) ∧ t'.Wf := by
  unfold ATable.add at h
  unfold Tab.add
  cases ha : t.alloc with
  | error e => rw [ha] at h; cases h
  | ok p =>
    obtain ⟨t1, k⟩ := p
    rw [ha] at h
    simp only [Except.ok.injEq, Prod.mk.injEq] at h
    obtain ⟨rfl, rfl⟩ := h
    obtain ⟨hs1, hw1, hi⟩ := alloc_sim_ok t hw ha
    rw [hs1]
    refine ⟨?_, by simp [ATable.Wf, hw1.1, hw1.2]⟩
    simp only
    congr 1
    apply Prod.ext
    · apply Tab.ext' <;> try rfl
      · funext j
        show (if j = k then v else rd t1.vals j) = rd (wr t1.vals k v) j
        rw [rd_wr]
        by_cases e : j = k
        · rw [if_pos e, if_pos ⟨e.symm, hi⟩]
        · rw [if_neg e, if_neg (fun x => e x.1.symm)]
      · funext j
        show (if j = k then 0 else rd t1.nxs j) = rd (wr t1.nxs k 0) j
        rw [rd_wr]
        have : k < t1.nxs.size := by rw [hw1.1]; exact hi
        by_cases e : j = k
        · rw [if_pos e, if_pos ⟨e.symm, this⟩]
        · rw [if_neg e, if_neg (fun x => e x.1.symm)]
      · show t1.vals.size = (wr t1.vals k v).size
        simp
    · rfl

/-- consequence: every property proved for `S.Tab.add` under `TInv` transfers to the array table -/
theorem add_transfers {hash : α → Nat} [DecidableEq α] (t : ATable α) (hw : t.Wf) {chains}
    (hI : TInv hash t.toTab chains) (v : α) {t' i} (h : t.add v = .ok (t', i)) :
    2 ≤ i ∧ rd t.occs i = false ∧ rd t'.vals i = v ∧ rd t'.occs i = true := by
  obtain ⟨hs, _⟩ := add_sim_ok t hw v h
  obtain ⟨a1, _, a3, a4, a5, _⟩ := add_spec hI hs
  refine ⟨a1, a3, ?_, ?_⟩
  · have := congrFun a5 i; simp only [ATable.toTab] at this; simpa using this
  · have := congrFun a4 i; simp only [ATable.toTab] at this; simpa using this

#print axioms add_sim_ok
#print axioms add_transfers
end Port

/-! Feasibility spike: the direct-mapped operation cache (C18). -/
namespace C

structure Cache (κ ν : Type) where
  slot : Nat → Option (κ × ν)
  size : Nat
  hits : Nat
  faults : Nat
  misses : Nat

variable {κ ν : Type} [DecidableEq κ]

def Cache.new (size : Nat) : Cache κ ν := ⟨fun _ => none, size, 0, 0, 0⟩

section
variable (hash : κ → Nat)

def Cache.get (c : Cache κ ν) (k : κ) : Option ν × Cache κ ν :=
  match c.slot (hash k % c.size) with
  | some (k', v) =>
    if k' = k then (some v, { c with hits := c.hits + 1 })
    else (none, { c with faults := c.faults + 1, misses := c.misses + 1 })
  | none => (none, { c with misses := c.misses + 1 })

def Cache.insert (c : Cache κ ν) (k : κ) (v : ν) : Cache κ ν :=
  { c with slot := fun i => if i = hash k % c.size then some (k, v) else c.slot i }

def Cache.clear (c : Cache κ ν) : Cache κ ν := { c with slot := fun _ => none }

inductive Ev (κ ν : Type) where
  | ins (k : κ) (v : ν) | get (k : κ) | clear

/-- run a history (oldest first) -/
def run (c : Cache κ ν) : List (Ev κ ν) → Cache κ ν
  | [] => c
  | .ins k v :: es => run (c.insert hash k v) es
  | .get k :: es => run (c.get hash k).2 es
  | .clear :: es => run c.clear es

/-- specification: what slot `i` holds after a history, scanning for the last event that touched it -/
def lastWrite (size : Nat) (i : Nat) : List (Ev κ ν) → Option (κ × ν) → Option (κ × ν)
  | [], acc => acc
  | .ins k v :: es, acc => lastWrite size i es (if i = hash k % size then some (k, v) else acc)
  | .get _ :: es, acc => lastWrite size i es acc
  | .clear :: es, _ => lastWrite size i es none

theorem get_size (c : Cache κ ν) (k : κ) : (c.get hash k).2.size = c.size ∧ (c.get hash k).2.slot = c.slot := by
  unfold Cache.get; split
  · split <;> exact ⟨rfl, rfl⟩
  · exact ⟨rfl, rfl⟩

theorem run_slot : ∀ (es : List (Ev κ ν)) (c : Cache κ ν) (i : Nat),
    (run hash c es).slot i = lastWrite hash c.size i es (c.slot i) ∧ (run hash c es).size = c.size := by
  intro es
  induction es with
  | nil => intro c i; exact ⟨rfl, rfl⟩
  | cons e es ih =>
    intro c i
    cases e with
    | ins k v => simp only [run, lastWrite]; have := ih (c.insert hash k v) i; simpa [Cache.insert] using this
    | get k =>
      simp only [run, lastWrite]
      have := ih (c.get hash k).2 i
      rw [(get_size hash c k).1, (get_size hash c k).2] at this; exact this
    | clear => simp only [run, lastWrite]; have := ih c.clear i; simpa [Cache.clear] using this

/-- C18: a lookup returns a value only if the slot's last write was an insert under exactly that key -/
theorem get_spec (c : Cache κ ν) (k : κ) (v : ν) :
    (c.get hash k).1 = some v ↔ c.slot (hash k % c.size) = some (k, v) := by
  unfold Cache.get
  cases h : c.slot (hash k % c.size) with
  | none => simp
  | some p =>
    obtain ⟨k', v'⟩ := p
    by_cases hk : k' = k
    · subst hk; simp
    · simp [hk]

theorem get_after_history (es : List (Ev κ ν)) (size : Nat) (k : κ) (v : ν) :
    ((run hash (Cache.new size) es).get hash k).1 = some v ↔
      lastWrite hash size (hash k % size) es none = some (k, v) := by
  rw [get_spec]
  have := run_slot hash es (Cache.new size : Cache κ ν) (hash k % size)
  rw [this.2]
  show (run hash (Cache.new size) es).slot (hash k % size) = _ ↔ _
  rw [this.1]; rfl

/-- statistics: hits + misses = number of lookups, faults ≤ misses -/
def lookups : List (Ev κ ν) → Nat
  | [] => 0
  | .get _ :: es => lookups es + 1
  | _ :: es => lookups es

theorem run_stats : ∀ (es : List (Ev κ ν)) (c : Cache κ ν),
    (run hash c es).hits + (run hash c es).misses = c.hits + c.misses + lookups es ∧
    ((run hash c es).faults + c.misses ≤ (run hash c es).misses + c.faults) := by
  intro es
  induction es with
  | nil => intro c; simp [run, lookups]; omega
  | cons e es ih =>
    intro c
    cases e with
    | ins k v => have := ih (c.insert hash k v); simpa [run, lookups, Cache.insert] using this
    | clear => have := ih c.clear; simpa [run, lookups, Cache.clear] using this
    | get k =>
      have := ih (c.get hash k).2
      simp only [run, lookups]
      generalize hr : run hash (c.get hash k).2 es = r at this ⊢
      have hstat : ((c.get hash k).2.hits + (c.get hash k).2.misses = c.hits + c.misses + 1) ∧
          ((c.get hash k).2.faults + c.misses ≤ (c.get hash k).2.misses + c.faults) ∧
          (c.get hash k).2.faults ≤ c.faults + 1 ∧ c.misses ≤ (c.get hash k).2.misses ∧ c.faults ≤ (c.get hash k).2.faults := by
        unfold Cache.get
        split
        · split <;> simp <;> omega
        · simp; omega
      omega

#print axioms get_after_history
#print axioms run_stats
end
end C

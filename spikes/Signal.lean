import Std.Tactic.BVDecide
/-! Feasibility spike: eda `Signal` bit layout over `BitVec 32` (C20, second half). -/
namespace Sig

abbrev Signal := BitVec 32
-- (definitions below spell the type out: with the abbreviation the shift amount elaborates differently)
def MAGIC : BitVec 32 := 0x80000000#32

def fromIndex (index : BitVec 32) : BitVec 32 := index <<< 1
def fromVar (var : BitVec 32) : BitVec 32 := fromIndex (var + 1)
def fromInput (input : BitVec 32) : BitVec 32 := fromIndex (~~~input)
def index (s : BitVec 32) : BitVec 32 := s >>> 1
def isConst (s : BitVec 32) : Bool := index s == 0
def isInput (s : BitVec 32) : Bool := s &&& MAGIC != 0
def isVar (s : BitVec 32) : Bool := !isInput s && !isConst s
def var (s : BitVec 32) : BitVec 32 := index s - 1
def input (s : BitVec 32) : BitVec 32 := ~~~(index s) &&& ~~~MAGIC
def isNegated (s : BitVec 32) : Bool := s &&& 1 != 0
def not (s : BitVec 32) : BitVec 32 := s ^^^ 1

theorem var_fromVar (v : BitVec 32) (h : v ≤ 0x3FFFFFFE#32) : isVar (fromVar v) = true ∧ var (fromVar v) = v := by
  simp only [isVar, isInput, isConst, var, fromVar, fromIndex, index, MAGIC]
  bv_decide

theorem input_fromInput (i : BitVec 32) (h : i ≤ 0x3FFFFFFF#32) :
    isInput (fromInput i) = true ∧ input (fromInput i) = i := by
  simp only [isInput, input, fromInput, fromIndex, index, MAGIC]
  bv_decide

theorem classes_exclusive (s : BitVec 32) :
    (isConst s = true ∧ isInput s = false ∧ isVar s = false) ∨
    (isConst s = false ∧ isInput s = true ∧ isVar s = false) ∨
    (isConst s = false ∧ isInput s = false ∧ isVar s = true) ∨
    -- the fourth combination: raw values 0x8000_0000 / 0x8000_0001 (the `placeholder`) are both
    -- "input" by bit 31 and "const" by index… index = 0x4000_0000 ≠ 0, so this case is impossible
    False := by
  simp only [isConst, isInput, isVar, index, MAGIC]
  bv_decide

theorem not_not (s : BitVec 32) : not (not s) = s := by
  simp only [not]; bv_decide

theorem not_flips_only_polarity (s : BitVec 32) :
    index (not s) = index s ∧ isNegated (not s) = !isNegated s ∧ isConst (not s) = isConst s ∧
    isInput (not s) = isInput s ∧ isVar (not s) = isVar s := by
  simp only [not, index, isNegated, isConst, isInput, isVar, MAGIC]; bv_decide

#print axioms var_fromVar
#print axioms classes_exclusive
end Sig

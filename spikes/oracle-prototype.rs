use bdd_rs::bdd::Bdd;
use bdd_rs::reference::Ref;
use std::collections::{HashMap, HashSet};
use std::panic::{catch_unwind, AssertUnwindSafe};

const N: u32 = 4;
const M: u32 = (1u32 << (1 << N)) - 1; // mask 16 bits (as u32)

struct Rng(u64);
impl Rng { fn next(&mut self) -> u64 { self.0 ^= self.0 << 13; self.0 ^= self.0 >> 7; self.0 ^= self.0 << 17; self.0 } fn below(&mut self, n: u64) -> u64 { self.next() % n } }

fn tt(bdd: &Bdd, f: Ref) -> u32 {
    let mut t = 0u32;
    for a in 0..(1u32 << N) {
        let mut r = f;
        loop {
            if bdd.is_one(r) { t |= 1 << a; break; }
            if bdd.is_zero(r) { break; }
            let v = bdd.variable(r.index());
            assert!(v >= 1 && v <= N, "var {} out of range", v);
            r = if (a >> (v - 1)) & 1 == 1 { bdd.high_node(r) } else { bdd.low_node(r) };
        }
    }
    t
}
fn varmask(v: u32) -> u32 { let mut m = 0; for a in 0..(1u32 << N) { if (a >> (v-1)) & 1 == 1 { m |= 1 << a; } } m }
fn cof(t: u32, v: u32, b: bool) -> u32 { let mut r = 0; for a in 0..(1u32<<N) { let a2 = if b { a | (1<<(v-1)) } else { a & !(1<<(v-1)) }; if (t >> a2) & 1 == 1 { r |= 1<<a; } } r }
fn depends(t: u32, v: u32) -> bool { cof(t,v,false) != cof(t,v,true) }
// constrain spec: f(p(x)), p(x) closest point in g with earlier variables weighing more
fn constrain_spec(f: u32, g: u32) -> u32 {
    if g == 0 { return 0; }
    let mut r = 0;
    for x in 0..(1u32<<N) {
        // distance d(x,y) = sum over vars i where differ of 2^(N-i); var1 heaviest
        let mut best = None;
        for y in 0..(1u32<<N) { if (g >> y) & 1 == 1 {
            let mut d = 0u32; for i in 1..=N { if ((x ^ y) >> (i-1)) & 1 == 1 { d += 1 << (N - i); } }
            if best.map_or(true, |(bd, _)| d < bd) { best = Some((d, y)); }
        }}
        let y = best.unwrap().1;
        if (f >> y) & 1 == 1 { r |= 1 << x; }
    }
    r
}
fn topvar(t: u32) -> u32 { for v in 1..=N { if depends(t, v) { return v; } } 0 }
// Coudert-Madre restrict on truth tables (semantic recursion mirroring canonical structure)
fn restrict_spec(f: u32, g: u32) -> u32 {
    if g == 0 { return 0; }
    if g == M || f == 0 || f == M { return f; }
    if f == g { return M; }
    if f == (!g & M) { return 0; }
    let i = topvar(f); let j = topvar(g); let v = i.min(j);
    let (f0, f1, g0, g1) = (cof(f,v,false), cof(f,v,true), cof(g,v,false), cof(g,v,true));
    if g1 == 0 { return restrict_spec(f0, g0); }
    if g0 == 0 { return restrict_spec(f1, g1); }
    if v == i { let lo = restrict_spec(f0,g0); let hi = restrict_spec(f1,g1); let m = varmask(v); (hi & m) | (lo & !m & M) }
    else { restrict_spec(f, g0 | g1) }
}

fn check_structure(bdd: &Bdd, live: &[Ref]) -> Result<(), String> {
    let st = bdd.storage();
    let cap = st.capacity();
    let mut occ = 0usize;
    let mut triples: HashMap<(u32, Ref, Ref), usize> = HashMap::new();
    for i in 1..cap { if st.is_occupied(i) { occ += 1; if i > 1 { let n = st.node(i); if let Some(j) = triples.insert((n.variable, n.low, n.high), i) { return Err(format!("dup triple at {} and {}", i, j)); }
        if n.high.is_negated() { return Err(format!("neg high at {}", i)); }
        if n.low == n.high { return Err(format!("redundant at {}", i)); }
        for c in [n.low, n.high] { let ci = c.index() as usize; if ci == 0 || !st.is_occupied(ci) { return Err(format!("dangling child at {}", i)); } if ci != 1 && st.node(ci).variable <= n.variable { return Err(format!("order at {}", i)); } }
    } } }
    if occ != st.real_size() { return Err(format!("real_size {} != occ {}", st.real_size(), occ)); }
    if st.size() >= cap { return Err("size>=cap".into()); }
    for i in (st.size()+1)..cap { if st.is_occupied(i) { return Err("occupied beyond size".into()); } }
    // chains
    let mut seen = HashSet::new();
    for b in 0..st.num_buckets() { let mut i = st.bucket(b); let mut steps = 0; while i != 0 { if !st.is_occupied(i) { return Err(format!("freed cell {} in chain {}", i, b)); } if !seen.insert(i) { return Err(format!("cell {} twice in chains", i)); } steps += 1; if steps > cap { return Err("cycle".into()); } i = st.next(i); } }
    if seen.len() + 1 != occ { return Err(format!("chains hold {} nodes, occupied {}", seen.len(), occ)); }
    drop(st);
    // canonicity among live
    let mut by_tt: HashMap<u32, Ref> = HashMap::new();
    for &r in live { let t = tt(bdd, r); if let Some(&o) = by_tt.get(&t) { if o != r { return Err(format!("canonicity: {} and {} same tt {:x}", o, r, t)); } } else { by_tt.insert(t, r); } if tt(bdd, -r) != (!t & M) { return Err("neg".into()); } }
    Ok(())
}

fn main() {
    let seed: u64 = std::env::args().nth(1).and_then(|s| s.parse().ok()).unwrap_or(1);
    let bits: usize = std::env::args().nth(2).and_then(|s| s.parse().ok()).unwrap_or(7);
    let steps: usize = std::env::args().nth(3).and_then(|s| s.parse().ok()).unwrap_or(3000);
    let mut rng = Rng(seed.wrapping_mul(0x9E3779B97F4A7C15) | 1);
    let bdd = Bdd::new(bits);
    let mut live: Vec<(Ref, u32)> = vec![(bdd.one, M), (bdd.zero, 0)];
    let mut fails = 0; let mut fulls = 0; let mut gcs = 0;
    macro_rules! fail { ($($a:tt)*) => {{ println!("FAIL step: {}", format!($($a)*)); fails += 1; if fails > 10 { return; } }} }
    for step in 0..steps {
        let pick = |rng: &mut Rng, live: &Vec<(Ref,u32)>| live[rng.below(live.len() as u64) as usize];
        let op = rng.below(22);
        let (f, ft) = pick(&mut rng, &live); let (g, gt) = pick(&mut rng, &live); let (h, ht) = pick(&mut rng, &live);
        let v = 1 + rng.below(N as u64) as u32;
        let before = bdd.storage().real_size();
        let r = catch_unwind(AssertUnwindSafe(|| -> Option<(Ref, u32)> { match op {
            0 => { Some((bdd.mk_var(v), varmask(v))) }
            1 | 2 | 3 => { Some((bdd.apply_ite(f,g,h), (ft & gt) | (!ft & ht & M))) }
            4 => Some((bdd.apply_and(f,g), ft & gt)),
            5 => Some((bdd.apply_or(f,g), ft | gt)),
            6 => Some((bdd.apply_xor(f,g), ft ^ gt)),
            7 => Some((bdd.apply_eq(f,g), !(ft ^ gt) & M)),
            8 => Some((bdd.apply_imply(f,g), (!ft | gt) & M)),
            9 => { let b = rng.below(2) == 1; Some((bdd.substitute(f, v, b), cof(ft, v, b))) }
            10 => { let m = varmask(v); Some((bdd.compose(f, v, g), (gt & cof(ft,v,true)) | (!gt & cof(ft,v,false) & M))) .map(|x| { let _ = m; x }) }
            11 => { Some((bdd.constrain(f, g), constrain_spec(ft, gt))) }
            12 => { Some((bdd.restrict(f, g), restrict_spec(ft, gt))) }
            13 => { let c = bdd.ite_constant(f,g,h); let t = (ft & gt) | (!ft & ht & M); let exp = if t == M { Some(true) } else if t == 0 { Some(false) } else { None }; if c != exp { println!("FAIL ite_constant {:?} vs {:?} (f={:x} g={:x} h={:x})", c, exp, ft, gt, ht); } if bdd.storage().real_size() != before { println!("FAIL ite_constant created nodes"); } None }
            14 => { let c = bdd.is_implies(f,g); if c != ((ft & !gt) == 0) { println!("FAIL is_implies"); } None }
            15 => { let mut cube = vec![]; let mut t = ft; for w in 1..=N { match rng.below(3) { 0 => { cube.push(w as i32); t = cof(t,w,true); } 1 => { cube.push(-(w as i32)); t = cof(t,w,false); } _ => {} } } 
                    let r1 = bdd.cofactor_cube(f, &cube); let vals: HashMap<u32,bool> = cube.iter().map(|&l| (l.unsigned_abs(), l > 0)).collect(); let r2 = bdd.substitute_multi(f, &vals); if r1 != r2 { println!("FAIL cofactor_cube vs substitute_multi"); } 
                    let c = bdd.cube(cube.iter().rev().copied()); let r3 = bdd.constrain(f, c); let r4 = bdd.restrict(f, c); if r3 != r1 { println!("FAIL constrain by cube != cofactor"); } if r4 != r1 { println!("FAIL restrict by cube != cofactor"); } Some((r1, t)) }
            16 => { for n in [N as usize, 5, 70] { let c = bdd.sat_count(f, n); let exp = num_bigint::BigUint::from(ft.count_ones()) << (n - N as usize); if c != exp { println!("FAIL sat_count"); } } 
                    match bdd.one_sat(f) { None => if ft != 0 { println!("FAIL one_sat none"); }, Some(p) => { let mut t = M; let mut last = 0; for &l in &p { let w = l.unsigned_abs(); if w <= last { println!("FAIL one_sat order"); } last = w; t &= if l > 0 { varmask(w) } else { !varmask(w) & M }; } if t == 0 || (t & !ft) != 0 { println!("FAIL one_sat not implicant"); } } }
                    let mut u = 0u32; let mut cnt = 0u32; for p in bdd.paths(f) { let mut t = M; for &l in &p { let w = l.unsigned_abs(); t &= if l > 0 { varmask(w) } else { !varmask(w) & M }; } if u & t != 0 { println!("FAIL paths overlap"); } u |= t; cnt += t.count_ones(); } if u != ft || cnt != ft.count_ones() { println!("FAIL paths union"); }
                    let s1 = bdd.size(f); let s2 = bdd.size(-f); let d = bdd.descendants([f]).len() as u64; if s1 != s2 || s1 != d { println!("FAIL size"); }
                    None }
            17 => { let lo = cof(ft, v, false); let _ = lo; // mk_node with proper ordering: children = cofactor-free functions below v
                    let (a, at) = (g, gt); let (b, bt) = (h, ht);
                    let ok = (1..=v).all(|w| !depends(at, w) && !depends(bt, w)); if ok { let m = varmask(v); Some((bdd.mk_node(v, a, b), (bt & m) | (at & !m & M))) } else { None } }
            18 => { let mut lits: Vec<i32> = vec![]; for w in 1..=N { if rng.below(2) == 1 { lits.push(if rng.below(2) == 1 { w as i32 } else { -(w as i32) }); } } let mut sh = lits.clone(); for i in (1..sh.len()).rev() { let j = rng.below(i as u64 + 1) as usize; sh.swap(i, j); } let mut t = M; let mut tc = 0; for &l in &lits { let m = varmask(l.unsigned_abs()); let lm = if l > 0 { m } else { !m & M }; t &= lm; tc |= lm; } let c = bdd.cube(sh.clone()); let cl = bdd.clause(sh); if tt(&bdd, cl) != tc { println!("FAIL clause"); } Some((c, t)) }
            _ => None,
        }}));
        match r {
            Err(e) => { let msg = e.downcast_ref::<&str>().map(|s| s.to_string()).or(e.downcast_ref::<String>().cloned()).unwrap_or_default(); if msg.contains("Storage is full") { fulls += 1; 
                    // collect with random subset of roots
                    let keep: Vec<(Ref,u32)> = live.iter().copied().filter(|_| rng.below(3) == 0).collect(); let roots: Vec<Ref> = keep.iter().map(|x| x.0).collect(); bdd.collect_garbage(&roots); gcs += 1; live = keep; live.push((bdd.one, M)); live.push((bdd.zero, 0));
                    let reach = bdd.descendants(roots.iter().copied()).len(); if reach != bdd.storage().real_size() { fail!("after gc real_size {} != reachable {}", bdd.storage().real_size(), reach); }
                } else { fail!("step {} op {} panic: {}", step, op, msg); } }
            Ok(Some((r, t))) => { let got = tt(&bdd, r); if got != t { fail!("step {} op {} wrong result {:x} expected {:x} (f={:x} g={:x} h={:x} v={})", step, op, got, t, ft, gt, ht, v); } else { live.push((r, t)); } }
            Ok(None) => {}
        }
        if op >= 19 && rng.below(4) == 0 { let keep: Vec<(Ref,u32)> = live.iter().copied().filter(|_| rng.below(2) == 0).collect(); let roots: Vec<Ref> = keep.iter().map(|x| x.0).collect(); bdd.collect_garbage(&roots); gcs += 1; live = keep; live.push((bdd.one, M)); live.push((bdd.zero, 0));
            let reach = bdd.descendants(roots.iter().copied()).len(); if reach != bdd.storage().real_size() { fail!("after gc real_size {} != reachable {}", bdd.storage().real_size(), reach); } }
        if step % 16 == 0 || op >= 19 { let refs: Vec<Ref> = live.iter().map(|x| x.0).collect(); for &(r,t) in &live { if tt(&bdd, r) != t { fail!("step {} live handle changed meaning", step); break; } } if let Err(e) = check_structure(&bdd, &refs) { fail!("step {} structure: {}", step, e); } }
        if live.len() > 60 { let k = rng.below(live.len() as u64) as usize; live.swap_remove(k); }
    }
    println!("seed {} bits {} steps {} done: fails {} fulls {} gcs {} size {} real {}", seed, bits, steps, fails, fulls, gcs, bdd.storage().size(), bdd.storage().real_size());
}

import Proto.Count
import Proto.Constrain
/-! Feasibility spike: the algebraic corollaries named in C13 and C10. -/
namespace P

/-! ### C13 -/

theorem count_compl (φ : Fn) (n : Nat) : count φ n + count (fun e => !φ e) n = 2 ^ n := by
  simp only [count]; rw [countFrom_not]; have := countFrom_le φ n 1; omega

theorem countFrom_or_and (φ ψ : Fn) : ∀ k v,
    countFrom (fun e => φ e || ψ e) k v + countFrom (fun e => φ e && ψ e) k v = countFrom φ k v + countFrom ψ k v := by
  intro k
  induction k generalizing φ ψ with
  | zero =>
    intro v; simp only [countFrom]
    by_cases h1 : φ (fun _ => false) = true <;> by_cases h2 : ψ (fun _ => false) = true <;> simp [h1, h2]
  | succ k ih =>
    intro v
    simp only [countFrom]
    have a := ih (cof φ v false) (cof ψ v false) (v + 1)
    have b := ih (cof φ v true) (cof ψ v true) (v + 1)
    have e1 : ∀ c, cof (fun e => φ e || ψ e) v c = fun e => cof φ v c e || cof ψ v c e := fun _ => rfl
    have e2 : ∀ c, cof (fun e => φ e && ψ e) v c = fun e => cof φ v c e && cof ψ v c e := fun _ => rfl
    rw [e1, e1, e2, e2]; omega

/-- inclusion–exclusion -/
theorem count_or_and (φ ψ : Fn) (n : Nat) :
    count (fun e => φ e || ψ e) n + count (fun e => φ e && ψ e) n = count φ n + count ψ n :=
  countFrom_or_and φ ψ n 1

theorem suppLe_cof {φ : Fn} {N : Nat} (h : SuppLt φ N) (v : Nat) (b : Bool) : SuppLt (cof φ v b) N := by
  intro e e' hee; apply h; intro w hw
  by_cases hwv : w = v
  · subst hwv; simp
  · rw [upd_other _ _ _ _ hwv, upd_other _ _ _ _ hwv]; exact hee w hw

/-- the last variable, when unused, doubles the count -/
theorem countFrom_extend (φ : Fn) : ∀ k v, SuppLt φ (v + k) → countFrom φ (k + 1) v = 2 * countFrom φ k v := by
  intro k
  induction k generalizing φ with
  | zero =>
    intro v h
    have hc : ∀ c, cof φ v c = φ := by
      intro c; funext e; apply h; intro w hw
      exact upd_other _ _ _ _ (by omega)
    simp only [countFrom, hc]; omega
  | succ k ih =>
    intro v h
    have a := ih (cof φ v false) (v + 1) (by have := suppLe_cof h v false; rwa [show v + (k + 1) = v + 1 + k by omega] at this)
    have b := ih (cof φ v true) (v + 1) (by have := suppLe_cof h v true; rwa [show v + (k + 1) = v + 1 + k by omega] at this)
    rw [countFrom, a, b, countFrom]; omega

theorem count_extend {φ : Fn} {n : Nat} (h : SuppLt φ (n + 1)) : count φ (n + 1) = 2 * count φ n := by
  simp only [count]; exact countFrom_extend φ n 1 (by rwa [Nat.add_comm] at h)

/-! ### C10: everything follows from `h = f ∘ closest-point` -/

/-- on the care set constrain agrees with `f` -/
theorem constrain_agrees {φf φg h : Fn} (hs : ConstrainSpec φf φg h) {x : Env} (hx : φg x = true) : h x = φf x := by
  apply hs.1 x x
  exact ⟨hx, fun _ _ _ _ => rfl⟩

/-- constrain commutes with negation and distributes over any binary connective -/
theorem constrain_distrib {φf φf' φg h h' k : Fn} (op : Bool → Bool → Bool) {N : Nat}
    (hl : SuppLt φg N) (hne : φg ≠ fun _ => false)
    (hs : ConstrainSpec φf φg h) (hs' : ConstrainSpec φf' φg h')
    (hk : ConstrainSpec (fun e => op (φf e) (φf' e)) φg k) : k = fun e => op (h e) (h' e) := by
  funext x
  obtain ⟨y, hy⟩ := closest_exists hl hne x
  rw [hk.1 x y hy, hs.1 x y hy, hs'.1 x y hy]

theorem constrain_neg {φf φg h k : Fn} {N : Nat} (hl : SuppLt φg N) (hne : φg ≠ fun _ => false)
    (hs : ConstrainSpec φf φg h) (hk : ConstrainSpec (fun e => !φf e) φg k) : k = fun e => !h e := by
  funext x
  obtain ⟨y, hy⟩ := closest_exists hl hne x
  rw [hk.1 x y hy, hs.1 x y hy]

/-- `constrain(f, f) = 1` and `constrain(f, ¬f) = 0` semantically -/
theorem constrain_self {φf h : Fn} {N : Nat} (hl : SuppLt φf N) (hne : φf ≠ fun _ => false)
    (hs : ConstrainSpec φf φf h) : h = fun _ => true := by
  funext x
  obtain ⟨y, hy⟩ := closest_exists hl hne x
  rw [hs.1 x y hy, hy.1]

#print axioms count_or_and
#print axioms count_extend
#print axioms constrain_distrib
end P

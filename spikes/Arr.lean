/-! Feasibility: the two-lemma array layer (`rd`/`wr`) the executable model sits on. -/
namespace Arr

def rd [Inhabited α] (a : Array α) (i : Nat) : α := a.getD i default
def wr (a : Array α) (i : Nat) (v : α) : Array α := a.setIfInBounds i v

@[simp] theorem size_wr (a : Array α) (i : Nat) (v : α) : (wr a i v).size = a.size := by
  simp [wr]

theorem rd_wr [Inhabited α] (a : Array α) (i j : Nat) (v : α) :
    rd (wr a i v) j = if i = j ∧ i < a.size then v else rd a j := by
  simp only [rd, wr, Array.getD_eq_getD_getElem?, Array.getElem?_setIfInBounds]
  by_cases h : i = j
  · subst h
    by_cases hlt : i < a.size
    · simp [hlt]
    · simp [hlt]
  · simp [h]

theorem rd_replicate [Inhabited α] (n : Nat) (v : α) (i : Nat) : rd (Array.replicate n v) i = if i < n then v else default := by
  simp only [rd, Array.getD_eq_getD_getElem?, Array.getElem?_replicate]
  split <;> simp

/-- a UInt64 sanity check for the Szudzik hash: wrapping arithmetic is what `UInt64` does -/
def szudzik (a b : UInt64) : UInt64 := if a < b then b * b + a else a * a + a + b
example : szudzik 0xFFFFFFFFFFFFFFFF 2 = 2 := by decide
example : szudzik 3 4 = 19 := by decide

end Arr

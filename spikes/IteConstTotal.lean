import Proto.IteConst
import Proto.IteTotal
/-! Feasibility spike: ite_constant always returns (C12, totality) — for every cache content,
never an assertion, never out of fuel once `fuel` exceeds the sum of the three argument levels. -/
namespace P

theorem iteConstant_total (V : Nat) : ∀ fuel s f g h φf φg φh, Good s → VarsLe s V →
    Valid s.nodes f φf → Valid s.nodes g φg → Valid s.nodes h φh →
    lv s V f + lv s V g + lv s V h < fuel → ∃ o, iteConstant fuel s f g h = .ok o := by
  intro fuel
  induction fuel with
  | zero => intro s f g h _ _ _ _ _ _ _ _ hmu; omega
  | succ fuel ih =>
    intro s f g h φf φg φh hg hV vf vg vh hmu
    unfold iteConstant
    by_cases c1 : isOne f = true
    · rw [if_pos c1]; exact ⟨_, rfl⟩
    rw [if_neg c1]
    by_cases c2 : isZero f = true
    · rw [if_pos c2]; exact ⟨_, rfl⟩
    rw [if_neg c2]
    have hfnt : isTerminal f = false := not_terminal_of (by simpa using c1) (by simpa using c2)
    have hfv := var_bounds hg hV vf hfnt
    by_cases c3 : g = h
    · rw [if_pos c3]; exact ⟨_, rfl⟩
    rw [if_neg c3]
    by_cases c4 : (isOne g && isZero h) = true
    · rw [if_pos c4]; exact ⟨_, rfl⟩
    rw [if_neg c4]
    by_cases c5 : (isZero g && isOne h) = true
    · rw [if_pos c5]; exact ⟨_, rfl⟩
    rw [if_neg c5]
    by_cases c6 : (isOne g && decide (h = f.not)) = true
    · rw [if_pos c6]; exact ⟨_, rfl⟩
    rw [if_neg c6]
    by_cases c7 : (decide (g = f) && isOne h) = true
    · rw [if_pos c7]; exact ⟨_, rfl⟩
    rw [if_neg c7]
    by_cases c8 : (decide (g = f.not) && isZero h) = true
    · rw [if_pos c8]; exact ⟨_, rfl⟩
    rw [if_neg c8]
    by_cases c9 : (isZero g && decide (h = f)) = true
    · rw [if_pos c9]; exact ⟨_, rfl⟩
    rw [if_neg c9]
    cases hc : s.cache (.ite f g h) with
    | some res => exact ⟨_, rfl⟩
    | none =>
    simp only
    rw [if_neg (by omega : ¬ s.var f = 0)]
    have ml := min3_le (s.var f) (s.var g) (s.var h)
    have mp := min3_pos (j := s.var g) (k := s.var h) (by omega : s.var f ≠ 0)
    have ma := min3_attained (s.var f) (s.var g) (s.var h)
    generalize hm : min3 (s.var f) (s.var g) (s.var h) = m at *
    rw [if_neg mp]
    obtain ⟨f0, f1, ef, lf0, lf1, sf⟩ := topCofactors_total hg hV vf mp (fun _ => ml.1)
    obtain ⟨g0, g1, eg, lg0, lg1, sg⟩ := topCofactors_total hg hV vg mp ml.2.1
    obtain ⟨h0, h1, eh, lh0, lh1, sh⟩ := topCofactors_total hg hV vh mp ml.2.2
    simp only [ef, eg, eh]
    have sa : SuppGe φf m := supp_of_var hg vf (fun _ => ml.1)
    have sb : SuppGe φg m := supp_of_var hg vg ml.2.1
    have sc : SuppGe φh m := supp_of_var hg vh ml.2.2
    obtain ⟨vf0, vf1⟩ := topCofactors_spec hg vf sa ef
    obtain ⟨vg0, vg1⟩ := topCofactors_spec hg vg sb eg
    obtain ⟨vh0, vh1⟩ := topCofactors_spec hg vh sc eh
    have sum0 : lv s V f0 + lv s V g0 + lv s V h0 < lv s V f + lv s V g + lv s V h := by
      rcases ma with e | ⟨_, e⟩ | ⟨_, e⟩
      · have := (sf e.symm).1; omega
      · have := (sg e.symm).1; omega
      · have := (sh e.symm).1; omega
    have sum1 : lv s V f1 + lv s V g1 + lv s V h1 < lv s V f + lv s V g + lv s V h := by
      rcases ma with e | ⟨_, e⟩ | ⟨_, e⟩
      · have := (sf e.symm).2; omega
      · have := (sg e.symm).2; omega
      · have := (sh e.symm).2; omega
    obtain ⟨t, et⟩ := ih s f1 g1 h1 _ _ _ hg hV vf1 vg1 vh1 (by omega)
    rw [et]
    cases t with
    | none => exact ⟨_, rfl⟩
    | some T =>
      obtain ⟨e, ee⟩ := ih s f0 g0 h0 _ _ _ hg hV vf0 vg0 vh0 (by omega)
      simp only [ee]
      split <;> exact ⟨_, rfl⟩

#print axioms iteConstant_total
end P

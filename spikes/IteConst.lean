import Proto.Restrict
/-! Feasibility spike: ite_constant (with the repairs of DESIGN §6 D2) decides constancy. -/
namespace P

def maybeConst (r : Ref) : Option Bool :=
  if isZero r then some false else if isOne r then some true else none

def iteConstant : Nat → St → Ref → Ref → Ref → Except Fault (Option Bool)
  | 0, _, _, _, _ => .error .outOfFuel
  | fuel + 1, s, f, g, h =>
    if isOne f then .ok (maybeConst g) else
    if isZero f then .ok (maybeConst h) else
    if g = h then .ok (maybeConst g) else
    if isOne g && isZero h then .ok none else
    if isZero g && isOne h then .ok none else
    if isOne g && h = f.not then .ok (some true) else
    if g = f && isOne h then .ok (some true) else
    if g = f.not && isZero h then .ok (some false) else
    if isZero g && h = f then .ok (some false) else
    match s.cache (.ite f g h) with
    | some res => .ok (maybeConst res)
    | none =>
      if s.var f = 0 then .error .assertion else
      let m := min3 (s.var f) (s.var g) (s.var h)
      if m = 0 then .error .assertion else
      match topCofactors s f m, topCofactors s g m, topCofactors s h m with
      | .ok (f0, f1), .ok (g0, g1), .ok (h0, h1) =>
        match iteConstant fuel s f1 g1 h1 with
        | .error e => .error e
        | .ok none => .ok none
        | .ok (some t) =>
          match iteConstant fuel s f0 g0 h0 with
          | .error e => .error e
          | .ok e => if e ≠ some t then .ok none else .ok (some t)
      | _, _, _ => .error .assertion

def IsConstB (φ : Fn) (b : Bool) : Prop := φ = fun _ => b

theorem constB_unique {φ : Fn} {b b' : Bool} (h : IsConstB φ b) (h' : IsConstB φ b') : b = b' := by
  have := congrFun (h.symm.trans h') (fun _ => true); exact this

theorem maybeConst_spec {s : St} (hg : Good s) {r φ} (v : Valid s.nodes r φ) (b : Bool) :
    maybeConst r = some b ↔ IsConstB φ b := by
  have h1 := hg.inv.noterm
  unfold maybeConst
  by_cases hz : isZero r = true
  · rw [if_pos hz]
    have := zero_fn h1 hz v; subst this
    constructor
    · intro h; cases h; rfl
    · intro h; have := congrFun h (fun _ => true); simp at this; rw [← this]
  · rw [if_neg hz]
    by_cases ho : isOne r = true
    · rw [if_pos ho]
      have := one_fn h1 ho v; subst this
      constructor
      · intro h; cases h; rfl
      · intro h; have := congrFun h (fun _ => true); simp at this; rw [← this]
    · rw [if_neg ho]
      constructor
      · intro h; cases h
      · intro h
        exfalso
        cases b with
        | false => exact fn_ne_false hg v (by simpa using hz) h
        | true => exact fn_ne_true hg v (by simpa using ho) h

theorem constB_shannon (φ : Fn) (m : Nat) (b : Bool) :
    IsConstB φ b ↔ IsConstB (cof φ m true) b ∧ IsConstB (cof φ m false) b := by
  constructor
  · intro h; subst h; exact ⟨rfl, rfl⟩
  · intro ⟨h1, h0⟩
    unfold IsConstB
    rw [shannon φ m, h1, h0]; funext e; simp

theorem iteConstant_spec : ∀ fuel s f g h φf φg φh o, Good s →
    Valid s.nodes f φf → Valid s.nodes g φg → Valid s.nodes h φh →
    iteConstant fuel s f g h = .ok o → ∀ b, o = some b ↔ IsConstB (ITE φf φg φh) b := by
  intro fuel
  induction fuel with
  | zero => intro s f g h φf φg φh o _ _ _ _ hres; simp [iteConstant] at hres
  | succ fuel ih =>
    intro s f g h φf φg φh o hg vf vg vh hres b
    have h1 := hg.inv.noterm
    have viaRef : ∀ {x ψ}, Valid s.nodes x ψ → ITE φf φg φh = ψ →
        (.ok (maybeConst x) : Except Fault (Option Bool)) = .ok o → (o = some b ↔ IsConstB (ITE φf φg φh) b) := by
      intro x ψ vx hfun heq
      simp only [Except.ok.injEq] at heq
      rw [← heq, hfun]; exact maybeConst_spec hg vx b
    have direct : ∀ (c : Option Bool), (∀ b, c = some b ↔ IsConstB (ITE φf φg φh) b) →
        (.ok c : Except Fault (Option Bool)) = .ok o → (o = some b ↔ IsConstB (ITE φf φg φh) b) := by
      intro c hc heq
      simp only [Except.ok.injEq] at heq
      rw [← heq]; exact hc b
    unfold iteConstant at hres
    by_cases c : isOne f = true
    · rw [if_pos c] at hres
      have := one_fn h1 c vf; subst this
      exact viaRef vg (by boolfn) hres
    rw [if_neg c] at hres
    have hfno : isOne f = false := by simpa using c
    clear c
    by_cases c : isZero f = true
    · rw [if_pos c] at hres
      have := zero_fn h1 c vf; subst this
      exact viaRef vh (by boolfn) hres
    rw [if_neg c] at hres
    have hfnz : isZero f = false := by simpa using c
    clear c
    have fnc : ∀ b', ¬ IsConstB φf b' := by
      intro b' hc; cases b' with
      | false => exact fn_ne_false hg vf hfnz hc
      | true => exact fn_ne_true hg vf hfno hc
    have fnc' : ∀ b', ¬ IsConstB (fun e => !φf e) b' := by
      intro b' hc
      apply fnc (!b')
      funext e; have := congrFun hc e; simp at this; simp [← this]
    by_cases c : g = h
    · rw [if_pos c] at hres
      have := eq_fn h1 c vg vh; subst this
      exact viaRef vg (by boolfn) hres
    rw [if_neg c] at hres; clear c
    by_cases c : (isOne g && isZero h) = true
    · rw [if_pos c] at hres
      simp only [Bool.and_eq_true] at c
      have := one_fn h1 c.1 vg; subst this; have := zero_fn h1 c.2 vh; subst this
      refine direct none (fun b' => ⟨fun h => (by cases h), fun h => absurd ?_ (fnc b')⟩) hres
      have e : ITE φf (fun _ => true) (fun _ => false) = φf := by boolfn
      rw [e] at h; exact h
    rw [if_neg c] at hres; clear c
    by_cases c : (isZero g && isOne h) = true
    · rw [if_pos c] at hres
      simp only [Bool.and_eq_true] at c
      have := zero_fn h1 c.1 vg; subst this; have := one_fn h1 c.2 vh; subst this
      refine direct none (fun b' => ⟨fun h => (by cases h), fun h => absurd ?_ (fnc' b')⟩) hres
      have e : ITE φf (fun _ => false) (fun _ => true) = fun e => !φf e := by boolfn
      rw [e] at h; exact h
    rw [if_neg c] at hres; clear c
    have constCase : ∀ (B : Bool), ITE φf φg φh = (fun _ => B) →
        (.ok (some B) : Except Fault (Option Bool)) = .ok o → (o = some b ↔ IsConstB (ITE φf φg φh) b) := by
      intro B hfun heq
      refine direct (some B) (fun b' => ?_) heq
      rw [hfun]
      constructor
      · intro h; cases h; rfl
      · intro h; exact congrArg some (congrFun h (fun _ => true))
    by_cases c : (isOne g && decide (h = f.not)) = true
    · rw [if_pos c] at hres
      simp only [Bool.and_eq_true, decide_eq_true_eq] at c
      have := one_fn h1 c.1 vg; subst this; have := not_fn h1 c.2 vh vf; subst this
      exact constCase true (by boolfn) hres
    rw [if_neg c] at hres; clear c
    by_cases c : (decide (g = f) && isOne h) = true
    · rw [if_pos c] at hres
      simp only [Bool.and_eq_true, decide_eq_true_eq] at c
      have := eq_fn h1 c.1 vg vf; subst this; have := one_fn h1 c.2 vh; subst this
      exact constCase true (by boolfn) hres
    rw [if_neg c] at hres; clear c
    by_cases c : (decide (g = f.not) && isZero h) = true
    · rw [if_pos c] at hres
      simp only [Bool.and_eq_true, decide_eq_true_eq] at c
      have := not_fn h1 c.1 vg vf; subst this; have := zero_fn h1 c.2 vh; subst this
      exact constCase false (by boolfn) hres
    rw [if_neg c] at hres; clear c
    by_cases c : (isZero g && decide (h = f)) = true
    · rw [if_pos c] at hres
      simp only [Bool.and_eq_true, decide_eq_true_eq] at c
      have := zero_fn h1 c.1 vg; subst this; have := eq_fn h1 c.2 vh vf; subst this
      exact constCase false (by boolfn) hres
    rw [if_neg c] at hres; clear c
    cases hc : s.cache (.ite f g h) with
    | some res =>
      simp only [hc] at hres
      obtain ⟨a', b', c', ha', hb', hc', hr⟩ := hg.cache _ _ hc
      have e1 := vf.det h1 ha'; have e2 := vg.det h1 hb'; have e3 := vh.det h1 hc'
      subst e1; subst e2; subst e3
      exact viaRef hr rfl hres
    | none =>
    simp only [hc] at hres
    by_cases hi0 : s.var f = 0
    · rw [if_pos hi0] at hres; cases hres
    rw [if_neg hi0] at hres
    generalize hm : min3 (s.var f) (s.var g) (s.var h) = m at hres
    by_cases hm0 : m = 0
    · rw [if_pos hm0] at hres; cases hres
    rw [if_neg hm0] at hres
    have ml := min3_le (s.var f) (s.var g) (s.var h)
    rw [hm] at ml
    have sf : SuppGe φf m := supp_of_var hg vf (fun _ => ml.1)
    have sg : SuppGe φg m := supp_of_var hg vg ml.2.1
    have sh : SuppGe φh m := supp_of_var hg vh ml.2.2
    cases hcf : topCofactors s f m with
    | error e => simp [hcf] at hres
    | ok pf =>
    cases hcg : topCofactors s g m with
    | error e => simp [hcf, hcg] at hres
    | ok pg =>
    cases hch : topCofactors s h m with
    | error e => simp [hcf, hcg, hch] at hres
    | ok ph =>
    obtain ⟨f0, f1⟩ := pf; obtain ⟨g0, g1⟩ := pg; obtain ⟨h0, h1'⟩ := ph
    simp only [hcf, hcg, hch] at hres
    obtain ⟨vf0, vf1⟩ := topCofactors_spec hg vf sf hcf
    obtain ⟨vg0, vg1⟩ := topCofactors_spec hg vg sg hcg
    obtain ⟨vh0, vh1⟩ := topCofactors_spec hg vh sh hch
    have hsh := constB_shannon (ITE φf φg φh) m
    have cofITE : ∀ c, cof (ITE φf φg φh) m c = ITE (cof φf m c) (cof φg m c) (cof φh m c) := fun _ => rfl
    cases ht : iteConstant fuel s f1 g1 h1' with
    | error e => simp [ht] at hres
    | ok t =>
    have iht := ih _ _ _ _ _ _ _ _ hg vf1 vg1 vh1 ht
    cases t with
    | none =>
      simp only [ht] at hres
      refine direct none (fun b' => ⟨fun h => (by cases h), fun h => ?_⟩) hres
      have := ((hsh b').mp h).1
      rw [cofITE] at this
      have := (iht b').mpr this
      cases this
    | some T =>
      simp only [ht] at hres
      cases he : iteConstant fuel s f0 g0 h0 with
      | error e => simp [he] at hres
      | ok e =>
      have ihe := ih _ _ _ _ _ _ _ _ hg vf0 vg0 vh0 he
      simp only [he] at hres
      have hT : IsConstB (cof (ITE φf φg φh) m true) T := by rw [cofITE]; exact (iht T).mp rfl
      by_cases hne : e ≠ some T
      · rw [if_pos hne] at hres
        refine direct none (fun b' => ⟨fun h => (by cases h), fun h => ?_⟩) hres
        exfalso; apply hne
        obtain ⟨c1, c0⟩ := (hsh b').mp h
        have : b' = T := constB_unique c1 hT
        subst this
        rw [cofITE] at c0
        exact (ihe b').mpr c0
      · rw [if_neg hne] at hres
        have heq : e = some T := by simpa using hne
        have hE : IsConstB (cof (ITE φf φg φh) m false) T := by rw [cofITE]; exact (ihe T).mp heq
        refine direct (some T) (fun b' => ?_) hres
        constructor
        · intro h; cases h; exact (hsh T).mpr ⟨hT, hE⟩
        · intro h
          have := constB_unique ((hsh b').mp h).1 hT
          rw [this]

#print axioms iteConstant_spec
end P

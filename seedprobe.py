#!/usr/bin/env python3
"""seedprobe.py <patch.diff> <property> [more patches/properties ...]

Quick look at whether a seeded change would be seen, WITHOUT touching /repo: a scratch copy of the
repository and of the harness under /tmp/probe, the patch applied to the copy, the property's quick suites
(release profile only) run against the model driver.  Prints the oracle failures tagged with the property and
the number of model/implementation disagreements.  The authoritative run is `seedcheck.py` / `seedrun.py`
(which go through ./check on /repo); this is for when /repo is busy."""
import json
import os
import re
import shutil
import subprocess
import sys

V = os.path.dirname(os.path.abspath(__file__))
ROOT = "/tmp/probe"
DRIVER = os.path.join(V, "lean/.lake/build/bin/driver")


def sh(cmd, cwd=None, timeout=1800, env=None):
    e = dict(os.environ)
    e["CARGO_NET_OFFLINE"] = "true"
    if env:
        e.update(env)
    p = subprocess.run(cmd, cwd=cwd, shell=isinstance(cmd, str), stdout=subprocess.PIPE, stderr=subprocess.STDOUT, timeout=timeout, env=e)
    return p.returncode, p.stdout.decode("utf-8", "replace")


def suites_of(prop):
    src = open(os.path.join(V, "check")).read()
    m = re.search(r'    "%s": dict\(suites=\[([^\]]*)\]' % prop, src)
    names = re.findall(r'"([^"]+)"', m.group(1))
    return sorted({n.split("@")[0] for n in names})


def main():
    args = sys.argv[1:]
    pairs = list(zip(args[0::2], args[1::2]))
    shutil.rmtree(ROOT, ignore_errors=True)
    os.makedirs(ROOT)
    sh("rsync -a --exclude target --exclude .git /repo/ %s/repo/" % ROOT)
    sh("git -C /repo diff HEAD --quiet")  # (informational)
    sh("rsync -a --exclude target %s/harness/ %s/harness/" % (V, ROOT))
    ct = os.path.join(ROOT, "harness", "Cargo.toml")
    s = open(ct).read().replace('path = "/repo"', 'path = "%s/repo"' % ROOT).replace('path = "/repo/examples/eda"', 'path = "%s/repo/examples/eda"' % ROOT)
    open(ct, "w").write(s)
    # the copy must be the committed tree even if /repo currently has a patch applied
    sh("git -C /repo archive HEAD src examples Cargo.toml | tar -x -C %s/repo" % ROOT)
    for patch, prop in pairs:
        rc, out = sh("patch -p1 < %s" % os.path.abspath(patch), cwd=os.path.join(ROOT, "repo"))
        if rc != 0:
            print(prop, patch, "PATCH FAILED", out[-300:])
            continue
        try:
            rc, out = sh("cargo build --release --offline", cwd=os.path.join(ROOT, "harness"))
            if rc != 0:
                print(prop, patch, "BUILD FAILED", out[-500:])
                continue
            od = os.path.join(ROOT, "out")
            shutil.rmtree(od, ignore_errors=True)
            names = suites_of(prop)
            rc, out = sh([os.path.join(ROOT, "harness/target/release/bddv-harness"), "run", "--suites", ",".join(names), "--tier", "quick", "--seed", "1",
                          "--driver", DRIVER, "--outdir", od], env={"VERIF_ABSTRACT": "0", "VERIF_LOG": "0"})
            hits, dis, partial = [], 0, []
            for n in names:
                f = os.path.join(od, n + ".json")
                if not os.path.exists(f):
                    partial.append(n)
                    continue
                r = json.load(open(f))
                dis += len(r.get("disagreements", []))
                for o in r.get("oracle_failures", []):
                    if prop in o["props"]:
                        hits.append((n, o["line"][:60], o["msg"][:110]))
                if r.get("partial"):
                    partial.append(n)
            verdict = "INPUT" if hits else ("tie-only" if dis or partial else "MISSED")
            print(prop, os.path.basename(os.path.dirname(patch)) or patch, verdict, "| disagreements:", dis, "| died/hung suites:", partial, "|", hits[:2], flush=True)
        finally:
            sh("patch -R -p1 < %s" % os.path.abspath(patch), cwd=os.path.join(ROOT, "repo"))
    shutil.rmtree(ROOT, ignore_errors=True)


if __name__ == "__main__":
    main()

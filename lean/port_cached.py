import re,sys
def port(path, thm, key, spec_prop):
    s=open(path).read()
    a=s.index('theorem '+thm)
    m=re.search(r'\n(theorem|/-!|def|#print|end P)', s[a+10:])
    end=a+10+m.start()
    body=s[a:end]
    old_triv_re=re.compile(r"    have triv : ∀ \{x ψ\}, Valid s\.nodes x ψ → (.*?) →\n        \(\.ok \(s, x\) : Except Fault \(St × Ref\)\) = \.ok \(s', r\) →\n(.*?) := by\n      intro x ψ vx hspec heq\n      simp only \[Except\.ok\.injEq, Prod\.mk\.injEq\] at heq\n      obtain ⟨rfl, rfl⟩ := heq\n      exact ⟨hg, fun _ _ x => x, ψ, vx, hspec⟩", re.S)
    mm=old_triv_re.search(body)
    assert mm, 'triv not found'
    new_triv=("    have triv : ∀ {s0 : St} {x ψ}, Good s0 → s0.nodes = s.nodes → Valid s.nodes x ψ → "+mm.group(1)+" →\n"
      "        (.ok (s0, x) : Res (St × Ref)) = .ok (s', r) →\n"+mm.group(2)+" := by\n"
      "      intro s0 x ψ hg0 hn0 vx hspec heq\n      simp only [Except.ok.injEq, Prod.mk.injEq] at heq\n      obtain ⟨rfl, rfl⟩ := heq\n      rw [hn0]\n      exact ⟨hg0, fun _ _ x => x, ψ, vx, hspec⟩")
    body=body[:mm.start()]+new_triv+body[mm.end():]
    body=body.replace('exact triv ','exact triv hg rfl ').replace('refine triv ','refine triv hg rfl ')
    i=body.index('    cases hc : s.cache (%s) with'%key)
    head,tail=body[:i],body[i:]
    old_hit_start=tail.index('    | none =>\n    simp only [hc] at hres\n')
    hit=tail[:old_hit_start]
    hit=hit.replace('cases hc : s.cache (%s) with'%key,'cases hc : (s.cacheGet (%s)).2 with'%key)
    hit=hit.replace(':= hg.cache _ _ hc',':= hg.cacheHit hc')
    hit=hit.replace('exact triv hg rfl vh hspec hres','exact triv (hg.cacheGet _) rfl vh hspec hres')
    rest=tail[old_hit_start+len('    | none =>\n    simp only [hc] at hres\n'):]
    rest=re.sub(r'\bs\b','sX',rest).replace("sX'","s'")
    rest=re.sub(r'\bhg\b','hgX',rest)
    mid=('    | none =>\n    simp only [hc] at hres\n'
         '    have hgX := hg.cacheGet (%s)\n'
         '    generalize hsX : (s.cacheGet (%s)).1 = sX at hres hgX\n'
         '    have hnX : sX.nodes = s.nodes := by rw [← hsX]; rfl\n'
         '    rw [← hnX] at vf vg h1 ⊢\n'
         '    clear triv\n')%(key,key)
    s=s[:a]+head+hit+mid+rest+s[end:]
    open(path,'w').write(s)
if __name__=='__main__':
    port(sys.argv[1],sys.argv[2],sys.argv[3],None)

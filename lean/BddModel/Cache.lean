import BddModel.Hash
/-! `cache.rs`: direct-mapped cache with statistics counters. -/
namespace P
open Arr

structure Cache (κ ν : Type) where
  data : Array (Option (κ × ν))
  bitmask : UInt64
  hits : Nat
  faults : Nat
  misses : Nat

variable {κ ν : Type}

def Cache.new (bits : Nat) : Cache κ ν :=
  { data := Array.replicate (2 ^ bits) none, bitmask := UInt64.ofNat (2 ^ bits - 1),
    hits := 0, faults := 0, misses := 0 }

def Cache.clear (c : Cache κ ν) : Cache κ ν :=
  { c with data := Array.replicate c.data.size none }

variable [DecidableEq κ] [MyHash κ]

def Cache.index (c : Cache κ ν) (k : κ) : Nat := slotOf (MyHash.hash k) c.bitmask

/-- the pure content of a lookup (no counters) -/
def Cache.lookup (c : Cache κ ν) (k : κ) : Option ν :=
  match rd c.data (c.index k) with
  | some (k', v) => if k' = k then some v else none
  | none => none

/-- `get`: the lookup plus the statistics update -/
def Cache.get (c : Cache κ ν) (k : κ) : Cache κ ν × Option ν :=
  match rd c.data (c.index k) with
  | some (k', v) =>
    if k' = k then ({ c with hits := c.hits + 1 }, some v)
    else ({ c with faults := c.faults + 1, misses := c.misses + 1 }, none)
  | none => ({ c with misses := c.misses + 1 }, none)

def Cache.insert (c : Cache κ ν) (k : κ) (v : ν) : Cache κ ν :=
  { c with data := wr c.data (c.index k) (some (k, v)) }

end P

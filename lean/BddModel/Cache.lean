import BddModel.Hash
/-! `cache.rs`: direct-mapped cache with statistics counters. -/
namespace P
open Arr

structure Cache (κ ν : Type) where
  data : Array (Option (κ × ν))
  bitmask : UInt64
  hits : Nat
  faults : Nat
  misses : Nat

variable {κ ν : Type}

def Cache.new (bits : Nat) : Cache κ ν :=
  { data := Array.replicate (2 ^ bits) none, bitmask := UInt64.ofNat (2 ^ bits - 1),
    hits := 0, faults := 0, misses := 0 }

def Cache.clear (c : Cache κ ν) : Cache κ ν :=
  { c with data := Array.replicate c.data.size none }

variable [DecidableEq κ] [MyHash κ]

def Cache.index (c : Cache κ ν) (k : κ) : Nat := slotOf (MyHash.hash k) c.bitmask

/-- the pure content of a lookup (no counters) -/
def Cache.lookup (c : Cache κ ν) (k : κ) : Option ν :=
  match rd c.data (c.index k) with
  | some (k', v) => if k' = k then some v else none
  | none => none

/-- `get`: the lookup plus the statistics update -/
def Cache.get (c : Cache κ ν) (k : κ) : Cache κ ν × Option ν :=
  match rd c.data (c.index k) with
  | some (k', v) =>
    if k' = k then ({ c with hits := c.hits + 1 }, some v)
    else ({ c with faults := c.faults + 1, misses := c.misses + 1 }, none)
  | none => ({ c with misses := c.misses + 1 }, none)

def Cache.insert (c : Cache κ ν) (k : κ) (v : ν) : Cache κ ν :=
  { c with data := wr c.data (c.index k) (some (k, v)) }

/-! ### repeated operations (for histories with 2^32 and more repetitions of one call)

`insertN`, `clearN`, `getN` are the n-fold iterates; the `…Fast` versions are what the driver runs;
`BddProofs/CacheRep.lean` proves them equal. -/

def Cache.insertN (c : Cache κ ν) (k : κ) (v : ν) : Nat → Cache κ ν
  | 0 => c
  | n + 1 => (c.insertN k v n).insert k v

def Cache.insertNFast (c : Cache κ ν) (k : κ) (v : ν) (n : Nat) : Cache κ ν :=
  if n = 0 then c else c.insert k v

def Cache.clearN (c : Cache κ ν) : Nat → Cache κ ν
  | 0 => c
  | n + 1 => (c.clearN n).clear

def Cache.clearNFast (c : Cache κ ν) (n : Nat) : Cache κ ν := if n = 0 then c else c.clear

/-- n lookups of the same key: the state after the last one and the (common) answer of all of them -/
def Cache.getN (c : Cache κ ν) (k : κ) : Nat → Cache κ ν × Option ν
  | 0 => (c, c.lookup k)
  | n + 1 => ((c.getN k n).1.get k)

def Cache.getNFast (c : Cache κ ν) (k : κ) (n : Nat) : Cache κ ν × Option ν :=
  match rd c.data (c.index k) with
  | some (k', v) =>
    if k' = k then ({ c with hits := c.hits + n }, some v)
    else ({ c with faults := c.faults + n, misses := c.misses + n }, none)
  | none => ({ c with misses := c.misses + n }, none)

end P

import BddModel.Bdd
/-! `sat.rs`, `paths.rs`, `bdd.rs::to_bracket_string`, `dot.rs`: queries and exports. -/
namespace P
open Arr

/-! ### one_sat, paths -/

/-- `_one_sat`: then-branch first -/
def oneSat : Nat → St → Ref → List Int → Option (List Int)
  | 0, _, _, _ => none
  | fuel + 1, s, r, pre =>
    if isZero r then none else
    if isOne r then some pre else
    let v : Int := (s.var r : Nat)
    match oneSat fuel s (s.highNode r) (pre ++ [v]) with
    | some p => some p
    | none => oneSat fuel s (s.lowNode r) (pre ++ [-v])

/-- recursive enumeration in the order of the explicit-stack iterator (else-branch first) -/
def pathsRec : Nat → St → Ref → List Int → List (List Int)
  | 0, _, _, _ => []
  | fuel + 1, s, r, pre =>
    if isZero r then [] else
    if isOne r then [pre] else
    let v : Int := (s.var r : Nat)
    pathsRec fuel s (s.lowNode r) (pre ++ [-v]) ++ pathsRec fuel s (s.highNode r) (pre ++ [v])

/-- `BddPaths::next` run to exhaustion; head of the list = top of the stack; `none` = out of fuel -/
def pathsIter : Nat → St → List (Ref × List Int) → List (List Int) → Option (List (List Int))
  | 0, _, _, _ => none
  | _ + 1, _, [], acc => some acc.reverse
  | fuel + 1, s, (r, pre) :: rest, acc =>
    if isZero r then pathsIter fuel s rest acc else
    if isOne r then pathsIter fuel s rest (pre :: acc) else
    let v : Int := (s.var r : Nat)
    pathsIter fuel s ((s.lowNode r, pre ++ [-v]) :: (s.highNode r, pre ++ [v]) :: rest) acc

def paths (fuel : Nat) (s : St) (f : Ref) : Option (List (List Int)) := pathsIter fuel s [(f, [])] []

/-- the same iterator with every prefix kept in reverse (literals are consed on; a cube is reversed
once, when it is yielded), so that a diagram of depth d costs O(d) per path instead of O(d²); the
compiler uses it through `paths_eq_fast` (`@[csimp]`), the theorems are about `paths` -/
def pathsIterFast : Nat → St → List (Ref × List Int) → List (List Int) → Option (List (List Int))
  | 0, _, _, _ => none
  | _ + 1, _, [], acc => some acc.reverse
  | fuel + 1, s, (r, pr) :: rest, acc =>
    if isZero r then pathsIterFast fuel s rest acc else
    if isOne r then pathsIterFast fuel s rest (pr.reverse :: acc) else
    let v : Int := (s.var r : Nat)
    pathsIterFast fuel s ((s.lowNode r, (-v) :: pr) :: (s.highNode r, v :: pr) :: rest) acc

def pathsFast (fuel : Nat) (s : St) (f : Ref) : Option (List (List Int)) := pathsIterFast fuel s [(f, [])] []

theorem pathsIter_eq_fast (s : St) : ∀ (fuel : Nat) (stack : List (Ref × List Int)) (acc : List (List Int)),
    pathsIter fuel s stack acc = pathsIterFast fuel s (stack.map (fun p => (p.1, p.2.reverse))) acc := by
  intro fuel
  induction fuel with
  | zero => intro stack acc; rfl
  | succ n ih =>
    intro stack acc
    cases stack with
    | nil => rfl
    | cons p rest =>
      obtain ⟨r, pre⟩ := p
      simp only [List.map_cons, pathsIter, pathsIterFast]
      by_cases hz : isZero r = true
      · simp only [hz, if_true]; exact ih rest acc
      · simp only [hz]
        by_cases ho : isOne r = true
        · simp only [ho, if_true, List.reverse_reverse]; exact ih rest (pre :: acc)
        · simp only [ho]
          have := ih ((s.lowNode r, pre ++ [-((s.var r : Nat) : Int)]) :: (s.highNode r, pre ++ [((s.var r : Nat) : Int)]) :: rest) acc
          simpa [List.reverse_append] using this

@[csimp] theorem paths_eq_fast : @paths = @pathsFast := by
  funext fuel s f
  unfold paths pathsFast
  simpa using pathsIter_eq_fast s fuel [(f, [])] []

/-! ### sat_count (`BigUint` = `Nat`; memo per signed handle) -/

abbrev CMemo := List (Ref × Nat)

def satCountRec : Nat → St → Nat → Ref → CMemo → Except Fault (Nat × CMemo)
  | 0, _, _, _, _ => .error .outOfFuel
  | fuel + 1, s, max, r, memo =>
    if isZero r then .ok (0, memo) else
    if isOne r then .ok (max, memo) else
    match memo.lookup r with
    | some c => .ok (c, memo)
    | none =>
      match satCountRec fuel s max (s.low r.idx) memo with
      | .error e => .error e
      | .ok (cl, memo1) =>
        match satCountRec fuel s max (s.high r.idx) memo1 with
        | .error e => .error e
        | .ok (ch, memo2) =>
          let c := (cl + ch) / 2
          let c := if r.neg then max - c else c
          .ok (c, (r, c) :: memo2)

def satCount (fuel : Nat) (s : St) (f : Ref) (numVars : Nat) : Except Fault Nat :=
  match satCountRec fuel s (2 ^ numVars) f [] with
  | .error e => .error e
  | .ok (c, _) => .ok c

/-! ### to_bracket_string -/

inductive BTree where
  | bot | top
  | ref (neg : Bool) (idx : Nat)
  | node (neg : Bool) (idx var : Nat) (hi lo : BTree)

/-- `node_to_str` with its `visited` set -/
def nodeToStr : Nat → St → Ref → List Nat → BTree × List Nat
  | 0, _, _, vis => (.bot, vis)
  | fuel + 1, s, r, vis =>
    if isZero r then (.bot, vis) else
    if isOne r then (.top, vis) else
    if vis.contains r.idx then (.ref r.neg r.idx, vis) else
    let p1 := nodeToStr fuel s (s.high r.idx) (r.idx :: vis)
    let p2 := nodeToStr fuel s (s.low r.idx) p1.2
    (.node r.neg r.idx (s.var r) p1.1 p2.1, p2.2)

def BTree.render : BTree → String
  | .bot => "⊥"
  | .top => "⊤"
  | .ref neg idx => (Ref.mk idx neg).show
  | .node neg idx var hi lo =>
    (Ref.mk idx neg).show ++ ":(x" ++ toString var ++ ", " ++ hi.render ++ ", " ++ lo.render ++ ")"

def toBracketString (fuel : Nat) (s : St) (f : Ref) : String := (nodeToStr fuel s f []).1.render

/-! ### to_dot — structured value, then the exact text lines -/

inductive LowKind where
  | zero                 -- `id -- 0 [style=dashed]`
  | compl (t : Nat)      -- `id -- t [style=dotted, dir=forward, arrowhead=odot]`
  | reg (t : Nat)        -- `id -- t [style=dashed]`
deriving DecidableEq

structure DotRec where
  id : Nat
  var : Nat              -- `id [label=<x<SUB>var</SUB>>]`, grouped by level
  hi : Nat               -- `id -- hi;` (solid; the code asserts the then-edge is regular)
  low : LowKind

inductive RootKind where
  | zero                 -- `r_i -- 0;`
  | compl (t : Nat)      -- `r_i -- t [dir=forward, arrowhead=odot];`
  | reg (t : Nat)        -- `r_i -- t;`

def dotNode (s : St) (id : Nat) : DotRec :=
  let lo := s.low id
  { id := id, var := s.var ⟨id, false⟩, hi := (s.high id).idx,
    low := if lo.neg then (if lo.idx = 1 then .zero else .compl lo.idx) else .reg lo.idx }

def dotRoot (r : Ref) : RootKind :=
  if r.neg then (if r.idx = 1 then .zero else .compl r.idx) else .reg r.idx

/-- node records for every descendant except the terminal, and the roots -/
def toDot (s : St) (roots : List Ref) : List DotRec × List RootKind :=
  (((descendants s roots).filter (· ≠ 1)).map (dotNode s), roots.map dotRoot)

def insertSorted (x : Nat) : List Nat → List Nat
  | [] => [x]
  | y :: ys => if x < y then x :: y :: ys else if x = y then y :: ys else y :: insertSorted x ys

/-- the distinct levels in ascending order (`BTreeMap` iteration order) -/
def levelsOf (recs : List DotRec) : List Nat := recs.foldl (fun acc r => insertSorted r.var acc) []

def enumFrom {α : Type} : Nat → List α → List (Nat × α)
  | _, [] => []
  | i, x :: xs => (i, x) :: enumFrom (i + 1) xs

/-- the text, line by line (the Rust side iterates a `HashSet`, so the order of the lines inside a
`rank=same` block and inside the edge section is unspecified; the comparison sorts those) -/
def renderDotLines (s : St) (roots : List Ref) : List String :=
  let (recs, rks) := toDot s roots
  let header := ["graph {", "node [shape=circle, fixedsize=true];", "{ rank=sink",
    "0 [shape=square, label=\"0\"];", "1 [shape=square, label=\"1\"];", "}"]
  let levels := (levelsOf recs).flatMap (fun lv =>
    ["{ rank=same"] ++
    ((recs.filter (fun r => r.var == lv)).map (fun r =>
      toString r.id ++ " [label=<x<SUB>" ++ toString r.var ++ "</SUB>>];")) ++ ["}"])
  let edges := recs.flatMap (fun r =>
    [toString r.id ++ " -- " ++ toString r.hi ++ ";",
     match r.low with
     | .zero => toString r.id ++ " -- 0 [style=dashed];"
     | .compl t => toString r.id ++ " -- " ++ toString t ++ " [style=dotted, dir=forward, arrowhead=odot];"
     | .reg t => toString r.id ++ " -- " ++ toString t ++ " [style=dashed];"])
  let rootDecls := ["{ rank=source"] ++
    ((enumFrom 0 roots).map (fun (i, r) => "r" ++ toString i ++ " [shape=rect, label=\"" ++ r.show ++ "\"];")) ++ ["}"]
  let rootEdges := (enumFrom 0 rks).map (fun (i, k) =>
    match k with
    | .zero => "r" ++ toString i ++ " -- 0;"
    | .compl t => "r" ++ toString i ++ " -- " ++ toString t ++ " [dir=forward, arrowhead=odot];"
    | .reg t => "r" ++ toString i ++ " -- " ++ toString t ++ ";")
  header ++ levels ++ edges ++ rootDecls ++ rootEdges ++ ["}"]

/-- `to_dot`; `assert!(!high.is_negated())` is the only way it can fail -/
def renderDot (s : St) (roots : List Ref) : Except Fault (List String) :=
  if ((descendants s roots).filter (· ≠ 1)).any (fun id => (s.high id).neg) then .error .assertion
  else .ok (renderDotLines s roots)

end P

import BddModel.Bdd
import BddModel.Query
import BddModel.Expr
/-! The requests the line-protocol driver executes on a manager, as a datatype, with the executable
precondition the driver checks before it runs one (`Req.ok`) and the dispatcher (`exec`).

The parser in `Main.lean` turns a line into a `Req`; `exec` refuses a request whose precondition fails
(the driver answers `bad-op` / `unordered`, which the implementation never does) and otherwise calls the
model function.  `BddProofs/DriverGood.lean` proves that every request `exec` accepts satisfies the
hypotheses of the property theorems: whatever lines the driver is fed, its manager only ever goes through
states that are reachable in the sense of `ReachableF`. -/
namespace P
open Arr

/-- a handle the driver may pass on: not the `Ref::ZERO` sentinel, and the cell is occupied -/
def liveB (s : St) (r : Ref) : Bool := r.idx != 0 && rd s.storage.occs r.idx

/-- `mk_node(v, lo, hi)` has a precondition the code does not check: `v` lies above both children -/
def aboveB (s : St) (v : Nat) (r : Ref) : Bool := isTerminal r || (r.idx != 0 && decide (v < s.var r))

def Expr.termsLive (s : St) : Expr → Bool
  | .term r => liveB s r
  | .not a => a.termsLive s
  | .and a b => a.termsLive s && b.termsLive s
  | .or a b => a.termsLive s && b.termsLive s
  | .xor a b => a.termsLive s && b.termsLive s

inductive Req
  | var (v : Nat)
  | node (v : Nat) (lo hi : Ref)
  | ite (a b c : Ref)
  | and (a b : Ref) | or (a b : Ref) | xor (a b : Ref) | eq (a b : Ref) | imply (a b : Ref)
  | andMany (rs : List Ref) | orMany (rs : List Ref)
  | cube (lits : List Lit) | clause (lits : List Lit)
  | subst (f : Ref) (v : Nat) (b : Bool)
  | substMulti (f : Ref) (vals : List Lit)
  | cofCube (f : Ref) (cube : List Lit)
  | compose (f : Ref) (v : Nat) (g : Ref)
  | constrain (f g : Ref) | restrict (f g : Ref)
  | expr (e : Expr)
  | itec (a b c : Ref) | implies (a b : Ref)
  | size (f : Ref)
  | gc (roots : List Ref)
  | heldgc (which : Nat) (roots : List Ref)

/-- the executable precondition -/
def Req.ok (s : St) : Req → Bool
  | .var _ => true
  | .node v lo hi => liveB s lo && liveB s hi && (v == 0 || (aboveB s v lo && aboveB s v hi))
  | .ite a b c => liveB s a && liveB s b && liveB s c
  | .and a b | .or a b | .xor a b | .eq a b | .imply a b => liveB s a && liveB s b
  | .andMany rs | .orMany rs => rs.all (liveB s)
  | .cube lits | .clause lits => decide ((lits.map (·.1)).Nodup)
  | .subst f _ _ | .substMulti f _ => liveB s f
  | .cofCube f c => liveB s f && decide (c.Pairwise (fun a b => a.1 < b.1))
  | .compose f _ g => liveB s f && liveB s g
  | .constrain f g | .restrict f g => liveB s f && liveB s g
  | .expr e => e.termsLive s
  | .itec a b c => liveB s a && liveB s b && liveB s c
  | .implies a b => liveB s a && liveB s b
  | .size f => liveB s f
  | .gc roots => roots.all (liveB s)
  | .heldgc _ roots => roots.all (liveB s)

/-- what a request returns (besides the state) -/
inductive Out
  | handle (x : Res (St × Ref))
  | optBool (x : Res (St × Option Bool))
  | bool (x : Res (St × Bool))
  | nat (x : St × Nat)
  | unit (x : Res St)
  /-- the request was refused: its precondition does not hold in this state, which is handed back -/
  | refused (s : St)

def dropMemo {μ : Type} (x : Res (St × Ref × μ)) : Res (St × Ref) :=
  match x with
  | .ok (s', r, _) => .ok (s', r)
  | .error e => .error e

/-- run an accepted request -/
def runReq (fuel : Nat) (s : St) : Req → Out
  | .var v => .handle (mkVar s v)
  | .node v lo hi => .handle (mkNode s v lo hi)
  | .ite a b c => .handle (applyIte fuel s a b c)
  | .and a b => .handle (applyAnd fuel s a b)
  | .or a b => .handle (applyOr fuel s a b)
  | .xor a b => .handle (applyXor fuel s a b)
  | .eq a b => .handle (applyEq fuel s a b)
  | .imply a b => .handle (applyImply fuel s a b)
  | .andMany rs => .handle (andMany fuel s Ref.one rs)
  | .orMany rs => .handle (orMany fuel s Ref.zero rs)
  | .cube lits => .handle (cube s lits)
  | .clause lits => .handle (clause s lits)
  | .subst f v b => .handle (dropMemo (substitute fuel s f v b []))
  | .substMulti f vals => .handle (dropMemo (substMulti fuel s f vals []))
  | .cofCube f c => .handle (dropMemo (cofCube fuel s f c []))
  | .compose f v g => .handle (composeTop fuel s f v g)
  | .constrain f g => .handle (constrain fuel s f g)
  | .restrict f g => .handle (restrict fuel s f g)
  | .expr e => .handle (e.eval fuel s)
  | .itec a b c => .optBool (iteConstant fuel s a b c)
  | .implies a b => .bool (isImplies fuel s a b)
  | .size f => .nat (size s f)
  | .gc roots => .unit (collectGarbage s roots)
  | .heldgc w _ => .unit (collectGarbageHeld w s)

/-- the dispatcher: a request is run only if its precondition holds in the current state (the state is
passed on linearly: the refused case hands it back instead of keeping a second reference alive) -/
def exec (fuel : Nat) (s : St) (r : Req) : Out := if r.ok s then runReq fuel s r else .refused s

/-- the state an outcome leaves -/
def Out.state : Out → St
  | .handle (.ok (s, _)) | .handle (.error (_, s)) => s
  | .optBool (.ok (s, _)) | .optBool (.error (_, s)) => s
  | .bool (.ok (s, _)) | .bool (.error (_, s)) => s
  | .nat (s, _) => s
  | .unit (.ok s) | .unit (.error (_, s)) => s
  | .refused s => s

end P

import BddModel.Eda
/-! Linear-time implementations of `A.fromBoxed` and `A.collapse`.

`A.flatten` appends to the end of a `List` and calls `List.length` at every step; `A.collapse` threads
the result store as a chain of closures.  Both are quadratic when run.  The functions below compute
the same values with an output `Array` / a two-list queue, and with an `Array (Option ρ)` store that
is updated in place.  Compiled code uses them through the two `@[csimp]` equations at the end (kernel
checked, no `implemented_by`); every theorem elsewhere stays about the definitions in `Eda.lean`. -/
namespace A

variable {τ ρ : Type}

/-! ### `fromBoxed` -/

/-- `flatten` with the output in an array and the frontier as a queue `front ++ back.reverse` whose
length is `len`. -/
def flattenFast : Nat → Array (Layer τ Nat) → List (Tree τ) → List (Tree τ) → Nat → Array (Layer τ Nat)
  | 0, arr, _, _, _ => arr
  | fuel + 1, arr, front, back, len =>
    match front with
    | t :: rest =>
      flattenFast fuel (arr.push (t.layer (arr.size + len))) rest (t.children.reverse ++ back)
        (len - 1 + t.children.length)
    | [] =>
      match back.reverse with
      | [] => arr
      | t :: rest =>
        flattenFast fuel (arr.push (t.layer (arr.size + len))) rest t.children.reverse
          (len - 1 + t.children.length)

def fromBoxedFast (e : Tree τ) : List (Layer τ Nat) := (flattenFast e.size #[] [e] [] 1).toList

theorem flattenFast_eq (fuel : Nat) : ∀ (arr : Array (Layer τ Nat)) (front back : List (Tree τ)) (len : Nat),
    len = (front ++ back.reverse).length →
    (flattenFast fuel arr front back len).toList = flatten fuel arr.toList (front ++ back.reverse) := by
  induction fuel with
  | zero => intro arr front back len _; simp [flattenFast, flatten]
  | succ fuel ih =>
    intro arr front back len hlen
    cases front with
    | cons t rest =>
      have h := ih (arr.push (t.layer (arr.size + len))) rest (t.children.reverse ++ back)
        (len - 1 + t.children.length) (by simp [hlen]; omega)
      simp only [flattenFast, List.cons_append, flatten]
      rw [h]
      simp [hlen, List.append_assoc, Nat.add_assoc]
    | nil =>
      cases hb : back.reverse with
      | nil => simp [flattenFast, hb, flatten]
      | cons t rest =>
        have h := ih (arr.push (t.layer (arr.size + len))) rest t.children.reverse
          (len - 1 + t.children.length) (by simp [hlen, hb])
        simp only [flattenFast, hb, List.nil_append, flatten]
        rw [h]
        simp [hlen, hb, Nat.add_assoc]

/-! ### `collapse` -/

/-- the function view of an array store -/
def view (a : Array (Option ρ)) : Results ρ := fun j => a.getD j none

def takeFast (a : Array (Option ρ)) (i : Nat) : Option (ρ × Array (Option ρ)) :=
  match a.getD i none with
  | some x => some (x, a.setIfInBounds i none)
  | none => none

def takeManyFast : Array (Option ρ) → List Nat → Option (List ρ × Array (Option ρ))
  | a, [] => some ([], a)
  | a, i :: is =>
    match takeFast a i with
    | some (x, a1) =>
      match takeManyFast a1 is with
      | some (xs, a2) => some (x :: xs, a2)
      | none => none
    | none => none

def processOneFast (alg : Layer τ ρ → ρ) (L : Layer τ Nat) (i : Nat) (a : Array (Option ρ)) :
    Option (Array (Option ρ)) :=
  match takeManyFast a L.idxs with
  | some (xs, a') =>
    match L.rebuild xs with
    | some L' => some (a'.setIfInBounds i (some (alg L')))
    | none => none
  | none => none

/-- the reverse loop, tail recursive, over the reversed list; `p` is the length of the list, so the
head has index `p - 1` -/
def collapseRev (alg : Layer τ ρ → ρ) : List (Layer τ Nat) → Nat → Array (Option ρ) → Option (Array (Option ρ))
  | [], _, a => some a
  | L :: rest, p, a =>
    match processOneFast alg L (p - 1) a with
    | some a' => collapseRev alg rest (p - 1) a'
    | none => none

def collapseFast (alg : Layer τ ρ → ρ) (exprs : List (Layer τ Nat)) : Option ρ :=
  match exprs with
  | [] => none
  | _ =>
    let n := exprs.length
    (collapseRev alg exprs.reverse n (Array.replicate n none)).bind (fun a => a.getD 0 none)

theorem view_clear (a : Array (Option ρ)) (i : Nat) :
    view (a.setIfInBounds i none) = fun j => if j = i then none else view a j := by
  funext j
  simp only [view, Array.getD_eq_getD_getElem?, Array.getElem?_setIfInBounds]
  by_cases hji : j = i
  · subst hji; by_cases hj : j < a.size <;> simp [hj]
  · have hij : ¬i = j := fun h => hji h.symm
    simp [hji, hij]

theorem view_store (a : Array (Option ρ)) (i : Nat) (v : ρ) (hi : i < a.size) :
    view (a.setIfInBounds i (some v)) = fun j => if j = i then some v else view a j := by
  funext j
  simp only [view, Array.getD_eq_getD_getElem?, Array.getElem?_setIfInBounds]
  by_cases hji : j = i
  · subst hji; simp [hi]
  · have hij : ¬i = j := fun h => hji h.symm
    simp [hji, hij]

theorem view_replicate (n : Nat) : view (Array.replicate n (none : Option ρ)) = fun _ => none := by
  funext j
  simp only [view, Array.getD_eq_getD_getElem?, Array.getElem?_replicate]
  by_cases hj : j < n <;> simp [hj]

/-- lift `view` over the store component of a result -/
def liftView {α : Type} : Option (α × Array (Option ρ)) → Option (α × Results ρ)
  | some (x, a) => some (x, view a)
  | none => none

theorem take_view (a : Array (Option ρ)) (i : Nat) : take (view a) i = liftView (takeFast a i) := by
  unfold take takeFast
  show (match a.getD i none with
    | some x => some (x, fun j => if j = i then none else view a j)
    | none => none) = _
  cases a.getD i none with
  | none => rfl
  | some x => simp [liftView, view_clear]

theorem takeFast_size {a a' : Array (Option ρ)} {i : Nat} {x : ρ} (h : takeFast a i = some (x, a')) :
    a'.size = a.size := by
  unfold takeFast at h
  cases hx : a.getD i none with
  | none => simp [hx] at h
  | some y => simp [hx] at h; rw [← h.2]; simp

theorem takeMany_view (is : List Nat) : ∀ a : Array (Option ρ),
    takeMany (view a) is = liftView (takeManyFast a is) := by
  induction is with
  | nil => intro a; rfl
  | cons i is ih =>
    intro a
    simp only [takeMany, takeManyFast, take_view]
    cases takeFast a i with
    | none => rfl
    | some xa =>
      obtain ⟨x, a1⟩ := xa
      simp only [liftView, ih]
      cases takeManyFast a1 is with
      | none => rfl
      | some ya => rfl

theorem takeManyFast_size (is : List Nat) : ∀ {a a' : Array (Option ρ)} {xs : List ρ},
    takeManyFast a is = some (xs, a') → a'.size = a.size := by
  induction is with
  | nil => intro a a' xs h; simp [takeManyFast] at h; rw [h.2]
  | cons i is ih =>
    intro a a' xs h
    simp only [takeManyFast] at h
    cases h1 : takeFast a i with
    | none => simp [h1] at h
    | some xa =>
      obtain ⟨x, a1⟩ := xa
      simp only [h1] at h
      cases h2 : takeManyFast a1 is with
      | none => simp [h2] at h
      | some ya =>
        obtain ⟨ys, a2⟩ := ya
        simp [h2] at h
        rw [← h.2, ih h2, takeFast_size h1]

theorem processOne_view (alg : Layer τ ρ → ρ) (L : Layer τ Nat) (i : Nat) (a : Array (Option ρ))
    (hi : i < a.size) :
    processOne alg L i (view a) = (processOneFast alg L i a).map view := by
  simp only [processOne, processOneFast, takeMany_view]
  cases h : takeManyFast a L.idxs with
  | none => rfl
  | some xa =>
    obtain ⟨xs, a'⟩ := xa
    simp only [liftView]
    cases L.rebuild xs with
    | none => rfl
    | some L' =>
      simp only [Option.map_some]
      rw [view_store _ _ _ (by rw [takeManyFast_size _ h]; exact hi)]

theorem processOneFast_size {alg : Layer τ ρ → ρ} {L : Layer τ Nat} {i : Nat} {a a' : Array (Option ρ)}
    (h : processOneFast alg L i a = some a') : a'.size = a.size := by
  simp only [processOneFast] at h
  cases h1 : takeManyFast a L.idxs with
  | none => simp [h1] at h
  | some xa =>
    obtain ⟨xs, a1⟩ := xa
    simp only [h1] at h
    cases h2 : L.rebuild xs with
    | none => simp [h2] at h
    | some L' =>
      simp [h2] at h
      rw [← h, Array.size_setIfInBounds, takeManyFast_size _ h1]

theorem collapseSuffix_append (alg : Layer τ ρ → ρ) (l1 l2 : List (Layer τ Nat)) : ∀ (p : Nat) (r : Results ρ),
    collapseSuffix alg (l1 ++ l2) p r =
      (collapseSuffix alg l2 (p + l1.length) r).bind (collapseSuffix alg l1 p) := by
  induction l1 with
  | nil => intro p r; simp [collapseSuffix]
  | cons L l1 ih =>
    intro p r
    simp only [List.cons_append, collapseSuffix, ih, List.length_cons]
    rw [show p + 1 + l1.length = p + (l1.length + 1) by omega]
    cases collapseSuffix alg l2 (p + (l1.length + 1)) r with
    | none => rfl
    | some r1 => rfl

theorem collapseRev_eq (alg : Layer τ ρ → ρ) (rev : List (Layer τ Nat)) : ∀ (p : Nat) (a : Array (Option ρ)),
    p = rev.length → rev.length ≤ a.size →
    collapseSuffix alg rev.reverse 0 (view a) = (collapseRev alg rev p a).map view := by
  induction rev with
  | nil => intro p a _ _; simp [collapseSuffix, collapseRev]
  | cons L rest ih =>
    intro p a hp hsz
    subst hp
    simp only [List.length_cons] at hsz
    simp only [List.reverse_cons, collapseSuffix_append, collapseSuffix, List.length_reverse,
      Nat.zero_add, List.length_cons, Nat.add_sub_cancel, collapseRev]
    rw [processOne_view alg L rest.length a (by omega)]
    cases h : processOneFast alg L rest.length a with
    | none => rfl
    | some a' =>
      have hs := processOneFast_size h
      simp only [Option.map_some, Option.bind_some]
      exact ih rest.length a' rfl (by omega)

@[csimp] theorem fromBoxed_eq_fast : @fromBoxed = @fromBoxedFast := by
  funext τ e
  simp [fromBoxed, fromBoxedFast, flattenFast_eq]

@[csimp] theorem collapse_eq_fast : @collapse = @collapseFast := by
  funext τ ρ alg exprs
  cases exprs with
  | nil => rfl
  | cons L tail =>
    have hv : (fun _ => none : Results ρ) = view (Array.replicate (L :: tail).length none) := by
      exact (view_replicate _).symm
    have h := collapseRev_eq alg (L :: tail).reverse (L :: tail).length
      (Array.replicate (L :: tail).length none) (by simp) (by simp)
    rw [List.reverse_reverse] at h
    simp only [collapse, collapseFast]
    rw [hv, h]
    cases collapseRev alg (L :: tail).reverse (L :: tail).length (Array.replicate (L :: tail).length none) with
    | none => rfl
    | some a => rfl

end A

#print axioms A.fromBoxed_eq_fast
#print axioms A.collapse_eq_fast

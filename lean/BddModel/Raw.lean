import BddModel.Basic
/-! `raw.rs`: open-addressing table with linear probing and tombstones.  A slot is FREE, DEAD or
holds `(status, key, value)`; the caller supplies `hash` and an equality closure, modelled as a
key with `hashOf : κ → Nat` (a `u64`) and `eq = (· == key)`.

Outcomes: `ok`, `hang` (a probe loop ran through the whole table without meeting a FREE slot —
the Rust loop would spin forever), `ub` (read of an uninitialised slot, `unwrap_unchecked` on
`None`, `get_unchecked` out of range), `panic` (`debug_assert!` in a debug build, `unreachable!`). -/
namespace R
open Arr

inductive Slot (κ ν : Type) where
  | free | dead
  | full (st : Nat) (k : κ) (v : ν)

instance {κ ν : Type} : Inhabited (Slot κ ν) := ⟨.free⟩

inductive Out (α : Type) where
  | ok (a : α) | hang | ub | panic

structure Raw (κ ν : Type) where
  slots : Array (Slot κ ν)
  len : Nat
  free : Nat

variable {κ ν : Type} [DecidableEq κ]

def Slot.isFree : Slot κ ν → Bool | .free => true | _ => false
def Slot.isDead : Slot κ ν → Bool | .dead => true | _ => false
def Slot.isFull : Slot κ ν → Bool | .full .. => true | _ => false

def Raw.new : Raw κ ν := ⟨#[], 0, 0⟩
def Raw.cap (t : Raw κ ν) : Nat := t.slots.size
def Raw.slot (t : Raw κ ν) (i : Nat) : Slot κ ν := rd t.slots i
def Raw.setSlot (t : Raw κ ν) (i : Nat) (s : Slot κ ν) : Raw κ ν := { t with slots := wr t.slots i s }

def emptyRaw (cap : Nat) : Raw κ ν := ⟨Array.replicate cap .free, 0, cap⟩

def isPow2 (n : Nat) : Bool := n != 0 && (n &&& (n - 1)) == 0

/-- `usize::next_power_of_two` -/
def nextPow2 (n : Nat) : Nat :=
  let rec go : Nat → Nat → Nat
    | 0, p => p
    | fuel + 1, p => if p ≥ n then p else go fuel (2 * p)
  go 64 1

section
variable (hashOf : κ → Nat) (dbg : Bool)

/-- `hash & (u64::MAX >> 1)` -/
def status (k : κ) : Nat := hashOf k % 2 ^ 63
/-- `(hash as usize) & mask` for a power-of-two capacity -/
def home (cap : Nat) (k : κ) : Nat := hashOf k % cap

/-- inner loop of `reserve_rehash`: probe from the home of the *stored status* to the first FREE slot -/
def placeLoop (new : Raw κ ν) (st : Nat) (k : κ) (v : ν) : Nat → Nat → Out (Raw κ ν)
  | 0, _ => .hang
  | fuel + 1, idx =>
    match new.slot idx with
    | .free => .ok (new.setSlot idx (.full st k v))
    | _ => placeLoop new st k v fuel ((idx + 1) % new.cap)

/-- outer loop of `reserve_rehash` over the old slots -/
def moveAll (old : Raw κ ν) : List Nat → Raw κ ν → Out (Raw κ ν)
  | [], new => .ok new
  | i :: is, new =>
    match old.slot i with
    | .full st k v =>
      match placeLoop new st k v new.cap (st % new.cap) with
      | .ok n => moveAll old is n
      | .hang => .hang
      | .ub => .ub
      | .panic => .panic
    | _ => moveAll old is new

def reserveRehash (t : Raw κ ν) (additional : Nat) : Out (Raw κ ν) :=
  let newCap := nextPow2 (t.len + additional)
  match moveAll t (List.range t.cap) (emptyRaw newCap) with
  | .ok n => .ok { n with len := t.len, free := newCap - t.len }
  | .hang => .hang
  | .ub => .ub
  | .panic => .panic

def reserve (t : Raw κ ν) (additional : Nat) : Out (Raw κ ν) :=
  if t.free < additional then reserveRehash t additional else .ok t

/-- `reserve` including the one failure the allocator can raise as an ordinary panic:
`Vec::with_capacity(new_capacity)` panics with "capacity overflow" when `new_capacity * size_of::<Slot>()`
exceeds `isize::MAX`; nothing has been touched at that point.  (Requests below that limit but beyond
the machine's memory abort the process instead of unwinding and are outside every history; requests
with `len + additional ≥ 2^63` overflow `usize` arithmetic and are not generated.) -/
def reserveChecked (slotBytes : Nat) (t : Raw κ ν) (additional : Nat) : Out (Raw κ ν) :=
  if t.free < additional ∧ nextPow2 (t.len + additional) * slotBytes > 2 ^ 63 - 1 then .panic
  else reserve t additional

/-- `clear`: resets statuses up to the last occupied slot only; `free` is left as it is -/
def clearLoop : List Nat → Raw κ ν → Out (Raw κ ν)
  | [], _ => .panic      -- `unreachable!()`
  | i :: is, t =>
    let occ := (t.slot i).isFull
    let t1 := t.setSlot i .free
    if occ then
      let t2 := { t1 with len := t1.len - 1 }
      if t2.len = 0 then .ok t2 else clearLoop is t2
    else clearLoop is t1

def clear (t : Raw κ ν) : Out (Raw κ ν) :=
  if t.len = 0 then .ok t else clearLoop (List.range t.cap) t

def findLoop (t : Raw κ ν) (k : κ) : Nat → Nat → Out (Option Nat)
  | 0, _ => .hang
  | fuel + 1, idx =>
    match t.slot idx with
    | .free => .ok none
    | .dead => findLoop t k fuel ((idx + 1) % t.cap)
    | .full st k' _ =>
      if st = status hashOf k ∧ k' = k then .ok (some idx) else findLoop t k fuel ((idx + 1) % t.cap)

def find (t : Raw κ ν) (k : κ) : Out (Option Nat) :=
  if t.len = 0 then .ok none else
  if dbg && (t.free == 0 || !isPow2 t.cap) then .panic else
  if t.cap = 0 then .ub else findLoop hashOf t k t.cap (home hashOf t.cap k)

/-- the probe loop of `find_or_free`: `.ok (.ok i)` = found at `i`, `.ok (.error p)` = not found,
use slot `p` (the last DEAD slot seen, else the FREE slot reached) -/
def fofLoop (t : Raw κ ν) (k : κ) : Nat → Nat → Option Nat → Out (Except Nat Nat)
  | 0, _, _ => .hang
  | fuel + 1, idx, fd =>
    match t.slot idx with
    | .free => .ok (.error (fd.getD idx))
    | .dead => fofLoop t k fuel ((idx + 1) % t.cap) (some idx)
    | .full st k' _ =>
      if st = status hashOf k ∧ k' = k then .ok (.ok idx) else fofLoop t k fuel ((idx + 1) % t.cap) fd

def findOrFree (t : Raw κ ν) (k : κ) : Out (Raw κ ν × Except Nat Nat) :=
  match reserve t 2 with
  | .ok t1 =>
    if dbg && !isPow2 t1.cap then .panic else
    if t1.cap = 0 then .ub else
    match fofLoop hashOf t1 k t1.cap (home hashOf t1.cap k) none with
    | .ok r => .ok (t1, r)
    | .hang => .hang
    | .ub => .ub
    | .panic => .panic
  | .hang => .hang
  | .ub => .ub
  | .panic => .panic

def get (t : Raw κ ν) (k : κ) : Out (Option ν) :=
  match find hashOf dbg t k with
  | .ok none => .ok none
  | .ok (some i) =>
    match t.slot i with
    | .full _ _ v => .ok (some v)
    | _ => if dbg then .panic else .ub
  | .hang => .hang
  | .ub => .ub
  | .panic => .panic

/-- `insert_in_slot` on a non-full slot -/
def insertInSlot (t : Raw κ ν) (p : Nat) (k : κ) (v : ν) : Raw κ ν :=
  let t' := t.setSlot p (.full (status hashOf k) k v)
  { t' with len := t.len + 1, free := if (t.slot p).isDead then t.free else t.free - 1 }

/-- the same function reading `len`, `free` and the old slot before the slot is written, so that the
slot array is uniquely referenced when it is updated (used by compiled code through `@[csimp]`) -/
def insertInSlotFast (t : Raw κ ν) (p : Nat) (k : κ) (v : ν) : Raw κ ν :=
  let dead := (t.slot p).isDead
  match t with
  | ⟨slots, len, free⟩ =>
    ⟨wr slots p (.full (status hashOf k) k v), len + 1, if dead then free else free - 1⟩

@[csimp] theorem insertInSlot_eq_fast : @insertInSlot = @insertInSlotFast := by
  funext κ ν hashOf t p k v
  cases t
  rfl

/-- `insert` on a present key (repair D4): the value is replaced in place -/
def replaceAt (t : Raw κ ν) (i : Nat) (v : ν) : Raw κ ν :=
  match t.slot i with
  | .full st k _ => t.setSlot i (.full st k v)
  | _ => t

/-- `get_mut(hash, eq)` followed by a write through the returned reference: the old value, and the
table with the new value in the same slot (`None`: the key is absent, nothing changes) -/
def getMut (t : Raw κ ν) (k : κ) (v : ν) : Out (Raw κ ν × Option ν) :=
  match find hashOf dbg t k with
  | .ok none => .ok (t, none)
  | .ok (some i) =>
    match t.slot i with
    | .full _ _ old => .ok (replaceAt t i v, some old)
    | _ => if dbg then .panic else .ub
  | .hang => .hang
  | .ub => .ub
  | .panic => .panic

def insert (t : Raw κ ν) (k : κ) (v : ν) : Out (Raw κ ν × Except Nat Nat) :=
  match findOrFree hashOf dbg t k with
  | .ok (t1, .ok i) => .ok (replaceAt t1 i v, .ok i)
  | .ok (t1, .error p) =>
    if dbg && (t1.slot p).isFull then .panic else
    .ok (insertInSlot hashOf t1 p k v, .error p)
  | .hang => .hang
  | .ub => .ub
  | .panic => .panic

/-- `remove_at_slot` on a full slot -/
def removeAtSlot (t : Raw κ ν) (i : Nat) : Raw κ ν :=
  let nextFree := (t.slot ((i + 1) % t.cap)).isFree
  let t' := t.setSlot i (if nextFree then .free else .dead)
  { t' with len := t.len - 1, free := if nextFree then t.free + 1 else t.free }

def removeAtSlotFast (t : Raw κ ν) (i : Nat) : Raw κ ν :=
  let nextFree := (t.slot ((i + 1) % t.cap)).isFree
  match t with
  | ⟨slots, len, free⟩ =>
    ⟨wr slots i (if nextFree then .free else .dead), len - 1, if nextFree then free + 1 else free⟩

@[csimp] theorem removeAtSlot_eq_fast : @removeAtSlot = @removeAtSlotFast := by
  funext κ ν t i
  cases t
  rfl

def remove (t : Raw κ ν) (k : κ) : Out (Raw κ ν × Option ν) :=
  match find hashOf dbg t k with
  | .ok none => .ok (t, none)
  | .ok (some i) =>
    match t.slot i with
    | .full _ _ v => .ok (removeAtSlot t i, some v)
    | _ => if dbg then .panic else .ub
  | .hang => .hang
  | .ub => .ub
  | .panic => .panic

/-- `Iter::next` run to exhaustion: scan slots from `idx`, yield the full ones, stop after `remaining`
items; running off the end with items still expected is the `unwrap_unchecked` on `None` -/
def iterLoop (t : Raw κ ν) : Nat → Nat → Nat → List ν → Out (List ν)
  | _, _, 0, acc => .ok acc.reverse
  | 0, _, _ + 1, _ => .ub
  | fuel + 1, idx, rem + 1, acc =>
    if idx ≥ t.cap then (if dbg then .panic else .ub) else
    match t.slot idx with
    | .full _ _ v => iterLoop t fuel (idx + 1) rem (v :: acc)
    | _ => iterLoop t fuel (idx + 1) (rem + 1) acc

def iter (t : Raw κ ν) : Out (List ν) := iterLoop dbg t (t.cap + 1) 0 t.len []

end
end R

import BddModel.Hash
/-! `table.rs` / `storage.rs`: the node store — cells with `next` links and occupied flags
(struct-of-arrays), bucket heads, `min_free`, `last_index`, `real_size`. -/
namespace P
open Arr

structure Table (α : Type) where
  vals : Array α
  nxs : Array Nat
  occs : Array Bool
  buckets : Array Nat
  bitmask : UInt64
  minFree : Nat
  lastIndex : Nat
  realSize : Nat

/-- `(min_free..=last_index).find(|i| !occupied(i)).unwrap_or(last_index + 1)`:
`firstFree occ (last_index + 1 - min_free) min_free` -/
def firstFree (occ : Nat → Bool) : Nat → Nat → Nat
  | 0, i => i
  | n + 1, i => if occ i then firstFree occ n (i + 1) else i

variable {α : Type} [Inhabited α]

/-- `Table::new(bits)` generalised to an explicit bucket count (the `verif` hook
`with_bucket_bits`); `Table::new bits = newWith bits (min bits 16)` -/
def Table.newWith (bits bucketBits : Nat) : Table α :=
  { vals := Array.replicate (2 ^ bits) default
    nxs := Array.replicate (2 ^ bits) 0
    occs := (Array.replicate (2 ^ bits) false).setIfInBounds 0 true
    buckets := Array.replicate (2 ^ bucketBits) 0
    bitmask := UInt64.ofNat (2 ^ bucketBits - 1)
    minFree := 1, lastIndex := 0, realSize := 0 }

def Table.new (bits : Nat) : Table α := Table.newWith bits (min bits 16)

def Table.capacity (t : Table α) : Nat := t.vals.size

/-- with the index scanned for made a parameter (shared shape with the function view) -/
def Table.allocAt (t : Table α) (i : Nat) : Except Fault (Table α × Nat) :=
  if i ≥ t.vals.size then .error .storageFull else
  .ok ({ t with occs := wr t.occs i true, minFree := i + 1, realSize := t.realSize + 1,
                 lastIndex := if i > t.lastIndex then i else t.lastIndex }, i)

def Table.alloc (t : Table α) : Except Fault (Table α × Nat) :=
  t.allocAt (firstFree (rd t.occs) (t.lastIndex + 1 - t.minFree) t.minFree)

/-- `drop(index)`; `real_size -= 1` on 0 is an arithmetic-overflow panic in debug builds -/
def Table.drop (t : Table α) (i : Nat) : Except Fault (Table α) :=
  if i = 0 then .error .assertion else
  if t.realSize = 0 then .error .assertion else
  .ok { t with occs := wr t.occs i false, minFree := min t.minFree i, realSize := t.realSize - 1 }

def Table.add (t : Table α) (v : α) : Except Fault (Table α × Nat) :=
  match t.alloc with
  | .error e => .error e
  | .ok (t1, i) => .ok ({ t1 with vals := wr t1.vals i v, nxs := wr t1.nxs i 0 }, i)

def Table.setNext (t : Table α) (i x : Nat) : Table α := { t with nxs := wr t.nxs i x }
def Table.setBucket (t : Table α) (b x : Nat) : Table α := { t with buckets := wr t.buckets b x }

variable [DecidableEq α] [MyHash α]

def Table.bucketIndex (t : Table α) (v : α) : Nat := slotOf (MyHash.hash v) t.bitmask

/-- the chain walk of `put` -/
def Table.putLoop (t : Table α) (v : α) : Nat → Nat → Except Fault (Table α × Nat)
  | 0, _ => .error .outOfFuel
  | fuel + 1, idx =>
    if idx = 0 then .error .assertion else
    if rd t.vals idx = v then .ok (t, idx) else
    if rd t.nxs idx = 0 then
      match t.add v with
      | .error e => .error e
      | .ok (t1, i) => .ok (t1.setNext idx i, i)
    else t.putLoop v fuel (rd t.nxs idx)

def Table.put (t : Table α) (v : α) : Except Fault (Table α × Nat) :=
  let b := t.bucketIndex v
  let idx := rd t.buckets b
  if idx = 0 then
    match t.add v with
    | .error e => .error e
    | .ok (t1, i) => .ok (t1.setBucket b i, i)
  else t.putLoop v t.vals.size idx

end P

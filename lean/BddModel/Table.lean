import BddModel.Hash
/-! `table.rs` / `storage.rs`: the node store — cells with `next` links and occupied flags
(struct-of-arrays), bucket heads, `min_free`, `last_index`, `real_size`. -/
namespace P
open Arr

structure Table (α : Type) where
  vals : Array α
  nxs : Array Nat
  occs : Array Bool
  buckets : Array Nat
  bitmask : UInt64
  minFree : Nat
  lastIndex : Nat
  realSize : Nat

/-- `(min_free..=last_index).find(|i| !occupied(i)).unwrap_or(last_index + 1)`:
`firstFree occ (last_index + 1 - min_free) min_free` -/
def firstFree (occ : Nat → Bool) : Nat → Nat → Nat
  | 0, i => i
  | n + 1, i => if occ i then firstFree occ n (i + 1) else i

variable {α : Type} [Inhabited α]

/-- `Table::new(bits)` generalised to an explicit bucket count (the `verif` hook
`with_bucket_bits`); `Table::new bits = newWith bits (min bits 16)` -/
def Table.newWith (bits bucketBits : Nat) : Table α :=
  { vals := Array.replicate (2 ^ bits) default
    nxs := Array.replicate (2 ^ bits) 0
    occs := (Array.replicate (2 ^ bits) false).setIfInBounds 0 true
    buckets := Array.replicate (2 ^ bucketBits) 0
    bitmask := UInt64.ofNat (2 ^ bucketBits - 1)
    minFree := 1, lastIndex := 0, realSize := 0 }

def Table.new (bits : Nat) : Table α := Table.newWith bits (min bits 16)

def Table.capacity (t : Table α) : Nat := t.vals.size

/-- with the index scanned for made a parameter (shared shape with the function view) -/
def Table.allocAt (t : Table α) (i : Nat) : Except Fault (Table α × Nat) :=
  if i ≥ t.vals.size then .error .storageFull else
  .ok ({ t with occs := wr t.occs i true, minFree := i + 1, realSize := t.realSize + 1,
                 lastIndex := if i > t.lastIndex then i else t.lastIndex }, i)

def Table.alloc (t : Table α) : Except Fault (Table α × Nat) :=
  t.allocAt (firstFree (rd t.occs) (t.lastIndex + 1 - t.minFree) t.minFree)

/-- `drop(index)`; `real_size -= 1` on 0 is an arithmetic-overflow panic in debug builds -/
def Table.drop (t : Table α) (i : Nat) : Except Fault (Table α) :=
  if i = 0 then .error .assertion else
  if t.realSize = 0 then .error .assertion else
  .ok { t with occs := wr t.occs i false, minFree := min t.minFree i, realSize := t.realSize - 1 }

def Table.add (t : Table α) (v : α) : Except Fault (Table α × Nat) :=
  match t.alloc with
  | .error e => .error e
  | .ok (t1, i) => .ok ({ t1 with vals := wr t1.vals i v, nxs := wr t1.nxs i 0 }, i)

def Table.setNext (t : Table α) (i x : Nat) : Table α := { t with nxs := wr t.nxs i x }
/-- the public `Table::set_next`: asserts `index != 0` and (in `Entry::set_next`) `next < 2^31` -/
def Table.setNextChecked (t : Table α) (i x : Nat) : Except Fault (Table α) :=
  if i = 0 then .error .assertion else
  if x ≥ 2147483648 then .error .assertion else .ok (t.setNext i x)
/-- `Table::set_value` / `*value_mut(index) = v` / `table[index] = v`: overwrite the value of a cell
without touching its chain (asserts `index != 0`) -/
def Table.setValue (t : Table α) (i : Nat) (v : α) : Except Fault (Table α) :=
  if i = 0 then .error .assertion else .ok { t with vals := wr t.vals i v }
def Table.setBucket (t : Table α) (b x : Nat) : Table α := { t with buckets := wr t.buckets b x }

variable [DecidableEq α] [MyHash α]

def Table.bucketIndex (t : Table α) (v : α) : Nat := slotOf (MyHash.hash v) t.bitmask

/-- the chain walk of `put` -/
def Table.putLoop (t : Table α) (v : α) : Nat → Nat → Except Fault (Table α × Nat)
  | 0, _ => .error .outOfFuel
  | fuel + 1, idx =>
    if idx = 0 then .error .assertion else
    if rd t.vals idx = v then .ok (t, idx) else
    if rd t.nxs idx = 0 then
      match t.add v with
      | .error e => .error e
      | .ok (t1, i) => .ok (t1.setNext idx i, i)
    else t.putLoop v fuel (rd t.nxs idx)

def Table.put (t : Table α) (v : α) : Except Fault (Table α × Nat) :=
  let b := t.bucketIndex v
  let idx := rd t.buckets b
  if idx = 0 then
    match t.add v with
    | .error e => .error e
    | .ok (t1, i) => .ok (t1.setBucket b i, i)
  else t.putLoop v t.vals.size idx

/-! ### the same `put`, handing the table back on failure

`putE` computes exactly what `put` computes, but returns the (unchanged) table together with the
fault instead of dropping it.  Callers that own the table can then thread it through without
keeping a second reference alive, so the arrays are updated in place.  `putE_eq` below ties it to
`put`; the compiler is told to use it through `St.put_eq_putFast` (`@[csimp]`, a kernel-checked
equation, not `implemented_by`). -/

def Table.allocE (t : Table α) : Table α × Except Fault Nat :=
  let i := firstFree (rd t.occs) (t.lastIndex + 1 - t.minFree) t.minFree
  if i ≥ t.vals.size then (t, .error .storageFull) else
  ({ t with occs := wr t.occs i true, minFree := i + 1, realSize := t.realSize + 1,
            lastIndex := if i > t.lastIndex then i else t.lastIndex }, .ok i)

def Table.addE (t : Table α) (v : α) : Table α × Except Fault Nat :=
  match t.allocE with
  | (t1, .error e) => (t1, .error e)
  | (t1, .ok i) => ({ t1 with vals := wr t1.vals i v, nxs := wr t1.nxs i 0 }, .ok i)

def Table.putLoopE (t : Table α) (v : α) : Nat → Nat → Table α × Except Fault Nat
  | 0, _ => (t, .error .outOfFuel)
  | fuel + 1, idx =>
    if idx = 0 then (t, .error .assertion) else
    if rd t.vals idx = v then (t, .ok idx) else
    if rd t.nxs idx = 0 then
      match t.addE v with
      | (t1, .error e) => (t1, .error e)
      | (t1, .ok i) => (t1.setNext idx i, .ok i)
    else t.putLoopE v fuel (rd t.nxs idx)

def Table.putE (t : Table α) (v : α) : Table α × Except Fault Nat :=
  let b := t.bucketIndex v
  let idx := rd t.buckets b
  if idx = 0 then
    match t.addE v with
    | (t1, .error e) => (t1, .error e)
    | (t1, .ok i) => (t1.setBucket b i, .ok i)
  else t.putLoopE v t.vals.size idx

set_option linter.unusedSectionVars false

/-- what `putE` must return, in terms of `put` -/
def Table.handBack (t : Table α) (r : Except Fault (Table α × Nat)) : Table α × Except Fault Nat :=
  match r with
  | .error e => (t, .error e)
  | .ok (t', i) => (t', .ok i)

omit [DecidableEq α] [MyHash α] in
theorem Table.allocE_eq (t : Table α) : t.allocE = t.handBack t.alloc := by
  unfold Table.allocE Table.alloc Table.allocAt Table.handBack
  by_cases h : firstFree (rd t.occs) (t.lastIndex + 1 - t.minFree) t.minFree ≥ t.vals.size
  · simp only [h, if_true]
  · simp only [h, if_false]

omit [DecidableEq α] [MyHash α] in
theorem Table.addE_eq (t : Table α) (v : α) : t.addE v = t.handBack (t.add v) := by
  unfold Table.addE Table.add
  rw [Table.allocE_eq]
  unfold Table.handBack
  cases t.alloc with
  | error e => rfl
  | ok p => rfl

theorem Table.putLoopE_eq (t : Table α) (v : α) (fuel idx : Nat) :
    t.putLoopE v fuel idx = t.handBack (t.putLoop v fuel idx) := by
  induction fuel generalizing idx with
  | zero => rfl
  | succ n ih =>
    unfold Table.putLoopE Table.putLoop
    by_cases h0 : idx = 0
    · simp only [h0, if_true]; rfl
    · simp only [h0, if_false]
      by_cases h1 : rd t.vals idx = v
      · simp only [h1, if_true]; rfl
      · simp only [h1, if_false]
        by_cases h2 : rd t.nxs idx = 0
        · simp only [h2, if_true]
          rw [Table.addE_eq]
          unfold Table.handBack
          cases t.add v with
          | error e => rfl
          | ok p => rfl
        · simp only [h2, if_false]
          exact ih _

theorem Table.putE_eq (t : Table α) (v : α) : t.putE v = t.handBack (t.put v) := by
  unfold Table.putE Table.put
  by_cases h0 : rd t.buckets (t.bucketIndex v) = 0
  · simp only [h0, if_true]
    rw [Table.addE_eq]
    unfold Table.handBack
    cases t.add v with
    | error e => rfl
    | ok p => rfl
  · simp only [h0, if_false]
    exact Table.putLoopE_eq t v _ _

end P

/-! Executable model of Lipen/bdd-rs — basic types (`reference.rs`, `node.rs`, `utils.rs::OpKey`)
and the two-function array layer every other model file sits on.  Import-free. -/

namespace Arr

/-- total read: out-of-range reads give `default` (the Rust code would panic; every caller in
the model stays in range under the invariants, see the proofs) -/
def rd [Inhabited α] (a : Array α) (i : Nat) : α := a.getD i default
def wr (a : Array α) (i : Nat) (v : α) : Array α := a.setIfInBounds i v

end Arr

namespace P

/-- `Ref(u32)`: `index << 1 | negated` -/
structure Ref where
  idx : Nat
  neg : Bool
deriving DecidableEq, Repr, Inhabited

/-- `Node { variable, low, high }` -/
structure Node where
  var : Nat
  low : Ref
  high : Ref
deriving DecidableEq, Repr

/-- `-r` : flip the complement bit -/
def Ref.not (r : Ref) : Ref := ⟨r.idx, !r.neg⟩
def Ref.one : Ref := ⟨1, false⟩
def Ref.zero : Ref := ⟨1, true⟩
/-- `Ref::ZERO` (raw value 0), the default child of an unused cell — *not* the constant false -/
def Ref.raw0 : Ref := ⟨0, false⟩

instance : Inhabited Node := ⟨⟨0, Ref.raw0, Ref.raw0⟩⟩

/-- raw `u32` encoding -/
def Ref.raw (r : Ref) : Nat := 2 * r.idx + (if r.neg then 1 else 0)

def isOne (r : Ref) : Bool := r == Ref.one
def isZero (r : Ref) : Bool := r == Ref.zero
def isTerminal (r : Ref) : Bool := isOne r || isZero r

inductive OpKey
  | ite (f g h : Ref)
  | constrain (f g : Ref)
  | restrict (f g : Ref)
deriving DecidableEq, Repr

/-- what a Rust panic / non-termination becomes in the model -/
inductive Fault
  | storageFull          -- `panic!("Storage is full")`
  | outOfFuel            -- the model's recursion bound was hit (Rust: would not have returned)
  | assertion            -- any `assert!`/`assert_eq!`/`assert_ne!`/`unwrap` failure
  | indexOob             -- slice index out of bounds
deriving DecidableEq, Repr

def Fault.toString : Fault → String
  | .storageFull => "full"
  | .outOfFuel => "fuel"
  | .assertion => "assert"
  | .indexOob => "oob"

/-- `Display for Ref` -/
def Ref.show (r : Ref) : String := (if r.neg then "~" else "") ++ "@" ++ toString r.idx

end P

import BddModel.Driver
/-! The queries of the line protocol that return no state (counting, models, paths, reachable sets, the two
exports, the accessors), as a datatype with the same run-time check as the requests: a query is run only
when every handle it names is an occupied cell of the model's state.  `BddProofs/DriverQuery.lean` proves
that an accepted query returns what C08 / C13 / C14 specify, with no hypothesis about the handles left. -/
namespace P
open Arr

inductive Query
  | satcount (f : Ref) (n : Nat)
  | onesat (f : Ref)
  | paths (f : Ref)
  | desc (roots : List Ref)
  | bracket (f : Ref)
  | dot (roots : List Ref)
  | low (f : Ref) | high (f : Ref)
  | topcof (f : Ref) (v : Nat)

def Query.ok (s : St) : Query → Bool
  | .satcount f _ | .onesat f | .paths f | .bracket f | .low f | .high f | .topcof f _ => liveB s f
  | .desc roots | .dot roots => roots.all (liveB s)

inductive QOut
  | count (x : Except Fault Nat)
  | model (o : Option (List Int))
  | cubes (o : Option (List (List Int)))
  | cells (l : List Nat)
  | text (t : String)
  | lines (x : Except Fault (List String))
  | handle (r : Ref)
  | pair (x : Except Fault (Ref × Ref))
  | refused

def runQuery (fuel : Nat) (s : St) : Query → QOut
  | .satcount f n => .count (satCount fuel s f n)
  | .onesat f => .model (oneSat fuel s f [])
  | .paths f => .cubes (paths fuel s f)
  | .desc roots => .cells (descendants s roots)
  | .bracket f => .text (toBracketString fuel s f)
  | .dot roots => .lines (renderDot s roots)
  | .low f => .handle (s.lowNode f)
  | .high f => .handle (s.highNode f)
  | .topcof f v => .pair (topCofactors s f v)

def execQuery (fuel : Nat) (s : St) (q : Query) : QOut := if q.ok s then runQuery fuel s q else .refused

end P

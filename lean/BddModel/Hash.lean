import BddModel.Basic
/-! `utils.rs`: Szudzik pairing on wrapping `u64`, `MyHash` for every key type the code hashes. -/
namespace P

def pairingSzudzik (a b : UInt64) : UInt64 :=
  if a < b then b * b + a else a * a + a + b

def pairing2 (a b : UInt64) : UInt64 := pairingSzudzik a b
def pairing3 (a b c : UInt64) : UInt64 := pairing2 (pairing2 a b) c

/-- `pairing4` -/
def pairing4 (a b c d : UInt64) : UInt64 := pairing2 (pairing2 a b) (pairing2 c d)

/-- `pairing_cantor` on numbers small enough not to overflow (the code adds and multiplies with
plain `+`/`*`: beyond `u64` a debug build panics and a release build wraps) -/
def pairingCantor (a b : Nat) : Nat := (a + b) * (a + b + 1) / 2 + b

/-- `pairing_hopcroft`: both arguments are asserted positive -/
def pairingHopcroft (a b : Nat) : Except Fault Nat :=
  if a = 0 ∨ b = 0 then .error .assertion else .ok ((a + b - 2) * (a + b - 1) / 2 + a)

class MyHash (α : Type) where
  hash : α → UInt64

instance : MyHash (UInt64 × UInt64) := ⟨fun p => pairing2 p.1 p.2⟩
instance : MyHash (UInt64 × UInt64 × UInt64) := ⟨fun p => pairing3 p.1 p.2.1 p.2.2⟩
instance : MyHash Ref := ⟨fun r => UInt64.ofNat r.raw⟩
instance : MyHash (Ref × Ref) := ⟨fun p => pairing2 (MyHash.hash p.1) (MyHash.hash p.2)⟩
instance : MyHash (Ref × Ref × Ref) :=
  ⟨fun p => pairing3 (MyHash.hash p.1) (MyHash.hash p.2.1) (MyHash.hash p.2.2)⟩
instance : MyHash Node :=
  ⟨fun n => pairing3 (MyHash.hash n.low) (MyHash.hash n.high) (UInt64.ofNat n.var)⟩
/-- Constrain and Restrict keys hash alike, as in the code -/
instance : MyHash OpKey := ⟨fun
  | .ite f g h => MyHash.hash (f, g, h)
  | .constrain f g => MyHash.hash (f, g)
  | .restrict f g => MyHash.hash (f, g)⟩

/-- `(hash & bitmask) as usize` -/
def slotOf (h : UInt64) (bitmask : UInt64) : Nat := (h &&& bitmask).toNat

end P

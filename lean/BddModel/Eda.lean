/-! `examples/eda/src/ast.rs` (boxed trees, the arena with its breadth-first flattening and reverse
fold) and `examples/eda/src/signal.rs` (the 32-bit signal encoding).  Import-free. -/
namespace A

/-- `ExprBoxed<T>` -/
inductive Tree (τ : Type) where
  | term (t : τ)
  | not (a : Tree τ)
  | and (a b : Tree τ)
  | or (a b : Tree τ)
  | xor (a b : Tree τ)
  | ite (a b c : Tree τ)

/-- `Expr<T, N>`: one layer with child slots of type `ι` -/
inductive Layer (τ ι : Type) where
  | term (t : τ)
  | not (a : ι)
  | and (a b : ι)
  | or (a b : ι)
  | xor (a b : ι)
  | ite (a b c : ι)

variable {τ ρ : Type}

def Tree.size : Tree τ → Nat
  | .term _ => 1
  | .not a => a.size + 1
  | .and a b => a.size + b.size + 1
  | .or a b => a.size + b.size + 1
  | .xor a b => a.size + b.size + 1
  | .ite a b c => a.size + b.size + c.size + 1

def Tree.children : Tree τ → List (Tree τ)
  | .term _ => []
  | .not a => [a]
  | .and a b => [a, b]
  | .or a b => [a, b]
  | .xor a b => [a, b]
  | .ite a b c => [a, b, c]

/-- one layer with child indices `base, base+1, …` -/
def Tree.layer (base : Nat) : Tree τ → Layer τ Nat
  | .term t => .term t
  | .not _ => .not base
  | .and _ _ => .and base (base + 1)
  | .or _ _ => .or base (base + 1)
  | .xor _ _ => .xor base (base + 1)
  | .ite _ _ _ => .ite base (base + 1) (base + 2)

/-- `expand_exprs`: pop the front seed, push its children to the back; the j-th child gets
index `exprs.len + frontier.len` measured right after its push. -/
def flatten : Nat → List (Layer τ Nat) → List (Tree τ) → List (Layer τ Nat)
  | 0, exprs, _ => exprs
  | _, exprs, [] => exprs
  | fuel + 1, exprs, t :: rest =>
    flatten fuel (exprs ++ [t.layer (exprs.length + rest.length + 1)]) (rest ++ t.children)

/-- `Arena::from_boxed` -/
def fromBoxed (e : Tree τ) : List (Layer τ Nat) := flatten e.size [] [e]

/-- direct recursion -/
def fold (alg : Layer τ ρ → ρ) : Tree τ → ρ
  | .term t => alg (.term t)
  | .not a => alg (.not (fold alg a))
  | .and a b => alg (.and (fold alg a) (fold alg b))
  | .or a b => alg (.or (fold alg a) (fold alg b))
  | .xor a b => alg (.xor (fold alg a) (fold alg b))
  | .ite a b c => alg (.ite (fold alg a) (fold alg b) (fold alg c))

abbrev Results (ρ : Type) := Nat → Option ρ

/-- `results[idx].take()` -/
def take (r : Results ρ) (i : Nat) : Option (ρ × Results ρ) :=
  match r i with
  | some x => some (x, fun j => if j = i then none else r j)
  | none => none

def Layer.idxs : Layer τ Nat → List Nat
  | .term _ => []
  | .not a => [a]
  | .and a b => [a, b]
  | .or a b => [a, b]
  | .xor a b => [a, b]
  | .ite a b c => [a, b, c]

def Layer.rebuild : Layer τ Nat → List ρ → Option (Layer τ ρ)
  | .term t, [] => some (.term t)
  | .not _, [x] => some (.not x)
  | .and _ _, [x, y] => some (.and x y)
  | .or _ _, [x, y] => some (.or x y)
  | .xor _ _, [x, y] => some (.xor x y)
  | .ite _ _ _, [x, y, z] => some (.ite x y z)
  | _, _ => none

/-- the closure passed to `fmap`: take the children's results in order; `none` = `unwrap` on `None` -/
def takeMany : Results ρ → List Nat → Option (List ρ × Results ρ)
  | r, [] => some ([], r)
  | r, i :: is =>
    match take r i with
    | some (x, r1) =>
      match takeMany r1 is with
      | some (xs, r2) => some (x :: xs, r2)
      | none => none
    | none => none

/-- `expr.fmap(|idx| results[idx].take().unwrap())` then `collapse`, storing at `i`; `none` = panic -/
def processOne (alg : Layer τ ρ → ρ) (L : Layer τ Nat) (i : Nat) (r : Results ρ) : Option (Results ρ) :=
  match takeMany r L.idxs with
  | some (xs, r') =>
    match L.rebuild xs with
    | some L' => some (fun j => if j = i then some (alg L') else r' j)
    | none => none
  | none => none

/-- the reverse loop over `exprs.iter().enumerate().rev()`, on the suffix starting at index `p` -/
def collapseSuffix (alg : Layer τ ρ → ρ) : List (Layer τ Nat) → Nat → Results ρ → Option (Results ρ)
  | [], _, r => some r
  | L :: tail, p, r =>
    match collapseSuffix alg tail (p + 1) r with
    | some r1 => processOne alg L p r1
    | none => none

/-- `collapse_exprs`: `results.into_iter().next().unwrap().unwrap()` -/
def collapse (alg : Layer τ ρ → ρ) (exprs : List (Layer τ Nat)) : Option ρ :=
  match exprs with
  | [] => none
  | _ => (collapseSuffix alg exprs 0 (fun _ => none)).bind (fun r => r 0)

/-- `ExprBoxed::to_string` -/
def Tree.toStr (show_ : τ → String) : Tree τ → String
  | .term t => show_ t
  | .not a => "~" ++ a.toStr show_
  | .and a b => "(" ++ a.toStr show_ ++ " & " ++ b.toStr show_ ++ ")"
  | .or a b => "(" ++ a.toStr show_ ++ " | " ++ b.toStr show_ ++ ")"
  | .xor a b => "(" ++ a.toStr show_ ++ " ^ " ++ b.toStr show_ ++ ")"
  | .ite a b c => "(" ++ a.toStr show_ ++ " ? " ++ b.toStr show_ ++ " : " ++ c.toStr show_ ++ ")"

/-- the closure passed to `collapse_exprs` by `Arena::to_string` -/
def strAlg (show_ : τ → String) : Layer τ String → String
  | .term t => show_ t
  | .not a => "~" ++ a
  | .and a b => "(" ++ a ++ " & " ++ b ++ ")"
  | .or a b => "(" ++ a ++ " | " ++ b ++ ")"
  | .xor a b => "(" ++ a ++ " ^ " ++ b ++ ")"
  | .ite a b c => "(" ++ a ++ " ? " ++ b ++ " : " ++ c ++ ")"

/-- `ExprBoxed::not` (after repair D5): cancel a double negation, otherwise wrap -/
def Tree.mkNot : Tree τ → Tree τ
  | .not a => a
  | t => .not t

/-- the closure of `Arena::to_boxed` -/
def boxAlg : Layer τ (Tree τ) → Tree τ
  | .term t => .term t
  | .not a => a.mkNot
  | .and a b => .and a b
  | .or a b => .or a b
  | .xor a b => .xor a b
  | .ite a b c => .ite a b c

/-- the closure of `Arena::eval`; the `Xor`/`Ite` arms are `todo!()` in the code: `none` = panic,
and a panic in a child has already unwound, so `none` propagates -/
def evalAlg (neg : ρ → ρ) (mul add : ρ → ρ → ρ) : Layer ρ (Option ρ) → Option ρ
  | .term t => some t
  | .not a => a.map neg
  | .and a b => match a, b with | some x, some y => some (mul x y) | _, _ => none
  | .or a b => match a, b with | some x, some y => some (add x y) | _, _ => none
  | .xor _ _ => none
  | .ite _ _ _ => none

/-- evaluation by direct recursion over NOT/AND/OR (`none` where the code has `todo!()`) -/
def Tree.value (neg : ρ → ρ) (mul add : ρ → ρ → ρ) : Tree ρ → Option ρ
  | .term t => some t
  | .not a => (a.value neg mul add).map neg
  | .and a b => match a.value neg mul add, b.value neg mul add with
    | some x, some y => some (mul x y) | _, _ => none
  | .or a b => match a.value neg mul add, b.value neg mul add with
    | some x, some y => some (add x y) | _, _ => none
  | .xor _ _ => none
  | .ite _ _ _ => none

def Layer.debug (show_ : τ → String) : Layer τ Nat → String
  | .term t => "Term(" ++ show_ t ++ ")"
  | .not a => "Not(Idx(" ++ toString a ++ "))"
  | .and a b => "And(Idx(" ++ toString a ++ "), Idx(" ++ toString b ++ "))"
  | .or a b => "Or(Idx(" ++ toString a ++ "), Idx(" ++ toString b ++ "))"
  | .xor a b => "Xor(Idx(" ++ toString a ++ "), Idx(" ++ toString b ++ "))"
  | .ite a b c => "Ite(Idx(" ++ toString a ++ "), Idx(" ++ toString b ++ "), Idx(" ++ toString c ++ "))"

/-- `{:?}` of the arena -/
def arenaDebug (show_ : τ → String) (exprs : List (Layer τ Nat)) : String :=
  "Arena { exprs: [" ++ ", ".intercalate (exprs.map (Layer.debug show_)) ++ "] }"

end A

/-! ### Signal -/
namespace Sg

def MAGIC : BitVec 32 := 0x80000000#32

/-- `Signal::zero()`, `Signal::one()`, `From<bool>` -/
def zero : BitVec 32 := 0#32
def one : BitVec 32 := 1#32
def fromBool (b : Bool) : BitVec 32 := if b then one else zero

def fromIndex (index : BitVec 32) : BitVec 32 := index <<< 1
def fromVar (var : BitVec 32) : BitVec 32 := fromIndex (var + 1)
def fromInput (input : BitVec 32) : BitVec 32 := fromIndex (~~~input)
def index (s : BitVec 32) : BitVec 32 := s >>> 1
def isConst (s : BitVec 32) : Bool := index s == 0
def isInput (s : BitVec 32) : Bool := s &&& MAGIC != 0
def isVar (s : BitVec 32) : Bool := !isInput s && !isConst s
/-- `var()` asserts `is_var()`; the value computed is `index - 1` -/
def var (s : BitVec 32) : BitVec 32 := index s - 1
/-- `input()` asserts `is_input()` -/
def input (s : BitVec 32) : BitVec 32 := ~~~(index s) &&& ~~~MAGIC
def isNegated (s : BitVec 32) : Bool := s &&& 1 != 0
def not (s : BitVec 32) : BitVec 32 := s ^^^ 1

/-- `Display for Signal` -/
def display (s : BitVec 32) : String :=
  if isConst s then toString (s &&& 1).toNat else
  (if isNegated s then "!" else "") ++
  (if s == MAGIC then "#"
   else if isInput s then "i" ++ toString (input s).toNat
   else "v" ++ toString (var s).toNat)

end Sg

import BddModel.Table
import BddModel.Cache
/-! `bdd.rs`: the manager.  Every function follows the Rust control flow statement by statement;
loops and recursions take a fuel argument; panics are `Except Fault`. -/
namespace P
open Arr

structure St where
  storage : Table Node
  cache : Cache OpKey Ref
  sizeCache : Cache Ref Nat

/-- a failing operation returns the fault *and* the state reached when it was raised (the Rust
manager keeps whatever a panicking call had already done) -/
abbrev Res (α : Type) := Except (Fault × St) α

/-- `Bdd::with_params(storage_bits, bucket_bits, cache_bits)` (hook); the terminal is cell 1 -/
def St.newWith (storageBits bucketBits cacheBits : Nat) : Except Fault St :=
  if storageBits > 31 then .error .assertion else
  match (Table.newWith storageBits bucketBits : Table Node).alloc with
  | .error e => .error e
  | .ok (t, one) =>
    if one ≠ 1 then .error .assertion else
    .ok { storage := t, cache := Cache.new cacheBits, sizeCache := Cache.new cacheBits }

/-- `Bdd::new(storage_bits)` -/
def St.new (storageBits : Nat) : Except Fault St :=
  St.newWith storageBits (min storageBits 16) (min storageBits 16)

def St.node (s : St) (i : Nat) : Node := rd s.storage.vals i
def St.var (s : St) (r : Ref) : Nat := (s.node r.idx).var
def St.low (s : St) (i : Nat) : Ref := (s.node i).low
def St.high (s : St) (i : Nat) : Ref := (s.node i).high
def St.lowNode (s : St) (r : Ref) : Ref := if r.neg then (s.low r.idx).not else s.low r.idx
def St.highNode (s : St) (r : Ref) : Ref := if r.neg then (s.high r.idx).not else s.high r.idx

def St.put (s : St) (n : Node) : Res (St × Nat) :=
  match s.storage.put n with
  | .error e => .error (e, s)
  | .ok (t, i) => .ok ({ s with storage := t }, i)

/-- `St.put` written so that the manager is taken apart before the table is updated: no second
reference to the arrays is alive while `putE` runs, so they are updated in place.  The compiler uses
this version (`@[csimp]`); every theorem is about `St.put`. -/
def St.putFast (s : St) (n : Node) : Res (St × Nat) :=
  match s with
  | ⟨storage, cache, sizeCache⟩ =>
    match storage.putE n with
    | (t, .error e) => .error (e, ⟨t, cache, sizeCache⟩)
    | (t, .ok i) => .ok (⟨t, cache, sizeCache⟩, i)

@[csimp] theorem St.put_eq_putFast : @St.put = @St.putFast := by
  funext s n
  cases s with
  | mk storage cache sizeCache =>
    unfold St.put St.putFast
    simp only [Table.putE_eq]
    unfold Table.handBack
    cases storage.put n with
    | error e => rfl
    | ok p => rfl

def St.cacheGet (s : St) (k : OpKey) : St × Option Ref :=
  ({ s with cache := (s.cache.get k).1 }, (s.cache.get k).2)

def St.cacheInsert (s : St) (k : OpKey) (r : Ref) : St :=
  { s with cache := s.cache.insert k r }

/-- `mk_node` after the canonicity flip -/
def mkNodeReg (s : St) (v : Nat) (low high : Ref) : Res (St × Ref) :=
  if low = high then .ok (s, low) else
  match s.put ⟨v, low, high⟩ with
  | .error e => .error e
  | .ok (s', i) => .ok (s', ⟨i, false⟩)

def mkNode (s : St) (v : Nat) (low high : Ref) : Res (St × Ref) :=
  if v = 0 then .error (.assertion, s) else
  if high.neg then
    match mkNodeReg s v low.not high.not with
    | .error e => .error e
    | .ok (s', r) => .ok (s', r.not)
  else mkNodeReg s v low high

def mkVar (s : St) (v : Nat) : Res (St × Ref) :=
  if v = 0 then .error (.assertion, s) else mkNode s v Ref.zero Ref.one

def topCofactors (s : St) (r : Ref) (v : Nat) : Except Fault (Ref × Ref) :=
  if v = 0 then .error .assertion else
  if isTerminal r then .ok (r, r) else
  if v < s.var r then .ok (r, r) else
  if v ≠ s.var r then .error .assertion else
  if r.neg then .ok ((s.low r.idx).not, (s.high r.idx).not) else .ok (s.low r.idx, s.high r.idx)

def min3 (i j k : Nat) : Nat :=
  let m := i
  let m := if j ≠ 0 then min m j else m
  if k ≠ 0 then min m k else m

abbrev Rec := St → Ref → Ref → Ref → Res (St × Ref)

/-- cache probe, Shannon expansion, `mk_node`, cache insert — on an already normalised triple -/
def iteCore (rec : Rec) (s : St) (f g h : Ref) (m : Nat) : Res (St × Ref) :=
  match (s.cacheGet (.ite f g h)).2 with
  | some res => .ok ((s.cacheGet (.ite f g h)).1, res)
  | none =>
    let s0 := (s.cacheGet (.ite f g h)).1
    if m = 0 then .error (.assertion, s0) else
    match topCofactors s0 f m, topCofactors s0 g m, topCofactors s0 h m with
    | .ok (f0, f1), .ok (g0, g1), .ok (h0, h1) =>
      match rec s0 f0 g0 h0 with
      | .error e => .error e
      | .ok (s1, e) =>
        match rec s1 f1 g1 h1 with
        | .error e => .error e
        | .ok (s2, t) =>
          match mkNode s2 m e t with
          | .error e => .error e
          | .ok (s3, res) => .ok (s3.cacheInsert (.ite f g h) res, res)
    | _, _, _ => .error (.assertion, s0)

def applyIte : Nat → St → Ref → Ref → Ref → Res (St × Ref)
  | 0, s, _, _, _ => .error (.outOfFuel, s)
  | fuel + 1, s, f, g, h =>
    if isOne f then .ok (s, g) else
    if isZero f then .ok (s, h) else
    if g = h then .ok (s, g) else
    if isOne g && isZero h then .ok (s, f) else
    if isZero g && isOne h then .ok (s, f.not) else
    if isOne g && h = f.not then .ok (s, Ref.one) else
    if g = f && isOne h then .ok (s, Ref.one) else
    if g = f.not && isZero h then .ok (s, Ref.zero) else
    if isZero g && h = f then .ok (s, Ref.zero) else
    -- standard triples
    if g = f then applyIte fuel s f Ref.one h else
    if h = f then applyIte fuel s f g Ref.zero else
    if g = f.not then applyIte fuel s f Ref.zero h else
    if h = f.not then applyIte fuel s f g Ref.one else
    let i := s.var f
    let j := s.var g
    let k := s.var h
    if i = 0 then .error (.assertion, s) else
    -- equivalent pairs
    if isOne g && k < i then (if k = 0 then .error (.assertion, s) else applyIte fuel s h Ref.one f) else
    if isZero h && j < i then (if j = 0 then .error (.assertion, s) else applyIte fuel s g f Ref.zero) else
    if isOne h && j < i then (if j = 0 then .error (.assertion, s) else applyIte fuel s g.not f.not Ref.one) else
    if isZero g && k < i then (if k = 0 then .error (.assertion, s) else applyIte fuel s h.not Ref.zero f.not) else
    if g = h.not && j < i then (if j = 0 then .error (.assertion, s) else applyIte fuel s g f f.not) else
    -- regularise
    let f' := if f.neg then f.not else f
    let g1 := if f.neg then h else g
    let h1 := if f.neg then g else h
    let n := g1.neg
    let g' := if n then g1.not else g1
    let h' := if n then h1.not else h1
    match iteCore (applyIte fuel) s f' g' h' (min3 i j k) with
    | .error e => .error e
    | .ok (s', res) => .ok (s', if n then res.not else res)

def maybeConst (r : Ref) : Option Bool :=
  if isZero r then some false else if isOne r then some true else none

/-- `ite_constant`; the only state it touches are the statistics counters of the cache -/
def iteConstant : Nat → St → Ref → Ref → Ref → Res (St × Option Bool)
  | 0, s, _, _, _ => .error (.outOfFuel, s)
  | fuel + 1, s, f, g, h =>
    if isOne f then .ok (s, maybeConst g) else
    if isZero f then .ok (s, maybeConst h) else
    if g = h then .ok (s, maybeConst g) else
    if isOne g && isZero h then .ok (s, none) else
    if isZero g && isOne h then .ok (s, none) else
    if isOne g && h = f.not then .ok (s, some true) else
    if g = f && isOne h then .ok (s, some true) else
    if g = f.not && isZero h then .ok (s, some false) else
    if isZero g && h = f then .ok (s, some false) else
    match (s.cacheGet (.ite f g h)).2 with
    | some res => .ok ((s.cacheGet (.ite f g h)).1, maybeConst res)
    | none =>
      let s0 := (s.cacheGet (.ite f g h)).1
      if s0.var f = 0 then .error (.assertion, s0) else
      let m := min3 (s0.var f) (s0.var g) (s0.var h)
      if m = 0 then .error (.assertion, s0) else
      match topCofactors s0 f m, topCofactors s0 g m, topCofactors s0 h m with
      | .ok (f0, f1), .ok (g0, g1), .ok (h0, h1) =>
        match iteConstant fuel s0 f1 g1 h1 with
        | .error e => .error e
        | .ok (s1, none) => .ok (s1, none)
        | .ok (s1, some t) =>
          match iteConstant fuel s1 f0 g0 h0 with
          | .error e => .error e
          | .ok (s2, e) => if e ≠ some t then .ok (s2, none) else .ok (s2, some t)
      | _, _, _ => .error (.assertion, s0)

def isImplies (fuel : Nat) (s : St) (f g : Ref) : Res (St × Bool) :=
  match iteConstant fuel s f g Ref.one with
  | .error e => .error e
  | .ok (s', o) => .ok (s', o == some true)

def applyAnd (fuel : Nat) (s : St) (u v : Ref) := applyIte fuel s u v Ref.zero
def applyOr (fuel : Nat) (s : St) (u v : Ref) := applyIte fuel s u Ref.one v
def applyXor (fuel : Nat) (s : St) (u v : Ref) := applyIte fuel s u v.not v
def applyEq (fuel : Nat) (s : St) (u v : Ref) := applyIte fuel s u v v.not
def applyImply (fuel : Nat) (s : St) (u v : Ref) := applyIte fuel s u v Ref.one

/-- `apply_and_many`: `andMany fuel s one nodes` -/
def andMany (fuel : Nat) : St → Ref → List Ref → Res (St × Ref)
  | s, acc, [] => .ok (s, acc)
  | s, acc, r :: rest =>
    match applyAnd fuel s acc r with
    | .error e => .error e
    | .ok (s1, acc1) => andMany fuel s1 acc1 rest

def orMany (fuel : Nat) : St → Ref → List Ref → Res (St × Ref)
  | s, acc, [] => .ok (s, acc)
  | s, acc, r :: rest =>
    match applyOr fuel s acc r with
    | .error e => .error e
    | .ok (s1, acc1) => orMany fuel s1 acc1 rest

/-! ### cube / clause -/

abbrev Lit := Nat × Bool   -- (variable, positive?) — an `i32` literal

def litOfInt (i : Int) : Lit := (i.natAbs, decide (0 < i))

/-- the loop of `cube` over the literals in descending variable order -/
def cubeFold : St → List Lit → Ref → Res (St × Ref)
  | s, [], cur => .ok (s, cur)
  | s, (v, b) :: rest, cur =>
    if v = 0 then .error (.assertion, s) else
    match (if b then mkNode s v Ref.zero cur else mkNode s v cur Ref.zero) with
    | .error e => .error e
    | .ok (s1, r) => cubeFold s1 rest r

/-- `sort_by_key(|v| v.abs())` is a stable sort, as is `mergeSort` -/
def sortLits (lits : List Lit) : List Lit := lits.mergeSort (fun a b => a.1 ≤ b.1)

def cube (s : St) (lits : List Lit) : Res (St × Ref) :=
  cubeFold s (sortLits lits).reverse Ref.one

def clauseFold : St → List Lit → Ref → Res (St × Ref)
  | s, [], cur => .ok (s, cur)
  | s, (v, b) :: rest, cur =>
    if v = 0 then .error (.assertion, s) else
    match (if b then mkNode s v cur Ref.one else mkNode s v Ref.one cur) with
    | .error e => .error e
    | .ok (s1, r) => clauseFold s1 rest r

def clause (s : St) (lits : List Lit) : Res (St × Ref) :=
  clauseFold s (sortLits lits).reverse Ref.zero

/-! ### substitute, substitute_multi, cofactor_cube (per-call `HashMap` memo = association list) -/

abbrev SMemo := List (Ref × Ref)

def substitute : Nat → St → Ref → Nat → Bool → SMemo → Res (St × Ref × SMemo)
  | 0, s, _, _, _, _ => .error (.outOfFuel, s)
  | fuel + 1, s, f, v, b, memo =>
    if v = 0 then .error (.assertion, s) else
    if isTerminal f then .ok (s, f, memo) else
    if v < s.var f then .ok (s, f, memo) else
    if v = s.var f then .ok (s, if b then s.highNode f else s.lowNode f, memo) else
    match memo.lookup f with
    | some res => .ok (s, res, memo)
    | none =>
      match substitute fuel s (s.lowNode f) v b memo with
      | .error e => .error e
      | .ok (s1, low, memo1) =>
        match substitute fuel s1 (s1.highNode f) v b memo1 with
        | .error e => .error e
        | .ok (s2, high, memo2) =>
          match mkNode s2 (s.var f) low high with
          | .error e => .error e
          | .ok (s3, res) => .ok (s3, res, (f, res) :: memo2)

abbrev Vals := List (Nat × Bool)     -- the `HashMap<u32,bool>` (only `get`/`is_empty` are used) or a cube

def substMulti : Nat → St → Ref → Vals → SMemo → Res (St × Ref × SMemo)
  | 0, s, _, _, _ => .error (.outOfFuel, s)
  | fuel + 1, s, f, vals, memo =>
    if isTerminal f then .ok (s, f, memo) else
    if vals.isEmpty then .ok (s, f, memo) else
    match memo.lookup f with
    | some res => .ok (s, res, memo)
    | none =>
      match vals.lookup (s.var f) with
      | some b =>
        match substMulti fuel s (if b then s.highNode f else s.lowNode f) vals memo with
        | .error e => .error e
        | .ok (s1, res, memo1) => .ok (s1, res, (f, res) :: memo1)
      | none =>
        match substMulti fuel s (s.lowNode f) vals memo with
        | .error e => .error e
        | .ok (s1, low, memo1) =>
          match substMulti fuel s1 (s1.highNode f) vals memo1 with
          | .error e => .error e
          | .ok (s2, high, memo2) =>
            match mkNode s2 (s.var f) low high with
            | .error e => .error e
            | .ok (s3, res) => .ok (s3, res, (f, res) :: memo2)

abbrev KMemo := List ((Nat × Ref) × Ref)

def cofCube : Nat → St → Ref → Vals → KMemo → Res (St × Ref × KMemo)
  | 0, s, _, _, _ => .error (.outOfFuel, s)
  | _ + 1, s, f, [], memo => .ok (s, f, memo)
  | fuel + 1, s, f, (u, b) :: rest, memo =>
    if isTerminal f then .ok (s, f, memo) else
    match memo.lookup (rest.length + 1, f) with
    | some res => .ok (s, res, memo)
    | none =>
      let t := s.var f
      if t > u then
        match cofCube fuel s f rest memo with
        | .error e => .error e
        | .ok (s1, res, memo1) => .ok (s1, res, ((rest.length + 1, f), res) :: memo1)
      else if t = u then
        match cofCube fuel s (if b then s.highNode f else s.lowNode f) rest memo with
        | .error e => .error e
        | .ok (s1, res, memo1) => .ok (s1, res, ((rest.length + 1, f), res) :: memo1)
      else
        match cofCube fuel s (s.lowNode f) ((u, b) :: rest) memo with
        | .error e => .error e
        | .ok (s1, low, memo1) =>
          match cofCube fuel s1 (s.highNode f) ((u, b) :: rest) memo1 with
          | .error e => .error e
          | .ok (s2, high, memo2) =>
            match mkNode s2 t low high with
            | .error e => .error e
            | .ok (s3, res) => .ok (s3, res, ((rest.length + 1, f), res) :: memo2)

/-! ### compose (per-call direct-mapped `Cache::new(16)`) -/

abbrev CCache := Cache (Ref × Ref) Ref

def compose : Nat → St → Ref → Nat → Ref → CCache → Res (St × Ref × CCache)
  | 0, s, _, _, _, _ => .error (.outOfFuel, s)
  | fuel + 1, s, f, v, g, memo =>
    if isTerminal f then .ok (s, f, memo) else
    if s.var f = 0 then .error (.assertion, s) else
    if v < s.var f then .ok (s, f, memo) else
    match memo.lookup (f, g) with
    | some res => .ok (s, res, memo)
    | none =>
      if v = s.var f then
        match applyIte fuel s g (s.high f.idx) (s.low f.idx) with
        | .error e => .error e
        | .ok (s1, r) =>
          let res := if f.neg then r.not else r
          .ok (s1, res, memo.insert (f, g) res)
      else
        let m := if isTerminal g then s.var f else min (s.var f) (s.var g)
        if m = 0 then .error (.assertion, s) else
        match topCofactors s f m, topCofactors s g m with
        | .ok (f0, f1), .ok (g0, g1) =>
          match compose fuel s f0 v g0 memo with
          | .error e => .error e
          | .ok (s1, h0, memo1) =>
            match compose fuel s1 f1 v g1 memo1 with
            | .error e => .error e
            | .ok (s2, h1, memo2) =>
              match mkNode s2 m h0 h1 with
              | .error e => .error e
              | .ok (s3, res) => .ok (s3, res, memo2.insert (f, g) res)
        | _, _ => .error (.assertion, s)

def composeTop (fuel : Nat) (s : St) (f : Ref) (v : Nat) (g : Ref) : Res (St × Ref) :=
  match compose fuel s f v g (Cache.new 16) with
  | .error e => .error e
  | .ok (s', r, _) => .ok (s', r)

/-! ### constrain, restrict -/

def constrain : Nat → St → Ref → Ref → Res (St × Ref)
  | 0, s, _, _ => .error (.outOfFuel, s)
  | fuel + 1, s, f, g =>
    if isZero g then .ok (s, Ref.zero) else
    if isOne g then .ok (s, f) else
    if isTerminal f then .ok (s, f) else
    if f = g then .ok (s, Ref.one) else
    if f = g.not then .ok (s, Ref.zero) else
    match (s.cacheGet (.constrain f g)).2 with
    | some res => .ok ((s.cacheGet (.constrain f g)).1, res)
    | none =>
      let s0 := (s.cacheGet (.constrain f g)).1
      let v := min (s0.var f) (s0.var g)
      match topCofactors s0 f v, topCofactors s0 g v with
      | .ok (f0, f1), .ok (g0, g1) =>
        if isZero g1 then constrain fuel s0 f0 g0 else
        if isZero g0 then constrain fuel s0 f1 g1 else
        if f0 = f1 then
          match constrain fuel s0 f g0 with
          | .error e => .error e
          | .ok (s1, low) =>
            match constrain fuel s1 f g1 with
            | .error e => .error e
            | .ok (s2, high) => mkNode s2 v low high
        else
          match constrain fuel s0 f0 g0 with
          | .error e => .error e
          | .ok (s1, low) =>
            match constrain fuel s1 f1 g1 with
            | .error e => .error e
            | .ok (s2, high) =>
              match mkNode s2 v low high with
              | .error e => .error e
              | .ok (s3, res) => .ok (s3.cacheInsert (.constrain f g) res, res)
      | _, _ => .error (.assertion, s0)

def restrict : Nat → St → Ref → Ref → Res (St × Ref)
  | 0, s, _, _ => .error (.outOfFuel, s)
  | fuel + 1, s, f, g =>
    if isZero g then .ok (s, Ref.zero) else
    if isOne g || isTerminal f then .ok (s, f) else
    if f = g then .ok (s, Ref.one) else
    if f = g.not then .ok (s, Ref.zero) else
    match (s.cacheGet (.restrict f g)).2 with
    | some res => .ok ((s.cacheGet (.restrict f g)).1, res)
    | none =>
      let s0 := (s.cacheGet (.restrict f g)).1
      let v := min (s0.var f) (s0.var g)
      match topCofactors s0 f v, topCofactors s0 g v with
      | .ok (f0, f1), .ok (g0, g1) =>
        if isZero g1 then restrict fuel s0 f0 g0 else
        if isZero g0 then restrict fuel s0 f1 g1 else
        if v = s0.var f then
          match restrict fuel s0 f0 g0 with
          | .error e => .error e
          | .ok (s1, low) =>
            match restrict fuel s1 f1 g1 with
            | .error e => .error e
            | .ok (s2, high) =>
              match mkNode s2 v low high with
              | .error e => .error e
              | .ok (s3, res) => .ok (s3.cacheInsert (.restrict f g) res, res)
        else
          match applyIte fuel s0 g1 Ref.one g0 with
          | .error e => .error e
          | .ok (s1, g') =>
            match restrict fuel s1 f g' with
            | .error e => .error e
            | .ok (s2, res) => .ok (s2.cacheInsert (.restrict f g) res, res)
      | _, _ => .error (.assertion, s0)

/-! ### descendants, size -/

/-- specification-level breadth-first walk (`HashSet` = list, `VecDeque` = list);
the executable `bfsFast` below is proved equal to it -/
def bfs (s : St) : Nat → List Nat → List Nat → List Nat
  | 0, _, vis => vis
  | _ + 1, [], vis => vis
  | fuel + 1, i :: q, vis =>
    if vis.contains i then bfs s fuel q vis
    else bfs s fuel (q ++ [(s.low i).idx, (s.high i).idx]) (i :: vis)

/-- the same walk with a mark array for `visited` and a two-list queue (`front ++ back.reverse`) -/
def bfsFast (s : St) : Nat → List Nat → List Nat → Array Bool → List Nat → Array Bool × List Nat
  | 0, _, _, mark, vis => (mark, vis)
  | fuel + 1, [], back, mark, vis =>
    match back with
    | [] => (mark, vis)
    | _ :: _ => bfsFast s fuel back.reverse [] mark vis
  | fuel + 1, i :: q, back, mark, vis =>
    if rd mark i then bfsFast s fuel q back mark vis
    else bfsFast s fuel q ((s.high i).idx :: (s.low i).idx :: back) (wr mark i true) (i :: vis)

/-- enough for every pop (one per queued index, at most `|roots| + 2·capacity`) and every
queue reversal -/
def bfsFuel (s : St) (roots : List Ref) : Nat := 2 * (roots.length + 2 * s.storage.vals.size) + 4

/-- `descendants(nodes)`: the marks and the visited indices (latest first); `visited` starts as `{1}` -/
def descendantsMark (s : St) (roots : List Ref) : Array Bool × List Nat :=
  bfsFast s (bfsFuel s roots) (roots.map Ref.idx) []
    (wr (Array.replicate s.storage.vals.size false) 1 true) [1]

def descendants (s : St) (roots : List Ref) : List Nat := (descendantsMark s roots).2

/-- `size(f)`: size cache probe, else `descendants([f]).len()` and insert -/
def size (s : St) (f : Ref) : St × Nat :=
  match (s.sizeCache.get f).2 with
  | some n => ({ s with sizeCache := (s.sizeCache.get f).1 }, n)
  | none =>
    let n := (descendants s [f]).length
    ({ s with sizeCache := ((s.sizeCache.get f).1).insert f n }, n)

/-! ### collect_garbage -/

/-- first loop of a bucket (and the inner loop of the second): drop dead cells starting at `idx` -/
def skipDead (mark : Array Bool) : Nat → Table Node → Nat → Except Fault (Table Node × Nat)
  | 0, _, _ => .error .outOfFuel
  | fuel + 1, t, idx =>
    if idx != 0 && !(rd mark idx) then
      match t.drop idx with
      | .error e => .error e
      | .ok t1 => skipDead mark fuel t1 (rd t.nxs idx)
    else .ok (t, idx)

/-- the same loop reading the link before the cell is dropped, so that the table is uniquely
referenced when `drop` updates it (used by compiled code through `@[csimp]`) -/
def skipDeadFast (mark : Array Bool) : Nat → Table Node → Nat → Except Fault (Table Node × Nat)
  | 0, _, _ => .error .outOfFuel
  | fuel + 1, t, idx =>
    if idx != 0 && !(rd mark idx) then
      let nxt := rd t.nxs idx
      match t.drop idx with
      | .error e => .error e
      | .ok t1 => skipDeadFast mark fuel t1 nxt
    else .ok (t, idx)

@[csimp] theorem skipDead_eq_fast : @skipDead = @skipDeadFast := by
  funext mark fuel t idx
  induction fuel generalizing t idx with
  | zero => rfl
  | succ n ih =>
    unfold skipDead skipDeadFast
    split
    · cases t.drop idx with
      | error e => rfl
      | ok t1 => exact ih t1 _
    · rfl

/-- second loop: `prev`/`cur` relinking -/
def relink (mark : Array Bool) : Nat → Table Node → Nat → Except Fault (Table Node)
  | 0, _, _ => .error .outOfFuel
  | fuel + 1, t, prev =>
    if prev = 0 then .ok t else
    match skipDead mark fuel t (rd t.nxs prev) with
    | .error e => .error e
    | .ok (t1, cur) =>
      let t2 := if rd t1.nxs prev != cur then t1.setNext prev cur else t1
      relink mark fuel t2 cur

/-- one iteration of `for i in 0..n` -/
def sweepBucket (mark : Array Bool) (fuel : Nat) (t : Table Node) (b : Nat) : Except Fault (Table Node) :=
  let head := rd t.buckets b
  if head = 0 then .ok t else
  match skipDead mark fuel t head with
  | .error e => .error e
  | .ok (t1, idx) => relink mark fuel (t1.setBucket b idx) idx

def sweepFrom (mark : Array Bool) (fuel : Nat) : Nat → Nat → Table Node → Except Fault (Table Node)
  | 0, _, t => .ok t
  | n + 1, b, t =>
    match sweepBucket mark fuel t b with
    | .error e => .error e
    | .ok t1 => sweepFrom mark fuel n (b + 1) t1

def collectGarbage (s : St) (roots : List Ref) : Res St :=
  let s1 : St := { s with cache := s.cache.clear, sizeCache := s.sizeCache.clear }
  let mark := (descendantsMark s1 roots).1
  match sweepFrom mark (s1.storage.vals.size + 2) s1.storage.buckets.size 0 s1.storage with
  | .error e => .error (e, s1)
  | .ok t => .ok { s1 with storage := t }

/-- `collect_garbage` called while the caller still holds a `RefCell` guard from one of the public
accessors (`which` = 0: `cache()`, 1: `size_cache()`, 2: `storage()`): the first mutable borrow of
that cell panics ("already borrowed").  The statement order of the code decides what has happened
by then: the operation cache is cleared first, the size cache second, the table is borrowed last. -/
def collectGarbageHeld (which : Nat) (s : St) : Res St :=
  match which with
  | 0 => .error (.assertion, s)
  | 1 => .error (.assertion, { s with cache := s.cache.clear })
  | _ =>
    -- the table is borrowed mutably only when a non-empty bucket is met (to drop its head or to
    -- store the bucket head back); with every bucket empty the collection completes
    let s1 : St := { s with cache := s.cache.clear, sizeCache := s.sizeCache.clear }
    if s.storage.buckets.all (· == 0) then .ok s1 else .error (.assertion, s1)

end P

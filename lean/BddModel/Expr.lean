import BddModel.Bdd
/-! `eval.rs`: expression trees, `Expr::not` rewrites, evaluation, and a reader for token strings
written with the overloaded operators `- * + ^` under Rust's precedence
(unary `-` binds tightest, then `*`, then `+`, then `^`; binary operators associate to the left). -/
namespace P

inductive Expr where
  | term (r : Ref)
  | not (a : Expr)
  | and (a b : Expr)
  | or (a b : Expr)
  | xor (a b : Expr)
deriving Repr

/-- `Expr::not`: pushes negation into terms, cancels double negation -/
def Expr.mkNot : Expr → Expr
  | .term r => .term r.not
  | .not a => a
  | e => .not e

def Expr.eval (fuel : Nat) : St → Expr → Res (St × Ref)
  | s, .term r => .ok (s, r)
  | s, .not a =>
    match Expr.eval fuel s a with
    | .error e => .error e
    | .ok (s1, r) => .ok (s1, r.not)
  | s, .and a b =>
    match Expr.eval fuel s a with
    | .error e => .error e
    | .ok (s1, ra) =>
      match Expr.eval fuel s1 b with
      | .error e => .error e
      | .ok (s2, rb) => applyAnd fuel s2 ra rb
  | s, .or a b =>
    match Expr.eval fuel s a with
    | .error e => .error e
    | .ok (s1, ra) =>
      match Expr.eval fuel s1 b with
      | .error e => .error e
      | .ok (s2, rb) => applyOr fuel s2 ra rb
  | s, .xor a b =>
    match Expr.eval fuel s a with
    | .error e => .error e
    | .ok (s1, ra) =>
      match Expr.eval fuel s1 b with
      | .error e => .error e
      | .ok (s2, rb) => applyXor fuel s2 ra rb

/-- a Rust value of type `Ref` or `Expr` (the operators are overloaded on both) -/
inductive PV where
  | ref (r : Ref)
  | expr (e : Expr)

def PV.toExpr : PV → Expr
  | .ref r => .term r      -- `Expr::term(self)` inside `impl Mul<..> for Ref` etc.
  | .expr e => e

/-- unary minus: `Neg for Ref` flips the handle, `Neg for Expr` is `Expr::not` -/
def PV.neg : PV → PV
  | .ref r => .ref r.not
  | .expr e => .expr e.mkNot

def PV.mul (a b : PV) : PV := .expr (.and a.toExpr b.toExpr)
def PV.add (a b : PV) : PV := .expr (.or a.toExpr b.toExpr)
def PV.bxor (a b : PV) : PV := .expr (.xor a.toExpr b.toExpr)

/-- `bdd.eval(value)` -/
def PV.eval (fuel : Nat) (s : St) : PV → Res (St × Ref)
  | .ref r => .ok (s, r)
  | .expr e => e.eval fuel s

inductive Tok where
  | h (r : Ref)       -- a handle
  | minus | star | plus | caret | lpar | rpar
  | t                 -- `Expr::term(` primary `)`
deriving Repr

mutual
/-- primary := handle | `(` xor `)` | `t` primary -/
def parsePrimary : Nat → List Tok → Option (PV × List Tok)
  | 0, _ => none
  | fuel + 1, toks =>
    match toks with
    | .h r :: rest => some (.ref r, rest)
    | .t :: rest =>
      match parsePrimary fuel rest with
      | some (v, rest') => some (.expr v.toExpr, rest')
      | none => none
    | .lpar :: rest =>
      match parseXor fuel rest with
      | some (v, .rpar :: rest') => some (v, rest')
      | _ => none
    | _ => none

/-- unary := `-` unary | primary -/
def parseUnary : Nat → List Tok → Option (PV × List Tok)
  | 0, _ => none
  | fuel + 1, toks =>
    match toks with
    | .minus :: rest =>
      match parseUnary fuel rest with
      | some (v, rest') => some (v.neg, rest')
      | none => none
    | _ => parsePrimary fuel toks

def parseMulTail : Nat → PV → List Tok → Option (PV × List Tok)
  | 0, _, _ => none
  | fuel + 1, acc, toks =>
    match toks with
    | .star :: rest =>
      match parseUnary fuel rest with
      | some (v, rest') => parseMulTail fuel (acc.mul v) rest'
      | none => none
    | _ => some (acc, toks)

def parseMul : Nat → List Tok → Option (PV × List Tok)
  | 0, _ => none
  | fuel + 1, toks =>
    match parseUnary fuel toks with
    | some (v, rest) => parseMulTail fuel v rest
    | none => none

def parseAddTail : Nat → PV → List Tok → Option (PV × List Tok)
  | 0, _, _ => none
  | fuel + 1, acc, toks =>
    match toks with
    | .plus :: rest =>
      match parseMul fuel rest with
      | some (v, rest') => parseAddTail fuel (acc.add v) rest'
      | none => none
    | _ => some (acc, toks)

def parseAdd : Nat → List Tok → Option (PV × List Tok)
  | 0, _ => none
  | fuel + 1, toks =>
    match parseMul fuel toks with
    | some (v, rest) => parseAddTail fuel v rest
    | none => none

def parseXorTail : Nat → PV → List Tok → Option (PV × List Tok)
  | 0, _, _ => none
  | fuel + 1, acc, toks =>
    match toks with
    | .caret :: rest =>
      match parseAdd fuel rest with
      | some (v, rest') => parseXorTail fuel (acc.bxor v) rest'
      | none => none
    | _ => some (acc, toks)

def parseXor : Nat → List Tok → Option (PV × List Tok)
  | 0, _ => none
  | fuel + 1, toks =>
    match parseAdd fuel toks with
    | some (v, rest) => parseXorTail fuel v rest
    | none => none
end

def parseRust (toks : List Tok) : Option PV :=
  match parseXor (8 * toks.length + 8) toks with
  | some (v, []) => some v
  | _ => none

end P

import BddModel.Basic
/-! The machine-word layer of `reference.rs`, of `table.rs::Entry` and of the literal conversions in
`bdd.rs` / `sat.rs` / `paths.rs`, bit for bit over `BitVec 32`.

The rest of the model keeps a handle as the pair `⟨idx, neg⟩`, a cell's link as the pair
`(next, occupied)` and a literal as an unbounded `Int`; `BddProofs/Bits.lean` proves that the packed
words below behave as those pairs exactly when the index is below `2^31` (the bound the code asserts),
and that every index a reachable manager can hold is below that bound.  Import-free apart from the
basic types; run by the driver (`ref.*`, `ent.*`, `lit.*` requests). -/
namespace P.Bits

/-! ### `Ref(u32)` -/

/-- `Ref::new(index, negated)`: `(index << 1) | (negated as u32)` -/
def refNew (index : BitVec 32) (negated : Bool) : BitVec 32 := (index <<< 1) ||| (if negated then 1 else 0)
/-- `Ref::index`: `self.0 >> 1` -/
def refIndex (r : BitVec 32) : BitVec 32 := r >>> 1
/-- `Ref::is_negated`: `(self.0 & 1) != 0` -/
def refIsNegated (r : BitVec 32) : Bool := r &&& 1 != 0
/-- `Neg for Ref`: `Self(self.0 ^ 1)` -/
def refNeg (r : BitVec 32) : BitVec 32 := r ^^^ 1
/-- `Ref::hashy`: `self.0 as u64` -/
def refHashy (r : BitVec 32) : BitVec 64 := r.setWidth 64
/-- `Display for Ref` -/
def refShow (r : BitVec 32) : String := (if refIsNegated r then "~" else "") ++ "@" ++ toString (refIndex r).toNat

/-- the packed word of a model handle (meaningful for `idx < 2^31`) -/
def ofRef (r : Ref) : BitVec 32 := refNew (BitVec.ofNat 32 r.idx) r.neg
/-- the model handle a packed word stands for -/
def toRef (w : BitVec 32) : Ref := ⟨(refIndex w).toNat, refIsNegated w⟩

/-! ### `Entry::next: u32` — 31 bits of link, 1 bit of occupancy -/

/-- `Entry::next`: `(self.next >> 1) as usize` -/
def entNext (w : BitVec 32) : BitVec 32 := w >>> 1
/-- `Entry::set_next` after its assertion `next < 0x8000_0000`: `((next as u32) << 1) | (self.next & 1)` -/
def entSetNext (w next : BitVec 32) : BitVec 32 := (next <<< 1) ||| (w &&& 1)
/-- `Entry::occupied`: `(self.next & 1) != 0` -/
def entOccupied (w : BitVec 32) : Bool := w &&& 1 != 0
/-- `Entry::set_occupied`: `(self.next & !1) | (occupied as u32)` -/
def entSetOccupied (w : BitVec 32) (occ : Bool) : BitVec 32 := (w &&& ~~~1) ||| (if occ then 1 else 0)

/-! ### literals: `i32` ↔ variable `u32` -/

/-- `lit < 0` -/
def litIsNeg (lit : BitVec 32) : Bool := lit.slt 0
/-- `-lit as u32` for a negative literal, `lit as u32` otherwise (wrapping negation, as in a release build) -/
def litVar (lit : BitVec 32) : BitVec 32 := if litIsNeg lit then -lit else lit
/-- `i32::unsigned_abs` -/
def litUnsignedAbs (lit : BitVec 32) : BitVec 32 := if lit.slt 0 then -lit else lit
/-- `variable as i32` (the positive literal `one_sat` / `paths` push) -/
def litPos (v : BitVec 32) : BitVec 32 := v
/-- `-(variable as i32)` -/
def litNeg (v : BitVec 32) : BitVec 32 := -v

end P.Bits

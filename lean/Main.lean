import BddModel.Bdd
import BddModel.Query
import BddModel.Expr
import BddModel.Raw
import BddModel.Eda
import BddModel.EdaFast
import BddModel.Bits
import BddModel.Driver
import BddModel.DriverQuery
/-! Line-protocol driver: one operation per input line, one canonical reply line.
The Rust harness executes the same lines on the real crate and compares the replies. -/
open P Arr

def FUEL : Nat := 1000000000

/-- item type for driving `Table<T>` directly with an adversarial `MyHash` -/
structure Item where
  v : Nat
  kind : Nat
deriving DecidableEq, Inhabited

instance : MyHash Item := ⟨fun it =>
  match it.kind with
  | 0 => 0
  | 1 => UInt64.ofNat (it.v % 2)
  | 2 => UInt64.ofNat it.v
  | _ => pairing2 (UInt64.ofNat it.v) 0xFFFFFFFFFFFFFFF1⟩

def rawHash (kind : Nat) (k : Nat) : Nat :=
  match kind with
  | 0 => 0
  | 1 => k
  | 2 => 2 ^ 64 - 1
  | 3 => 2 ^ 63 + k
  | 4 => (k * 0x9E3779B97F4A7C15) % 2 ^ 64
  | 5 => k % 2
  | _ => (2 ^ 64 - 1 - k) % 2 ^ 64

structure DState where
  st : Option St := none
  env : Array Ref := #[]
  tab : Table Item := Table.newWith 0 0
  tabKind : Nat := 0
  tnode : Table Node := Table.newWith 0 0
  cch : Cache (UInt64 × UInt64) Nat := Cache.new 0
  ckc : Cache OpKey Ref := Cache.new 0
  raw : R.Raw Nat Nat := R.Raw.new
  rawKind : Nat := 0
  rawDbg : Bool := false
  /-- a failing operation on a large RawTable ran on the only reference to it (see `rawMut`) -/
  rawLost : Bool := false
  /-- a `paths` iterator kept open across other operations: the cubes it has not yielded yet
  (`paths` is a pure function of the diagram, which the harness keeps alive meanwhile) -/
  pit : Option (List (List Int)) := none
  /-- abstract reply mode: handles are printed as canonical diagrams (indices renumbered in visit
  order) plus the first equal handle; state snapshots are suppressed -/
  abs : Bool := false

def showRef (r : Ref) : String := toString r.idx ++ ":" ++ (if r.neg then "1" else "0")

/-- canonical serialisation of the diagram below a handle: decision nodes are numbered in the order of
first visit (then-branch first), so the string does not depend on where nodes are stored -/
def canonRef : Nat → St → Ref → List Nat → String × List Nat
  | 0, _, _, vis => ("?", vis)
  | fuel + 1, s, r, vis =>
    if r == Ref.one then ("1", vis) else
    if r == Ref.zero then ("0", vis) else
    let sign := if r.neg then "~" else ""
    if r.idx = 0 ∨ r.idx ≥ s.storage.vals.size then ("?", vis) else
    match vis.idxOf? r.idx with
    | some k => (sign ++ "#" ++ toString k, vis)
    | none =>
      let k := vis.length
      let p1 := canonRef fuel s (s.high r.idx) (vis ++ [r.idx])
      let p2 := canonRef fuel s (s.low r.idx) p1.2
      (sign ++ "n" ++ toString k ++ "(x" ++ toString (s.var r) ++ "," ++ p1.1 ++ "," ++ p2.1 ++ ")", p2.2)

/-- index of the first named handle equal to `r` -/
def firstEq (env : Array Ref) (r : Ref) : Nat :=
  -- (index 0 marks a retired name or the `Ref::ZERO` sentinel: never "the same handle" as anything)
  match env.toList.findIdx? (fun x => x == r && x.idx != 0) with
  | some k => k
  | none => env.size

def showHandle (abs : Bool) (s : St) (env : Array Ref) (r : Ref) : String :=
  if abs then (canonRef 100000 s r []).1 ++ " =h" ++ toString (firstEq env r) else showRef r

def fnv1a (s : String) : UInt64 :=
  s.toUTF8.foldl (fun h b => (h ^^^ b.toUInt64) * 0x100000001b3) 0xcbf29ce484222325

def boolS (b : Bool) : String := if b then "1" else "0"

/-- the cells part of a table snapshot: `i:1:<value>:<next>` for occupied cells, `i:0` otherwise,
for `i` in `0..=last_index`, then the number of occupied cells above `last_index` -/
def tableSnapshot {α : Type} [Inhabited α] (t : Table α) (showV : α → String) : String :=
  let hdr := "T cap=" ++ toString t.vals.size ++ " last=" ++ toString t.lastIndex ++
    " minfree=" ++ toString t.minFree ++ " real=" ++ toString t.realSize ++
    " nb=" ++ toString t.buckets.size
  let bks := " | B" ++ t.buckets.foldl (fun acc h => acc ++ " " ++ toString h) ""
  let cells := (List.range (t.lastIndex + 1)).foldl (fun acc i =>
    if rd t.occs i then
      acc ++ " " ++ toString i ++ ":1:" ++ (if i = 0 then "-" else showV (rd t.vals i)) ++ ":" ++ toString (rd t.nxs i)
    else acc ++ " " ++ toString i ++ ":0") ""
  let restOcc := (List.range (t.vals.size - (t.lastIndex + 1))).foldl (fun acc k =>
    if rd t.occs (t.lastIndex + 1 + k) then acc + 1 else acc) 0
  hdr ++ bks ++ " | C" ++ cells ++ " | rest_occ=" ++ toString restOcc

def showNode (n : Node) : String := toString n.var ++ "," ++ toString n.low.raw ++ "," ++ toString n.high.raw

def showKey : OpKey → String
  | .ite f g h => "I" ++ toString f.raw ++ "," ++ toString g.raw ++ "," ++ toString h.raw
  | .constrain f g => "C" ++ toString f.raw ++ "," ++ toString g.raw
  | .restrict f g => "R" ++ toString f.raw ++ "," ++ toString g.raw

def cacheSnapshot {κ ν : Type} (c : Cache κ ν) (showK : κ → String) (showV : ν → String) : String :=
  let (_, body) := c.data.foldl (fun (acc : Nat × String) e =>
    match e with
    | some (k, v) => (acc.1 + 1, acc.2 ++ " " ++ toString acc.1 ++ ":" ++ showK k ++ "=" ++ showV v)
    | none => (acc.1 + 1, acc.2)) (0, "")
  "slots=" ++ toString c.data.size ++ body ++ " hits=" ++ toString c.hits ++ " faults=" ++
    toString c.faults ++ " misses=" ++ toString c.misses

def refOfRaw (n : Nat) : Ref := ⟨n / 2, n % 2 == 1⟩
def parseKey (kind f g h : String) : Option OpKey :=
  match f.toNat?, g.toNat?, h.toNat? with
  | some f, some g, some h =>
    match kind with
    | "ite" => some (.ite (refOfRaw f) (refOfRaw g) (refOfRaw h))
    | "con" => some (.constrain (refOfRaw f) (refOfRaw g))
    | "res" => some (.restrict (refOfRaw f) (refOfRaw g))
    | _ => none
  | _, _, _ => none

def stSnapshot (s : St) : String :=
  tableSnapshot s.storage showNode ++ " | K " ++ cacheSnapshot s.cache showKey (fun r => toString r.raw) ++
    " | S " ++ cacheSnapshot s.sizeCache (fun r => toString r.raw) toString

def showIntList (l : List Int) : String := "[" ++ ", ".intercalate (l.map toString) ++ "]"
def showNatList (l : List Nat) : String := "[" ++ ", ".intercalate (l.map toString) ++ "]"

def parseTok (env : Array Ref) (t : String) : Option Tok :=
  match t with
  | "-" => some .minus | "*" => some .star | "+" => some .plus | "^" => some .caret
  | "(" => some .lpar | ")" => some .rpar | "t" => some .t
  | _ => if t.startsWith "h" then (t.drop 1).toNat?.bind (fun i => env[i]?.map Tok.h) else none

def sortNat (l : List Nat) : List Nat := l.mergeSort (fun a b => a ≤ b)

/-! ### eda helpers -/

def z7neg (x : Nat) : Nat := (7 - x % 7) % 7
def z7mul (x y : Nat) : Nat := (x * y) % 7
def z7add (x y : Nat) : Nat := (x + y) % 7

/-- prefix notation: `T n`, `N e`, `n e` (the smart constructor `ExprBoxed::not`), `A e e`, `O e e`,
`X e e`, `I e e e` -/
def parseTree : Nat → List String → Option (A.Tree Nat × List String)
  | 0, _ => none
  | fuel + 1, toks =>
    match toks with
    | "T" :: n :: rest => n.toNat?.map (fun k => (A.Tree.term k, rest))
    | "N" :: rest => (parseTree fuel rest).map (fun (a, r) => (A.Tree.not a, r))
    | "n" :: rest => (parseTree fuel rest).map (fun (a, r) => (a.mkNot, r))
    | "A" :: rest =>
      (parseTree fuel rest).bind (fun (a, r) => (parseTree fuel r).map (fun (b, r') => (A.Tree.and a b, r')))
    | "O" :: rest =>
      (parseTree fuel rest).bind (fun (a, r) => (parseTree fuel r).map (fun (b, r') => (A.Tree.or a b, r')))
    | "X" :: rest =>
      (parseTree fuel rest).bind (fun (a, r) => (parseTree fuel r).map (fun (b, r') => (A.Tree.xor a b, r')))
    | "I" :: rest =>
      (parseTree fuel rest).bind (fun (a, r) => (parseTree fuel r).bind (fun (b, r') =>
        (parseTree fuel r').map (fun (c, r'') => (A.Tree.ite a b c, r''))))
    | _ => none

/-- `exprtree`: an expression built constructor by constructor (prefix notation) -/
def parseExprTree (env : Array Ref) (ok : Ref → Bool) : Nat → List String → Option (Expr × List String)
  | 0, _ => none
  | fuel + 1, toks =>
    match toks with
    | "T" :: i :: rest =>
      (i.toNat?.bind (fun k => env[k]?)).bind (fun r => if ok r then some (Expr.term r, rest) else none)
    | "N" :: rest => (parseExprTree env ok fuel rest).map (fun (a, r) => (Expr.not a, r))
    | "n" :: rest => (parseExprTree env ok fuel rest).map (fun (a, r) => (a.mkNot, r))
    | op :: rest =>
      if op ∈ ["A", "a", "O", "o", "X", "x"] then
        (parseExprTree env ok fuel rest).bind (fun (a, r) => (parseExprTree env ok fuel r).map (fun (b, r') =>
          ((if op == "A" || op == "a" then Expr.and a b else if op == "O" || op == "o" then Expr.or a b
            else Expr.xor a b), r')))
      else none
    | [] => none

def showOptNat : Option Nat → String
  | some n => toString n
  | none => "panic"

def edaBoxed (e : A.Tree Nat) : String :=
  let sh : Nat → String := toString
  let arena := A.fromBoxed e
  let ts := match A.collapse (A.strAlg sh) arena with | some x => x | none => "panic"
  let ev := match A.collapse (A.evalAlg z7neg z7mul z7add) (arena.map (fun L => match L with
      | .term t => A.Layer.term t | .not a => .not a | .and a b => .and a b | .or a b => .or a b
      | .xor a b => .xor a b | .ite a b c => .ite a b c)) with
    | some (some x) => toString x | _ => "panic"
  let direct := showOptNat (e.value z7neg z7mul z7add)
  let back := A.collapse A.boxAlg arena
  let backS := match back with | some b => b.toStr sh | none => "panic"
  let backV := match back with | some b => showOptNat (b.value z7neg z7mul z7add) | none => "panic"
  -- evaluation over the free term algebra (digest of the term)
  let evS := match A.collapse (A.evalAlg (fun x => "-(" ++ x ++ ")") (fun a b => "(" ++ a ++ "*" ++ b ++ ")")
      (fun a b => "(" ++ a ++ "+" ++ b ++ ")")) (arena.map (fun L => match L with
      | .term t => A.Layer.term (toString t) | .not a => .not a | .and a b => .and a b | .or a b => .or a b
      | .xor a b => .xor a b | .ite a b c => .ite a b c)) with
    | some (some x) => toString (fnv1a x).toNat | _ => "panic"
  -- printing with terms whose own text looks like syntax
  let weird : Nat → String := fun t => match t % 7 with
    | 0 => "-3" | 1 => "~x" | 2 => "(p & q)" | 3 => "" | 4 => "- 1" | 5 => "a ? b : c" | _ => "0"
  let txtTree := e.toStr weird
  let txtArena := match A.collapse (A.strAlg weird) arena with | some x => x | none => "panic"
  e.toStr sh ++ " | " ++ A.arenaDebug sh arena ++ " | " ++ ts ++ " | " ++ ev ++ " | " ++ direct ++
    " | " ++ backS ++ " | " ++ backV ++ " | " ++ evS ++ " | " ++
    toString (fnv1a txtTree).toNat ++ "/" ++ toString (fnv1a txtArena).toNat

def edaSignal (raw : Nat) : String :=
  let s : BitVec 32 := BitVec.ofNat 32 raw
  "raw=" ++ toString s.toNat ++ " index=" ++ toString (Sg.index s).toNat ++
  " const=" ++ boolS (Sg.isConst s) ++ " input=" ++ boolS (Sg.isInput s) ++ " var=" ++ boolS (Sg.isVar s) ++
  " neg=" ++ boolS (Sg.isNegated s) ++
  " varv=" ++ (if Sg.isVar s then toString (Sg.var s).toNat else "-") ++
  " inputv=" ++ (if Sg.isInput s then toString (Sg.input s).toNat else "-") ++
  " not=" ++ toString (Sg.not s).toNat ++ " disp=" ++ Sg.display s ++
  -- `Not for &Signal` and `Debug` (= `Display`)
  " rnot=" ++ toString (Sg.not s).toNat ++ " dbg=" ++ Sg.display s

/-! ### raw helpers -/

def showSlot : R.Slot Nat Nat → String
  | .free => "F"
  | .dead => "D"
  | .full st k v => toString st ++ "/" ++ toString k ++ "/" ++ toString v

def rawSnapshot (t : R.Raw Nat Nat) : String :=
  "cap=" ++ toString t.cap ++ " len=" ++ toString t.len ++ " free=" ++ toString t.free ++ " |" ++
    t.slots.foldl (fun acc s => acc ++ " " ++ showSlot s) ""

def outS {α : Type} (o : R.Out α) (f : α → String) : String :=
  match o with
  | .ok a => f a
  | .hang => "hang"
  | .ub => "ub"
  | .panic => "panic assert"

def showEx : Except Nat Nat → String
  | .ok i => "Ok(" ++ toString i ++ ")"
  | .error i => "Err(" ++ toString i ++ ")"

/-! ### the step function

The manager is taken out of the driver state before an operation runs and put back afterwards, and
handle tables are pushed to only while nothing else refers to them: the big arrays are then uniquely
referenced and updated in place (a 2^20-cell table would otherwise be copied by every operation). -/

/-- a mutating RawTable operation.  Small tables (all the adversarial cases) run on a shared
reference, so a failing operation leaves the table as it was.  Large tables are taken out of the
driver state first so that the slot array is updated in place; should such an operation fail, the
table is gone and every later reply says so (never a silently wrong state). -/
def rawMut {β : Type} (d : DState) (f : R.Raw Nat Nat → R.Out (R.Raw Nat Nat × β)) (sh : β → String) :
    DState × String :=
  if d.rawLost then (d, "state-lost") else
  if d.raw.slots.size ≤ 1024 then
    match f d.raw with
    | .ok (t, r) => ({ d with raw := t }, sh r)
    | o => (d, outS o (fun _ => ""))
  else
    let raw := d.raw
    let d := { d with raw := R.Raw.new }
    match f raw with
    | .ok (t, r) => ({ d with raw := t }, sh r)
    | o => ({ d with rawLost := true }, outS o (fun _ => "") ++ " state-lost")

/-- a named handle, provided it still names a stored node *in the model's state*: once the two sides
have diverged the harness (which tracks liveness on the implementation) may send a handle whose cell
the model has freed; walking from a free cell can meet reused cells and need not terminate quickly,
so such a request is refused (`bad-op`, which the implementation never answers) -/
def hOf (env : Array Ref) (s : St) (t : String) : Option Ref :=
  t.toNat?.bind (fun i => env[i]?.bind (fun r =>
    -- (index 0 is the `Ref::ZERO` sentinel: never a handle, the generators do not pass it on)
    if r.idx ≠ 0 && Arr.rd s.storage.occs r.idx then some r else none))
def hsOf (env : Array Ref) (s : St) (ts : List String) : Option (List Ref) := ts.mapM (hOf env s)

/-- put the manager back, nothing else changed -/
def keep (d : DState) (s : St) (out : String) : DState × String := ({ d with st := some s }, out)

/-- bind the result of a handle-producing operation (on a panic the name is bound to the constant
false, as the harness does) -/
def pushRes (d : DState) (x : Res (St × Ref)) : DState × String :=
  match x with
  | .ok (s', r) =>
    let abs := d.abs
    let env := d.env
    let d := { d with env := #[] }
    let env := env.push r
    let out := "r " ++ showHandle abs s' env r
    ({ d with st := some s', env := env }, out)
  | .error (e, s') =>
    let env := d.env
    let d := { d with env := #[] }
    ({ d with st := some s', env := env.push Ref.zero }, "panic " ++ e.toString)

/-- names of collected nodes are retired (their bits may coincide with later results once the cell is
reused; which cell that is depends on the allocation order) -/
def retire (d : DState) (s' : St) : DState :=
  -- (in both modes: a name is dead from the first collection that does not keep its node, as on the
  -- harness side — a later reuse of the cell does not revive it, so a history recorded against a changed
  -- tree and replayed on another one is refused at the same lines by both sides)
  let env := d.env
  let d := { d with env := #[] }
  let env := env.map (fun r => if r.idx = 1 || Arr.rd s'.storage.occs r.idx then r else Ref.raw0)
  { d with st := some s', env := env }

/-- every operation that can change the manager goes through the checked dispatcher `exec`
(`BddModel/Driver.lean`): a request whose precondition fails in the model's state is refused (`bad`);
`BddProofs/DriverGood.lean` proves that an accepted one is a step of the history closure -/
def viaExec (d : DState) (s : St) (req : Req) (bad : String := "bad-op") : DState × String :=
  match exec FUEL s req with
  | .refused s => keep d s bad
  | .handle x => pushRes d x
  | .optBool (.ok (s', o)) =>
    ({ d with st := some s' }, match o with | some true => "some1" | some false => "some0" | none => "none")
  | .optBool (.error (e, s')) => ({ d with st := some s' }, "panic " ++ e.toString)
  | .bool (.ok (s', o)) => ({ d with st := some s' }, boolS o)
  | .bool (.error (e, s')) => ({ d with st := some s' }, "panic " ++ e.toString)
  | .nat (s', n) => ({ d with st := some s' }, toString n)
  | .unit (.ok s') => (retire d s', "ok")
  | .unit (.error (e, s')) => ({ d with st := some s' }, "panic " ++ e.toString)

/-- operations on the manager `s`; `d.st` is `none` while this runs -/
def stepMgr (d : DState) (s : St) (toks : List String) : DState × String :=
  match toks with
  | ["var", v] => match v.toNat? with | some v => viaExec d s (.var v) | none => keep d s "bad-op"
  | ["node", v, lo, hi] =>
    match v.toNat?, hOf d.env s lo, hOf d.env s hi with
    -- `mk_node` has a precondition the code does not check (the variable lies above both children);
    -- the harness only sends ordered requests, so an unordered one means the two sides have already
    -- diverged: it is refused instead of building an ill-formed diagram (whose walks need not be small)
    | some v, some lo, some hi => viaExec d s (.node v lo hi) "unordered"
    | _, _, _ => keep d s "bad-op"
  | ["not", a] => match hOf d.env s a with | some a => pushRes d (.ok (s, a.not)) | none => keep d s "bad-op"
  | ["ite", a, b, c] =>
    match hOf d.env s a, hOf d.env s b, hOf d.env s c with
    | some a, some b, some c => viaExec d s (.ite a b c)
    | _, _, _ => keep d s "bad-op"
  | ["and", a, b] => match hOf d.env s a, hOf d.env s b with | some a, some b => viaExec d s (.and a b) | _, _ => keep d s "bad-op"
  | ["or", a, b] => match hOf d.env s a, hOf d.env s b with | some a, some b => viaExec d s (.or a b) | _, _ => keep d s "bad-op"
  | ["xor", a, b] => match hOf d.env s a, hOf d.env s b with | some a, some b => viaExec d s (.xor a b) | _, _ => keep d s "bad-op"
  | ["eq", a, b] => match hOf d.env s a, hOf d.env s b with | some a, some b => viaExec d s (.eq a b) | _, _ => keep d s "bad-op"
  | ["imply", a, b] => match hOf d.env s a, hOf d.env s b with | some a, some b => viaExec d s (.imply a b) | _, _ => keep d s "bad-op"
  | "andmany" :: rs => match hsOf d.env s rs with | some rs => viaExec d s (.andMany rs) | none => keep d s "bad-op"
  | "ormany" :: rs => match hsOf d.env s rs with | some rs => viaExec d s (.orMany rs) | none => keep d s "bad-op"
  | "cube" :: lits =>
    match lits.mapM String.toInt? with
    | some ls => viaExec d s (.cube (ls.map litOfInt))
    | none => keep d s "bad-op"
  | "clause" :: lits =>
    match lits.mapM String.toInt? with
    | some ls => viaExec d s (.clause (ls.map litOfInt))
    | none => keep d s "bad-op"
  | ["subst", f, v, b] =>
    match hOf d.env s f, v.toNat? with
    | some f, some v => viaExec d s (.subst f v (b == "1"))
    | _, _ => keep d s "bad-op"
  | "substm" :: f :: lits =>
    match hOf d.env s f, lits.mapM String.toInt? with
    | some f, some ls => viaExec d s (.substMulti f (ls.map litOfInt))
    | _, _ => keep d s "bad-op"
  | "cofcube" :: f :: lits =>
    match hOf d.env s f, lits.mapM String.toInt? with
    | some f, some ls => viaExec d s (.cofCube f (ls.map litOfInt))
    | _, _ => keep d s "bad-op"
  | ["compose", f, v, g] =>
    match hOf d.env s f, v.toNat?, hOf d.env s g with
    | some f, some v, some g => viaExec d s (.compose f v g)
    | _, _, _ => keep d s "bad-op"
  | ["constrain", f, g] => match hOf d.env s f, hOf d.env s g with | some f, some g => viaExec d s (.constrain f g) | _, _ => keep d s "bad-op"
  | ["restrict", f, g] => match hOf d.env s f, hOf d.env s g with | some f, some g => viaExec d s (.restrict f g) | _, _ => keep d s "bad-op"
  | "exprc" :: _ :: ts | "expr" :: ts =>
    match ts.mapM (parseTok d.env) with
    | some tl =>
      match parseRust tl with
      | some pv => viaExec d s (.expr pv.toExpr)   -- (`PV.eval` of a bare handle is `Expr.eval` of its term)
      | none => keep d s "bad-op"
    | none => keep d s "bad-op"
  | "exprtree" :: ts =>
    match parseExprTree d.env (fun _ => true) (ts.length + 1) ts with
    | some (e, []) => viaExec d s (.expr e)
    | _ => keep d s "bad-op"
  | ["low", f] =>
    match hOf d.env s f with
    | some f => (match execQuery FUEL s (.low f) with | .handle r => pushRes d (.ok (s, r)) | _ => keep d s "bad-op")
    | none => keep d s "bad-op"
  | ["high", f] =>
    match hOf d.env s f with
    | some f => (match execQuery FUEL s (.high f) with | .handle r => pushRes d (.ok (s, r)) | _ => keep d s "bad-op")
    | none => keep d s "bad-op"
  | ["topcof", f, v] =>
    match hOf d.env s f, v.toNat? with
    | some f, some v =>
      match (match execQuery FUEL s (.topcof f v) with | .pair x => x | _ => .error .assertion) with
      | .ok (a, b) =>
        let abs := d.abs
        let env := d.env
        let d := { d with env := #[] }
        let env1 := env.push a
        let o1 := showHandle abs s env1 a
        let env2 := env1.push b
        let o2 := showHandle abs s env2 b
        ({ d with st := some s, env := env2 }, "r " ++ o1 ++ " " ++ o2)
      | .error e =>
        let env := d.env
        let d := { d with env := #[] }
        ({ d with st := some s, env := (env.push Ref.zero).push Ref.zero }, "panic " ++ e.toString)
    | _, _ => keep d s "bad-op"
  | ["itec", a, b, c] =>
    match hOf d.env s a, hOf d.env s b, hOf d.env s c with
    | some a, some b, some c => viaExec d s (.itec a b c)
    | _, _, _ => keep d s "bad-op"
  | ["implies", a, b] =>
    match hOf d.env s a, hOf d.env s b with
    | some a, some b => viaExec d s (.implies a b)
    | _, _ => keep d s "bad-op"
  | ["satcount", f, n] =>
    match hOf d.env s f, n.toNat? with
    | some f, some n =>
      keep d s (match execQuery FUEL s (.satcount f n) with
        | .count (.ok c) => toString c | .count (.error e) => "panic " ++ e.toString | _ => "bad-op")
    | _, _ => keep d s "bad-op"
  | ["onesat", f] =>
    match hOf d.env s f with
    | some f => keep d s (match execQuery FUEL s (.onesat f) with
        | .model (some p) => showIntList p | .model none => "None" | _ => "bad-op")
    | none => keep d s "bad-op"
  | ["paths", f] =>
    match hOf d.env s f with
    | some f => keep d s (match execQuery FUEL s (.paths f) with
        | .cubes (some ps) => "[" ++ ", ".intercalate (ps.map showIntList) ++ "]" | .cubes none => "panic fuel"
        | _ => "bad-op")
    | none => keep d s "bad-op"
  | ["acc", f] =>
    match hOf d.env s f with
    | some f =>
      let i := f.idx
      let n := s.node i
      keep d s ("var=" ++ toString n.var ++ " low=" ++ toString n.low.raw ++ " high=" ++ toString n.high.raw ++
        " node=" ++ showNode n ++ " next=" ++ toString (Arr.rd s.storage.nxs i) ++
        " one=" ++ boolS (isOne f) ++ " zero=" ++ boolS (isZero f) ++ " term=" ++ boolS (isTerminal f) ++
        " neg=" ++ boolS f.neg ++ " idx=" ++ toString i ++ " pos=" ++ toString (2 * i) ++
        " negc=" ++ toString (2 * i + 1) ++ " disp=" ++ f.show)
    | none => keep d s "bad-op"
  | ["debugfmt"] =>
    keep d s ("Bdd { capacity: " ++ toString s.storage.vals.size ++ ", size: " ++ toString s.storage.lastIndex ++
      ", real_size: " ++ toString s.storage.realSize ++ " }")
  | "heldgc" :: which :: rs =>
    match hsOf d.env s rs, (match which with | "cache" => some 0 | "size" => some 1 | "storage" => some 2 | _ => none) with
    | some rs, some w => viaExec d s (.heldgc w rs)
    | _, _ => keep d s "bad-op"
  | ["pathsi.open", f] =>
    match hOf d.env s f with
    | some f =>
      match paths FUEL s f with
      | some ps => keep { d with pit := some ps } s "ok"
      | none => keep d s "panic fuel"
    | none => keep d s "bad-op"
  | ["pathsi.next"] =>
    match d.pit with
    | none => keep d s "closed"
    | some [] => keep d s "end"      -- an exhausted iterator stays exhausted, however often it is polled
    | some (p :: rest) => keep { d with pit := some rest } s (showIntList p)
  | ["pathsi.close"] => keep { d with pit := none } s "ok"
  | ["size", f] =>
    match hOf d.env s f with
    | some f => viaExec d s (.size f)
    | none => keep d s "bad-op"
  | "desc" :: rs =>
    match hsOf d.env s rs with
    | some rs => keep d s (match execQuery FUEL s (.desc rs) with
        | .cells l => if d.abs then toString l.length else showNatList (sortNat l) | _ => "bad-op")
    | none => keep d s "bad-op"
  | "gc" :: rs =>
    match hsOf d.env s rs with
    | some rs => viaExec d s (.gc rs)
    | none => keep d s "bad-op"
  | ["bracket", f] =>
    match hOf d.env s f with
    | some f => keep d s (if d.abs then (canonRef 100000 s f []).1 else
        match execQuery FUEL s (.bracket f) with | .text t => t | _ => "bad-op")
    | none => keep d s "bad-op"
  | "dot" :: rs =>
    match hsOf d.env s rs with
    | some rs => keep d s (match execQuery FUEL s (.dot rs) with
        | .lines (.ok ls) => if d.abs then "dot " ++ toString ((descendants s rs).length) else "\\n".intercalate ls
        | .lines (.error e) => "panic " ++ e.toString
        | _ => "bad-op")
    | none => keep d s "bad-op"
  | ["dump"] => keep d s (if d.abs then "-" else stSnapshot s)
  | ["digest"] => keep d s (if d.abs then "-" else toString (fnv1a (stSnapshot s)).toNat)
  | _ => keep d s "bad-op"


def step (d : DState) (line : String) : DState × String :=
  let toks := (line.trimAscii.toString.splitOn " ").filter (· ≠ "")
  let bad : DState × String := (d, "bad-op")
  match toks with
  | ["mode", m] => ({ d with abs := m == "abstract" }, "ok")
  | "vmap" :: _ :: _ => (d, "ok")   -- harness-side oracle configuration; no effect on the model
  | ["new", sb, bb, cb] =>
    match sb.toNat?, bb.toNat?, cb.toNat? with
    | some sb, some bb, some cb =>
      match St.newWith sb bb cb with
      | .ok s => ({ d with st := some s, env := #[Ref.one, Ref.zero], pit := none }, "ok")
      | .error e => ({ d with st := none, env := #[], pit := none }, "panic " ++ e.toString)
    | _, _, _ => bad
  | ["default"] =>
    match St.new 20 with
    | .ok s => ({ d with st := some s, env := #[Ref.one, Ref.zero], pit := none }, "ok")
    | .error e => ({ d with st := none, env := #[], pit := none }, "panic " ++ e.toString)
  | ["newdefault", sb] =>
    match sb.toNat? with
    | some sb =>
      match St.new sb with
      | .ok s => ({ d with st := some s, env := #[Ref.one, Ref.zero], pit := none }, "ok")
      | .error e => ({ d with st := none, env := #[], pit := none }, "panic " ++ e.toString)
    | none => bad
  | "eda.boxed" :: rest =>
    match parseTree (rest.length + 1) rest with
    | some (e, []) => (d, edaBoxed e)
    | _ => bad
  | ["eda.signal", raw] => match raw.toNat? with | some r => (d, edaSignal r) | none => bad
  | ["eda.consts"] =>
    (d, "zero=" ++ toString Sg.zero.toNat ++ " one=" ++ toString Sg.one.toNat ++
      " f0=" ++ toString (Sg.fromBool false).toNat ++ " f1=" ++ toString (Sg.fromBool true).toNat ++
      " zc=" ++ boolS (Sg.isConst Sg.zero) ++ " oc=" ++ boolS (Sg.isConst Sg.one) ++
      " nz=" ++ toString (Sg.not Sg.zero).toNat ++ " dz=" ++ Sg.display Sg.zero ++ " do=" ++ Sg.display Sg.one)
  | ["eda.fromvar", v] =>
    match v.toNat? with | some v => (d, toString (Sg.fromVar (BitVec.ofNat 32 v)).toNat) | none => bad
  | ["eda.frominput", v] =>
    match v.toNat? with | some v => (d, toString (Sg.fromInput (BitVec.ofNat 32 v)).toNat) | none => bad
  -- Table<Item> driven directly
  | ["t.new", bits, bb, kind] =>
    match bits.toNat?, bb.toNat?, kind.toNat? with
    | some bits, some bb, some kind => ({ d with tab := Table.newWith bits bb, tabKind := kind }, "ok")
    | _, _, _ => bad
  | ["t.put", v] =>
    match v.toNat? with
    | some v =>
      match d.tab.put ⟨v, d.tabKind⟩ with
      | .ok (t, i) => ({ d with tab := t }, toString i)
      | .error e => (d, "panic " ++ e.toString)
    | none => bad
  | ["t.add", v] =>
    match v.toNat? with
    | some v =>
      match d.tab.add ⟨v, d.tabKind⟩ with
      | .ok (t, i) => ({ d with tab := t }, toString i)
      | .error e => (d, "panic " ++ e.toString)
    | none => bad
  | ["t.drop", i] =>
    match i.toNat? with
    | some i =>
      match d.tab.drop i with
      | .ok t => ({ d with tab := t }, "ok")
      | .error e => (d, "panic " ++ e.toString)
    | none => bad
  | ["t.setnext", i, n] =>
    match i.toNat?, n.toNat? with
    | some i, some n =>
      if i ≥ d.tab.vals.size then bad else
      match d.tab.setNextChecked i n with
      | .ok t =>
        -- the reply is computed on the packed word, as the code does (`Entry::next: u32`)
        let w0 := Bits.entSetOccupied (Bits.entSetNext 0 (BitVec.ofNat 32 (Arr.rd d.tab.nxs i))) (Arr.rd d.tab.occs i)
        let w1 := Bits.entSetNext w0 (BitVec.ofNat 32 n)
        ({ d with tab := t }, "next=" ++ toString (Bits.entNext w1).toNat ++ " occ=" ++ boolS (Bits.entOccupied w1))
      | .error e => (d, "panic " ++ e.toString)
    | _, _ => bad
  | ["t.setvalue", i, v, _how] =>
    match i.toNat?, v.toNat? with
    | some i, some v =>
      if i ≥ d.tab.vals.size then bad else
      match d.tab.setValue i ⟨v, d.tabKind⟩ with
      | .ok t => ({ d with tab := t }, toString (Arr.rd t.vals i).v ++ " " ++ toString (Arr.rd t.vals i).v)
      | .error e => (d, "panic " ++ e.toString)
    | _, _ => bad
  | ["t.dump"] => (d, tableSnapshot d.tab (fun it => toString it.v))
  -- packed words, literal conversions, the pairing functions the manager does not use
  | ["ref.new", i, n] =>
    match i.toNat? with
    | some i =>
      if i = 0 ∨ i ≥ 2147483648 then bad else
      let r := Bits.refNew (BitVec.ofNat 32 i) (n == "1")
      let m := Bits.refNeg r
      (d, "h=" ++ toString (Bits.refHashy r).toNat ++ " idx=" ++ toString (Bits.refIndex r).toNat ++
        " neg=" ++ boolS (Bits.refIsNegated r) ++ " nh=" ++ toString (Bits.refHashy m).toNat ++
        " nidx=" ++ toString (Bits.refIndex m).toNat ++ " nneg=" ++ boolS (Bits.refIsNegated m) ++
        " disp=" ++ Bits.refShow r ++ " ndisp=" ++ Bits.refShow m)
    | none => bad
  | ["lit.cube", lit] =>
    match lit.toInt? with
    | some l =>
      if l = 0 ∨ l ≤ -2147483648 ∨ l ≥ 2147483648 then bad else
      let w := BitVec.ofInt 32 l
      (d, "var=" ++ toString (Bits.litVar w).toNat ++ " neg=" ++ boolS (Bits.litIsNeg w))
    | none => bad
  | ["lit.onesat", v, neg] =>
    match v.toNat? with
    | some v =>
      if v = 0 ∨ v = 2147483648 ∨ v ≥ 4294967296 then bad else
      let w := if neg == "1" then Bits.litNeg (BitVec.ofNat 32 v) else Bits.litPos (BitVec.ofNat 32 v)
      let l := "[" ++ toString w.toInt ++ "]"
      (d, "Some(" ++ l ++ ") [" ++ l ++ "]")
    | none => bad
  | ["pair.cantor", a, b] =>
    match a.toNat?, b.toNat? with
    | some a, some b => (d, toString (pairingCantor a b))
    | _, _ => bad
  | ["pair.hopcroft", a, b] =>
    match a.toNat?, b.toNat? with
    | some a, some b => (d, match pairingHopcroft a b with | .ok x => toString x | .error e => "panic " ++ e.toString)
    | _, _ => bad
  | ["pair.four", a, b, c, e] =>
    match a.toNat?, b.toNat?, c.toNat?, e.toNat? with
    | some a, some b, some c, some e =>
      (d, toString (pairing4 (UInt64.ofNat a) (UInt64.ofNat b) (UInt64.ofNat c) (UInt64.ofNat e)).toNat)
    | _, _, _, _ => bad
  -- Table<Node> driven directly (triples need not be well-formed nodes)
  | ["tn.new", bits, bb] =>
    match bits.toNat?, bb.toNat? with
    | some bits, some bb => ({ d with tnode := Table.newWith bits bb }, "ok")
    | _, _ => bad
  | ["tn.put", v, lo, hi] =>
    match v.toNat?, lo.toNat?, hi.toNat? with
    | some v, some lo, some hi =>
      match d.tnode.put ⟨v, refOfRaw lo, refOfRaw hi⟩ with
      | .ok (t, i) => ({ d with tnode := t }, toString i)
      | .error e => (d, "panic " ++ e.toString)
    | _, _, _ => bad
  | ["tn.drop", i] =>
    match i.toNat? with
    | some i => match d.tnode.drop i with
      | .ok t => ({ d with tnode := t }, "ok")
      | .error e => (d, "panic " ++ e.toString)
    | none => bad
  | ["tn.dump"] => (d, tableSnapshot d.tnode showNode)
  -- Cache<(u64,u64),u64> driven directly
  | ["c.new", bits] =>
    match bits.toNat? with | some b => ({ d with cch := Cache.new b }, "ok") | none => bad
  | ["c.insert", a, b, v] =>
    match a.toNat?, b.toNat?, v.toNat? with
    | some a, some b, some v => ({ d with cch := d.cch.insert (UInt64.ofNat a, UInt64.ofNat b) v }, "ok")
    | _, _, _ => bad
  | ["c.get", a, b] =>
    match a.toNat?, b.toNat? with
    | some a, some b =>
      let p := d.cch.get (UInt64.ofNat a, UInt64.ofNat b)
      ({ d with cch := p.1 }, match p.2 with | some v => "some " ++ toString v | none => "none")
    | _, _ => bad
  | ["c.clear"] => ({ d with cch := d.cch.clear }, "ok")
  -- n-fold repetitions of one call (closed forms proved equal to the iterates in BddProofs/CacheRep.lean)
  | ["c.rep", "insert", a, b, v, n] =>
    match a.toNat?, b.toNat?, v.toNat?, n.toNat? with
    | some a, some b, some v, some n =>
      ({ d with cch := d.cch.insertNFast (UInt64.ofNat a, UInt64.ofNat b) v n }, "ok")
    | _, _, _, _ => bad
  | ["c.rep", "get", a, b, n] =>
    match a.toNat?, b.toNat?, n.toNat? with
    | some a, some b, some n =>
      if n = 0 then bad else
      let p := d.cch.getNFast (UInt64.ofNat a, UInt64.ofNat b) n
      ({ d with cch := p.1 }, match p.2 with | some v => "some " ++ toString v | none => "none")
    | _, _, _ => bad
  | ["c.rep", "clear", n] =>
    match n.toNat? with
    | some n => ({ d with cch := d.cch.clearNFast n }, "ok")
    | none => bad
  | ["c.dump"] =>
    (d, cacheSnapshot d.cch (fun k => toString k.1.toNat ++ "," ++ toString k.2.toNat) toString)
  -- Cache<OpKey,Ref> driven directly (keys need not name stored nodes)
  | ["ck.new", bits] =>
    match bits.toNat? with | some b => ({ d with ckc := Cache.new b }, "ok") | none => bad
  | ["ck.insert", kind, f, g, h, v] =>
    match parseKey kind f g h, v.toNat? with
    | some k, some v => ({ d with ckc := d.ckc.insert k (refOfRaw v) }, "ok")
    | _, _ => bad
  | ["ck.get", kind, f, g, h] =>
    match parseKey kind f g h with
    | some k =>
      let p := d.ckc.get k
      ({ d with ckc := p.1 }, match p.2 with | some v => "some " ++ toString v.raw | none => "none")
    | none => bad
  | ["ck.clear"] => ({ d with ckc := d.ckc.clear }, "ok")
  | ["ck.dump"] => (d, cacheSnapshot d.ckc showKey (fun r => toString r.raw))
  -- RawTable
  | ["raw.new", kind, dbg] =>
    match kind.toNat? with
    | some k => ({ d with raw := R.Raw.new, rawKind := k, rawDbg := dbg == "1", rawLost := false }, "ok")
    | none => bad
  | ["raw.insert", k, v] =>
    match k.toNat?, v.toNat? with
    | some k, some v =>
      let kind := d.rawKind; let dbg := d.rawDbg
      rawMut d (fun t => R.insert (rawHash kind) dbg t k v) showEx
    | _, _ => bad
  | ["raw.get", k] =>
    match k.toNat? with
    | some k => (d, outS (R.get (rawHash d.rawKind) d.rawDbg d.raw k)
        (fun o => match o with | some v => "some " ++ toString v | none => "none"))
    | none => bad
  | ["raw.getmut", k, v] =>
    match k.toNat?, v.toNat? with
    | some k, some v =>
      let kind := d.rawKind; let dbg := d.rawDbg
      rawMut d (fun t => R.getMut (rawHash kind) dbg t k v)
        (fun r => match r with | some v => "some " ++ toString v | none => "none")
    | _, _ => bad
  | ["raw.find", k] =>
    match k.toNat? with
    | some k => (d, outS (R.find (rawHash d.rawKind) d.rawDbg d.raw k)
        (fun o => match o with | some v => "some " ++ toString v | none => "none"))
    | none => bad
  | ["raw.fof", k] =>
    match k.toNat? with
    | some k =>
      let kind := d.rawKind; let dbg := d.rawDbg
      rawMut d (fun t => R.findOrFree (rawHash kind) dbg t k) showEx
    | none => bad
  | ["raw.remove", k] =>
    match k.toNat? with
    | some k =>
      let kind := d.rawKind; let dbg := d.rawDbg
      rawMut d (fun t => R.remove (rawHash kind) dbg t k)
        (fun r => match r with | some v => "some " ++ toString v | none => "none")
    | none => bad
  | ["raw.clear"] =>
    rawMut d (fun t => match R.clear t with | .ok t' => .ok (t', ()) | .hang => .hang | .ub => .ub | .panic => .panic)
      (fun _ => "ok")
  | ["raw.reserve", n] =>
    match n.toNat? with
    | some n =>
      -- `RawTable<(u64,u64)>`: a slot is 24 bytes; the overflow check comes first and touches nothing
      match R.reserveChecked 24 (R.Raw.mk #[] d.raw.len d.raw.free : R.Raw Nat Nat) n with
      | .panic => (d, "panic assert")
      | _ =>
      rawMut d (fun t => match R.reserve t n with | .ok t' => .ok (t', ()) | .hang => .hang | .ub => .ub | .panic => .panic)
        (fun _ => "ok")
    | none => bad
  | ["raw.iter"] => (d, outS (R.iter d.rawDbg d.raw) showNatList)
  | ["raw.len"] => (d, toString d.raw.len)
  | ["raw.dump"] => (d, rawSnapshot d.raw)
  | _ =>
  -- everything else needs a manager
  match d.st with
  | none => (d, "no-manager")
  | some s => stepMgr { d with st := none } s toks

partial def loop (hin : IO.FS.Stream) (hout : IO.FS.Stream) (d : DState) : IO Unit := do
  let line ← hin.getLine
  if line.isEmpty then
    hout.flush
    return ()
  let (d', out) := step d line
  hout.putStrLn out
  loop hin hout d'

def main : IO Unit := do
  let hin ← IO.getStdin
  let hout ← IO.getStdout
  loop hin hout {}

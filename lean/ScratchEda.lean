import BddModel.EdaFast

def mkTree : Nat → Nat → A.Tree Nat
  | 0, k => .term k
  | d + 1, k =>
    match k % 4 with
    | 0 => .and (mkTree d (2 * k + 1)) (mkTree d (2 * k + 2))
    | 1 => .or (mkTree d (2 * k + 1)) (mkTree d (2 * k + 2))
    | 2 => .not (.xor (mkTree d (2 * k + 1)) (mkTree d (2 * k + 2)))
    | _ => .ite (.term k) (mkTree d (2 * k + 1)) (mkTree d (2 * k + 2))

def cntAlg : A.Layer Nat Nat → Nat
  | .term _ => 1
  | .not a => a + 1
  | .and a b => a + b + 1
  | .or a b => a + b + 1
  | .xor a b => a + b + 1
  | .ite a b c => a + b + c + 1

def main (args : List String) : IO Unit := do
  let d := (args.head? >>= String.toNat?).getD 15
  let t := mkTree d 0
  IO.println s!"size {t.size}"
  let t0 ← IO.monoMsNow
  let arena := A.fromBoxed t
  IO.println s!"arena length {arena.length}"
  let t1 ← IO.monoMsNow
  IO.println s!"fromBoxed: {t1 - t0} ms"
  let c := A.collapse cntAlg arena
  IO.println s!"collapse count {c}"
  let t2 ← IO.monoMsNow
  IO.println s!"collapse: {t2 - t1} ms"
  let s := A.collapse (A.strAlg (fun n => toString n)) arena
  IO.println s!"collapse str length {(s.getD "").length}"
  let t3 ← IO.monoMsNow
  IO.println s!"collapse str: {t3 - t2} ms"
  let b := A.collapse A.boxAlg arena
  IO.println s!"collapse box size {(b.map A.Tree.size).getD 0}"
  let t4 ← IO.monoMsNow
  IO.println s!"collapse box: {t4 - t3} ms"

import BddProofs.PathsIter
import BddProofs.CountStrong
/-! C14, last clause: "the sum of `2^(n - length)` over the paths equals `sat_count(f, n)`".

For a handle whose function `φ` depends only on the variables `1..n` (`SuppLt φ (n + 1)`, as in
`CountStrong.lean`):
* `paths_lits_bnd` — every literal of every yielded path is over a variable in `1..n`;
* `count_cube`     — a cube of `m` literals over distinct variables in `1..n` has `2^(n-m)` models;
* `count_partition`— if every assignment satisfies exactly one cube of `L` when `φ` holds and none
  otherwise, then `count φ n` is the sum of the cubes' counts;
* `paths_sum`, `paths_sum_satCount` — the statement of the property. -/
namespace P
open Arr

/-! ### the literals of a path are over variables `1..n` -/

/-- every literal is over one of the variables `1..n` -/
def LitsIn (n : Nat) (p : List Int) : Prop := ∀ x, x ∈ p → 1 ≤ x.natAbs ∧ x.natAbs ≤ n

theorem litsIn_snoc {n : Nat} {pre : List Int} {l : Int} (hp : LitsIn n pre)
    (hl : 1 ≤ l.natAbs ∧ l.natAbs ≤ n) : LitsIn n (pre ++ [l]) := by
  intro x hx
  rcases List.mem_append.mp hx with h | h
  · exact hp x h
  · have : x = l := by simpa using h
    subst this; exact hl

theorem pathsIter_bnd (n : Nat) : ∀ fuel s (stack : List (Ref × List Int)) acc out, Good s →
    (∀ p, p ∈ stack → ∃ φ, Valid s.nodes p.1 φ ∧ SuppLt φ (n + 1) ∧ LitsIn n p.2) →
    (∀ q, q ∈ acc → LitsIn n q) →
    pathsIter fuel s stack acc = some out → ∀ q, q ∈ out → LitsIn n q := by
  intro fuel
  induction fuel with
  | zero => intro s stack acc out _ _ _ h; simp [pathsIter] at h
  | succ fuel ih =>
    intro s stack acc out hg hst hacc h q hq
    cases stack with
    | nil =>
      simp only [pathsIter, Option.some.injEq] at h
      subst h; exact hacc q (by simpa using hq)
    | cons p rest =>
      obtain ⟨r, pre⟩ := p
      obtain ⟨φ, vr', hS, hpre'⟩ := hst _ List.mem_cons_self
      have vr : Valid s.nodes r φ := vr'
      have hpre : LitsIn n pre := hpre'
      have hrest : ∀ p, p ∈ rest → ∃ φ, Valid s.nodes p.1 φ ∧ SuppLt φ (n + 1) ∧ LitsIn n p.2 :=
        fun p hp => hst p (List.mem_cons_of_mem _ hp)
      simp only [pathsIter] at h
      by_cases cz : isZero r = true
      · rw [if_pos cz] at h
        exact ih s rest acc out hg hrest hacc h q hq
      rw [if_neg cz] at h
      by_cases co : isOne r = true
      · rw [if_pos co] at h
        refine ih s rest (pre :: acc) out hg hrest ?_ h q hq
        intro q' hq'
        rcases List.mem_cons.mp hq' with e' | hq'
        · subst e'; exact hpre
        · exact hacc q' hq'
      rw [if_neg co] at h
      have hnt : isTerminal r = false := by
        simp only [isTerminal, Bool.or_eq_false_iff]; exact ⟨by simpa using co, by simpa using cz⟩
      obtain ⟨hv0, vlo, vhi, _, hdep, _, _⟩ := accessors_spec hg vr hnt
      have hvn : s.var r < n + 1 := dependsOn_lt hS hdep
      have hb : 1 ≤ s.var r ∧ s.var r ≤ n := by omega
      have a0 : LitsIn n (pre ++ [-((s.var r : Nat) : Int)]) := litsIn_snoc hpre (by simpa using hb)
      have a1 : LitsIn n (pre ++ [((s.var r : Nat) : Int)]) := litsIn_snoc hpre (by simpa using hb)
      refine ih s _ acc out hg ?_ hacc h q hq
      intro p hp
      rcases List.mem_cons.mp hp with e' | hp
      · subst e'; exact ⟨_, vlo, suppLt_cof hS _ _, a0⟩
      · rcases List.mem_cons.mp hp with e' | hp
        · subst e'; exact ⟨_, vhi, suppLt_cof hS _ _, a1⟩
        · exact hrest p hp

/-- every literal of every path of `f` is over one of the variables `1..n` that `f` depends on -/
theorem paths_lits_bnd {fuel : Nat} {s : St} {r : Ref} {φ : Fn} {out : List (List Int)} {n : Nat}
    (hg : Good s) (v : Valid s.nodes r φ) (hS : SuppLt φ (n + 1)) (h : paths fuel s r = some out) :
    ∀ q, q ∈ out → ∀ x, x ∈ q → 1 ≤ x.natAbs ∧ x.natAbs ≤ n := by
  refine pathsIter_bnd n fuel s [(r, [])] [] out hg ?_ (fun q hq => by cases hq) h
  intro p hp
  have : p = (r, []) := by simpa using hp
  subst this
  exact ⟨φ, v, hS, fun x hx => by cases hx⟩

/-! ### the number of models of a cube -/

theorem Sat_cons (e : Env) (l : Int) (q : List Int) :
    Sat e (l :: q) = ((e l.natAbs == decide (0 < l)) && Sat e q) := by
  simp only [Sat, List.all_cons]

/-- a cube does not look at a variable it does not mention -/
theorem Sat_upd {p : List Int} {v : Nat} (h : ∀ x, x ∈ p → x.natAbs ≠ v) (e : Env) (b : Bool) :
    Sat (upd e v b) p = Sat e p := by
  induction p with
  | nil => rfl
  | cons l q ih =>
    rw [Sat_cons, Sat_cons, ih (fun x hx => h x (List.mem_cons_of_mem _ hx)),
      upd_other _ _ _ _ (h l List.mem_cons_self)]

theorem countFrom_false : ∀ k v, countFrom (fun _ => false) k v = 0 := by
  intro k v
  have := countFrom_not (fun _ => true) k v
  simp only [Bool.not_true] at this
  rw [this, countFrom_true]; omega

/-- a cube whose literals are over distinct (strictly increasing) variables in `[v, v + k)` has at
most `k` literals and exactly `2^(k - length)` models among the assignments to these `k` variables -/
theorem countFrom_cube : ∀ k v (p : List Int), LitsInc p →
    (∀ x, x ∈ p → v ≤ x.natAbs ∧ x.natAbs < v + k) →
    p.length ≤ k ∧ countFrom (fun e => Sat e p) k v = 2 ^ (k - p.length) := by
  intro k
  induction k with
  | zero =>
    intro v p _ hb
    cases p with
    | nil => exact ⟨Nat.le_refl _, by simp [countFrom, Sat]⟩
    | cons l q => have := hb l List.mem_cons_self; omega
  | succ k ih =>
    intro v p hi hb
    cases p with
    | nil =>
      refine ⟨Nat.zero_le _, ?_⟩
      have : (fun e => Sat e []) = fun _ => true := rfl
      rw [this, countFrom_true]; rfl
    | cons l q =>
      obtain ⟨hlq, hiq⟩ := List.pairwise_cons.mp hi
      have hbl := hb l List.mem_cons_self
      by_cases hl : l.natAbs = v
      · -- the first literal is over `v`: one branch is empty, the other is the rest of the cube
        have hbq : ∀ x, x ∈ q → v + 1 ≤ x.natAbs ∧ x.natAbs < v + 1 + k := by
          intro x hx
          have a := hlq x hx
          have b := hb x (List.mem_cons_of_mem _ hx)
          omega
        obtain ⟨hlen, hcnt⟩ := ih (v + 1) q hiq hbq
        have hc : ∀ b, cof (fun e => Sat e (l :: q)) v b = fun e => (b == decide (0 < l)) && Sat e q := by
          intro b; funext e
          show Sat (upd e v b) (l :: q) = _
          rw [Sat_cons, hl, upd_same, Sat_upd (fun x hx => by have := hbq x hx; omega)]
        have key : ∀ b c : Bool, countFrom (fun e => (b == c) && Sat e q) k (v + 1) =
            if b = c then 2 ^ (k - q.length) else 0 := by
          intro b c
          by_cases hbc : b = c
          · subst hbc
            simp only [beq_self_eq_true, Bool.true_and, ↓reduceIte]; exact hcnt
          · have : (b == c) = false := by simpa using hbc
            simp only [this, Bool.false_and, if_neg hbc]; exact countFrom_false k (v + 1)
        have hexp : k + 1 - (l :: q).length = k - q.length := by
          simp only [List.length_cons]; omega
        refine ⟨by simp only [List.length_cons]; omega, ?_⟩
        rw [hexp]
        simp only [countFrom, hc, key]
        cases decide (0 < l) <;> simp
      · -- `v` is not mentioned: both branches are the same cube
        have hb' : ∀ x, x ∈ l :: q → v + 1 ≤ x.natAbs ∧ x.natAbs < v + 1 + k := by
          intro x hx
          have b := hb x hx
          rcases List.mem_cons.mp hx with e | e
          · subst e; omega
          · have a := hlq x e; omega
        obtain ⟨hlen, hcnt⟩ := ih (v + 1) (l :: q) hi hb'
        have hc : ∀ b, cof (fun e => Sat e (l :: q)) v b = fun e => Sat e (l :: q) := by
          intro b; funext e
          exact Sat_upd (fun x hx => by have := hb' x hx; omega) e b
        refine ⟨by omega, ?_⟩
        simp only [countFrom, hc, hcnt]
        have hexp : k + 1 - (l :: q).length = (k - (l :: q).length) + 1 := by omega
        rw [hexp, Nat.pow_succ]; omega

/-- a cube of distinct literals over variables in `1..n` has `2^(n - length)` models -/
theorem count_cube {n : Nat} {p : List Int} (hi : List.Pairwise (fun a b : Int => a.natAbs < b.natAbs) p)
    (hb : ∀ x, x ∈ p → 1 ≤ x.natAbs ∧ x.natAbs ≤ n) :
    p.length ≤ n ∧ count (fun e => Sat e p) n = 2 ^ (n - p.length) :=
  countFrom_cube n 1 p hi (fun x hx => by have := hb x hx; omega)

/-! ### additivity of the count over a partition into cubes -/

/-- the sum of a `Nat`-valued function over the assignments to `v, …, v+k-1` (others `false`) -/
def sumFrom (g : Env → Nat) : Nat → Nat → Nat
  | 0, _ => g (fun _ => false)
  | k + 1, v => sumFrom (fun e => g (upd e v false)) k (v + 1) + sumFrom (fun e => g (upd e v true)) k (v + 1)

theorem sumFrom_zero : ∀ k v, sumFrom (fun _ => 0) k v = 0 := by
  intro k
  induction k with
  | zero => intro v; rfl
  | succ k ih => intro v; simp only [sumFrom, ih]

theorem sumFrom_add (g h : Env → Nat) : ∀ k v,
    sumFrom (fun e => g e + h e) k v = sumFrom g k v + sumFrom h k v := by
  intro k
  induction k generalizing g h with
  | zero => intro v; rfl
  | succ k ih =>
    intro v
    simp only [sumFrom]
    rw [ih (fun e => g (upd e v false)) (fun e => h (upd e v false)),
      ih (fun e => g (upd e v true)) (fun e => h (upd e v true))]
    omega

/-- summing an indicator is counting -/
theorem sumFrom_ind (φ : Fn) : ∀ k v, sumFrom (fun e => if φ e then 1 else 0) k v = countFrom φ k v := by
  intro k
  induction k generalizing φ with
  | zero => intro v; rfl
  | succ k ih =>
    intro v
    simp only [sumFrom, countFrom]
    rw [← ih (cof φ v false) (v + 1), ← ih (cof φ v true) (v + 1)]
    rfl

theorem sumFrom_countP (L : List (List Int)) : ∀ k v,
    sumFrom (fun e => L.countP (Sat e)) k v = (L.map (fun p => countFrom (fun e => Sat e p) k v)).sum := by
  induction L with
  | nil => intro k v; simp only [List.countP_nil, List.map_nil, List.sum_nil]; exact sumFrom_zero k v
  | cons p L ih =>
    intro k v
    have e1 : (fun e => (p :: L).countP (Sat e)) =
        fun e => L.countP (Sat e) + (if Sat e p then 1 else 0) := by
      funext e; rw [List.countP_cons]
    rw [e1, sumFrom_add (fun e => L.countP (Sat e)) (fun e => if Sat e p then 1 else 0), ih,
      sumFrom_ind (fun e => Sat e p)]
    simp only [List.map_cons, List.sum_cons]; omega

/-- if the cubes of `L` partition the satisfying set of `φ` (every assignment satisfies exactly one
cube when `φ` holds, none otherwise) then the count of `φ` is the sum of the cubes' counts -/
theorem countFrom_partition {φ : Fn} {L : List (List Int)}
    (h : ∀ e, L.countP (Sat e) = if φ e then 1 else 0) (k v : Nat) :
    countFrom φ k v = (L.map (fun p => countFrom (fun e => Sat e p) k v)).sum := by
  have : (fun e => L.countP (Sat e)) = fun e => if φ e then 1 else 0 := funext h
  rw [← sumFrom_ind, ← this, sumFrom_countP]

theorem count_partition {φ : Fn} {L : List (List Int)}
    (h : ∀ e, L.countP (Sat e) = if φ e then 1 else 0) (n : Nat) :
    count φ n = (L.map (fun p => count (fun e => Sat e p) n)).sum :=
  countFrom_partition h n 1

/-! ### the property -/

/-- **C14 (sum over the paths).** For a handle whose function `φ` depends only on the variables
`1..n`, the paths `p` yielded by `paths(f)` satisfy `Σ 2^(n - |p|) = |{assignments to x_1..x_n
satisfying φ}|`. -/
theorem paths_sum {fuel : Nat} {s : St} {r : Ref} {φ : Fn} {out : List (List Int)} {n : Nat}
    (hg : Good s) (v : Valid s.nodes r φ) (hS : SuppLt φ (n + 1)) (h : paths fuel s r = some out) :
    (out.map (fun p => 2 ^ (n - p.length))).sum = count φ n := by
  rw [count_partition (paths_exactly_once' hg v h) n]
  congr 1
  apply List.map_congr_left
  intro p hp
  exact (count_cube (paths_sorted hg v h p hp) (paths_lits_bnd hg v hS h p hp)).2.symm

/-- the hypothesis spelled out -/
theorem paths_sum' {fuel : Nat} {s : St} {r : Ref} {φ : Fn} {out : List (List Int)} {n : Nat}
    (hg : Good s) (v : Valid s.nodes r φ)
    (hS : ∀ e e' : Env, (∀ w, w ≤ n → e w = e' w) → φ e = φ e') (h : paths fuel s r = some out) :
    (out.map (fun p => 2 ^ (n - p.length))).sum = count φ n :=
  paths_sum hg v (fun e e' hee => hS e e' (fun w hw => hee w (by omega))) h

/-- **C14, as stated: the sum over the paths equals what `sat_count(f, n)` returns**; moreover no
path is longer than `n`, so no exponent is truncated. -/
theorem paths_sum_satCount {fuel fuel' : Nat} {s : St} {r : Ref} {φ : Fn} {out : List (List Int)}
    {n c : Nat} (hg : Good s) (v : Valid s.nodes r φ) (hS : SuppLt φ (n + 1))
    (h : paths fuel s r = some out) (hc : satCount fuel' s r n = .ok c) :
    (out.map (fun p => 2 ^ (n - p.length))).sum = c ∧ ∀ p, p ∈ out → p.length ≤ n := by
  refine ⟨?_, fun p hp => (count_cube (paths_sorted hg v h p hp) (paths_lits_bnd hg v hS h p hp)).1⟩
  rw [paths_sum hg v hS h, satCount_spec_strong hg v hS hc]

#print axioms paths_lits_bnd
#print axioms countFrom_cube
#print axioms count_cube
#print axioms count_partition
#print axioms paths_sum
#print axioms paths_sum'
#print axioms paths_sum_satCount
end P

import BddProofs.DriverGood
import BddProofs.Total
/-! The only failure an accepted request can report is a full table.

`exec fuel s r` (`BddModel/Driver.lean`) runs the request `r` only when the executable precondition
`r.ok s` holds.  `DriverGood.lean` shows that an accepted request satisfies the hypotheses of the
property theorems; this file shows the same for the *totality* theorems (`IteTotal`, `Total1`–`Total3`,
`TotalCompose`, `TotalRestrict`, `IteConstTotal`, `ErrGood.collectGarbage_no_err`): on a good manager
whose stored variables are `≤ V`, with the one fuel value `driverFuel V`, a request that names only
variables the manager knows (`ReqVars`) returns, or stops with "Storage is full" — it never runs out of
fuel, never trips an assertion, never indexes out of bounds (`exec_total`).  The three requests that do
not allocate (`itec`, `implies`, `gc`) and `size` never fail at all (`exec_never_fails`).

The `heldgc` request is excluded: `collectGarbageHeld` fails *by design* with `.assertion` while a guard
is held. -/
namespace P
open Arr

/-- the variables a request itself names are variables of the manager (`1..V`), as far as the totality
theorem of the operation needs it:
* `var v`, `node v lo hi`: `v` is a variable `1..V` (`mk_var(0)` / `mk_node(0, ..)` trip an assertion);
* `cube lits` / `clause lits`: every literal is over a variable `1..V` (a literal `0` trips the assertion);
* `subst f v b`: `v ≠ 0` (`substitute(f, 0, b)` trips the assertion of `top_cofactors`);
* `cofCube f c`: the cube's variables are `≤ V` (together with the ascending order `Req.ok` checks this
  bounds the length of the cube, which is part of the fuel the walk needs);
* `compose f v g`, `substMulti f vals`: nothing (a variable that does not occur is skipped);
* the requests that name no variable: nothing;
* `heldgc`: excluded (fails with `.assertion` by design). -/
def ReqVars (V : Nat) : Req → Prop
  | .var v => v ≠ 0 ∧ v ≤ V
  | .node v _ _ => v ≠ 0 ∧ v ≤ V
  | .cube lits | .clause lits => ∀ l, l ∈ lits → l.1 ≠ 0 ∧ l.1 ≤ V
  | .subst _ v _ => v ≠ 0
  | .cofCube _ c => ∀ l, l ∈ c → l.1 ≤ V
  | .heldgc _ _ => False
  | _ => True

/-- one fuel value that is enough for every request over variables `≤ V` (it is `opFuel V` of
`Total.lean`: the two levels `restrict` / `compose` descend plus the measure of the `apply_ite` they
call, plus one) -/
def driverFuel (V : Nat) : Nat := 2 * (V + 1) + iteFuel V + 1

theorem driverFuel_eq_opFuel (V : Nat) : driverFuel V = opFuel V := rfl

/-- the outcome reports no failure other than "Storage is full" -/
def OutOnlyFull : Out → Prop
  | .handle x => ∀ e s', x = .error (e, s') → e = .storageFull
  | .optBool x => ∀ e s', x = .error (e, s') → e = .storageFull
  | .bool x => ∀ e s', x = .error (e, s') → e = .storageFull
  | .unit x => ∀ e s', x = .error (e, s') → e = .storageFull
  | .nat _ => True
  | .refused _ => True

/-- the outcome reports no failure at all -/
def OutNoFail : Out → Prop
  | .handle x => ∀ e s', x ≠ .error (e, s')
  | .optBool x => ∀ e s', x ≠ .error (e, s')
  | .bool x => ∀ e s', x ≠ .error (e, s')
  | .unit x => ∀ e s', x ≠ .error (e, s')
  | .nat _ => True
  | .refused _ => True

theorem OutNoFail.onlyFull {o : Out} (h : OutNoFail o) : OutOnlyFull o := by
  cases o with
  | handle x => exact fun e s' he => absurd he (h e s')
  | optBool x => exact fun e s' he => absurd he (h e s')
  | bool x => exact fun e s' he => absurd he (h e s')
  | unit x => exact fun e s' he => absurd he (h e s')
  | nat x => trivial
  | refused s => trivial

/-- the requests that cannot fail: the two queries that do not allocate, `size`, and a collection -/
def NeverFails : Req → Prop
  | .itec _ _ _ | .implies _ _ | .size _ | .gc _ => True
  | _ => False

/-- fuel for the non-allocating queries: the three levels `ite_constant` descends -/
def queryFuel (V : Nat) : Nat := 3 * (V + 1) + 1

theorem queryFuel_le_driverFuel (V : Nat) : queryFuel V ≤ driverFuel V := by
  unfold queryFuel driverFuel iteFuel
  have : 3 * (V + 1) * 1 ≤ 3 * (V + 1) * (V + 2) := Nat.mul_le_mul_left _ (by omega)
  omega

theorem iteFuel_lt_driverFuel (V : Nat) : iteFuel V < driverFuel V := by
  unfold driverFuel; omega

/-- a strictly ascending list of numbers in `k..B-1` has at most `B - k` elements -/
theorem asc_length_le (B : Nat) : ∀ (c : List Lit) (k : Nat), c.Pairwise (fun a b => a.1 < b.1) →
    (∀ l, l ∈ c → k ≤ l.1 ∧ l.1 < B) → c.length ≤ B - k := by
  intro c
  induction c with
  | nil => intro k _ _; exact Nat.zero_le _
  | cons a t ih =>
    intro k hp hb
    rw [List.pairwise_cons] at hp
    have ha := hb a (List.mem_cons_self ..)
    have := ih (a.1 + 1) hp.2 (fun l hl => ⟨hp.1 l hl, (hb l (List.mem_cons_of_mem _ hl)).2⟩)
    simp only [List.length_cons]
    omega

theorem cube_length_le {V : Nat} {c : List Lit} (hasc : c.Pairwise (fun a b => a.1 < b.1))
    (hle : ∀ l, l ∈ c → l.1 ≤ V) : c.length ≤ V + 1 :=
  asc_length_le (V + 1) c 0 hasc (fun l hl => ⟨Nat.zero_le _, Nat.lt_succ_of_le (hle l hl)⟩)

/-- when the request returns, the variables stored in the resulting manager are still `≤ V` (so the
hypotheses of `exec_total` hold again for the next request) -/
def OutVarsLe (V : Nat) : Out → Prop
  | .handle x => ∀ s' r, x = .ok (s', r) → VarsLe s' V
  | .optBool x => ∀ s' r, x = .ok (s', r) → VarsLe s' V
  | .bool x => ∀ s' r, x = .ok (s', r) → VarsLe s' V
  | .unit x => ∀ s', x = .ok s' → VarsLe s' V
  | .nat x => VarsLe x.1 V
  | .refused s => VarsLe s V

theorem TotalSpec.out {V : Nat} {x : Res (St × Ref)} (h : TotalSpec V x) :
    OutOnlyFull (.handle x) ∧ OutVarsLe V (.handle x) := ⟨h.2.2, h.2.1⟩

theorem TotOut.out {V : Nat} {x : Res (St × Ref)} (h : TotOut V x) :
    OutOnlyFull (.handle x) ∧ OutVarsLe V (.handle x) := h.spec.out

theorem TotalSpec.dropMemo {V : Nat} {μ : Type} {x : Res (St × Ref × μ)} (h : TotalSpec V x) :
    OutOnlyFull (.handle (dropMemo x)) ∧ OutVarsLe V (.handle (dropMemo x)) :=
  ⟨fun e s' he => h.2.2 e s' (dropMemo_err he),
   fun s' r he => let ⟨m, e'⟩ := dropMemo_ok he; h.2.1 s' (r, m) e'⟩

theorem VarsLe.of_storage {s s' : St} {V : Nat} (hV : VarsLe s V) (h : s'.storage = s.storage) : VarsLe s' V := by
  intro i n hn
  have : s'.nodes = s.nodes := by unfold St.nodes; rw [h]
  rw [this] at hn; exact hV i n hn

/-- the two parts of the result at once: no failure other than a full table, and the variable bound is
kept when the request returns -/
theorem exec_total_spec {V fuel : Nat} {s : St} (r : Req) (hg : Good s) (hV : VarsLe s V)
    (hvars : ReqVars V r) (hfuel : driverFuel V ≤ fuel) :
    OutOnlyFull (exec fuel s r) ∧ OutVarsLe V (exec fuel s r) := by
  have hite : iteFuel V < fuel := Nat.lt_of_lt_of_le (iteFuel_lt_driverFuel V) hfuel
  have hite' : 3 * (V + 1) * (V + 2) + V < fuel := hite
  have h2 : 2 * (V + 1) + iteFuel V < fuel := by unfold driverFuel at hfuel; omega
  have hq : 3 * (V + 1) < fuel := by
    have := queryFuel_le_driverFuel V; unfold queryFuel at this; omega
  unfold exec
  by_cases hok : r.ok s = true
  · rw [if_pos hok]
    cases r with
    | var v =>
      show OutOnlyFull (.handle (mkVar s v)) ∧ OutVarsLe V (.handle (mkVar s v))
      unfold mkVar; rw [if_neg hvars.1]
      exact (mkNode_tot hg hV hvars.1 hvars.2 _ _).out
    | node v lo hi => exact (mkNode_tot hg hV hvars.1 hvars.2 _ _).out
    | ite a b c =>
      simp only [Req.ok, Bool.and_eq_true] at hok
      obtain ⟨_, va⟩ := liveB_live' hg hok.1.1; obtain ⟨_, vb⟩ := liveB_live' hg hok.1.2
      obtain ⟨_, vc⟩ := liveB_live' hg hok.2
      exact (applyIte_total_unif hg hV va vb vc hite).out
    | and a b =>
      simp only [Req.ok, Bool.and_eq_true] at hok
      obtain ⟨_, va⟩ := liveB_live' hg hok.1; obtain ⟨_, vb⟩ := liveB_live' hg hok.2
      exact (applyAnd_total hite hg hV va vb).tot.out
    | or a b =>
      simp only [Req.ok, Bool.and_eq_true] at hok
      obtain ⟨_, va⟩ := liveB_live' hg hok.1; obtain ⟨_, vb⟩ := liveB_live' hg hok.2
      exact (applyOr_total hite hg hV va vb).tot.out
    | xor a b =>
      simp only [Req.ok, Bool.and_eq_true] at hok
      obtain ⟨_, va⟩ := liveB_live' hg hok.1; obtain ⟨_, vb⟩ := liveB_live' hg hok.2
      exact (applyXor_total hite hg hV va vb).tot.out
    | eq a b =>
      simp only [Req.ok, Bool.and_eq_true] at hok
      obtain ⟨_, va⟩ := liveB_live' hg hok.1; obtain ⟨_, vb⟩ := liveB_live' hg hok.2
      exact (applyEq_total hite hg hV va vb).tot.out
    | imply a b =>
      simp only [Req.ok, Bool.and_eq_true] at hok
      obtain ⟨_, va⟩ := liveB_live' hg hok.1; obtain ⟨_, vb⟩ := liveB_live' hg hok.2
      exact (applyImply_total hite hg hV va vb).tot.out
    | andMany rs =>
      have hl := all_liveB hg (by simpa only [Req.ok] using hok)
      exact TotalSpec.out (andMany_total' hg hV hl hite')
    | orMany rs =>
      have hl := all_liveB hg (by simpa only [Req.ok] using hok)
      exact TotalSpec.out (orMany_total' hg hV hl hite')
    | cube lits =>
      exact TotalSpec.out (cube_total hg hV (fun l hl => (hvars l hl).1) (fun l hl => (hvars l hl).2))
    | clause lits =>
      exact TotalSpec.out (clause_total hg hV (fun l hl => (hvars l hl).1) (fun l hl => (hvars l hl).2))
    | subst f v b =>
      obtain ⟨_, vf⟩ := liveB_live' hg (by simpa only [Req.ok] using hok)
      have := lv_le s V f
      exact TotalSpec.dropMemo (substitute_total' (b := b) hg hV vf hvars (by omega))
    | substMulti f vals =>
      obtain ⟨_, vf⟩ := liveB_live' hg (by simpa only [Req.ok] using hok)
      have := lv_le s V f
      exact TotalSpec.dropMemo (substMulti_total' (vals := vals) hg hV vf (by omega))
    | cofCube f c =>
      simp only [Req.ok, Bool.and_eq_true, decide_eq_true_eq] at hok
      obtain ⟨_, vf⟩ := liveB_live' hg hok.1
      have := lv_le s V f
      have := cube_length_le hok.2 hvars
      exact TotalSpec.dropMemo (cofCube_total' hg hV vf hok.2 (by omega))
    | compose f v g =>
      simp only [Req.ok, Bool.and_eq_true] at hok
      obtain ⟨_, vf⟩ := liveB_live' hg hok.1; obtain ⟨_, vg⟩ := liveB_live' hg hok.2
      exact (composeTop_total_unif (v := v) hg hV vf vg h2).out
    | constrain f g =>
      simp only [Req.ok, Bool.and_eq_true] at hok
      obtain ⟨_, vf⟩ := liveB_live' hg hok.1; obtain ⟨_, vg⟩ := liveB_live' hg hok.2
      exact (constrain_total_unif hg hV vf vg (by omega)).out
    | restrict f g =>
      simp only [Req.ok, Bool.and_eq_true] at hok
      obtain ⟨_, vf⟩ := liveB_live' hg hok.1; obtain ⟨_, vg⟩ := liveB_live' hg hok.2
      exact (restrict_total_unif hg hV vf vg h2).out
    | expr x =>
      obtain ⟨φ, hs⟩ := termsLive_sem hg x (by simpa only [Req.ok] using hok)
      exact TotalSpec.out (Expr.eval_total' hg hV hs hite')
    | itec a b c =>
      simp only [Req.ok, Bool.and_eq_true] at hok
      obtain ⟨_, va⟩ := liveB_live' hg hok.1.1; obtain ⟨_, vb⟩ := liveB_live' hg hok.1.2
      obtain ⟨_, vc⟩ := liveB_live' hg hok.2
      obtain ⟨s1, o, e1⟩ := iteConstant_total' hg hV va vb vc hq
      refine ⟨fun e s' he => ?_, fun s' o' he => ?_⟩
      · have he' : iteConstant fuel s a b c = .error (e, s') := he
        rw [e1] at he'; cases he'
      · exact hV.of_storage (iteConstant_spec hg va vb vc he).2.1
    | implies a b =>
      simp only [Req.ok, Bool.and_eq_true] at hok
      obtain ⟨_, va⟩ := liveB_live' hg hok.1; obtain ⟨_, vb⟩ := liveB_live' hg hok.2
      have := lv_le s V a; have := lv_le s V b
      obtain ⟨s1, o, e1⟩ := isImplies_total (fuel := fuel) hg hV va vb (by omega)
      refine ⟨fun e s' he => ?_, fun s' o' he => ?_⟩
      · have he' : isImplies fuel s a b = .error (e, s') := he
        rw [e1] at he'; cases he'
      · exact hV.of_storage (isImplies_spec hg va vb he).2.1
    | size f => exact ⟨trivial, hV.of_storage (size_storage s f)⟩
    | gc roots =>
      have hl := all_liveB hg (by simpa only [Req.ok] using hok)
      refine ⟨fun e s' he => (collectGarbage_no_err hg hl he).elim, fun s' he => ?_⟩
      have hsp := (collect_spec hg (fun r hr => let ⟨_, v⟩ := hl r hr; Live.of_valid v) hg.rs he).2.2.1
      intro i n hn
      rw [hsp i] at hn
      split at hn
      · exact hV i n hn
      · cases hn
    | heldgc w roots => exact hvars.elim
  · rw [if_neg hok]; exact ⟨trivial, hV⟩

/-- **the only failure an accepted request can report is a full table** -/
theorem exec_total {V fuel : Nat} {s : St} (r : Req) (hg : Good s) (hV : VarsLe s V)
    (hvars : ReqVars V r) (hfuel : driverFuel V ≤ fuel) : OutOnlyFull (exec fuel s r) :=
  (exec_total_spec r hg hV hvars hfuel).1

/-- … and when it returns, the variable bound `VarsLe · V` holds in the resulting manager -/
theorem exec_varsLe {V fuel : Nat} {s : St} (r : Req) (hg : Good s) (hV : VarsLe s V)
    (hvars : ReqVars V r) (hfuel : driverFuel V ≤ fuel) : OutVarsLe V (exec fuel s r) :=
  (exec_total_spec r hg hV hvars hfuel).2

/-- **the requests that do not allocate never fail**: `ite_constant`, `is_implies` (with fuel above the
three levels they descend), `size` and `collect_garbage` report no failure of any kind -/
theorem exec_never_fails {V fuel : Nat} {s : St} (r : Req) (hg : Good s) (hV : VarsLe s V)
    (hk : NeverFails r) (hfuel : queryFuel V ≤ fuel) : OutNoFail (exec fuel s r) := by
  have hq : 3 * (V + 1) < fuel := by unfold queryFuel at hfuel; omega
  unfold exec
  by_cases hok : r.ok s = true
  · rw [if_pos hok]
    cases r with
    | itec a b c =>
      simp only [Req.ok, Bool.and_eq_true] at hok
      obtain ⟨_, va⟩ := liveB_live' hg hok.1.1; obtain ⟨_, vb⟩ := liveB_live' hg hok.1.2
      obtain ⟨_, vc⟩ := liveB_live' hg hok.2
      obtain ⟨s1, o, e1⟩ := iteConstant_total' hg hV va vb vc hq
      intro e s' he
      have he' : iteConstant fuel s a b c = .error (e, s') := he
      rw [e1] at he'; cases he'
    | implies a b =>
      simp only [Req.ok, Bool.and_eq_true] at hok
      obtain ⟨_, va⟩ := liveB_live' hg hok.1; obtain ⟨_, vb⟩ := liveB_live' hg hok.2
      have := lv_le s V a; have := lv_le s V b
      obtain ⟨s1, o, e1⟩ := isImplies_total (fuel := fuel) hg hV va vb (by omega)
      intro e s' he
      have he' : isImplies fuel s a b = .error (e, s') := he
      rw [e1] at he'; cases he'
    | size f => trivial
    | gc roots =>
      have hl := all_liveB hg (by simpa only [Req.ok] using hok)
      exact fun e s' he => (collectGarbage_no_err hg hl he).elim
    | _ => exact hk.elim
  · rw [if_neg hok]; trivial

/-- in particular, with the fuel of `exec_total` -/
theorem exec_never_fails' {V fuel : Nat} {s : St} (r : Req) (hg : Good s) (hV : VarsLe s V)
    (hk : NeverFails r) (hfuel : driverFuel V ≤ fuel) : OutNoFail (exec fuel s r) :=
  exec_never_fails r hg hV hk (Nat.le_trans (queryFuel_le_driverFuel V) hfuel)

end P
#print axioms P.exec_total
#print axioms P.exec_varsLe
#print axioms P.exec_never_fails
#print axioms P.exec_never_fails'

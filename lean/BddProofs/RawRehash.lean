import BddProofs.RawMore
import BddProofs.Counts
/-! RawTable `reserve_rehash` on the executable array model — moving every element into a fresh table
by "first FREE slot from home" yields a table with the probe invariant that represents the same map.
Port of `spikes/RawRehash.lean`.

Adaptation: the model's `moveAll` homes a moved element at `st % new.cap` where `st` is the *stored
status* (`hashOf k % 2^63`), lookups home at `hashOf k % cap`; the two agree when the capacity divides
`2^63` (`status_mod_cap`), so `moveAll_spec`/`rehash_refines` carry the hypothesis `cap ∣ 2^63`.
`emptyRaw`, `placeLoop`, `moveAll` are model definitions. -/
namespace R
open Arr
set_option linter.unusedSectionVars false
variable {κ ν : Type} [DecidableEq κ]
section
variable (hashOf : κ → Nat)

theorem emptyRaw_cap (c : Nat) : (emptyRaw c : Raw κ ν).cap = c := by
  show (Array.replicate c (Slot.free : Slot κ ν)).size = c
  exact Array.size_replicate

theorem emptyRaw_slot (c i : Nat) : (emptyRaw c : Raw κ ν).slot i = .free := by
  show rd (Array.replicate c (Slot.free : Slot κ ν)) i = .free
  rw [rd_replicate]; split <;> rfl

/-- the home computed from the stored status is the home computed from the hash, for capacities
dividing `2^63` (powers of two up to `2^63`) -/
theorem status_mod_cap {c : Nat} (hdvd : c ∣ 2 ^ 63) (k : κ) : status hashOf k % c = home hashOf c k :=
  Nat.mod_mod_of_dvd _ hdvd

/-- the invariant of the table under construction: no tombstones, probe reachability, distinct keys -/
structure PInv (t : Raw κ ν) : Prop where
  noDead : ∀ i, i < t.cap → t.slot i ≠ .dead
  reach : ∀ i st k v, i < t.cap → t.slot i = .full st k v →
    st = status hashOf k ∧ ∃ d, d < t.cap ∧ probe hashOf t.cap k d = i ∧
      ∀ d', d' < d → t.slot (probe hashOf t.cap k d') ≠ .free
  distinct : ∀ i j st st' k v v', i < t.cap → j < t.cap →
    t.slot i = .full st k v → t.slot j = .full st' k v' → i = j

theorem first_free_from {t : Raw κ ν} (_hc : 0 < t.cap) (k : κ) {i0 : Nat} (hi0 : i0 < t.cap) (hf : t.slot i0 = .free) :
    ∃ D, D < t.cap ∧ t.slot (probe hashOf t.cap k D) = .free ∧
      ∀ d', d' < D → t.slot (probe hashOf t.cap k d') ≠ .free := by
  obtain ⟨D0, hD0, hp⟩ := probe_surj hashOf k hi0
  have : ∃ D, D < t.cap ∧ t.slot (probe hashOf t.cap k D) = .free := ⟨D0, hD0, by rw [hp]; exact hf⟩
  obtain ⟨D1, h1, h2⟩ := this
  induction D1 using Nat.strongRecOn with
  | _ D1 ih =>
    by_cases hall : ∀ d', d' < D1 → t.slot (probe hashOf t.cap k d') ≠ .free
    · exact ⟨D1, h1, h2, hall⟩
    · have : ∃ d', d' < D1 ∧ t.slot (probe hashOf t.cap k d') = .free := by
        apply Classical.byContradiction
        intro hc'; apply hall; intro d' hd' hf'; exact hc' ⟨d', hd', hf'⟩
      obtain ⟨d', hd', hf'⟩ := this
      exact ih d' hd' (by omega) hf'

theorem placeLoop_skip (new : Raw κ ν) (st : Nat) (k : κ) (v : ν) :
    ∀ (n d fuel : Nat), (∀ d', d ≤ d' → d' < d + n → new.slot (probe hashOf new.cap k d') ≠ .free) →
      placeLoop new st k v (fuel + n) (probe hashOf new.cap k d) =
        placeLoop new st k v fuel (probe hashOf new.cap k (d + n)) := by
  intro n
  induction n with
  | zero => intro d fuel _; rfl
  | succ n ih =>
    intro d fuel h
    have hd := h d (Nat.le_refl _) (by omega)
    have hrest := ih (d + 1) fuel (fun d' h1 h2 => h d' (by omega) (by omega))
    rw [show fuel + (n + 1) = (fuel + n) + 1 by omega, show d + (n + 1) = d + 1 + n by omega, ← hrest, probe_succ]
    generalize hs : new.slot (probe hashOf new.cap k d) = sl at hd
    cases sl with
    | free => exact absurd rfl hd
    | dead => simp only [placeLoop, hs]
    | full st' k' v' => simp only [placeLoop, hs]

/-- one placement: terminates, keeps the invariant, adds exactly `k ↦ v` -/
theorem place_spec {new : Raw κ ν} (hP : PInv hashOf new) (hc : 0 < new.cap) {k : κ} (v : ν)
    (habs : ∀ i, i < new.cap → ¬ HasKey new k i)
    {i0 : Nat} (hi0 : i0 < new.cap) (hf : new.slot i0 = .free) :
    ∃ p, p < new.cap ∧ new.slot p = .free ∧
      placeLoop new (status hashOf k) k v new.cap (home hashOf new.cap k) =
        .ok (new.setSlot p (.full (status hashOf k) k v)) ∧
      PInv hashOf (new.setSlot p (.full (status hashOf k) k v)) ∧
      (∀ k' v', Holds (new.setSlot p (.full (status hashOf k) k v)) k' v' ↔
        ((k' = k ∧ v' = v) ∨ Holds new k' v')) := by
  obtain ⟨D, hD, hfree, hpath⟩ := first_free_from hashOf hc k hi0 hf
  have key := placeLoop_skip hashOf new (status hashOf k) k v D 0 (new.cap - D) (fun d' _ hd' => hpath d' (by omega))
  rw [Nat.zero_add, show new.cap - D + D = new.cap by omega, probe_zero] at key
  have hp : probe hashOf new.cap k D < new.cap := probe_lt hashOf hc k D
  have cap_eq : (new.setSlot (probe hashOf new.cap k D) (.full (status hashOf k) k v)).cap = new.cap :=
    Raw.cap_setSlot _ _ _
  refine ⟨probe hashOf new.cap k D, hp, hfree, ?_, ?_, ?_⟩
  · rw [key, show new.cap - D = (new.cap - D - 1) + 1 by omega]
    simp only [placeLoop, hfree]
  · have slot_eq : ∀ j, (new.setSlot (probe hashOf new.cap k D) (.full (status hashOf k) k v)).slot j =
        if j = probe hashOf new.cap k D then .full (status hashOf k) k v else new.slot j := by
      intro j; exact Raw.slot_setSlot_lt hp j _
    have nofree : ∀ j, new.slot j ≠ .free →
        (new.setSlot (probe hashOf new.cap k D) (.full (status hashOf k) k v)).slot j ≠ .free := by
      intro j hj; rw [slot_eq]; split
      · intro h; cases h
      · exact hj
    refine ⟨?_, ?_, ?_⟩
    · intro i hi
      rw [cap_eq] at hi
      rw [slot_eq]; split
      · intro h; cases h
      · exact hP.noDead i hi
    · intro i st k' v' hi hs
      rw [cap_eq] at hi ⊢
      rw [slot_eq] at hs
      by_cases hip : i = probe hashOf new.cap k D
      · rw [if_pos hip] at hs; cases hs
        exact ⟨rfl, D, hD, hip.symm, fun d' hd' => nofree _ (hpath d' hd')⟩
      · rw [if_neg hip] at hs
        obtain ⟨a, d, hd, hpd, hpa⟩ := hP.reach i st k' v' hi hs
        exact ⟨a, d, hd, hpd, fun d' hd' => nofree _ (hpa d' hd')⟩
    · intro i j st st' k' v1 v2 hi hj hs hs'
      rw [cap_eq] at hi hj
      rw [slot_eq] at hs hs'
      by_cases hip : i = probe hashOf new.cap k D <;> by_cases hjp : j = probe hashOf new.cap k D
      · rw [hip, hjp]
      · rw [if_pos hip] at hs; rw [if_neg hjp] at hs'; cases hs
        exact absurd ⟨st', v2, hs'⟩ (habs j hj)
      · rw [if_neg hip] at hs; rw [if_pos hjp] at hs'; cases hs'
        exact absurd ⟨st, v1, hs⟩ (habs i hi)
      · rw [if_neg hip] at hs; rw [if_neg hjp] at hs'
        exact hP.distinct _ _ _ _ _ _ _ hi hj hs hs'
  · intro k' v'
    have slot_eq : ∀ j, (new.setSlot (probe hashOf new.cap k D) (.full (status hashOf k) k v)).slot j =
        if j = probe hashOf new.cap k D then .full (status hashOf k) k v else new.slot j := by
      intro j; exact Raw.slot_setSlot_lt hp j _
    constructor
    · rintro ⟨i, st, hi, hs⟩
      rw [cap_eq] at hi
      rw [slot_eq] at hs
      by_cases hip : i = probe hashOf new.cap k D
      · rw [if_pos hip] at hs; cases hs; exact Or.inl ⟨rfl, rfl⟩
      · rw [if_neg hip] at hs; exact Or.inr ⟨i, st, hi, hs⟩
    · rintro (⟨rfl, rfl⟩ | ⟨i, st, hi, hs⟩)
      · exact ⟨_, _, by rw [cap_eq]; exact hp, by rw [slot_eq, if_pos rfl]⟩
      · have hip : i ≠ probe hashOf new.cap k D := by
          intro e; rw [e, hfree] at hs; cases hs
        exact ⟨i, st, by rw [cap_eq]; exact hi, by rw [slot_eq, if_neg hip]; exact hs⟩

#print axioms place_spec

/-- number of full slots -/
def nFull (t : Raw κ ν) : Nat := Cn.countOcc (fun i => (t.slot i).isFull) t.cap

theorem nFull_set {t : Raw κ ν} {p : Nat} (hp : p < t.cap) (hf : t.slot p = .free) (st : Nat) (k : κ) (v : ν) :
    nFull (t.setSlot p (.full st k v)) = nFull t + 1 := by
  unfold nFull
  rw [Raw.cap_setSlot]
  have : (fun i => ((t.setSlot p (.full st k v)).slot i).isFull) =
      (fun j => if j = p then true else (fun i => (t.slot i).isFull) j) := by
    funext j; rw [Raw.slot_setSlot_lt hp]; split <;> simp [Slot.isFull]
  rw [this]
  exact Cn.countOcc_set hp (by simp [hf, Slot.isFull])

/-- without tombstones, fewer full slots than slots means some slot is FREE -/
theorem exists_free_of_room {t : Raw κ ν} (hnd : ∀ i, i < t.cap → t.slot i ≠ .dead) (hroom : nFull t < t.cap) :
    ∃ i, i < t.cap ∧ t.slot i = .free := by
  apply Classical.byContradiction
  intro hno
  have hall : ∀ i, i < t.cap → (t.slot i).isFull = true := by
    intro i hi
    cases hs : t.slot i with
    | free => exact absurd ⟨i, hi, hs⟩ hno
    | dead => exact absurd hs (hnd i hi)
    | full _ _ _ => rfl
  have : nFull t = t.cap := by
    unfold nFull Cn.countOcc
    rw [List.countP_eq_length.mpr (fun a ha => hall a (List.mem_range.mp ha)), List.length_range]
  omega

/-- how many of the listed old slots are full -/
def fullAmong (old : Raw κ ν) : List Nat → Nat
  | [] => 0
  | i :: is => (if (old.slot i).isFull then 1 else 0) + fullAmong old is

theorem moveAll_spec {old : Raw κ ν} (hO : RInv hashOf old) : ∀ (is : List Nat) (new : Raw κ ν),
    is.Nodup → (∀ i, i ∈ is → i < old.cap) → PInv hashOf new → 0 < new.cap → new.cap ∣ 2 ^ 63 →
    (∀ i, i ∈ is → ∀ st k v, old.slot i = .full st k v → ∀ j, j < new.cap → ¬ HasKey new k j) →
    nFull new + fullAmong old is < new.cap →
    ∃ new', moveAll old is new = .ok new' ∧ PInv hashOf new' ∧ new'.cap = new.cap ∧
      nFull new' = nFull new + fullAmong old is ∧
      (∀ k v, Holds new' k v ↔ (Holds new k v ∨ ∃ i st, i ∈ is ∧ old.slot i = .full st k v)) := by
  intro is
  induction is with
  | nil =>
    intro new _ _ hP _ _ _ _
    exact ⟨new, rfl, hP, rfl, by simp [fullAmong], fun k v => ⟨Or.inl, fun h => h.elim id (fun ⟨_, _, h, _⟩ => by cases h)⟩⟩
  | cons i is ih =>
    intro new nd hlt hP hc hdvd hfresh hroom
    have ndis := (List.nodup_cons.mp nd).2
    have hi_notin := (List.nodup_cons.mp nd).1
    have hi := hlt i List.mem_cons_self
    cases hs : old.slot i with
    | full st k v =>
      have hst : st = status hashOf k := (hO.reach i st k v hi hs).1
      subst hst
      have hfa : fullAmong old (i :: is) = 1 + fullAmong old is := by simp [fullAmong, hs, Slot.isFull]
      obtain ⟨i0, hi0, hf0⟩ := exists_free_of_room hP.noDead (by omega)
      obtain ⟨p, hp, hpf, hplace, hP1, hholds⟩ := place_spec hashOf hP hc v
        (hfresh i List.mem_cons_self _ _ _ hs) hi0 hf0
      have hn1 := nFull_set hp hpf (status hashOf k) k v
      have hcap1 : (new.setSlot p (.full (status hashOf k) k v)).cap = new.cap := Raw.cap_setSlot _ _ _
      rw [← status_mod_cap hashOf hdvd k] at hplace
      -- the remaining elements are still absent from the enlarged table
      have hfresh1 : ∀ j, j ∈ is → ∀ st' k' v', old.slot j = .full st' k' v' →
          ∀ q, q < (new.setSlot p (.full (status hashOf k) k v)).cap →
            ¬ HasKey (new.setSlot p (.full (status hashOf k) k v)) k' q := by
        intro j hj st' k' v' hs' q hq ⟨st'', v'', hq'⟩
        rw [hcap1] at hq
        have hjl := hlt j (List.mem_cons_of_mem _ hj)
        have hne : k' ≠ k := by
          intro e; subst e
          have := hO.distinct _ _ _ _ _ _ _ hjl hi hs' hs
          exact hi_notin (this ▸ hj)
        rcases (hholds k' v'').mp ⟨q, st'', by rw [hcap1]; exact hq, hq'⟩ with ⟨e, _⟩ | ⟨q', st3, hq3, hs3⟩
        · exact hne e
        · exact hfresh j (List.mem_cons_of_mem _ hj) _ _ _ hs' q' hq3 ⟨st3, v'', hs3⟩
      obtain ⟨new', hm, hP', hcap', hn', hh'⟩ := ih _ ndis (fun j hj => hlt j (List.mem_cons_of_mem _ hj)) hP1
        (by rw [hcap1]; exact hc) (by rw [hcap1]; exact hdvd) hfresh1 (by rw [hn1, hcap1]; omega)
      refine ⟨new', ?_, hP', by rw [hcap', hcap1], by rw [hn', hn1, hfa]; omega, ?_⟩
      · simp only [moveAll, hs, hplace]; exact hm
      · intro k' v'
        rw [hh', hholds]
        constructor
        · rintro ((⟨rfl, rfl⟩ | h) | ⟨j, st', hj, hs'⟩)
          · exact Or.inr ⟨i, _, List.mem_cons_self, hs⟩
          · exact Or.inl h
          · exact Or.inr ⟨j, st', List.mem_cons_of_mem _ hj, hs'⟩
        · rintro (h | ⟨j, st', hj, hs'⟩)
          · exact Or.inl (Or.inr h)
          · rcases List.mem_cons.mp hj with e | e
            · subst e; rw [hs] at hs'; cases hs'; exact Or.inl (Or.inl ⟨rfl, rfl⟩)
            · exact Or.inr ⟨j, st', e, hs'⟩
    | free | dead =>
      all_goals
        have hfa : fullAmong old (i :: is) = fullAmong old is := by simp [fullAmong, hs, Slot.isFull]
        obtain ⟨new', hm, hP', hcap', hn', hh'⟩ := ih new ndis (fun j hj => hlt j (List.mem_cons_of_mem _ hj)) hP hc hdvd
          (fun j hj => hfresh j (List.mem_cons_of_mem _ hj)) (by rw [← hfa]; exact hroom)
        refine ⟨new', by simp only [moveAll, hs]; exact hm, hP', hcap', by rw [hn', hfa], ?_⟩
        intro k' v'
        rw [hh']
        constructor
        · rintro (h | ⟨j, st', hj, hs'⟩)
          · exact Or.inl h
          · exact Or.inr ⟨j, st', List.mem_cons_of_mem _ hj, hs'⟩
        · rintro (h | ⟨j, st', hj, hs'⟩)
          · exact Or.inl h
          · rcases List.mem_cons.mp hj with e | e
            · subst e; rw [hs] at hs'; cases hs'
            · exact Or.inr ⟨j, st', e, hs'⟩

/-- C19, rehash: moving all old slots into an empty table with room for them represents the same map -/
theorem rehash_refines {old : Raw κ ν} (hO : RInv hashOf old) {newCap : Nat}
    (hdvd : newCap ∣ 2 ^ 63) (hroom : fullAmong old (List.range old.cap) < newCap) :
    ∃ new', moveAll old (List.range old.cap) (emptyRaw newCap) = .ok new' ∧ PInv hashOf new' ∧
      new'.cap = newCap ∧ nFull new' = fullAmong old (List.range old.cap) ∧
      (∀ k v, Holds new' k v ↔ Holds old k v) := by
  have hce : (emptyRaw newCap : Raw κ ν).cap = newCap := emptyRaw_cap newCap
  have hPe : PInv hashOf (emptyRaw newCap : Raw κ ν) :=
    ⟨fun i _ h => (by rw [emptyRaw_slot] at h; cases h), fun i st k v _ h => (by rw [emptyRaw_slot] at h; cases h),
      fun i j st st' k v v' _ _ h => (by rw [emptyRaw_slot] at h; cases h)⟩
  have hn0 : nFull (emptyRaw newCap : Raw κ ν) = 0 := by
    unfold nFull Cn.countOcc
    simp [emptyRaw_slot, Slot.isFull]
  obtain ⟨new', hm, hP', hcap', hn', hh'⟩ := moveAll_spec hashOf hO (List.range old.cap) (emptyRaw newCap)
    List.nodup_range (fun i hi => List.mem_range.mp hi) hPe (by rw [hce]; omega) (by rw [hce]; exact hdvd)
    (fun i _ st k v _ j _ ⟨_, _, h⟩ => (by rw [emptyRaw_slot] at h; cases h)) (by rw [hn0, hce]; omega)
  refine ⟨new', hm, hP', by rw [hcap', hce], by rw [hn', hn0]; omega, ?_⟩
  intro k v
  rw [hh']
  constructor
  · rintro (⟨_, _, _, h⟩ | ⟨i, st, hi, hs⟩)
    · rw [emptyRaw_slot] at h; cases h
    · exact ⟨i, st, List.mem_range.mp hi, hs⟩
  · rintro ⟨i, st, hi, hs⟩
    exact Or.inr ⟨i, st, List.mem_range.mpr hi, hs⟩

#print axioms rehash_refines
end
end R

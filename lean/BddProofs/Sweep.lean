/-! Feasibility spike: chain relinking of collect_garbage over a `next` map. -/
namespace S

/-- memory view: next pointers and occupied flags as total maps -/
structure Mem where
  nx : Nat → Nat
  occ : Nat → Bool

def Mem.setNext (m : Mem) (i x : Nat) : Mem := { m with nx := fun j => if j = i then x else m.nx j }
def Mem.drop (m : Mem) (i : Nat) : Mem := { m with occ := fun j => if j = i then false else m.occ j }

inductive Chain (nx : Nat → Nat) : Nat → List Nat → Prop
  | nil : Chain nx 0 []
  | cons {h l} : h ≠ 0 → Chain nx (nx h) l → Chain nx h (h :: l)

theorem Chain.frame {nx h l} (c : Chain nx h l) (i x : Nat) (hi : i ∉ l) :
    Chain (fun j => if j = i then x else nx j) h l := by
  induction c with
  | nil => exact .nil
  | @cons h l h0 _ ih =>
    have hne : h ≠ i := fun e => hi (e ▸ List.mem_cons_self)
    have := ih (fun hm => hi (List.mem_cons_of_mem _ hm))
    refine .cons h0 ?_
    simpa [hne] using this

theorem Chain.nonzero {nx h l} (c : Chain nx h l) : ∀ i ∈ l, i ≠ 0 := by
  induction c with
  | nil => intro i hi; cases hi
  | cons h0 _ ih =>
    intro i hi
    cases hi with
    | head => exact h0
    | tail _ h => exact ih i h

/-- first loop: drop dead cells starting at `idx`; returns the first alive (or 0) -/
def skipDead (alive : Nat → Bool) : Nat → Mem → Nat → Mem × Nat
  | 0, m, idx => (m, idx)
  | fuel + 1, m, idx =>
    if idx != 0 && !alive idx then skipDead alive fuel (m.drop idx) (m.nx idx) else (m, idx)

/-- second loop -/
def relink (alive : Nat → Bool) : Nat → Mem → Nat → Mem
  | 0, m, _ => m
  | fuel + 1, m, prev =>
    if prev = 0 then m else
      let (m1, cur) := skipDead alive fuel m (m.nx prev)
      let m2 := if m1.nx prev != cur then m1.setNext prev cur else m1
      relink alive fuel m2 cur

def headOr0 : List Nat → Nat
  | [] => 0
  | h :: _ => h

theorem skipDead_spec (alive : Nat → Bool) :
    ∀ (fuel : Nat) (m : Mem) (idx : Nat) (l : List Nat), Chain m.nx idx l → l.length ≤ fuel →
      let r := skipDead alive fuel m idx
      r.1.nx = m.nx ∧
      r.2 = headOr0 (l.dropWhile (fun i => !alive i)) ∧
      Chain m.nx r.2 (l.dropWhile (fun i => !alive i)) ∧
      (∀ j, r.1.occ j = (m.occ j && !(decide (j ∈ l.takeWhile (fun i => !alive i))))) := by
  intro fuel
  induction fuel with
  | zero =>
    intro m idx l c hl
    have : l = [] := List.eq_nil_of_length_eq_zero (Nat.le_zero.mp hl)
    subst this
    cases c
    simp [skipDead, headOr0, Chain.nil]
  | succ fuel ih =>
    intro m idx l c hl
    cases c with
    | nil => simp [skipDead, headOr0, Chain.nil]
    | @cons h l h0 c' =>
      by_cases ha : alive idx
      · simp [skipDead, ha, List.dropWhile, List.takeWhile, headOr0]
        exact .cons h0 c'
      · have hl' : l.length ≤ fuel := by simpa using hl
        have hstep : skipDead alive (fuel + 1) m idx = skipDead alive fuel (m.drop idx) (m.nx idx) := by
          simp [skipDead, h0, ha]
        have := ih (m.drop idx) (m.nx idx) l c' hl'
        obtain ⟨a, b, c2, d⟩ := this
        have htk : (idx :: l).takeWhile (fun i => !alive i) = idx :: l.takeWhile (fun i => !alive i) := by
          simp [List.takeWhile, ha]
        have hdk : (idx :: l).dropWhile (fun i => !alive i) = l.dropWhile (fun i => !alive i) := by
          simp [List.dropWhile, ha]
        simp only [hstep, htk, hdk]
        refine ⟨a, b, c2, ?_⟩
        intro j
        rw [d j]
        by_cases hj : j = idx <;> simp [hj, Mem.drop]


theorem split_dead (d : Nat → Bool) : ∀ l : List Nat,
    (l.dropWhile d = [] ∧ l.takeWhile d = l ∧ ∀ x ∈ l, d x = true) ∨
    ∃ pre cur l', l = pre ++ cur :: l' ∧ (∀ x ∈ pre, d x = true) ∧ d cur = false ∧
      l.dropWhile d = cur :: l' ∧ l.takeWhile d = pre := by
  intro l
  induction l with
  | nil => left; simp
  | cons a l ih =>
    by_cases ha : d a = true
    · rcases ih with ⟨h1, h2, h3⟩ | ⟨pre, cur, l', h1, h2, h3, h4, h5⟩
      · left; simp [List.dropWhile, List.takeWhile, ha, h1, h2]; exact h3
      · right
        refine ⟨a :: pre, cur, l', by simp [h1], ?_, h3, by simp [List.dropWhile, ha, h4], by simp [List.takeWhile, ha, h5]⟩
        intro x hx
        cases hx with
        | head => exact ha
        | tail _ h => exact h2 x h
    · right
      have ha' : d a = false := by simpa using ha
      exact ⟨[], a, l, by simp, by simp, ha', by simp [List.dropWhile, ha'], by simp [List.takeWhile, ha']⟩

theorem relink_spec (alive : Nat → Bool) :
    ∀ (fuel : Nat) (m : Mem) (prev : Nat) (l : List Nat),
      Chain m.nx prev (prev :: l) → (prev :: l).Nodup → l.length < fuel →
      let m' := relink alive fuel m prev
      Chain m'.nx prev (prev :: l.filter alive) ∧
      (∀ j, j ∉ prev :: l → m'.nx j = m.nx j) ∧
      (∀ j, m'.occ j = (m.occ j && !(decide (j ∈ l) && !alive j))) := by
  intro fuel
  induction fuel with
  | zero => intro m prev l _ _ h; omega
  | succ fuel ih =>
    intro m prev l c nd hl
    cases c with
    | cons hp c' =>
    have hl' : l.length ≤ fuel := by omega
    obtain ⟨a, b, c2, d⟩ := skipDead_spec alive fuel m (m.nx prev) l c' hl'
    have hpl : prev ∉ l := (List.nodup_cons.mp nd).1
    have ndl : l.Nodup := (List.nodup_cons.mp nd).2
    -- unfold one step
    have hstep : relink alive (fuel + 1) m prev =
        relink alive fuel ((skipDead alive fuel m (m.nx prev)).1.setNext prev (skipDead alive fuel m (m.nx prev)).2)
          (skipDead alive fuel m (m.nx prev)).2 := by
      simp only [relink, hp, ↓reduceIte]
      split
      · rfl
      · rename_i hne
        have : (skipDead alive fuel m (m.nx prev)).1.nx prev = (skipDead alive fuel m (m.nx prev)).2 := by
          simpa using hne
        congr 1
        cases hm : (skipDead alive fuel m (m.nx prev)).1 with
        | mk nx occ =>
          simp only [Mem.setNext, Mem.mk.injEq, and_true]
          funext j
          by_cases hj : j = prev
          · subst hj; simp [← this, hm]
          · simp [hj]
    simp only [hstep]
    generalize hm1 : (skipDead alive fuel m (m.nx prev)).1 = m1 at *
    generalize hcur : (skipDead alive fuel m (m.nx prev)).2 = cur at *
    rcases split_dead (fun i => !alive i) l with ⟨h1, h2, h3⟩ | ⟨pre, cur', l', h1, h2, h3, h4, h5⟩
    · -- everything after prev is dead
      rw [h1] at b c2
      simp only [headOr0] at b
      subst b
      have hrel : relink alive fuel (m1.setNext prev 0) 0 = m1.setNext prev 0 := by
        cases fuel <;> simp [relink]
      rw [hrel]
      have hf : l.filter alive = [] := by
        simp only [List.filter_eq_nil_iff]
        intro x hx; have := h3 x hx; simpa using this
      refine ⟨?_, ?_, ?_⟩
      · rw [hf]; refine .cons hp ?_; simp [Mem.setNext]; exact .nil
      · intro j hj
        have : j ≠ prev := fun e => hj (e ▸ List.mem_cons_self)
        simp [Mem.setNext, this, a]
      · intro j
        simp only [Mem.setNext]
        rw [d j, h2]
        by_cases hj : j ∈ l
        · have := h3 j hj; simp at this; simp [hj, this]
        · simp [hj]
    · -- `cur'` is the next survivor
      rw [h4] at b c2
      simp only [headOr0] at b
      subst b
      have hcl : cur ∈ l := by rw [h1]; simp
      have hsub : ∀ x, x ∈ cur :: l' → x ∈ l := by
        intro x hx; rw [h1]; exact List.mem_append_right _ hx
      have hpc : prev ∉ cur :: l' := fun h => hpl (hsub _ h)
      have c3 : Chain (m1.setNext prev cur).nx cur (cur :: l') := by
        have := c2.frame prev cur hpc
        simpa [Mem.setNext, a] using this
      have nd3 : (cur :: l').Nodup := by
        have : (pre ++ cur :: l').Nodup := h1 ▸ ndl
        exact (List.nodup_append.mp this).2.1
      have hl3 : l'.length < fuel := by
        have : l.length = pre.length + (l'.length + 1) := by rw [h1]; simp
        omega
      obtain ⟨x, y, z⟩ := ih (m1.setNext prev cur) cur l' c3 nd3 hl3
      have halive : alive cur = true := by simpa using h3
      have hf : l.filter alive = cur :: l'.filter alive := by
        rw [h1, List.filter_append]
        have : pre.filter alive = [] := by
          simp only [List.filter_eq_nil_iff]; intro x hx; have := h2 x hx; simpa using this
        simp [this, List.filter, halive]
      refine ⟨?_, ?_, ?_⟩
      · rw [hf]
        refine .cons hp ?_
        rw [y prev hpc]
        simpa [Mem.setNext] using x
      · intro j hj
        have hj1 : j ∉ cur :: l' := fun h => hj (List.mem_cons_of_mem _ (hsub _ h))
        have hj2 : j ≠ prev := fun e => hj (e ▸ List.mem_cons_self)
        rw [y j hj1]; simp [Mem.setNext, hj2, a]
      · intro j
        rw [z j]
        simp only [Mem.setNext]
        rw [d j, h5]
        -- membership bookkeeping
        have hmem : j ∈ l ↔ (j ∈ pre ∨ j = cur ∨ j ∈ l') := by rw [h1]; simp
        have hdis : j ∈ pre → j ∉ l' := by
          intro hp' hl''
          have : (pre ++ cur :: l').Nodup := h1 ▸ ndl
          exact (List.nodup_append.mp this).2.2 j hp' j (List.mem_cons_of_mem _ hl'') rfl
        by_cases hjp : j ∈ pre
        · have hd := h2 j hjp
          have hnl := hdis hjp
          have hjl : j ∈ l := hmem.mpr (Or.inl hjp)
          simp at hd
          simp [hjp, hnl, hjl, hd]
        · by_cases hjc : j = cur
          · subst hjc
            simp [hjp, halive]
          · by_cases hjl' : j ∈ l'
            · have hjl : j ∈ l := hmem.mpr (Or.inr (Or.inr hjl'))
              simp [hjp, hjl', hjl]
            · have hjl : j ∉ l := fun h => by rcases hmem.mp h with h | h | h <;> contradiction
              simp [hjp, hjl', hjl]

#print axioms relink_spec
end S

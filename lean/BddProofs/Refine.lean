import BddProofs.TabView
import BddModel.Table
/-! The executable, array-backed `P.Table` refines the function-view table `S.Tab` on which the
invariant `TInv` and the lookup-or-insert specification are proved: one simulation lemma per
primitive, then `put_spec`/`put_full` for the array table itself. -/
namespace Arr

@[simp] theorem size_wr {α} (a : Array α) (i : Nat) (v : α) : (wr a i v).size = a.size := by
  simp [wr]

theorem rd_wr {α} [Inhabited α] (a : Array α) (i j : Nat) (v : α) :
    rd (wr a i v) j = if i = j ∧ i < a.size then v else rd a j := by
  simp only [rd, wr, Array.getD_eq_getD_getElem?, Array.getElem?_setIfInBounds]
  by_cases h : i = j
  · subst h
    by_cases hlt : i < a.size
    · simp [hlt]
    · simp [hlt]
  · simp [h]

theorem rd_wr_same {α} [Inhabited α] (a : Array α) (i : Nat) (v : α) (h : i < a.size) : rd (wr a i v) i = v := by
  rw [rd_wr]; simp [h]

theorem rd_wr_ne {α} [Inhabited α] (a : Array α) (i j : Nat) (v : α) (h : i ≠ j) : rd (wr a i v) j = rd a j := by
  rw [rd_wr]; simp [h]

theorem rd_replicate {α} [Inhabited α] (n : Nat) (v : α) (i : Nat) :
    rd (Array.replicate n v) i = if i < n then v else default := by
  simp only [rd, Array.getD_eq_getD_getElem?, Array.getElem?_replicate]
  split <;> simp

/-- the function `rd (wr a i v)` as a pointwise update -/
theorem rd_wr_fun {α} [Inhabited α] (a : Array α) (i : Nat) (v : α) (h : i < a.size) :
    rd (wr a i v) = fun j => if j = i then v else rd a j := by
  funext j
  rw [rd_wr]
  by_cases e : j = i
  · subst e; simp [h]
  · have : ¬ (i = j ∧ i < a.size) := fun x => e x.1.symm
    simp [this, e]

end Arr

namespace P
open Arr S

set_option linter.unusedSectionVars false
variable {α : Type} [Inhabited α]

/-- abstraction function -/
def Table.toTab (t : Table α) : Tab α :=
  { val := rd t.vals, nx := rd t.nxs, occ := rd t.occs, bucket := rd t.buckets,
    nb := t.buckets.size, cap := t.vals.size,
    minFree := t.minFree, lastIndex := t.lastIndex, realSize := t.realSize }

/-- representation invariant: the three cell arrays have the same length and every masked hash is
a bucket index -/
structure Table.Wf (t : Table α) : Prop where
  nxs : t.nxs.size = t.vals.size
  occs : t.occs.size = t.vals.size
  mask : ∀ h : UInt64, slotOf h t.bitmask < t.buckets.size

theorem Tab.ext' {a b : Tab α} (h1 : a.val = b.val) (h2 : a.nx = b.nx) (h3 : a.occ = b.occ) (h4 : a.bucket = b.bucket)
    (h5 : a.nb = b.nb) (h6 : a.cap = b.cap) (h7 : a.minFree = b.minFree) (h8 : a.lastIndex = b.lastIndex)
    (h9 : a.realSize = b.realSize) : a = b := by
  cases a; cases b; simp_all

/-- the function-view `alloc`, with the scanned index made a parameter -/
def tabAllocAt (t : Tab α) (i : Nat) : Except Fault (Tab α × Nat) :=
  if i ≥ t.cap then .error .storageFull else
  .ok ({ t with occ := fun j => if j = i then true else t.occ j,
                 minFree := i + 1, realSize := t.realSize + 1,
                 lastIndex := if i > t.lastIndex then i else t.lastIndex }, i)

theorem tab_alloc_eq (t : Tab α) : t.alloc = tabAllocAt t (firstFree t.occ (t.lastIndex + 1 - t.minFree) t.minFree) := rfl

theorem allocAt_sim_ok (t : Table α) (hw : t.Wf) (i : Nat) {t' k} (h : t.allocAt i = .ok (t', k)) :
    tabAllocAt t.toTab i = .ok (t'.toTab, k) ∧ t'.Wf ∧ k < t'.vals.size ∧ t'.bitmask = t.bitmask ∧
      t'.vals = t.vals ∧ t'.buckets = t.buckets := by
  unfold Table.allocAt at h
  unfold tabAllocAt
  by_cases hge : i ≥ t.vals.size
  · rw [if_pos hge] at h; cases h
  · rw [if_neg hge] at h
    simp only [Except.ok.injEq, Prod.mk.injEq] at h
    obtain ⟨rfl, rfl⟩ := h
    have hcap : t.toTab.cap = t.vals.size := rfl
    rw [if_neg (by rw [hcap]; exact hge)]
    refine ⟨?_, ⟨by simp [hw.nxs], by simp [hw.occs], hw.mask⟩, by simp only; omega, rfl, rfl, rfl⟩
    congr 1
    apply Prod.ext
    · apply Tab.ext' <;> try rfl
      show (fun j => if j = i then true else rd t.occs j) = rd (wr t.occs i true)
      rw [rd_wr_fun _ _ _ (by rw [hw.occs]; omega)]
    · rfl

theorem allocAt_sim_err (t : Table α) (i : Nat) {e} (h : t.allocAt i = .error e) :
    tabAllocAt t.toTab i = .error e ∧ e = .storageFull := by
  unfold Table.allocAt at h
  unfold tabAllocAt
  have hcap : t.toTab.cap = t.vals.size := rfl
  by_cases hge : i ≥ t.vals.size
  · rw [if_pos hge] at h; rw [if_pos (by rw [hcap]; exact hge)]
    cases h; exact ⟨rfl, rfl⟩
  · rw [if_neg hge] at h; cases h

theorem alloc_sim_ok (t : Table α) (hw : t.Wf) {t' i} (h : t.alloc = .ok (t', i)) :
    t.toTab.alloc = .ok (t'.toTab, i) ∧ t'.Wf ∧ i < t'.vals.size ∧ t'.bitmask = t.bitmask ∧
      t'.vals = t.vals ∧ t'.buckets = t.buckets := by
  rw [tab_alloc_eq]; exact allocAt_sim_ok t hw _ h

theorem alloc_sim_err (t : Table α) {e} (h : t.alloc = .error e) :
    t.toTab.alloc = .error e ∧ e = .storageFull := by
  rw [tab_alloc_eq]; exact allocAt_sim_err t _ h

theorem add_sim_ok (t : Table α) (hw : t.Wf) (v : α) {t' i} (h : t.add v = .ok (t', i)) :
    t.toTab.add v = .ok (t'.toTab, i) ∧ t'.Wf ∧ i < t'.vals.size ∧ t'.bitmask = t.bitmask ∧
      t'.vals.size = t.vals.size ∧ t'.buckets = t.buckets := by
  unfold Table.add at h
  unfold Tab.add
  cases ha : t.alloc with
  | error e => rw [ha] at h; cases h
  | ok p =>
    obtain ⟨t1, k⟩ := p
    rw [ha] at h
    simp only [Except.ok.injEq, Prod.mk.injEq] at h
    obtain ⟨rfl, rfl⟩ := h
    obtain ⟨hs1, hw1, hi, hbm, hv, hb⟩ := alloc_sim_ok t hw ha
    rw [hs1]
    refine ⟨?_, ⟨by simp [hw1.nxs], by simp [hw1.occs], hw1.mask⟩, by simpa using hi, hbm, by simp [hv], hb⟩
    simp only
    congr 1
    apply Prod.ext
    · apply Tab.ext' <;> try rfl
      · show (fun j => if j = k then v else rd t1.vals j) = rd (wr t1.vals k v)
        rw [rd_wr_fun _ _ _ hi]
      · show (fun j => if j = k then 0 else rd t1.nxs j) = rd (wr t1.nxs k 0)
        rw [rd_wr_fun _ _ _ (by rw [hw1.nxs]; exact hi)]
      · show t1.vals.size = (wr t1.vals k v).size
        simp
    · rfl

theorem add_sim_err (t : Table α) (v : α) {e} (h : t.add v = .error e) :
    t.toTab.add v = .error e ∧ e = .storageFull := by
  unfold Table.add at h
  unfold Tab.add
  cases ha : t.alloc with
  | error e' =>
    rw [ha] at h; cases h
    obtain ⟨a, b⟩ := alloc_sim_err t ha
    rw [a]; exact ⟨rfl, b⟩
  | ok p => obtain ⟨t1, k⟩ := p; rw [ha] at h; cases h

theorem setNext_sim (t : Table α) (hw : t.Wf) {i : Nat} (hi : i < t.vals.size) (x : Nat) :
    (t.setNext i x).toTab = t.toTab.setNext i x ∧ (t.setNext i x).Wf := by
  refine ⟨?_, ⟨by simp [Table.setNext, hw.nxs], hw.occs, hw.mask⟩⟩
  apply Tab.ext' <;> try rfl
  show rd (wr t.nxs i x) = fun j => if j = i then x else rd t.nxs j
  rw [rd_wr_fun _ _ _ (by rw [hw.nxs]; exact hi)]

theorem setBucket_sim (t : Table α) (hw : t.Wf) {b : Nat} (hb : b < t.buckets.size) (x : Nat) :
    (t.setBucket b x).toTab = t.toTab.setBucket b x ∧ (t.setBucket b x).Wf := by
  refine ⟨?_, ⟨hw.nxs, hw.occs, by simpa [Table.setBucket] using hw.mask⟩⟩
  apply Tab.ext' <;> try rfl
  · show rd (wr t.buckets b x) = fun j => if j = b then x else rd t.buckets j
    rw [rd_wr_fun _ _ _ hb]
  · show (wr t.buckets b x).size = t.buckets.size
    simp

variable [DecidableEq α] [MyHash α]

/-- the bucket-index function of a table, as the `hash` parameter of the function view -/
def Table.bhash (t : Table α) : α → Nat := fun v => slotOf (MyHash.hash v) t.bitmask

theorem putLoop_sim_ok (t : Table α) (hw : t.Wf) (v : α) : ∀ (fuel idx : Nat) {t' i},
    (∀ l, Chain t.toTab.nx idx l → ∀ j, j ∈ l → j < t.vals.size) →
    t.putLoop v fuel idx = .ok (t', i) →
    S.putLoop t.toTab v fuel idx = .ok (t'.toTab, i) ∧ t'.Wf ∧ t'.bitmask = t.bitmask ∧
      t'.vals.size = t.vals.size ∧ t'.buckets.size = t.buckets.size := by
  intro fuel
  induction fuel with
  | zero => intro idx t' i _ h; simp [Table.putLoop] at h
  | succ fuel ih =>
    intro idx t' i hrange h
    unfold Table.putLoop at h
    unfold S.putLoop
    by_cases h0 : idx = 0
    · rw [if_pos h0] at h; cases h
    rw [if_neg h0] at h
    have hv : t.toTab.val idx = rd t.vals idx := rfl
    have hn : t.toTab.nx idx = rd t.nxs idx := rfl
    by_cases heq : rd t.vals idx = v
    · rw [if_pos heq] at h
      rw [if_pos (by rw [hv]; exact heq)]
      simp only [Except.ok.injEq, Prod.mk.injEq] at h
      obtain ⟨rfl, rfl⟩ := h
      exact ⟨rfl, hw, rfl, rfl, rfl⟩
    · rw [if_neg heq] at h
      rw [if_neg (by rw [hv]; exact heq)]
      by_cases hz : rd t.nxs idx = 0
      · rw [if_pos hz] at h
        rw [if_pos (by rw [hn]; exact hz)]
        cases ha : t.add v with
        | error e => rw [ha] at h; cases h
        | ok p =>
          obtain ⟨t1, k⟩ := p
          rw [ha] at h
          simp only [Except.ok.injEq, Prod.mk.injEq] at h
          obtain ⟨rfl, rfl⟩ := h
          obtain ⟨hs, hw1, _, hbm, hsz, hbk⟩ := add_sim_ok t hw v ha
          rw [hs]
          have hidx : idx < t.vals.size := by
            have hc : Chain t.toTab.nx idx [idx] := .cons h0 (by rw [hn, hz]; exact .nil)
            exact hrange _ hc idx List.mem_cons_self
          obtain ⟨a, b⟩ := setNext_sim t1 hw1 (i := idx) (by rw [hsz]; exact hidx) k
          simp only
          rw [a]
          exact ⟨rfl, b, by simpa [Table.setNext] using hbm, by simpa [Table.setNext] using hsz,
            by simp [Table.setNext, hbk]⟩
      · rw [if_neg hz] at h
        rw [if_neg (by rw [hn]; exact hz)]
        rw [hn]
        apply ih _ _ h
        intro l hc j hj
        have hc' : Chain t.toTab.nx idx (idx :: l) := .cons h0 (by rw [hn]; exact hc)
        exact hrange _ hc' j (List.mem_cons_of_mem _ hj)

theorem putLoop_err (t : Table α) (v : α) : ∀ (l : List Nat) (idx fuel : Nat) {e},
    Chain t.toTab.nx idx l → l ≠ [] → l.length ≤ fuel →
    t.putLoop v fuel idx = .error e → e = .storageFull := by
  intro l
  induction l with
  | nil => intro idx fuel e _ hne; exact absurd rfl hne
  | cons a tl ih =>
    intro idx fuel e hc _ hlen h
    cases hc with
    | @cons _ _ h0 hc' =>
    cases fuel with
    | zero => simp at hlen
    | succ fuel =>
    unfold Table.putLoop at h
    rw [if_neg h0] at h
    have hn : t.toTab.nx a = rd t.nxs a := rfl
    by_cases heq : rd t.vals a = v
    · rw [if_pos heq] at h; cases h
    · rw [if_neg heq] at h
      by_cases hz : rd t.nxs a = 0
      · rw [if_pos hz] at h
        cases ha : t.add v with
        | error e' => rw [ha] at h; cases h; exact (add_sim_err t v ha).2
        | ok p => obtain ⟨t1, k⟩ := p; rw [ha] at h; cases h
      · rw [if_neg hz] at h
        rw [hn] at hc'
        have hne : tl ≠ [] := by
          intro e0
          exact hz ((Chain.head_zero_iff hc').mpr e0)
        exact ih _ _ hc' hne (by simp only [List.length_cons] at hlen; omega) h

/-- a duplicate-free list of numbers below `N` has at most `N` elements -/
theorem nodup_length_le : ∀ (N : Nat) (l : List Nat), l.Nodup → (∀ i, i ∈ l → i < N) → l.length ≤ N := by
  intro N
  induction N with
  | zero =>
    intro l _ h
    cases l with
    | nil => simp
    | cons a l => exact absurd (h a List.mem_cons_self) (by omega)
  | succ N ih =>
    intro l nd h
    by_cases hN : N ∈ l
    · have nd' := nd.erase N
      have hlt : ∀ i, i ∈ l.erase N → i < N := by
        intro i hi
        have hi' := List.mem_of_mem_erase hi
        have := h i hi'
        have hne : i ≠ N := by
          intro e; subst e
          exact (List.Nodup.not_mem_erase nd) hi
        omega
      have := ih _ nd' hlt
      rw [List.length_erase_of_mem hN] at this
      omega
    · have hlt : ∀ i, i ∈ l → i < N := by
        intro i hi
        have := h i hi
        have hne : i ≠ N := fun e => hN (e ▸ hi)
        omega
      have := ih l nd hlt
      omega

theorem _root_.S.TInv.chain_len {hash : α → Nat} {t : Tab α} {chains} (hI : TInv hash t chains) {b} (hb : b < t.nb) :
    (chains b).length ≤ t.cap := by
  apply nodup_length_le _ _ (hI.nodup b hb)
  intro i hi
  have := (hI.mem b hb i hi).2.1
  have := hI.lastLt
  omega

theorem Chain.unique {nx : Nat → Nat} : ∀ {h l l'}, Chain nx h l → Chain nx h l' → l = l' := by
  intro h l l' c
  induction c generalizing l' with
  | nil => intro c'; cases c' with
    | nil => rfl
    | cons h0 _ => exact absurd rfl h0
  | cons h0 _ ih =>
    intro c'
    cases c' with
    | nil => exact absurd rfl h0
    | cons _ c'' => rw [ih c'']

theorem Table.putLoop_cases (t : Table α) (v : α) : ∀ (fuel idx : Nat) {t' i},
    t.putLoop v fuel idx = .ok (t', i) → t' = t ∨ ∃ t1, t.add v = .ok (t1, i) := by
  intro fuel
  induction fuel with
  | zero => intro idx t' i h; simp [Table.putLoop] at h
  | succ fuel ih =>
    intro idx t' i h
    unfold Table.putLoop at h
    by_cases h0 : idx = 0
    · rw [if_pos h0] at h; cases h
    rw [if_neg h0] at h
    by_cases heq : rd t.vals idx = v
    · rw [if_pos heq] at h
      simp only [Except.ok.injEq, Prod.mk.injEq] at h
      exact Or.inl h.1.symm
    · rw [if_neg heq] at h
      by_cases hz : rd t.nxs idx = 0
      · rw [if_pos hz] at h
        cases ha : t.add v with
        | error e => rw [ha] at h; cases h
        | ok p =>
          obtain ⟨t1, k⟩ := p
          rw [ha] at h
          simp only [Except.ok.injEq, Prod.mk.injEq] at h
          obtain ⟨-, rfl⟩ := h
          exact Or.inr ⟨t1, rfl⟩
      · rw [if_neg hz] at h
        exact ih _ h

theorem Table.put_cases {t : Table α} {v : α} {t' i} (h : t.put v = .ok (t', i)) :
    t' = t ∨ ∃ t1, t.add v = .ok (t1, i) := by
  unfold Table.put at h
  simp only at h
  by_cases hz : rd t.buckets (t.bucketIndex v) = 0
  · rw [if_pos hz] at h
    cases ha : t.add v with
    | error e => rw [ha] at h; cases h
    | ok p =>
      obtain ⟨t1, k⟩ := p
      rw [ha] at h
      simp only [Except.ok.injEq, Prod.mk.injEq] at h
      obtain ⟨-, rfl⟩ := h
      exact Or.inr ⟨t1, rfl⟩
  · rw [if_neg hz] at h
    exact Table.putLoop_cases t v _ _ h

/-- **lookup-or-insert on the array table** (C17): under the invariant, `put` returns the cell that
already holds the value and changes nothing, or — if no live cell holds it — takes a free cell,
stores the value there and changes no other cell's value or occupancy; the invariant holds again. -/
theorem Table.put_spec {t : Table α} (hw : t.Wf) {chains} (hI : TInv t.bhash t.toTab chains) {v : α} {t' i}
    (h : t.put v = .ok (t', i)) :
    t'.Wf ∧ t'.bitmask = t.bitmask ∧ t'.vals.size = t.vals.size ∧ t'.buckets.size = t.buckets.size ∧
    ((2 ≤ i ∧ rd t.occs i = true ∧ rd t.vals i = v ∧ t' = t) ∨
     ((∀ j, 2 ≤ j → rd t.occs j = true → rd t.vals j ≠ v) ∧ 2 ≤ i ∧ rd t.occs i = false ∧
      rd t'.occs = (fun j => if j = i then true else rd t.occs j) ∧
      rd t'.vals = (fun j => if j = i then v else rd t.vals j) ∧
      ∃ chains', TInv t'.bhash t'.toTab chains')) := by
  have hb : t.bhash v < t.toTab.nb := hw.mask _
  have hmod : t.bhash v % t.toTab.nb = t.bhash v := Nat.mod_eq_of_lt hb
  -- simulate
  have sim : S.Tab.put t.bhash t.toTab v = .ok (t'.toTab, i) ∧ t'.Wf ∧ t'.bitmask = t.bitmask ∧
      t'.vals.size = t.vals.size ∧ t'.buckets.size = t.buckets.size := by
    unfold Table.put at h
    unfold S.Tab.put
    simp only [hmod]
    have hbk : t.toTab.bucket (t.bhash v) = rd t.buckets (t.bucketIndex v) := rfl
    simp only at h
    by_cases hz : rd t.buckets (t.bucketIndex v) = 0
    · rw [if_pos hz] at h
      rw [if_pos (by rw [hbk]; exact hz)]
      cases ha : t.add v with
      | error e => rw [ha] at h; cases h
      | ok p =>
        obtain ⟨t1, k⟩ := p
        rw [ha] at h
        simp only [Except.ok.injEq, Prod.mk.injEq] at h
        obtain ⟨rfl, rfl⟩ := h
        obtain ⟨hs, hw1, _, hbm, hsz, hbk1⟩ := add_sim_ok t hw v ha
        rw [hs]
        obtain ⟨a, b⟩ := setBucket_sim t1 hw1 (b := t.bucketIndex v) (by rw [hbk1]; exact hb) k
        simp only
        rw [a]
        exact ⟨rfl, b, by simpa [Table.setBucket] using hbm, by simpa [Table.setBucket] using hsz,
          by simp [Table.setBucket, hbk1]⟩
    · rw [if_neg hz] at h
      rw [if_neg (by rw [hbk]; exact hz)]
      rw [hbk]
      have hcap : t.toTab.cap = t.vals.size := rfl
      rw [hcap]
      apply putLoop_sim_ok t hw v _ _ _ h
      intro l hc j hj
      -- the walk starts at the head of the chain of this bucket: all its cells are in range
      have hch := hI.chain _ hb
      rw [hbk] at hch
      have : l = chains (t.bhash v) := Chain.unique hc hch
      subst this
      have := (hI.mem _ hb j hj).2.1
      have := hI.lastLt
      show j < t.toTab.cap
      omega
  obtain ⟨hs, hw', hbm, hsz, hbsz⟩ := sim
  refine ⟨hw', hbm, hsz, hbsz, ?_⟩
  have hbh : t'.bhash = t.bhash := by funext x; simp [Table.bhash, hbm]
  rcases S.put_spec hI (by rw [hmod]; exact hI.chain_len hb) hs with ⟨a, b, c, d⟩ | ⟨a, b, c, d, e, f⟩
  · left
    refine ⟨a, b, c, ?_⟩
    -- a cell that was already occupied cannot come from `add`, so nothing was written
    rcases Table.put_cases h with e | ⟨t1, ha⟩
    · exact e
    · exfalso
      obtain ⟨hsa, -⟩ := add_sim_ok t hw v ha
      have := (S.add_spec hI hsa).2.2.1
      rw [this] at b; cases b
  · right
    refine ⟨a, b, c, d, e, ?_⟩
    rw [hbh]; exact f

/-- `put` can only fail with "Storage is full" (no assertion, no fuel exhaustion) -/
theorem Table.put_full {t : Table α} (hw : t.Wf) {chains} (hI : TInv t.bhash t.toTab chains) {v : α} {e}
    (h : t.put v = .error e) : e = .storageFull := by
  have hb : t.bhash v < t.toTab.nb := hw.mask _
  unfold Table.put at h
  simp only at h
  by_cases hz : rd t.buckets (t.bucketIndex v) = 0
  · rw [if_pos hz] at h
    cases ha : t.add v with
    | error e' => rw [ha] at h; cases h; exact (add_sim_err t v ha).2
    | ok p => obtain ⟨t1, k⟩ := p; rw [ha] at h; cases h
  · rw [if_neg hz] at h
    have hch := hI.chain _ hb
    have hbk : t.toTab.bucket (t.bhash v) = rd t.buckets (t.bucketIndex v) := rfl
    rw [hbk] at hch
    have hne : chains (t.bhash v) ≠ [] := fun e0 => hz ((Chain.head_zero_iff hch).mpr e0)
    exact putLoop_err t v _ _ _ hch hne (hI.chain_len hb) h

end P

import BddProofs.TotalBase
import BddProofs.Compose
/-! C08, totality half: `compose` (and the entry point `composeTop`) on live arguments returns a
result or stops with "Storage is full" — it never runs out of fuel and never trips an assertion —
as soon as the fuel exceeds `level f + level g + iteFuel V`.  Every recursive call is on cofactors
at the smaller top variable, which is attained by `f` or `g`, so the level sum strictly decreases;
the `apply_ite` call in the `v = var f` branch is covered by the uniform bound `iteFuel V`. -/
namespace P
open Arr

/-- the raw (un-negated) children of a live non-terminal handle are live -/
theorem raw_children_valid {s : St} (hg : Good s) {V : Nat} (hV : VarsLe s V) {f : Ref} {φ : Fn}
    (vf : Valid s.nodes f φ) (hnt : isTerminal f = false) :
    ∃ φ0 φ1, Valid s.nodes (s.low f.idx) φ0 ∧ Valid s.nodes (s.high f.idx) φ1 := by
  obtain ⟨_, _, φ0, φ1, v0, v1, _⟩ := children_total hg hV vf hnt
  unfold St.lowNode at v0; unfold St.highNode at v1
  by_cases hn : f.neg = true
  · rw [if_pos hn] at v0 v1
    have a := v0.not; have b := v1.not
    rw [Ref.not_not] at a b
    exact ⟨_, _, a, b⟩
  · rw [if_neg hn] at v0 v1; exact ⟨_, _, v0, v1⟩

theorem compose_total (V v : Nat) : ∀ fuel s f g φf φg memo, Good s → VarsLe s V →
    Valid s.nodes f φf → Valid s.nodes g φg → CMemoOk s.nodes v memo →
    lv s V f + lv s V g + iteFuel V < fuel → TotOut V (compose fuel s f v g memo) := by
  intro fuel
  induction fuel with
  | zero => intro s f g φf φg memo _ _ _ _ _ h; omega
  | succ fuel ih =>
    intro s f g φf φg memo hg hV vf vg hm hfuel
    unfold compose
    by_cases ct : isTerminal f = true
    · rw [if_pos ct]; exact TotOut.ok hV _
    rw [if_neg ct]
    have hfnt : isTerminal f = false := by simpa using ct
    have hfv := var_bounds hg hV vf hfnt
    have hfl := lv_pos hg hV vf hfnt
    rw [if_neg (by omega : ¬ s.var f = 0)]
    by_cases hlt : v < s.var f
    · rw [if_pos hlt]; exact TotOut.ok hV _
    rw [if_neg hlt]
    cases hl : memo.lookup (f, g) with
    | some res => exact TotOut.ok hV _
    | none =>
    simp only []
    by_cases hvi : v = s.var f
    · rw [if_pos hvi]
      -- substitute at the node itself: ITE(g, high, low) with the predecessor fuel
      obtain ⟨φ0, φ1, v0, v1⟩ := raw_children_valid hg hV vf hfnt
      rcases applyIte_total_unif hg hV vg v1 v0 (by omega : iteFuel V < fuel) with
        ⟨s1, r1, e1, hV1⟩ | ⟨s1, e1⟩
      · simp only [e1]; exact TotOut.ok hV1 _
      · simp only [e1]; exact TotOut.full _
    rw [if_neg hvi]
    generalize hmdef : (if isTerminal g = true then s.var f else min (s.var f) (s.var g)) = m
    have hmf : m ≤ s.var f := by rw [← hmdef]; split <;> omega
    have hm0 : m ≠ 0 := by
      rw [← hmdef]
      by_cases hgt : isTerminal g = true
      · rw [if_pos hgt]; omega
      · rw [if_neg hgt]
        have := var_bounds hg hV vg (by simpa using hgt)
        omega
    have hmg : s.var g ≠ 0 → m ≤ s.var g := by
      intro h0
      by_cases hgt : isTerminal g = true
      · exact absurd (var_terminal hg hgt) h0
      · rw [← hmdef, if_neg hgt]; omega
    have hatt : s.var f = m ∨ s.var g = m := by
      rw [← hmdef]
      by_cases hgt : isTerminal g = true
      · rw [if_pos hgt]; exact Or.inl rfl
      · rw [if_neg hgt]; omega
    rw [if_neg hm0]
    obtain ⟨f0, f1, ef, lf0, lf1, sf⟩ := topCofactors_total hg hV vf hm0 (fun _ => hmf)
    obtain ⟨g0, g1, eg, lg0, lg1, sg⟩ := topCofactors_total hg hV vg hm0 hmg
    simp only [ef, eg]
    obtain ⟨vf0, vf1⟩ := topCofactors_spec hg vf (supp_of_var hg vf (fun _ => hmf)) ef
    obtain ⟨vg0, vg1⟩ := topCofactors_spec hg vg (supp_of_var hg vg hmg) eg
    -- both cofactor pairs have a strictly smaller level sum
    have sum0 : lv s V f0 + lv s V g0 < lv s V f + lv s V g := by
      rcases hatt with e | e
      · have := (sf e).1; omega
      · have := (sg e).1; omega
    have sum1 : lv s V f1 + lv s V g1 < lv s V f + lv s V g := by
      rcases hatt with e | e
      · have := (sf e).2; omega
      · have := (sg e).2; omega
    rcases ih s f0 g0 _ _ memo hg hV vf0 vg0 hm (by omega) with ⟨s1, ⟨h0, memo1⟩, e1, hV1⟩ | ⟨s1, e1⟩
    rotate_left
    · simp only [e1]; exact TotOut.full _
    obtain ⟨g1', sub1, _, hm1⟩ := compose_spec v fuel s f0 g0 _ _ memo _ _ _ hg vf0 vg0 hm e1
    simp only [e1]
    have l1f : lv s1 V f1 = lv s V f1 := lv_mono hg g1' sub1 V vf1
    have l1g : lv s1 V g1 = lv s V g1 := lv_mono hg g1' sub1 V vg1
    rcases ih s1 f1 g1 _ _ memo1 g1' hV1 (vf1.mono sub1) (vg1.mono sub1) hm1 (by omega) with
      ⟨s2, ⟨h1, memo2⟩, e2, hV2⟩ | ⟨s2, e2⟩
    rotate_left
    · simp only [e2]; exact TotOut.full _
    obtain ⟨g2', _, _, _⟩ :=
      compose_spec v fuel s1 f1 g1 _ _ memo1 _ _ _ g1' (vf1.mono sub1) (vg1.mono sub1) hm1 e2
    simp only [e2]
    rcases mkNode_tot g2' hV2 hm0 (by omega : m ≤ V) h0 h1 with ⟨s3, res, e3, hV3⟩ | ⟨s3, e3⟩
    · simp only [e3]; exact TotOut.ok hV3 _
    · simp only [e3]; exact TotOut.full _

/-- C08 (totality), spelled out: with fuel above `level f + level g + iteFuel V`, `compose` on live
arguments (and a sound memo) returns a result with the variable bound kept, or fails with
"Storage is full"; no other failure is possible. -/
theorem compose_total' {V v fuel : Nat} {s : St} {f g : Ref} {φf φg : Fn} {memo : CCache} (hg : Good s)
    (hV : VarsLe s V) (vf : Valid s.nodes f φf) (vg : Valid s.nodes g φg) (hm : CMemoOk s.nodes v memo)
    (hfuel : lv s V f + lv s V g + iteFuel V < fuel) : TotalSpec V (compose fuel s f v g memo) :=
  (compose_total V v fuel s f g φf φg memo hg hV vf vg hm hfuel).spec

theorem composeTop_totOut {V fuel v : Nat} {s : St} {f g : Ref} {φf φg : Fn} (hg : Good s) (hV : VarsLe s V)
    (vf : Valid s.nodes f φf) (vg : Valid s.nodes g φg) (hfuel : lv s V f + lv s V g + iteFuel V < fuel) :
    TotOut V (composeTop fuel s f v g) := by
  unfold composeTop
  rcases compose_total V v fuel s f g φf φg _ hg hV vf vg (CMemoOk.new _ _ _) hfuel with
    ⟨s1, ⟨r, memo1⟩, e1, hV1⟩ | ⟨s1, e1⟩
  · rw [e1]; exact TotOut.ok hV1 _
  · rw [e1]; exact TotOut.full _

/-- the entry point `compose(f, v, g)` (fresh per-call cache) -/
theorem composeTop_total {V fuel v : Nat} {s : St} {f g : Ref} {φf φg : Fn} (hg : Good s) (hV : VarsLe s V)
    (vf : Valid s.nodes f φf) (vg : Valid s.nodes g φg) (hfuel : lv s V f + lv s V g + iteFuel V < fuel) :
    TotalSpec V (composeTop fuel s f v g) :=
  (composeTop_totOut hg hV vf vg hfuel).spec

/-- uniform fuel bound: `2·(V+1) + iteFuel V` is enough for any live pair over variables `≤ V` -/
theorem composeTop_total_unif {V fuel v : Nat} {s : St} {f g : Ref} {φf φg : Fn} (hg : Good s) (hV : VarsLe s V)
    (vf : Valid s.nodes f φf) (vg : Valid s.nodes g φg) (hfuel : 2 * (V + 1) + iteFuel V < fuel) :
    TotalSpec V (composeTop fuel s f v g) := by
  have a := lv_le s V f; have b := lv_le s V g
  exact composeTop_total hg hV vf vg (by omega)

/-- in particular no out-of-fuel, assertion or index fault -/
theorem composeTop_no_fault {V fuel v : Nat} {s : St} {f g : Ref} {φf φg : Fn} (hg : Good s) (hV : VarsLe s V)
    (vf : Valid s.nodes f φf) (vg : Valid s.nodes g φg) (hfuel : 2 * (V + 1) + iteFuel V < fuel) (s' : St) :
    composeTop fuel s f v g ≠ .error (.outOfFuel, s') ∧ composeTop fuel s f v g ≠ .error (.assertion, s') ∧
    composeTop fuel s f v g ≠ .error (.indexOob, s') := by
  have := (composeTop_total_unif (v := v) hg hV vf vg hfuel).2.2
  refine ⟨fun e => ?_, fun e => ?_, fun e => ?_⟩ <;> · have := this _ _ e; cases this

#print axioms compose_total
#print axioms compose_total'
#print axioms composeTop_total
#print axioms composeTop_total_unif
#print axioms composeTop_no_fault
end P

import BddProofs.TotalBase
import BddProofs.Clause
import BddProofs.Derived
/-! Totality of `cube` / `clause` (no fuel: the only failures are the `assert_ne!(lit, 0)` and a
full table), of the folds `apply_and_many` / `apply_or_many` and of `Expr` evaluation (uniform fuel
bound `iteFuel V` for every `apply_ite` step). -/
namespace P
open Arr S

/-! ### the table-level part of `Good` is all `mk_node` needs in order not to panic

`cube`/`clause` accept repeated variables (the result is then not a well-ordered diagram, so `Good`
is lost), but they still cannot panic: that only needs the hash-table invariant. -/

def TabOk (s : St) : Prop := s.storage.Wf ∧ ∃ chains, TInv s.storage.bhash s.storage.toTab chains

theorem Good.tabOk {s : St} (hg : Good s) : TabOk s := ⟨hg.wf, hg.tinv⟩

theorem put_tabOk {s : St} (h : TabOk s) (n : Node) :
    (∃ s' i, s.put n = .ok (s', i) ∧ TabOk s' ∧ ∀ j m, s'.nodes j = some m → s.nodes j = some m ∨ m = n) ∨
    s.put n = .error (.storageFull, s) := by
  obtain ⟨hw, ch, hI⟩ := h
  unfold St.put
  cases hp : s.storage.put n with
  | error e =>
    have := Table.put_full hw hI hp; subst this
    exact Or.inr rfl
  | ok p =>
    obtain ⟨t, k⟩ := p
    obtain ⟨hw', _, hsz, _, hcase⟩ := Table.put_spec hw hI hp
    refine Or.inl ⟨{ s with storage := t }, k, rfl, ?_, ?_⟩
    · rcases hcase with ⟨_, _, _, rfl⟩ | ⟨_, _, _, _, _, hI'⟩
      · exact ⟨hw, ch, hI⟩
      · exact ⟨hw', hI'⟩
    · intro j m hj
      rcases hcase with ⟨_, _, _, rfl⟩ | ⟨_, h2, hfree, hocc, hval, _⟩
      · exact Or.inl hj
      · have hnodes : (St.nodes { s with storage := t }) j = if j = k then some n else s.nodes j := by
          simp only [St.nodes]
          rw [hocc, hval]
          by_cases e : j = k
          · subst e; simp [h2]
          · simp [e]
        rw [hnodes] at hj
        by_cases e : j = k
        · rw [if_pos e] at hj; exact Or.inr (Option.some.inj hj).symm
        · rw [if_neg e] at hj; exact Or.inl hj

theorem mkNodeReg_tabOk {s : St} (h : TabOk s) (v : Nat) (low high : Ref) :
    (∃ s' r, mkNodeReg s v low high = .ok (s', r) ∧ TabOk s' ∧
      ∀ j m, s'.nodes j = some m → s.nodes j = some m ∨ m.var = v) ∨
    mkNodeReg s v low high = .error (.storageFull, s) := by
  unfold mkNodeReg
  by_cases hne : low = high
  · rw [if_pos hne]; exact Or.inl ⟨s, low, rfl, h, fun j m hj => Or.inl hj⟩
  rw [if_neg hne]
  rcases put_tabOk h ⟨v, low, high⟩ with ⟨s', i, e, ht, hn⟩ | e
  · rw [e]
    refine Or.inl ⟨s', ⟨i, false⟩, rfl, ht, ?_⟩
    intro j m hj
    rcases hn j m hj with x | x
    · exact Or.inl x
    · exact Or.inr (by rw [x])
  · rw [e]; exact Or.inr rfl

/-- `mk_node` on a non-zero variable in a state whose table is well-formed: a result (table still
well-formed, any new node carries variable `v`), or "Storage is full" with the state untouched -/
theorem mkNode_tabOk {s : St} (h : TabOk s) {v : Nat} (hv : v ≠ 0) (low high : Ref) :
    (∃ s' r, mkNode s v low high = .ok (s', r) ∧ TabOk s' ∧
      ∀ j m, s'.nodes j = some m → s.nodes j = some m ∨ m.var = v) ∨
    mkNode s v low high = .error (.storageFull, s) := by
  unfold mkNode
  rw [if_neg hv]
  by_cases hneg : high.neg = true
  · rw [if_pos hneg]
    rcases mkNodeReg_tabOk h v low.not high.not with ⟨s', r, e, ht, hn⟩ | e
    · rw [e]; exact Or.inl ⟨s', r.not, rfl, ht, hn⟩
    · rw [e]; exact Or.inr rfl
  · rw [if_neg hneg]; exact mkNodeReg_tabOk h v low high

/-! ### cube -/

/-- what a fold over literals achieves when it does not panic -/
def FoldOut (s : St) (l : List Lit) (x : Res (St × Ref)) : Prop :=
  (∃ s' r, x = .ok (s', r) ∧ TabOk s' ∧
    ∀ j m, s'.nodes j = some m → s.nodes j = some m ∨ ∃ p, p ∈ l ∧ m.var = p.1) ∨
  (∃ s', x = .error (.storageFull, s'))

theorem cubeFold_total : ∀ (l : List Lit) (s : St) (cur : Ref), TabOk s → (∀ p, p ∈ l → p.1 ≠ 0) →
    FoldOut s l (cubeFold s l cur) := by
  intro l
  induction l with
  | nil => intro s cur ht _; exact Or.inl ⟨s, cur, rfl, ht, fun j m hj => Or.inl hj⟩
  | cons p rest ih =>
    intro s cur ht h0
    obtain ⟨v, b⟩ := p
    have hv : v ≠ 0 := h0 (v, b) List.mem_cons_self
    simp only [cubeFold]
    rw [if_neg hv]
    have step : ∀ lo hi, FoldOut s ((v, b) :: rest) (match mkNode s v lo hi with
        | .error e => (.error e : Res (St × Ref))
        | .ok (s1, r) => cubeFold s1 rest r) := by
      intro lo hi
      rcases mkNode_tabOk ht hv lo hi with ⟨s1, r, e, ht1, hn1⟩ | e
      · rw [e]
        rcases ih s1 r ht1 (fun p hp => h0 p (List.mem_cons_of_mem _ hp)) with ⟨s2, r2, e2, ht2, hn2⟩ | ⟨s2, e2⟩
        · refine Or.inl ⟨s2, r2, e2, ht2, ?_⟩
          intro j m hj
          rcases hn2 j m hj with x | ⟨p, hp, x⟩
          · rcases hn1 j m x with y | y
            · exact Or.inl y
            · exact Or.inr ⟨(v, b), List.mem_cons_self, y⟩
          · exact Or.inr ⟨p, List.mem_cons_of_mem _ hp, x⟩
        · exact Or.inr ⟨s2, e2⟩
      · rw [e]; exact Or.inr ⟨s, rfl⟩
    cases b with
    | true => simp only [↓reduceIte]; exact step _ _
    | false => simp only [Bool.false_eq_true, ↓reduceIte]; exact step _ _

/-- a literal with variable 0 stops the loop with the Rust `assert_ne!(lit, 0)` — unless the table
filled up on an earlier (larger-variable) literal -/
theorem cubeFold_zero : ∀ (l : List Lit) (s : St) (cur : Ref), TabOk s → (∃ p, p ∈ l ∧ p.1 = 0) →
    ∃ s', cubeFold s l cur = .error (.assertion, s') ∨ cubeFold s l cur = .error (.storageFull, s') := by
  intro l
  induction l with
  | nil => intro s cur _ ⟨p, hp, _⟩; cases hp
  | cons p rest ih =>
    intro s cur ht hz
    obtain ⟨v, b⟩ := p
    simp only [cubeFold]
    by_cases hv : v = 0
    · rw [if_pos hv]; exact ⟨s, Or.inl rfl⟩
    rw [if_neg hv]
    have hz' : ∃ p, p ∈ rest ∧ p.1 = 0 := by
      obtain ⟨p, hp, hp0⟩ := hz
      rcases List.mem_cons.mp hp with e | e
      · subst e; exact absurd hp0 hv
      · exact ⟨p, e, hp0⟩
    have step : ∀ lo hi, ∃ s', (match mkNode s v lo hi with
        | .error e => (.error e : Res (St × Ref))
        | .ok (s1, r) => cubeFold s1 rest r) = .error (.assertion, s') ∨
        (match mkNode s v lo hi with
        | .error e => (.error e : Res (St × Ref))
        | .ok (s1, r) => cubeFold s1 rest r) = .error (.storageFull, s') := by
      intro lo hi
      rcases mkNode_tabOk ht hv lo hi with ⟨s1, r, e, ht1, -⟩ | e
      · rw [e]; exact ih s1 r ht1 hz'
      · rw [e]; exact ⟨s, Or.inr rfl⟩
    cases b with
    | true => simp only [↓reduceIte]; exact step _ _
    | false => simp only [Bool.false_eq_true, ↓reduceIte]; exact step _ _

theorem mem_sortLits_reverse {lits : List Lit} {p : Lit} : p ∈ (sortLits lits).reverse ↔ p ∈ lits := by
  unfold sortLits
  rw [List.mem_reverse]
  exact (List.mergeSort_perm lits _).mem_iff

theorem FoldOut.tot {s : St} {l : List Lit} {x : Res (St × Ref)} {V : Nat} (h : FoldOut s l x) (hV : VarsLe s V)
    (hle : ∀ p, p ∈ l → p.1 ≤ V) : TotalOut V x := by
  rcases h with ⟨s', r, e, -, hn⟩ | ⟨s', e⟩
  · refine Or.inl ⟨s', r, e, ?_⟩
    intro j m hj
    rcases hn j m hj with x | ⟨p, hp, x⟩
    · exact hV j m x
    · rw [x]; exact hle p hp
  · exact Or.inr ⟨s', e⟩

/-- `cube` over non-zero literals: returns (variable bound kept) or "Storage is full"; nothing else.
No distinctness of the variables is needed. -/
theorem cube_total {V : Nat} {s : St} (hg : Good s) (hV : VarsLe s V) {lits : List Lit}
    (h0 : ∀ l, l ∈ lits → l.1 ≠ 0) (hle : ∀ l, l ∈ lits → l.1 ≤ V) :
    ((∃ s' r, cube s lits = .ok (s', r)) ∨ (∃ s', cube s lits = .error (.storageFull, s'))) ∧
    (∀ s' r, cube s lits = .ok (s', r) → VarsLe s' V) ∧
    (∀ e s', cube s lits = .error (e, s') → e = .storageFull) := by
  have := cubeFold_total (sortLits lits).reverse s Ref.one hg.tabOk
    (fun p hp => h0 p (mem_sortLits_reverse.mp hp))
  exact (this.tot hV (fun p hp => hle p (mem_sortLits_reverse.mp hp))).tot.spec

/-- the only failure of `cube` over non-zero literals is "Storage is full" -/
theorem cube_only_storageFull {s : St} (hg : Good s) {lits : List Lit} {e : Fault} {s' : St}
    (h : cube s lits = .error (e, s')) (h0 : ∀ l, l ∈ lits → l.1 ≠ 0) : e = .storageFull := by
  rcases cubeFold_total (sortLits lits).reverse s Ref.one hg.tabOk
    (fun p hp => h0 p (mem_sortLits_reverse.mp hp)) with ⟨s2, r, e2, -, -⟩ | ⟨s2, e2⟩
  · unfold cube at h; rw [e2] at h; cases h
  · unfold cube at h; rw [e2] at h
    simp only [Except.error.injEq, Prod.mk.injEq] at h
    exact h.1.symm

/-- a zero literal makes `cube` stop with the assertion (or, earlier, with a full table); it never
returns -/
theorem cube_zero {s : St} (hg : Good s) {lits : List Lit} (hz : ∃ l, l ∈ lits ∧ l.1 = 0) :
    ∃ s', cube s lits = .error (.assertion, s') ∨ cube s lits = .error (.storageFull, s') := by
  obtain ⟨p, hp, hp0⟩ := hz
  exact cubeFold_zero _ s Ref.one hg.tabOk ⟨p, mem_sortLits_reverse.mpr hp, hp0⟩

/-! ### clause -/

theorem clauseFold_total : ∀ (l : List Lit) (s : St) (cur : Ref), TabOk s → (∀ p, p ∈ l → p.1 ≠ 0) →
    FoldOut s l (clauseFold s l cur) := by
  intro l
  induction l with
  | nil => intro s cur ht _; exact Or.inl ⟨s, cur, rfl, ht, fun j m hj => Or.inl hj⟩
  | cons p rest ih =>
    intro s cur ht h0
    obtain ⟨v, b⟩ := p
    have hv : v ≠ 0 := h0 (v, b) List.mem_cons_self
    simp only [clauseFold]
    rw [if_neg hv]
    have step : ∀ lo hi, FoldOut s ((v, b) :: rest) (match mkNode s v lo hi with
        | .error e => (.error e : Res (St × Ref))
        | .ok (s1, r) => clauseFold s1 rest r) := by
      intro lo hi
      rcases mkNode_tabOk ht hv lo hi with ⟨s1, r, e, ht1, hn1⟩ | e
      · rw [e]
        rcases ih s1 r ht1 (fun p hp => h0 p (List.mem_cons_of_mem _ hp)) with ⟨s2, r2, e2, ht2, hn2⟩ | ⟨s2, e2⟩
        · refine Or.inl ⟨s2, r2, e2, ht2, ?_⟩
          intro j m hj
          rcases hn2 j m hj with x | ⟨p, hp, x⟩
          · rcases hn1 j m x with y | y
            · exact Or.inl y
            · exact Or.inr ⟨(v, b), List.mem_cons_self, y⟩
          · exact Or.inr ⟨p, List.mem_cons_of_mem _ hp, x⟩
        · exact Or.inr ⟨s2, e2⟩
      · rw [e]; exact Or.inr ⟨s, rfl⟩
    cases b with
    | true => simp only [↓reduceIte]; exact step _ _
    | false => simp only [Bool.false_eq_true, ↓reduceIte]; exact step _ _

theorem clauseFold_zero : ∀ (l : List Lit) (s : St) (cur : Ref), TabOk s → (∃ p, p ∈ l ∧ p.1 = 0) →
    ∃ s', clauseFold s l cur = .error (.assertion, s') ∨ clauseFold s l cur = .error (.storageFull, s') := by
  intro l
  induction l with
  | nil => intro s cur _ ⟨p, hp, _⟩; cases hp
  | cons p rest ih =>
    intro s cur ht hz
    obtain ⟨v, b⟩ := p
    simp only [clauseFold]
    by_cases hv : v = 0
    · rw [if_pos hv]; exact ⟨s, Or.inl rfl⟩
    rw [if_neg hv]
    have hz' : ∃ p, p ∈ rest ∧ p.1 = 0 := by
      obtain ⟨p, hp, hp0⟩ := hz
      rcases List.mem_cons.mp hp with e | e
      · subst e; exact absurd hp0 hv
      · exact ⟨p, e, hp0⟩
    have step : ∀ lo hi, ∃ s', (match mkNode s v lo hi with
        | .error e => (.error e : Res (St × Ref))
        | .ok (s1, r) => clauseFold s1 rest r) = .error (.assertion, s') ∨
        (match mkNode s v lo hi with
        | .error e => (.error e : Res (St × Ref))
        | .ok (s1, r) => clauseFold s1 rest r) = .error (.storageFull, s') := by
      intro lo hi
      rcases mkNode_tabOk ht hv lo hi with ⟨s1, r, e, ht1, -⟩ | e
      · rw [e]; exact ih s1 r ht1 hz'
      · rw [e]; exact ⟨s, Or.inr rfl⟩
    cases b with
    | true => simp only [↓reduceIte]; exact step _ _
    | false => simp only [Bool.false_eq_true, ↓reduceIte]; exact step _ _

theorem clause_total {V : Nat} {s : St} (hg : Good s) (hV : VarsLe s V) {lits : List Lit}
    (h0 : ∀ l, l ∈ lits → l.1 ≠ 0) (hle : ∀ l, l ∈ lits → l.1 ≤ V) :
    ((∃ s' r, clause s lits = .ok (s', r)) ∨ (∃ s', clause s lits = .error (.storageFull, s'))) ∧
    (∀ s' r, clause s lits = .ok (s', r) → VarsLe s' V) ∧
    (∀ e s', clause s lits = .error (e, s') → e = .storageFull) := by
  have := clauseFold_total (sortLits lits).reverse s Ref.zero hg.tabOk
    (fun p hp => h0 p (mem_sortLits_reverse.mp hp))
  exact (this.tot hV (fun p hp => hle p (mem_sortLits_reverse.mp hp))).tot.spec

theorem clause_only_storageFull {s : St} (hg : Good s) {lits : List Lit} {e : Fault} {s' : St}
    (h : clause s lits = .error (e, s')) (h0 : ∀ l, l ∈ lits → l.1 ≠ 0) : e = .storageFull := by
  rcases clauseFold_total (sortLits lits).reverse s Ref.zero hg.tabOk
    (fun p hp => h0 p (mem_sortLits_reverse.mp hp)) with ⟨s2, r, e2, -, -⟩ | ⟨s2, e2⟩
  · unfold clause at h; rw [e2] at h; cases h
  · unfold clause at h; rw [e2] at h
    simp only [Except.error.injEq, Prod.mk.injEq] at h
    exact h.1.symm

theorem clause_zero {s : St} (hg : Good s) {lits : List Lit} (hz : ∃ l, l ∈ lits ∧ l.1 = 0) :
    ∃ s', clause s lits = .error (.assertion, s') ∨ clause s lits = .error (.storageFull, s') := by
  obtain ⟨p, hp, hp0⟩ := hz
  exact clauseFold_zero _ s Ref.zero hg.tabOk ⟨p, mem_sortLits_reverse.mpr hp, hp0⟩

/-! ### apply_and_many / apply_or_many -/

theorem andMany_total (V fuel : Nat) (hfuel : iteFuel V < fuel) : ∀ (xs : List Ref) (s : St) (acc : Ref) (ψ : Fn),
    Good s → VarsLe s V → Valid s.nodes acc ψ → (∀ x, x ∈ xs → ∃ φ, Valid s.nodes x φ) →
    TotalOut V (andMany fuel s acc xs) := by
  intro xs
  induction xs with
  | nil => intro s acc ψ _ hV _ _; exact Or.inl ⟨s, acc, rfl, hV⟩
  | cons r rest ih =>
    intro s acc ψ hg hV va hxs
    obtain ⟨φr, vr⟩ := hxs r List.mem_cons_self
    simp only [andMany]
    rcases applyIte_total_unif hg hV va vr Valid.zero hfuel with ⟨s1, acc1, e1, hV1⟩ | ⟨s1, e1⟩
    · have e1' : applyAnd fuel s acc r = .ok (s1, acc1) := e1
      simp only [e1']
      obtain ⟨g1, sub1, va1⟩ := applyAnd_spec hg va vr e1'
      exact ih s1 acc1 _ g1 hV1 va1 (fun x hx => by
        obtain ⟨φ, vx⟩ := hxs x (List.mem_cons_of_mem _ hx); exact ⟨φ, vx.mono sub1⟩)
    · have e1' : applyAnd fuel s acc r = .error (.storageFull, s1) := e1
      simp only [e1']; exact Or.inr ⟨_, rfl⟩

theorem orMany_total (V fuel : Nat) (hfuel : iteFuel V < fuel) : ∀ (xs : List Ref) (s : St) (acc : Ref) (ψ : Fn),
    Good s → VarsLe s V → Valid s.nodes acc ψ → (∀ x, x ∈ xs → ∃ φ, Valid s.nodes x φ) →
    TotalOut V (orMany fuel s acc xs) := by
  intro xs
  induction xs with
  | nil => intro s acc ψ _ hV _ _; exact Or.inl ⟨s, acc, rfl, hV⟩
  | cons r rest ih =>
    intro s acc ψ hg hV va hxs
    obtain ⟨φr, vr⟩ := hxs r List.mem_cons_self
    simp only [orMany]
    rcases applyIte_total_unif hg hV va Valid.one vr hfuel with ⟨s1, acc1, e1, hV1⟩ | ⟨s1, e1⟩
    · have e1' : applyOr fuel s acc r = .ok (s1, acc1) := e1
      simp only [e1']
      obtain ⟨g1, sub1, va1⟩ := applyOr_spec hg va vr e1'
      exact ih s1 acc1 _ g1 hV1 va1 (fun x hx => by
        obtain ⟨φ, vx⟩ := hxs x (List.mem_cons_of_mem _ hx); exact ⟨φ, vx.mono sub1⟩)
    · have e1' : applyOr fuel s acc r = .error (.storageFull, s1) := e1
      simp only [e1']; exact Or.inr ⟨_, rfl⟩

/-- `apply_and_many(nodes)` (accumulator starts at `1`) on live handles, with the uniform fuel bound -/
theorem andMany_total' {V fuel : Nat} {s : St} {xs : List Ref} (hg : Good s) (hV : VarsLe s V)
    (hxs : ∀ x, x ∈ xs → ∃ φ, Valid s.nodes x φ) (hfuel : 3 * (V + 1) * (V + 2) + V < fuel) :
    ((∃ s' r, andMany fuel s Ref.one xs = .ok (s', r)) ∨
      (∃ s', andMany fuel s Ref.one xs = .error (.storageFull, s'))) ∧
    (∀ s' r, andMany fuel s Ref.one xs = .ok (s', r) → VarsLe s' V) ∧
    (∀ e s', andMany fuel s Ref.one xs = .error (e, s') → e = .storageFull) :=
  (andMany_total V fuel hfuel xs s Ref.one _ hg hV Valid.one hxs).tot.spec

/-- `apply_or_many(nodes)` (accumulator starts at `0`) on live handles, with the uniform fuel bound -/
theorem orMany_total' {V fuel : Nat} {s : St} {xs : List Ref} (hg : Good s) (hV : VarsLe s V)
    (hxs : ∀ x, x ∈ xs → ∃ φ, Valid s.nodes x φ) (hfuel : 3 * (V + 1) * (V + 2) + V < fuel) :
    ((∃ s' r, orMany fuel s Ref.zero xs = .ok (s', r)) ∨
      (∃ s', orMany fuel s Ref.zero xs = .error (.storageFull, s'))) ∧
    (∀ s' r, orMany fuel s Ref.zero xs = .ok (s', r) → VarsLe s' V) ∧
    (∀ e s', orMany fuel s Ref.zero xs = .error (e, s') → e = .storageFull) :=
  (orMany_total V fuel hfuel xs s Ref.zero _ hg hV Valid.zero hxs).tot.spec

/-! ### the binary connectives, uniformly -/

theorem applyAnd_total {V fuel : Nat} (hfuel : iteFuel V < fuel) {s : St} {u v : Ref} {φu φv : Fn} (hg : Good s)
    (hV : VarsLe s V) (vu : Valid s.nodes u φu) (vv : Valid s.nodes v φv) : TotalOut V (applyAnd fuel s u v) :=
  applyIte_total_unif hg hV vu vv Valid.zero hfuel
theorem applyOr_total {V fuel : Nat} (hfuel : iteFuel V < fuel) {s : St} {u v : Ref} {φu φv : Fn} (hg : Good s)
    (hV : VarsLe s V) (vu : Valid s.nodes u φu) (vv : Valid s.nodes v φv) : TotalOut V (applyOr fuel s u v) :=
  applyIte_total_unif hg hV vu Valid.one vv hfuel
theorem applyXor_total {V fuel : Nat} (hfuel : iteFuel V < fuel) {s : St} {u v : Ref} {φu φv : Fn} (hg : Good s)
    (hV : VarsLe s V) (vu : Valid s.nodes u φu) (vv : Valid s.nodes v φv) : TotalOut V (applyXor fuel s u v) :=
  applyIte_total_unif hg hV vu vv.not vv hfuel
theorem applyEq_total {V fuel : Nat} (hfuel : iteFuel V < fuel) {s : St} {u v : Ref} {φu φv : Fn} (hg : Good s)
    (hV : VarsLe s V) (vu : Valid s.nodes u φu) (vv : Valid s.nodes v φv) : TotalOut V (applyEq fuel s u v) :=
  applyIte_total_unif hg hV vu vv vv.not hfuel
theorem applyImply_total {V fuel : Nat} (hfuel : iteFuel V < fuel) {s : St} {u v : Ref} {φu φv : Fn} (hg : Good s)
    (hV : VarsLe s V) (vu : Valid s.nodes u φu) (vv : Valid s.nodes v φv) : TotalOut V (applyImply fuel s u v) :=
  applyIte_total_unif hg hV vu vv Valid.one hfuel

/-! ### Expr evaluation -/

/-- evaluate `a`, then `b` in the resulting state, then combine with a total binary operation -/
theorem evalBin_total {V fuel : Nat} {a b : Expr} (op : Nat → St → Ref → Ref → Res (St × Ref))
    (iha : ∀ (s : St) (φ : Fn), Good s → VarsLe s V → Expr.Sem s.nodes a φ → TotalOut V (Expr.eval fuel s a))
    (ihb : ∀ (s : St) (φ : Fn), Good s → VarsLe s V → Expr.Sem s.nodes b φ → TotalOut V (Expr.eval fuel s b))
    (hop : ∀ (s : St) (u v : Ref) (φu φv : Fn), Good s → VarsLe s V → Valid s.nodes u φu → Valid s.nodes v φv →
      TotalOut V (op fuel s u v))
    {s : St} {φa φb : Fn} (hg : Good s) (hV : VarsLe s V) (ha : Expr.Sem s.nodes a φa) (hb : Expr.Sem s.nodes b φb) :
    TotalOut V (match Expr.eval fuel s a with
      | .error e => (.error e : Res (St × Ref))
      | .ok (s1, ra) =>
        match Expr.eval fuel s1 b with
        | .error e => .error e
        | .ok (s2, rb) => op fuel s2 ra rb) := by
  rcases iha s φa hg hV ha with ⟨s1, ra, e1, hV1⟩ | ⟨s1, e1⟩
  rotate_left
  · simp only [e1]; exact Or.inr ⟨_, rfl⟩
  simp only [e1]
  obtain ⟨g1, sub1, va⟩ := Expr.eval_spec fuel a s φa s1 ra hg ha e1
  rcases ihb s1 φb g1 hV1 (hb.mono sub1) with ⟨s2, rb, e2, hV2⟩ | ⟨s2, e2⟩
  rotate_left
  · simp only [e2]; exact Or.inr ⟨_, rfl⟩
  simp only [e2]
  obtain ⟨g2, sub2, vb⟩ := Expr.eval_spec fuel b s1 φb s2 rb g1 (hb.mono sub1) e2
  exact hop s2 ra rb _ _ g2 hV2 (va.mono sub2) vb

theorem Expr.eval_total (V fuel : Nat) (hfuel : iteFuel V < fuel) : ∀ (x : Expr) (s : St) (φ : Fn),
    Good s → VarsLe s V → Expr.Sem s.nodes x φ → TotalOut V (Expr.eval fuel s x) := by
  intro x
  induction x with
  | term t => intro s φ _ hV _; exact Or.inl ⟨s, t, rfl, hV⟩
  | not a ih =>
    intro s φ hg hV hs
    cases hs with
    | not ha =>
      simp only [Expr.eval]
      rcases ih s _ hg hV ha with ⟨s1, r1, e1, hV1⟩ | ⟨s1, e1⟩
      · simp only [e1]; exact Or.inl ⟨_, _, rfl, hV1⟩
      · simp only [e1]; exact Or.inr ⟨_, rfl⟩
  | and a b iha ihb =>
    intro s φ hg hV hs
    cases hs with
    | and ha hb =>
      simp only [Expr.eval]
      exact evalBin_total applyAnd iha ihb (fun s u v _ _ g hv vu vv => applyAnd_total hfuel g hv vu vv) hg hV ha hb
  | or a b iha ihb =>
    intro s φ hg hV hs
    cases hs with
    | or ha hb =>
      simp only [Expr.eval]
      exact evalBin_total applyOr iha ihb (fun s u v _ _ g hv vu vv => applyOr_total hfuel g hv vu vv) hg hV ha hb
  | xor a b iha ihb =>
    intro s φ hg hV hs
    cases hs with
    | xor ha hb =>
      simp only [Expr.eval]
      exact evalBin_total applyXor iha ihb (fun s u v _ _ g hv vu vv => applyXor_total hfuel g hv vu vv) hg hV ha hb

/-- evaluating an expression over live terms, with the uniform fuel bound: returns (bound kept) or
"Storage is full"; never out of fuel, never an assertion -/
theorem Expr.eval_total' {V fuel : Nat} {s : St} {x : Expr} {φ : Fn} (hg : Good s) (hV : VarsLe s V)
    (hs : Expr.Sem s.nodes x φ) (hfuel : 3 * (V + 1) * (V + 2) + V < fuel) :
    ((∃ s' r, Expr.eval fuel s x = .ok (s', r)) ∨ (∃ s', Expr.eval fuel s x = .error (.storageFull, s'))) ∧
    (∀ s' r, Expr.eval fuel s x = .ok (s', r) → VarsLe s' V) ∧
    (∀ e s', Expr.eval fuel s x = .error (e, s') → e = .storageFull) :=
  (Expr.eval_total V fuel hfuel x s φ hg hV hs).tot.spec

#print axioms cube_total
#print axioms cube_only_storageFull
#print axioms cube_zero
#print axioms clause_total
#print axioms clause_only_storageFull
#print axioms clause_zero
#print axioms andMany_total
#print axioms andMany_total'
#print axioms orMany_total
#print axioms orMany_total'
#print axioms Expr.eval_total
#print axioms Expr.eval_total'
end P

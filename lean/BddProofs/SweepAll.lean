import BddProofs.Sweep
/-! Feasibility spike: the whole sweep of `collect_garbage` — per bucket (`skipDead`, `set_bucket`,
`relink`) and lifted over all buckets using disjointness of the chains. -/
namespace S

/-- one iteration of the `for i in 0..n` loop, on the memory view and the bucket head -/
def sweepBucket (alive : Nat → Bool) (fuel : Nat) (m : Mem) (head : Nat) : Mem × Nat :=
  if head = 0 then (m, 0) else
  let p := skipDead alive fuel m head
  (relink alive fuel p.1 p.2, p.2)

theorem Chain.congr {nx nx' : Nat → Nat} {h l} (c : Chain nx h l) (heq : ∀ i, i ∈ l → nx' i = nx i) : Chain nx' h l := by
  induction c with
  | nil => exact .nil
  | @cons h l h0 _ ih =>
    refine .cons h0 ?_
    rw [heq h List.mem_cons_self]
    exact ih (fun i hi => heq i (List.mem_cons_of_mem _ hi))

theorem Chain.nil_of_zero {nx l} (c : Chain nx 0 l) : l = [] := by
  cases c with
  | nil => rfl
  | cons h0 _ => exact absurd rfl h0

theorem sweepBucket_spec (alive : Nat → Bool) (fuel : Nat) (m : Mem) (head : Nat) (l : List Nat)
    (c : Chain m.nx head l) (nd : l.Nodup) (hf : l.length < fuel) :
    let r := sweepBucket alive fuel m head
    Chain r.1.nx r.2 (l.filter alive) ∧
    (∀ j, j ∉ l → r.1.nx j = m.nx j) ∧
    (∀ j, r.1.occ j = (m.occ j && !(decide (j ∈ l) && !alive j))) := by
  unfold sweepBucket
  by_cases h0 : head = 0
  · subst h0
    have := c.nil_of_zero; subst this
    simp only [↓reduceIte, List.filter_nil]
    exact ⟨.nil, fun _ _ => by first | rfl | trivial, fun j => by simp⟩
  rw [if_neg h0]
  obtain ⟨a, b, c2, d⟩ := skipDead_spec alive fuel m head l c (by omega)
  simp only
  generalize hm1 : (skipDead alive fuel m head).1 = m1 at *
  generalize hcur : (skipDead alive fuel m head).2 = cur at *
  rcases split_dead (fun i => !alive i) l with ⟨h1, h2, h3⟩ | ⟨pre, cur', l', h1, h2, h3, h4, h5⟩
  · -- the whole chain is dead
    rw [h1] at b c2
    simp only [headOr0] at b
    subst b
    have hrel : relink alive fuel m1 0 = m1 := by cases fuel <;> simp [relink]
    rw [hrel]
    have hfil : l.filter alive = [] := by
      simp only [List.filter_eq_nil_iff]; intro x hx; have := h3 x hx; simpa using this
    rw [hfil]
    refine ⟨.nil, fun j _ => by rw [a], fun j => ?_⟩
    rw [d j, h2]
    by_cases hj : j ∈ l
    · have := h3 j hj; simp at this; simp [hj, this]
    · simp [hj]
  · rw [h4] at b c2
    simp only [headOr0] at b
    subst b
    have ndl : (cur :: l').Nodup := by
      have : (pre ++ cur :: l').Nodup := h1 ▸ nd
      exact (List.nodup_append.mp this).2.1
    have c3 : Chain m1.nx cur (cur :: l') := by rw [a]; exact c2
    have hl3 : l'.length < fuel := by
      have : l.length = pre.length + (l'.length + 1) := by rw [h1]; simp
      omega
    obtain ⟨x, y, z⟩ := relink_spec alive fuel m1 cur l' c3 ndl hl3
    have halive : alive cur = true := by simpa using h3
    have hfil : l.filter alive = cur :: l'.filter alive := by
      rw [h1, List.filter_append]
      have : pre.filter alive = [] := by
        simp only [List.filter_eq_nil_iff]; intro x hx; have := h2 x hx; simpa using this
      simp [this, List.filter, halive]
    have hsub : ∀ x, x ∈ cur :: l' → x ∈ l := by
      intro x hx; rw [h1]; exact List.mem_append_right _ hx
    refine ⟨by rw [hfil]; exact x, fun j hj => ?_, fun j => ?_⟩
    · rw [y j (fun hm => hj (hsub j hm)), a]
    · rw [z j, d j, h5]
      have hmem : j ∈ l ↔ (j ∈ pre ∨ j = cur ∨ j ∈ l') := by rw [h1]; simp
      have hdis : j ∈ pre → j ∉ cur :: l' := by
        intro hp' hl''
        have : (pre ++ cur :: l').Nodup := h1 ▸ nd
        exact (List.nodup_append.mp this).2.2 j hp' j hl'' rfl
      by_cases hjp : j ∈ pre
      · have hd := h2 j hjp
        have hnl := hdis hjp
        have hjl : j ∈ l := hmem.mpr (Or.inl hjp)
        simp at hd
        have hnl' : j ∉ l' := fun h => hnl (List.mem_cons_of_mem _ h)
        simp [hjp, hnl', hjl, hd]
      · by_cases hjc : j = cur
        · subst hjc
          have : j ∉ l' := (List.nodup_cons.mp ndl).1
          simp [hjp, halive, this]
        · by_cases hjl' : j ∈ l'
          · have hjl : j ∈ l := hmem.mpr (Or.inr (Or.inr hjl'))
            simp [hjp, hjl', hjl]
          · have hjl : j ∉ l := fun h => by rcases hmem.mp h with h | h | h <;> contradiction
            simp [hjp, hjl', hjl]

/-- the `for` loop over buckets `0 .. k` -/
def sweepUpTo (alive : Nat → Bool) (fuel : Nat) : Nat → Mem × (Nat → Nat) → Mem × (Nat → Nat)
  | 0, st => st
  | k + 1, st =>
    let st1 := sweepUpTo alive fuel k st
    let r := sweepBucket alive fuel st1.1 (st1.2 k)
    (r.1, fun b => if b = k then r.2 else st1.2 b)

/-- lifted over the buckets: every chain becomes `filter alive`, exactly the dead chained cells are
freed, nothing else changes -/
theorem sweepUpTo_spec (alive : Nat → Bool) (fuel : Nat) (m : Mem) (bucket : Nat → Nat) (nb : Nat)
    (chains : Nat → List Nat)
    (hc : ∀ b, b < nb → Chain m.nx (bucket b) (chains b))
    (hnd : ∀ b, b < nb → (chains b).Nodup)
    (hdisj : ∀ b b', b < nb → b' < nb → b ≠ b' → ∀ i, i ∈ chains b → i ∉ chains b')
    (hfuel : ∀ b, b < nb → (chains b).length < fuel) :
    ∀ k, k ≤ nb →
      let st := sweepUpTo alive fuel k (m, bucket)
      (∀ b, b < nb → Chain st.1.nx (st.2 b) (if b < k then (chains b).filter alive else chains b)) ∧
      (∀ j, (∀ b, b < k → j ∉ chains b) → st.1.nx j = m.nx j) ∧
      (∀ j, st.1.occ j = (m.occ j && !(decide (∃ b, b < k ∧ j ∈ chains b) && !alive j))) := by
  intro k
  induction k with
  | zero =>
    intro _
    refine ⟨fun b hb => by simpa [sweepUpTo] using hc b hb, fun _ _ => rfl, fun j => by simp [sweepUpTo]⟩
  | succ k ih =>
    intro hk
    obtain ⟨ih1, ih2, ih3⟩ := ih (by omega)
    simp only [sweepUpTo]
    generalize hst : sweepUpTo alive fuel k (m, bucket) = st at *
    have hkb : k < nb := by omega
    have ck : Chain st.1.nx (st.2 k) (chains k) := by have := ih1 k hkb; simpa using this
    obtain ⟨s1, s2, s3⟩ := sweepBucket_spec alive fuel st.1 (st.2 k) (chains k) ck (hnd k hkb) (hfuel k hkb)
    refine ⟨fun b hb => ?_, fun j hj => ?_, fun j => ?_⟩
    · by_cases hbk : b = k
      · subst hbk; simpa using s1
      · simp only [hbk, ↓reduceIte]
        have hcb := ih1 b hb
        have hlist : (if b < k + 1 then (chains b).filter alive else chains b) =
            (if b < k then (chains b).filter alive else chains b) := by
          by_cases h : b < k
          · rw [if_pos h, if_pos (by omega)]
          · rw [if_neg h, if_neg (by omega)]
        rw [hlist]
        refine hcb.congr (fun i hi => s2 i ?_)
        -- cells of another bucket's (possibly filtered) chain are not in chain k
        have hi' : i ∈ chains b := by
          split at hi
          · exact (List.mem_filter.mp hi).1
          · exact hi
        exact hdisj b k hb hkb hbk i hi'
    · rw [s2 j (hj k (by omega)), ih2 j (fun b hb => hj b (by omega))]
    · rw [s3 j, ih3 j]
      have hex : (∃ b, b < k + 1 ∧ j ∈ chains b) ↔ ((∃ b, b < k ∧ j ∈ chains b) ∨ j ∈ chains k) := by
        constructor
        · rintro ⟨b, hb, hj⟩
          by_cases e : b = k
          · subst e; exact Or.inr hj
          · exact Or.inl ⟨b, by omega, hj⟩
        · rintro (⟨b, hb, hj⟩ | hj)
          · exact ⟨b, by omega, hj⟩
          · exact ⟨k, by omega, hj⟩
      by_cases h1 : ∃ b, b < k ∧ j ∈ chains b <;> by_cases h2 : j ∈ chains k <;>
        simp [h1, h2, hex] <;> cases m.occ j <;> cases alive j <;> simp

#print axioms sweepUpTo_spec
end S

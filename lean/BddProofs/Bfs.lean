import BddProofs.Ite
/-! `descendants` (the mark phase shared by `size`, `to_dot` and `collect_garbage`).

* `bfsFast_eq`: the executable walk (`bfsFast`: mark array + two-list queue) returns the same
  visited list as the specification-level walk `bfs`, and its mark array mirrors that list.
* `bfs_closed`: loop invariant of `bfs` (children-closed, everything live) and termination within
  the fuel bound (pigeonhole on the duplicate-free visited list).
* `descendants_eq_bfs`, `descendantsMark_spec`, `descendants_closed`, `descendants_exact`,
  `descendants_nodup`, `descendants_length`: the facts about the real `P.descendants`. -/
namespace P
open Arr

/-- an index that may legitimately be visited: the terminal or a stored node -/
def Live (s : St) (i : Nat) : Prop := i = 1 ∨ ∃ n, s.nodes i = some n

/-- children-closed -/
def Closed (s : St) (V : List Nat) : Prop :=
  ∀ i n, i ∈ V → s.nodes i = some n → n.low.idx ∈ V ∧ n.high.idx ∈ V

/-- reachable indices: the terminal, the roots, and children of reachable stored nodes -/
inductive RI (s : St) (roots : List Nat) : Nat → Prop
  | one : RI s roots 1
  | root {r} : r ∈ roots → RI s roots r
  | low {j n} : RI s roots j → s.nodes j = some n → RI s roots n.low.idx
  | high {j n} : RI s roots j → s.nodes j = some n → RI s roots n.high.idx

theorem live_children {s : St} (hg : Good s) {i n} (hn : s.nodes i = some n) :
    Live s n.low.idx ∧ Live s n.high.idx := by
  constructor
  · rcases hg.inv.ordLow _ _ hn with h | ⟨m, hm, _⟩
    · exact Or.inl h
    · exact Or.inr ⟨m, hm⟩
  · rcases hg.inv.ordHigh _ _ hn with h | ⟨m, hm, _⟩
    · exact Or.inl h
    · exact Or.inr ⟨m, hm⟩

theorem Live.lt {s : St} (hg : Good s) {i} (h : Live s i) : i < s.next := by
  rcases h with e | ⟨n, hn⟩
  · have := hg.next2; omega
  · exact (hg.bnd _ _ hn).2

/-- the children read from the raw cell of a live, non-terminal index are live -/
theorem Live.children {s : St} (hg : Good s) {i} (h : Live s i) (h1 : i ≠ 1) :
    Live s (s.low i).idx ∧ Live s (s.high i).idx := by
  rcases h with e | ⟨n, hn⟩
  · exact absurd e h1
  · rw [St.low_of hn, St.high_of hn]; exact live_children hg hn

/-! ## the executable walk refines the specification walk -/

/-- "the specification walk with this much fuel ran its queue empty" -/
def bfsDone (s : St) : Nat → List Nat → List Nat → Bool
  | 0, _, _ => false
  | _ + 1, [], _ => true
  | fuel + 1, i :: q, vis =>
    if vis.contains i then bfsDone s fuel q vis
    else bfsDone s fuel (q ++ [(s.low i).idx, (s.high i).idx]) (i :: vis)

theorem bfs_nil (s : St) (k : Nat) (vis : List Nat) : bfs s k [] vis = vis := by
  cases k <;> rfl

/-- once the queue has run empty, more fuel changes nothing -/
theorem bfs_fuel_stable (s : St) : ∀ k q vis, bfsDone s k q vis = true →
    ∀ m, k ≤ m → bfs s m q vis = bfs s k q vis ∧ bfsDone s m q vis = true := by
  intro k
  induction k with
  | zero => intro q vis h; cases h
  | succ k ih =>
    intro q vis h m hm
    obtain ⟨m, rfl⟩ : ∃ m', m = m' + 1 := ⟨m - 1, by omega⟩
    cases q with
    | nil => exact ⟨rfl, rfl⟩
    | cons i q =>
      simp only [bfs, bfsDone] at h ⊢
      by_cases hc : vis.contains i = true
      · simp only [if_pos hc] at h ⊢
        exact ih _ _ h m (by omega)
      · simp only [if_neg hc] at h ⊢
        exact ih _ _ h m (by omega)

/-- Refinement: with marks mirroring `vis` and every index that can ever be queued in range
(`A` is any set of in-range indices closed under taking the children of unvisited members),
`bfsFast` computes the visited list of `bfs` on the queue `front ++ back.reverse`, and the
returned marks mirror the returned list. Fuel: one unit per pop plus one per queue reversal,
and there is at most one reversal per pop (plus one at the start). -/
theorem bfsFast_eq (s : St) (A : Nat → Prop) : ∀ fuel k front back mark vis,
    (∀ i, A i → i < mark.size) →
    (∀ i, A i → i ∉ vis → A (s.low i).idx ∧ A (s.high i).idx) →
    (∀ i, i ∈ front → A i) → (∀ i, i ∈ back → A i) →
    (∀ i, i < mark.size → (rd mark i = true ↔ i ∈ vis)) →
    bfsDone s k (front ++ back.reverse) vis = true →
    2 * k + (if front = [] then 1 else 0) ≤ fuel →
    (bfsFast s fuel front back mark vis).2 = bfs s k (front ++ back.reverse) vis ∧
    (bfsFast s fuel front back mark vis).1.size = mark.size ∧
    (∀ i, i < mark.size →
      (rd (bfsFast s fuel front back mark vis).1 i = true ↔ i ∈ (bfsFast s fuel front back mark vis).2)) := by
  intro fuel
  induction fuel with
  | zero =>
    intro k front back mark vis _ _ _ _ _ hd hf
    have : k = 0 := by omega
    subst this
    cases hd
  | succ fuel ih =>
    intro k front back mark vis hA hch hfr hbk hm hd hf
    cases front with
    | nil =>
      cases back with
      | nil =>
        simp only [bfsFast, List.nil_append, List.reverse_nil, bfs_nil]
        exact ⟨trivial, trivial, hm⟩
      | cons b bs =>
        have hne : (b :: bs).reverse ≠ [] := by simp
        have := ih k (b :: bs).reverse [] mark vis hA hch
          (fun i hi => hbk i (List.mem_reverse.mp hi)) (fun i hi => by cases hi) hm
          (by simpa using hd) (by rw [if_neg hne]; simp only [if_true] at hf; omega)
        simp only [List.reverse_nil, List.append_nil] at this
        simp only [bfsFast, List.nil_append]
        exact this
    | cons i q =>
      cases k with
      | zero => cases hd
      | succ k =>
        have hAi : A i := hfr i List.mem_cons_self
        have hi : i < mark.size := hA i hAi
        have hfq : ∀ j, j ∈ q → A j := fun j hj => hfr j (List.mem_cons_of_mem _ hj)
        simp only [List.cons_append, bfs, bfsDone] at hd ⊢
        simp only [bfsFast]
        by_cases hc : rd mark i = true
        · have hiv : i ∈ vis := (hm i hi).mp hc
          have hc' : vis.contains i = true := by simpa using hiv
          rw [if_pos hc, if_pos hc']
          rw [if_pos hc'] at hd
          exact ih k q back mark vis hA hch hfq hbk hm hd (by split <;> omega)
        · have hiv : i ∉ vis := fun h => hc ((hm i hi).mpr h)
          have hc' : ¬ vis.contains i = true := by simpa using hiv
          rw [if_neg hc, if_neg hc']
          rw [if_neg hc'] at hd
          obtain ⟨cl, chh⟩ := hch i hAi hiv
          have hq : q ++ ((s.high i).idx :: (s.low i).idx :: back).reverse =
              q ++ back.reverse ++ [(s.low i).idx, (s.high i).idx] := by
            simp [List.reverse_cons, List.append_assoc]
          have := ih k q ((s.high i).idx :: (s.low i).idx :: back) (wr mark i true) (i :: vis)
            (fun j hj => by rw [size_wr]; exact hA j hj)
            (fun j hj hjv => hch j hj (fun h => hjv (List.mem_cons_of_mem _ h)))
            hfq
            (fun j hj => by
              rcases List.mem_cons.mp hj with e | hj
              · exact e ▸ chh
              · rcases List.mem_cons.mp hj with e | hj
                · exact e ▸ cl
                · exact hbk j hj)
            (fun j hj => by
              rw [size_wr] at hj
              rw [rd_wr, List.mem_cons]
              by_cases e : i = j
              · rw [if_pos ⟨e, hi⟩]; simp [e]
              · rw [if_neg (fun h => e h.1), hm j hj]
                constructor
                · exact Or.inr
                · intro h; rcases h with h | h
                  · exact absurd h.symm e
                  · exact h)
            (by rw [hq]; exact hd) (by split <;> omega)
          rw [hq, size_wr] at this
          exact this

/-! ## the loop invariant of the specification walk, and termination -/

/-- loop invariant of the walk, and what it gives when the queue has run empty -/
theorem bfs_closed {s : St} (hg : Good s) : ∀ fuel q vis,
    (∀ i, i ∈ q → Live s i) → (∀ i, i ∈ vis → Live s i) → 1 ∈ vis →
    (∀ i n, i ∈ vis → s.nodes i = some n → (n.low.idx ∈ vis ∨ n.low.idx ∈ q) ∧ (n.high.idx ∈ vis ∨ n.high.idx ∈ q)) →
    (∀ i, i ∈ vis → i ∈ bfs s fuel q vis) ∧ (∀ i, i ∈ bfs s fuel q vis → Live s i) ∧
    (2 * (s.next + 1 - vis.length) + q.length < fuel → vis.Nodup → (∀ i, i ∈ vis → i < s.next + 1) →
      bfsDone s fuel q vis = true ∧ (∀ i, i ∈ q → i ∈ bfs s fuel q vis) ∧ Closed s (bfs s fuel q vis)) := by
  intro fuel
  induction fuel with
  | zero =>
    intro q vis _ hv _ _
    exact ⟨fun i h => h, hv, fun h => by omega⟩
  | succ fuel ih =>
    intro q vis hq hv h1 hinv
    cases q with
    | nil =>
      simp only [bfs, bfsDone]
      refine ⟨fun i h => h, hv, fun _ _ _ => ⟨trivial, fun i h => (by cases h), ?_⟩⟩
      intro i n hi hn
      have := hinv i n hi hn
      simp only [List.not_mem_nil, or_false] at this
      exact this
    | cons i q =>
      simp only [bfs, bfsDone]
      by_cases hc : vis.contains i = true
      · rw [if_pos hc, if_pos hc]
        have hi : i ∈ vis := by simpa using hc
        have hinv' : ∀ j n, j ∈ vis → s.nodes j = some n →
            (n.low.idx ∈ vis ∨ n.low.idx ∈ q) ∧ (n.high.idx ∈ vis ∨ n.high.idx ∈ q) := by
          intro j n hj hn
          obtain ⟨a, b⟩ := hinv j n hj hn
          constructor
          · rcases a with a | a
            · exact Or.inl a
            · rcases List.mem_cons.mp a with e | e
              · exact Or.inl (e ▸ hi)
              · exact Or.inr e
          · rcases b with b | b
            · exact Or.inl b
            · rcases List.mem_cons.mp b with e | e
              · exact Or.inl (e ▸ hi)
              · exact Or.inr e
        obtain ⟨x, y, z⟩ := ih q vis (fun j hj => hq j (List.mem_cons_of_mem _ hj)) hv h1 hinv'
        refine ⟨x, y, fun hf nd hb => ?_⟩
        obtain ⟨z0, z1, z2⟩ := z (by simp only [List.length_cons] at hf; omega) nd hb
        refine ⟨z0, fun j hj => ?_, z2⟩
        rcases List.mem_cons.mp hj with e | e
        · exact e ▸ x i hi
        · exact z1 j e
      · rw [if_neg hc, if_neg hc]
        have hi : i ∉ vis := by simpa using hc
        have hli : Live s i := hq i List.mem_cons_self
        have hi1 : i ≠ 1 := fun e => hi (e ▸ h1)
        have hq' : ∀ j, j ∈ q ++ [(s.low i).idx, (s.high i).idx] → Live s j := by
          intro j hj
          rcases List.mem_append.mp hj with e | e
          · exact hq j (List.mem_cons_of_mem _ e)
          · have := hli.children hg hi1
            simp only [List.mem_cons, List.not_mem_nil, or_false] at e
            rcases e with e | e
            · exact e ▸ this.1
            · exact e ▸ this.2
        have hv' : ∀ j, j ∈ i :: vis → Live s j := by
          intro j hj
          rcases List.mem_cons.mp hj with e | e
          · exact e ▸ hli
          · exact hv j e
        have hinv' : ∀ j n, j ∈ i :: vis → s.nodes j = some n →
            (n.low.idx ∈ i :: vis ∨ n.low.idx ∈ q ++ [(s.low i).idx, (s.high i).idx]) ∧
            (n.high.idx ∈ i :: vis ∨ n.high.idx ∈ q ++ [(s.low i).idx, (s.high i).idx]) := by
          intro j n hj hn
          rcases List.mem_cons.mp hj with e | e
          · subst e
            rw [St.low_of hn, St.high_of hn]
            exact ⟨Or.inr (by simp), Or.inr (by simp)⟩
          · obtain ⟨a, b⟩ := hinv j n e hn
            constructor
            · rcases a with a | a
              · exact Or.inl (List.mem_cons_of_mem _ a)
              · rcases List.mem_cons.mp a with e' | e'
                · exact Or.inl (e' ▸ List.mem_cons_self)
                · exact Or.inr (List.mem_append_left _ e')
            · rcases b with b | b
              · exact Or.inl (List.mem_cons_of_mem _ b)
              · rcases List.mem_cons.mp b with e' | e'
                · exact Or.inl (e' ▸ List.mem_cons_self)
                · exact Or.inr (List.mem_append_left _ e')
        obtain ⟨x, y, z⟩ := ih _ _ hq' hv' (List.mem_cons_of_mem _ h1) hinv'
        refine ⟨fun j hj => x j (List.mem_cons_of_mem _ hj), y, fun hf nd hb => ?_⟩
        have hib : i < s.next + 1 := by have := hli.lt hg; omega
        have hlen : vis.length < s.next + 1 := by
          -- pigeonhole: `i :: vis` is a duplicate-free list of numbers below `next + 1`
          have := nodup_length_le (s.next + 1) (i :: vis) (List.nodup_cons.mpr ⟨hi, nd⟩)
            (fun j hj => by rcases List.mem_cons.mp hj with e | e; exact e ▸ hib; exact hb j e)
          simp only [List.length_cons] at this; omega
        obtain ⟨z0, z1, z2⟩ := z (by simp only [List.length_cons, List.length_append, List.length_nil] at hf ⊢; omega)
          (List.nodup_cons.mpr ⟨hi, nd⟩)
          (fun j hj => by rcases List.mem_cons.mp hj with e | e; exact e ▸ hib; exact hb j e)
        refine ⟨z0, fun j hj => ?_, z2⟩
        rcases List.mem_cons.mp hj with e | e
        · exact e ▸ x i List.mem_cons_self
        · exact z1 j (List.mem_append_left _ e)

/-- soundness of the walk: nothing unreachable is ever visited -/
theorem bfs_sound {s : St} (roots : List Nat) : ∀ fuel q vis,
    (∀ i, i ∈ q → Live s i ∧ RI s roots i) → (∀ i, i ∈ vis → RI s roots i) → 1 ∈ vis →
    (∀ i n, s.nodes i = some n → Live s n.low.idx ∧ Live s n.high.idx) →
    ∀ i, i ∈ bfs s fuel q vis → RI s roots i := by
  intro fuel
  induction fuel with
  | zero => intro q vis _ hv _ _ i hi; exact hv i hi
  | succ fuel ih =>
    intro q vis hq hv h1 hlive i hi
    cases q with
    | nil => exact hv i hi
    | cons j q =>
      simp only [bfs] at hi
      by_cases hc : vis.contains j = true
      · rw [if_pos hc] at hi
        exact ih q vis (fun k hk => hq k (List.mem_cons_of_mem _ hk)) hv h1 hlive i hi
      · rw [if_neg hc] at hi
        have hj := hq j List.mem_cons_self
        have hjv : j ∉ vis := by simpa using hc
        obtain ⟨n, hn⟩ : ∃ n, s.nodes j = some n := by
          rcases hj.1 with e | h
          · exact absurd (e ▸ h1) hjv
          · exact h
        refine ih _ _ ?_ ?_ (List.mem_cons_of_mem _ h1) hlive i hi
        · intro k hk
          rcases List.mem_append.mp hk with e | e
          · exact hq k (List.mem_cons_of_mem _ e)
          · rw [St.low_of hn, St.high_of hn] at e
            simp only [List.mem_cons, List.not_mem_nil, or_false] at e
            rcases e with e | e
            · subst e; exact ⟨(hlive j n hn).1, .low hj.2 hn⟩
            · subst e; exact ⟨(hlive j n hn).2, .high hj.2 hn⟩
        · intro k hk
          rcases List.mem_cons.mp hk with e | e
          · subst e; exact hj.2
          · exact hv k e

/-- completeness: a children-closed set containing 1 and the roots contains everything reachable -/
theorem ri_subset_of_closed {s : St} {roots V : List Nat} (h1 : 1 ∈ V) (hr : ∀ r, r ∈ roots → r ∈ V)
    (hc : Closed s V) : ∀ i, RI s roots i → i ∈ V := by
  intro i hi
  induction hi with
  | one => exact h1
  | root h => exact hr _ h
  | low _ hn ih => exact (hc _ _ ih hn).1
  | high _ hn ih => exact (hc _ _ ih hn).2

/-- the visited list never holds an index twice -/
theorem bfs_nodup (s : St) : ∀ fuel q vis, vis.Nodup → (bfs s fuel q vis).Nodup := by
  intro fuel
  induction fuel with
  | zero => intro q vis h; exact h
  | succ fuel ih =>
    intro q vis h
    cases q with
    | nil => exact h
    | cons j q =>
      simp only [bfs]
      by_cases hc : vis.contains j = true
      · rw [if_pos hc]; exact ih q vis h
      · rw [if_neg hc]
        have hjv : j ∉ vis := by simpa using hc
        exact ih _ _ (List.nodup_cons.mpr ⟨hjv, h⟩)

/-! ## the real `descendants` -/

/-- fuel of the specification walk that `descendants` corresponds to -/
def bfsSpecFuel (s : St) (roots : List Ref) : Nat := 2 * s.next + roots.length + 1

/-- everything the invariant gives for the specification walk from the roots -/
theorem bfs_roots {s : St} (hg : Good s) (roots : List Ref) (hlive : ∀ r, r ∈ roots → Live s r.idx) :
    let V := bfs s (bfsSpecFuel s roots) (roots.map Ref.idx) [1]
    bfsDone s (bfsSpecFuel s roots) (roots.map Ref.idx) [1] = true ∧
    1 ∈ V ∧ (∀ r, r ∈ roots → r.idx ∈ V) ∧ (∀ i, i ∈ V → Live s i) ∧ Closed s V := by
  have hq : ∀ j, j ∈ roots.map Ref.idx → Live s j := by
    intro j hj; obtain ⟨r, hr, rfl⟩ := List.mem_map.mp hj; exact hlive r hr
  obtain ⟨hsub, hl, hcl⟩ := bfs_closed hg (bfsSpecFuel s roots) (roots.map Ref.idx) [1] hq
    (fun j hj => by simp at hj; subst hj; exact Or.inl rfl) (by simp)
    (fun j n hj hn => by simp at hj; subst hj; rw [hg.noterm] at hn; cases hn)
  have hnext := hg.next2
  obtain ⟨hdone, hroots, hclosed⟩ := hcl
    (by simp only [bfsSpecFuel, List.length_map, List.length_cons, List.length_nil]; omega) (by simp)
    (fun j hj => by simp at hj; subst hj; omega)
  exact ⟨hdone, hsub 1 (by simp), fun r hr => hroots _ (List.mem_map.mpr ⟨r, hr, rfl⟩), hl, hclosed⟩

/-- the executable walk, started as `descendantsMark` starts it, against the specification walk -/
theorem descendantsMark_eq {s : St} (hg : Good s) (roots : List Ref) (hlive : ∀ r, r ∈ roots → Live s r.idx) :
    (descendantsMark s roots).2 = bfs s (bfsSpecFuel s roots) (roots.map Ref.idx) [1] ∧
    (descendantsMark s roots).1.size = s.next ∧
    (∀ i, i < s.next → (rd (descendantsMark s roots).1 i = true ↔ i ∈ (descendantsMark s roots).2)) := by
  have hnext := hg.next2
  have hsz : (wr (Array.replicate s.storage.vals.size false) 1 true).size = s.next := by
    rw [size_wr]; simp [St.next]
  have hdone := (bfs_roots hg roots hlive).1
  have := bfsFast_eq s (Live s) (bfsFuel s roots) (bfsSpecFuel s roots) (roots.map Ref.idx) []
    (wr (Array.replicate s.storage.vals.size false) 1 true) [1]
    (fun i hi => by rw [hsz]; exact hi.lt hg)
    (fun i hi hiv => hi.children hg (by simpa using hiv))
    (fun i hi => by obtain ⟨r, hr, rfl⟩ := List.mem_map.mp hi; exact hlive r hr)
    (fun i hi => by cases hi)
    (fun i hi => by
      rw [hsz] at hi
      rw [rd_wr, rd_replicate]
      have h1 : 1 < (Array.replicate s.storage.vals.size false).size := by
        simp only [Array.size_replicate]; exact hnext
      by_cases e : 1 = i
      · rw [if_pos ⟨e, h1⟩]; simp [e]
      · have hi' : i < s.storage.vals.size := hi
        rw [if_neg (fun h => e h.1), if_pos hi']
        simp only [List.mem_singleton]
        constructor
        · intro h; cases h
        · intro h; exact absurd h.symm e)
    (by simpa using hdone)
    (by simp only [bfsFuel, bfsSpecFuel, St.next]; split <;> omega)
  simp only [List.reverse_nil, List.append_nil] at this
  rw [hsz] at this
  exact this

/-- **Refinement (item 1).** `descendants` is the specification walk from the roots -/
theorem descendants_eq_bfs {s : St} (hg : Good s) (roots : List Ref) (hlive : ∀ r, r ∈ roots → Live s r.idx) :
    descendants s roots = bfs s (2 * s.next + roots.length + 1) (roots.map Ref.idx) [1] :=
  (descendantsMark_eq hg roots hlive).1

/-- the fuel is irrelevant: any larger fuel gives the same list -/
theorem descendants_eq_bfs_of_le {s : St} (hg : Good s) (roots : List Ref) (hlive : ∀ r, r ∈ roots → Live s r.idx)
    {m : Nat} (hm : 2 * s.next + roots.length + 1 ≤ m) :
    descendants s roots = bfs s m (roots.map Ref.idx) [1] := by
  rw [descendants_eq_bfs hg roots hlive]
  exact ((bfs_fuel_stable s _ _ _ (bfs_roots hg roots hlive).1 m hm).1).symm

/-- **C06 (closure).** The result contains the terminal and every root, every member is live,
and it is children-closed. -/
theorem descendants_closed {s : St} (hg : Good s) (roots : List Ref) (hlive : ∀ r, r ∈ roots → Live s r.idx) :
    1 ∈ descendants s roots ∧ (∀ r, r ∈ roots → r.idx ∈ descendants s roots) ∧
    (∀ i, i ∈ descendants s roots → Live s i) ∧ Closed s (descendants s roots) := by
  rw [descendants_eq_bfs hg roots hlive]
  exact (bfs_roots hg roots hlive).2

/-- the mark array handed to the sweep: as long as the storage, and `true` exactly at the
members of `descendants` (out-of-range reads give `false`, and no member is out of range) -/
theorem descendantsMark_spec {s : St} (hg : Good s) (roots : List Ref) (hlive : ∀ r, r ∈ roots → Live s r.idx) :
    (descendantsMark s roots).1.size = s.storage.vals.size ∧
    (∀ i, rd (descendantsMark s roots).1 i = true ↔ i ∈ descendants s roots) := by
  obtain ⟨_, hsz, hm⟩ := descendantsMark_eq hg roots hlive
  refine ⟨hsz, fun i => ?_⟩
  by_cases hi : i < s.next
  · exact hm i hi
  · constructor
    · intro h
      have : rd (descendantsMark s roots).1 i = false := by
        simp only [rd, Array.getD_eq_getD_getElem?]
        have : (descendantsMark s roots).1.size ≤ i := by rw [hsz]; omega
        simp [this]
      rw [this] at h; cases h
    · intro h
      exact absurd (((descendants_closed hg roots hlive).2.2.1 i h).lt hg) hi

/-- **C06 (exactness).** The mark phase computes exactly the reachable set -/
theorem descendants_exact {s : St} (hg : Good s) (roots : List Ref)
    (hlive : ∀ r, r ∈ roots → Live s r.idx) :
    ∀ i, i ∈ descendants s roots ↔ RI s (roots.map Ref.idx) i := by
  intro i
  obtain ⟨h1, hroots, _, hclosed⟩ := descendants_closed hg roots hlive
  constructor
  · intro hi
    rw [descendants_eq_bfs hg roots hlive] at hi
    have hq : ∀ j, j ∈ roots.map Ref.idx → Live s j := by
      intro j hj; obtain ⟨r, hr, rfl⟩ := List.mem_map.mp hj; exact hlive r hr
    exact bfs_sound (roots.map Ref.idx) _ _ _ (fun j hj => ⟨hq j hj, .root hj⟩)
      (fun j hj => by simp at hj; subst hj; exact .one) (by simp)
      (fun j n hn => live_children hg hn) i hi
  · intro hi
    refine ri_subset_of_closed h1 ?_ hclosed i hi
    intro j hj
    obtain ⟨r, hr, rfl⟩ := List.mem_map.mp hj
    exact hroots r hr

/-- the visited list never holds an index twice, so its length is the `HashSet`'s `len()` -/
theorem descendants_nodup {s : St} (hg : Good s) (roots : List Ref)
    (hlive : ∀ r, r ∈ roots → Live s r.idx) : (descendants s roots).Nodup := by
  rw [descendants_eq_bfs hg roots hlive]
  exact bfs_nodup s _ _ [1] (by simp)

/-- **C04 (`size`).** The length of the result is the number of distinct reachable indices:
it equals the length of any duplicate-free enumeration of the reachable set. -/
theorem descendants_length {s : St} (hg : Good s) (roots : List Ref)
    (hlive : ∀ r, r ∈ roots → Live s r.idx) (l : List Nat) (hnd : l.Nodup)
    (hl : ∀ i, i ∈ l ↔ RI s (roots.map Ref.idx) i) : (descendants s roots).length = l.length := by
  have hp : (descendants s roots).Perm l :=
    (List.perm_ext_iff_of_nodup (descendants_nodup hg roots hlive) hnd).mpr
      (fun i => (descendants_exact hg roots hlive i).trans (hl i).symm)
  exact hp.length_eq

/-- the case used by `size f` -/
theorem descendants_length_single {s : St} (hg : Good s) (f : Ref) (hf : Live s f.idx)
    (l : List Nat) (hnd : l.Nodup) (hl : ∀ i, i ∈ l ↔ RI s [f.idx] i) :
    (descendants s [f]).length = l.length :=
  descendants_length hg [f] (fun r hr => by simp at hr; subst hr; exact hf) l hnd
    (by simpa using hl)

/-- a handle that denotes something is a legitimate root -/
theorem Live.of_valid {s : St} {r : Ref} {φ} (h : Valid s.nodes r φ) : Live s r.idx := valid_stored h

#print axioms bfsFast_eq
#print axioms descendants_eq_bfs
#print axioms descendantsMark_spec
#print axioms descendants_closed
#print axioms descendants_exact
#print axioms descendants_nodup
#print axioms descendants_length
end P

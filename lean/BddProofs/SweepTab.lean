import BddProofs.TabView
import BddProofs.SweepAll
/-! Feasibility spike: after the sweep of `collect_garbage` the unique table satisfies its invariant
again, with every chain filtered to the survivors (C17 "before and after any number of collections",
and the table half of C05). -/
namespace S
set_option linter.unusedSectionVars false
variable {α : Type} [DecidableEq α]

/-- the table after the sweep; `mf` is the resulting `min_free` (the minimum of the old value and the
dropped indices — characterised by the hypotheses of `sweep_tinv`) -/
def Tab.swept (t : Tab α) (alive : Nat → Bool) (fuel mf rs : Nat) : Tab α :=
  let st := sweepUpTo alive fuel t.nb (⟨t.nx, t.occ⟩, t.bucket)
  { t with nx := st.1.nx, occ := st.1.occ, bucket := st.2, minFree := mf, realSize := rs }

theorem sweep_tinv {hash : α → Nat} {t : Tab α} {chains} (hI : TInv hash t chains) (alive : Nat → Bool)
    {fuel mf rs : Nat} (hfuel : ∀ b, b < t.nb → (chains b).length < fuel)
    (hmf1 : 1 ≤ mf) (hmf2 : mf ≤ t.minFree)
    (hmf3 : ∀ b i, b < t.nb → i ∈ chains b → alive i = false → mf ≤ i) :
    TInv hash (t.swept alive fuel mf rs) (fun b => (chains b).filter alive) ∧
    (∀ i, (t.swept alive fuel mf rs).occ i = (t.occ i && !(decide (∃ b, b < t.nb ∧ i ∈ chains b) && !alive i))) ∧
    (t.swept alive fuel mf rs).val = t.val := by
  have hdisj : ∀ b b', b < t.nb → b' < t.nb → b ≠ b' → ∀ i, i ∈ chains b → i ∉ chains b' := by
    intro b b' hb hb' hne i hi hi'
    exact hne ((hI.mem b hb i hi).2.2.2.symm.trans (hI.mem b' hb' i hi').2.2.2)
  obtain ⟨s1, s2, s3⟩ := sweepUpTo_spec alive fuel ⟨t.nx, t.occ⟩ t.bucket t.nb chains
    hI.chain hI.nodup hdisj hfuel t.nb (Nat.le_refl _)
  have hocc : ∀ i, (t.swept alive fuel mf rs).occ i =
      (t.occ i && !(decide (∃ b, b < t.nb ∧ i ∈ chains b) && !alive i)) := s3
  refine ⟨⟨hI.nbPos, ?_, ?_, ?_, ?_, ?_, ?_, hI.lastLt, hI.lastGe, ?_, ?_, hmf1, ?_⟩, hocc, rfl⟩
  · intro b hb
    have hb' : b < t.nb := hb
    have := s1 b hb'
    rw [if_pos hb'] at this
    exact this
  · intro b hb i hi
    obtain ⟨hic, hal⟩ := List.mem_filter.mp hi
    obtain ⟨a1, a2, a3, a4⟩ := hI.mem b hb i hic
    refine ⟨a1, a2, ?_, a4⟩
    rw [hocc, a3, hal]; simp
  · intro b hb; exact (hI.nodup b hb).filter _
  · intro i hi2 ho
    rw [hocc] at ho
    simp only [Bool.and_eq_true, Bool.not_eq_true', Bool.and_eq_false_iff, decide_eq_false_iff_not,
      Bool.not_eq_false'] at ho
    obtain ⟨ho1, ho2⟩ := ho
    have hm := hI.complete i hi2 ho1
    have hb : hash (t.val i) % t.nb < t.nb := Nat.mod_lt _ hI.nbPos
    have hal : alive i = true := by
      rcases ho2 with h | h
      · exact absurd ⟨_, hb, hm⟩ h
      · exact h
    exact List.mem_filter.mpr ⟨hm, hal⟩
  · intro i j hi2 hj2 hoi hoj hv
    rw [hocc] at hoi hoj
    simp only [Bool.and_eq_true] at hoi hoj
    exact hI.distinct i j hi2 hj2 hoi.1 hoj.1 hv
  · -- cells 0 and 1 are in no chain
    have notin : ∀ i, i < 2 → ¬ ∃ b, b < t.nb ∧ i ∈ chains b := by
      rintro i hi ⟨b, hb, hm⟩; have := (hI.mem b hb i hm).1; omega
    constructor
    · rw [hocc, hI.occ01.1]; simp [notin 0 (by omega)]
    · rw [hocc, hI.occ01.2]; simp [notin 1 (by omega)]
  · intro i hi; rw [hocc, hI.above i hi]; simp
  · intro i h1 h2
    have h2' : i < mf := h2
    rw [hocc, hI.below i h1 (by omega)]
    simp only [Bool.true_and, Bool.not_eq_true', Bool.and_eq_false_iff, decide_eq_false_iff_not, Bool.not_eq_false']
    by_cases hex : ∃ b, b < t.nb ∧ i ∈ chains b
    · obtain ⟨b, hb, hm⟩ := hex
      right
      cases hal : alive i with
      | true => rfl
      | false => have := hmf3 b i hb hm hal; omega
    · exact Or.inl hex
  · have := hI.minFreeLe
    show mf ≤ t.lastIndex + 1
    omega

#print axioms sweep_tinv
end S

import BddProofs.SubstMulti
/-! C08: `cofactor_cube` with its memo keyed by (remaining cube length, handle). -/
namespace P
open Arr

/-- memo entries speak about the suffix of the original cube of the recorded length -/
def KMemoOk (nd : Nodes) (cube0 : Vals) (memo : KMemo) : Prop :=
  ∀ len f r, memo.lookup (len, f) = some r → ∃ φ, Valid nd f φ ∧
    Valid nd r (FixVals φ (cube0.drop (cube0.length - len)))

theorem KMemoOk.mono {nd nd' c memo} (hs : Sub nd nd') (h : KMemoOk nd c memo) : KMemoOk nd' c memo := by
  intro l f r hl; obtain ⟨φ, x, y⟩ := h l f r hl; exact ⟨φ, x.mono hs, y.mono hs⟩

theorem KMemoOk.cons {nd c memo len f r φ} (h : KMemoOk nd c memo) (vf : Valid nd f φ)
    (vr : Valid nd r (FixVals φ (c.drop (c.length - len)))) : KMemoOk nd c (((len, f), r) :: memo) := by
  intro l' f' r' hl
  simp only [List.lookup] at hl
  by_cases hk : (l', f') = (len, f)
  · simp only [hk, beq_self_eq_true] at hl
    cases hl; cases hk; exact ⟨φ, vf, vr⟩
  · have : ((l', f') == (len, f)) = false := by simpa using hk
    simp only [this] at hl; exact h l' f' r' hl

/-- overriding an ignored variable changes nothing -/
theorem fixVals_skip {φ : Fn} {u : Nat} {b : Bool} {rest : Vals} {t : Nat} (hs : SuppGe φ t) (hut : u < t) :
    FixVals φ ((u, b) :: rest) = FixVals φ rest := by
  funext e; apply hs; intro w hw
  have : w ≠ u := by omega
  simp only [ovr, List.lookup]
  have hb : (w == u) = false := by simpa using this
  simp only [hb]

theorem lookup_none_of_lt {cube : Vals} {t : Nat} (h : ∀ p, p ∈ cube → t < p.1) : cube.lookup t = none := by
  induction cube with
  | nil => rfl
  | cons p rest ih =>
    have hp := h p List.mem_cons_self
    have : (t == p.1) = false := by simp; omega
    simp only [List.lookup, this]
    exact ih (fun q hq => h q (List.mem_cons_of_mem _ hq))

theorem cofCube_spec (cube0 : Vals) : ∀ fuel s f φ cube memo s' r memo' d, Good s →
    Den s.nodes d f φ → KMemoOk s.nodes cube0 memo →
    cube.Pairwise (fun a b => a.1 < b.1) → cube = cube0.drop (cube0.length - cube.length) → cube.length ≤ cube0.length →
    cofCube fuel s f cube memo = .ok (s', r, memo') →
    Good s' ∧ Sub s.nodes s'.nodes ∧ Valid s'.nodes r (FixVals φ cube) ∧ KMemoOk s'.nodes cube0 memo' := by
  intro fuel
  induction fuel with
  | zero => intro s f φ cube memo s' r memo' d _ _ _ _ _ _ hres; simp [cofCube] at hres
  | succ fuel ih =>
    intro s f φ cube memo s' r memo' d hg hden hm hasc hsuf hlen hres
    have h1 := hg.inv.noterm
    have vf : Valid s.nodes f φ := ⟨d, hden⟩
    have triv : ∀ {x}, Valid s.nodes x (FixVals φ cube) →
        (.ok (s, x, memo) : Res (St × Ref × KMemo)) = .ok (s', r, memo') →
        Good s' ∧ Sub s.nodes s'.nodes ∧ Valid s'.nodes r (FixVals φ cube) ∧ KMemoOk s'.nodes cube0 memo' := by
      intro x vx heq
      simp only [Except.ok.injEq, Prod.mk.injEq] at heq
      obtain ⟨rfl, rfl, rfl⟩ := heq
      exact ⟨hg, fun _ _ x => x, vx, hm⟩
    cases cube with
    | nil =>
      simp only [cofCube] at hres
      refine triv ?_ hres
      have : FixVals φ [] = φ := by funext e; simp only [FixVals]; congr 1
      rw [this]; exact vf
    | cons p rest =>
    obtain ⟨u, b⟩ := p
    simp only [cofCube] at hres
    by_cases ct : isTerminal f = true
    · rw [if_pos ct] at hres
      refine triv ?_ hres
      simp only [isTerminal, Bool.or_eq_true] at ct
      rcases ct with c | c
      · have := one_fn h1 c vf; subst this; rw [fixVals_const]; exact vf
      · have := zero_fn h1 c vf; subst this; rw [fixVals_const]; exact vf
    rw [if_neg ct] at hres
    have hfnt : isTerminal f = false := by simpa using ct
    -- the suffix facts for `rest`
    have hlen' : rest.length ≤ cube0.length := by simp at hlen; omega
    have hsuf' : rest = cube0.drop (cube0.length - rest.length) := by
      have h2 : (cube0.drop (cube0.length - (rest.length + 1))).drop 1 = rest := by
        simp only [List.length_cons] at hsuf; rw [← hsuf]; rfl
      rw [List.drop_drop] at h2
      have hl1 : rest.length + 1 ≤ cube0.length := by simpa using hlen
      have : cube0.length - rest.length = cube0.length - (rest.length + 1) + 1 := by omega
      rw [this]; exact h2.symm
    have hkey : cube0.drop (cube0.length - (rest.length + 1)) = (u, b) :: rest := by
      simp only [List.length_cons] at hsuf; exact hsuf.symm
    cases hl : memo.lookup (rest.length + 1, f) with
    | some res =>
      simp only [hl] at hres
      obtain ⟨ψ, vψ, vr⟩ := hm _ f res hl
      have := vf.det h1 vψ; subst this
      rw [hkey] at vr
      exact triv vr hres
    | none =>
    simp only [hl] at hres
    obtain ⟨hvar0, d0, d1, φ0, φ1, hd0, hd1, vlo, vhi, hφ, s0, s1⟩ := hden.split hg hfnt
    have hasc' := (List.pairwise_cons.mp hasc)
    have finish : ∀ {s1' res memo1}, Good s1' → Sub s.nodes s1'.nodes → Valid s1'.nodes res (FixVals φ ((u, b) :: rest)) →
        KMemoOk s1'.nodes cube0 memo1 →
        Good s1' ∧ Sub s.nodes s1'.nodes ∧ Valid s1'.nodes res (FixVals φ ((u, b) :: rest)) ∧
          KMemoOk s1'.nodes cube0 (((rest.length + 1, f), res) :: memo1) := by
      intro s1' res memo1 g sub vres hm1
      exact ⟨g, sub, vres, hm1.cons (vf.mono sub) (by rw [hkey]; exact vres)⟩
    by_cases hgt : s.var f > u
    · rw [if_pos hgt] at hres
      cases e1 : cofCube fuel s f rest memo with
      | error e => simp [e1] at hres
      | ok p1 =>
        obtain ⟨s1', res, memo1⟩ := p1
        simp only [e1, Except.ok.injEq, Prod.mk.injEq] at hres
        obtain ⟨rfl, rfl, rfl⟩ := hres
        obtain ⟨g1, sub1, vres, hm1⟩ := ih _ _ _ _ _ _ _ _ _ hg hden hm hasc'.2 hsuf' hlen' e1
        have sφ : SuppGe φ (s.var f) := supp_of_var hg vf (fun _ => Nat.le_refl _)
        exact finish g1 sub1 (by rw [fixVals_skip sφ hgt]; exact vres) hm1
    rw [if_neg hgt] at hres
    by_cases heq : s.var f = u
    · rw [if_pos heq] at hres
      -- at the node: take the branch, continue with the rest of the cube
      have hstep : FixVals φ ((u, b) :: rest) = FixVals (if b then φ1 else φ0) rest := by
        rw [hφ, fixVals_node]
        have : ((u, b) :: rest).lookup (s.var f) = some b := by simp [List.lookup, heq]
        simp only [this]
        cases b with
        | true => simp only [↓reduceIte]; exact fixVals_skip s1 (by omega)
        | false => simp only [Bool.false_eq_true, ↓reduceIte]; exact fixVals_skip s0 (by omega)
      cases b with
      | true =>
        simp only [↓reduceIte] at hres hstep
        cases e1 : cofCube fuel s (s.highNode f) rest memo with
        | error e => simp [e1] at hres
        | ok p1 =>
          obtain ⟨s1', res, memo1⟩ := p1
          simp only [e1, Except.ok.injEq, Prod.mk.injEq] at hres
          obtain ⟨rfl, rfl, rfl⟩ := hres
          obtain ⟨g1, sub1, vres, hm1⟩ := ih _ _ _ _ _ _ _ _ _ hg vhi hm hasc'.2 hsuf' hlen' e1
          exact finish g1 sub1 (by rw [hstep]; exact vres) hm1
      | false =>
        simp only [Bool.false_eq_true, ↓reduceIte] at hres hstep
        cases e1 : cofCube fuel s (s.lowNode f) rest memo with
        | error e => simp [e1] at hres
        | ok p1 =>
          obtain ⟨s1', res, memo1⟩ := p1
          simp only [e1, Except.ok.injEq, Prod.mk.injEq] at hres
          obtain ⟨rfl, rfl, rfl⟩ := hres
          obtain ⟨g1, sub1, vres, hm1⟩ := ih _ _ _ _ _ _ _ _ _ hg vlo hm hasc'.2 hsuf' hlen' e1
          exact finish g1 sub1 (by rw [hstep]; exact vres) hm1
    · rw [if_neg heq] at hres
      have hlt : s.var f < u := by omega
      cases e1 : cofCube fuel s (s.lowNode f) ((u, b) :: rest) memo with
      | error e => simp [e1] at hres
      | ok p1 =>
      obtain ⟨s1', low, memo1⟩ := p1
      simp only [e1] at hres
      obtain ⟨g1', sub1, vlow, hm1⟩ := ih _ _ _ _ _ _ _ _ _ hg vlo hm hasc hsuf hlen e1
      cases e2 : cofCube fuel s1' (s.highNode f) ((u, b) :: rest) memo1 with
      | error e => simp [e2] at hres
      | ok p2 =>
      obtain ⟨s2, high, memo2⟩ := p2
      simp only [e2] at hres
      obtain ⟨g2', sub2, vhigh, hm2⟩ := ih _ _ _ _ _ _ _ _ _ g1' (vhi.mono sub1) hm1 hasc hsuf hlen e2
      cases e3 : mkNode s2 (s.var f) low high with
      | error e => simp [e3] at hres
      | ok p3 =>
      obtain ⟨s3, res⟩ := p3
      simp only [e3, Except.ok.injEq, Prod.mk.injEq] at hres
      obtain ⟨rfl, rfl, rfl⟩ := hres
      obtain ⟨g3', sub3, _, vres⟩ := mkNode_spec g2' (vlow.mono sub2) vhigh (s0.fixVals _) (s1.fixVals _) e3
      have sub03 : Sub s.nodes s3.nodes := fun i n x => sub3 _ _ (sub2 _ _ (sub1 _ _ x))
      have hnone : ((u, b) :: rest).lookup (s.var f) = none := by
        apply lookup_none_of_lt
        intro p hp
        rcases List.mem_cons.mp hp with e | e
        · subst e; exact hlt
        · have := hasc'.1 p e; simp only at this; omega
      have hnode := fixVals_node φ0 φ1 (s.var f) ((u, b) :: rest)
      simp only [hnone] at hnode
      have := finish (memo1 := memo2) g3' sub03 (by rw [hφ, hnode]; exact vres) (hm2.mono sub3)
      exact this

#print axioms cofCube_spec
end P

import BddProofs.Paths
/-! C14 for the explicit-stack iterator `BddPaths` (`P.pathsIter`, `P.paths` in `BddModel/Query.lean`):
whatever it has emitted when the stack runs empty covers every satisfying assignment exactly once. -/
namespace P
open Arr

/-- what the pending stack still owes for the assignment `e` -/
def owed (e : Env) : List ((Ref × List Int) × Fn) → Nat
  | [] => 0
  | ((_, pre), φ) :: rest => (if Sat e pre && φ e then 1 else 0) + owed e rest

theorem pathsIter_count : ∀ fuel s (stack : List ((Ref × List Int) × Fn)) acc out, Good s →
    (∀ p, p ∈ stack → Valid s.nodes p.1.1 p.2) →
    pathsIter fuel s (stack.map (·.1)) acc = some out →
    ∀ e, out.countP (Sat e) = acc.countP (Sat e) + owed e stack := by
  intro fuel
  induction fuel with
  | zero => intro s stack acc out _ _ h; simp [pathsIter] at h
  | succ fuel ih =>
    intro s stack acc out hg hv h e
    have h1 := hg.inv.noterm
    cases stack with
    | nil =>
      simp only [List.map_nil, pathsIter, Option.some.injEq] at h
      subst h; simp [owed, List.countP_reverse]
    | cons p rest =>
      obtain ⟨⟨r, pre⟩, φ⟩ := p
      have vr : Valid s.nodes r φ := hv _ List.mem_cons_self
      have hvrest : ∀ p, p ∈ rest → Valid s.nodes p.1.1 p.2 := fun p hp => hv p (List.mem_cons_of_mem _ hp)
      simp only [List.map_cons, pathsIter] at h
      by_cases cz : isZero r = true
      · rw [if_pos cz] at h
        have := zero_fn h1 cz vr; subst this
        rw [ih s rest acc out hg hvrest h e]; simp [owed]
      rw [if_neg cz] at h
      by_cases co : isOne r = true
      · rw [if_pos co] at h
        have := one_fn h1 co vr; subst this
        rw [ih s rest (pre :: acc) out hg hvrest h e]
        simp only [owed, List.countP_cons, Bool.and_true]; omega
      rw [if_neg co] at h
      have hnt : isTerminal r = false := by
        simp only [isTerminal, Bool.or_eq_false_iff]; exact ⟨by simpa using co, by simpa using cz⟩
      obtain ⟨d, hden⟩ := vr
      obtain ⟨hv0, d0, d1, φ0, φ1, _, _, vlo, vhi, hφ, _, _⟩ := hden.split hg hnt
      have := ih s (((s.lowNode r, pre ++ [-((s.var r : Nat) : Int)]), φ0) ::
          ((s.highNode r, pre ++ [((s.var r : Nat) : Int)]), φ1) :: rest) acc out hg
        (by
          intro p hp
          rcases List.mem_cons.mp hp with e' | hp
          · subst e'; exact ⟨_, vlo⟩
          · rcases List.mem_cons.mp hp with e' | hp
            · subst e'; exact ⟨_, vhi⟩
            · exact hvrest p hp)
        (by simpa using h) e
      rw [this]
      simp only [owed, Sat_append, sat_lit_pos e _ hv0, sat_lit_neg e _ hv0, hφ]
      cases hp : Sat e pre <;> cases hev : e (s.var r) <;> simp <;> omega

/-- C14: the cubes yielded by `paths(f)` are pairwise disjoint and their union is exactly `f` -/
theorem paths_iter_exactly_once {fuel s r φ out} (hg : Good s) (v : Valid s.nodes r φ)
    (h : pathsIter fuel s [(r, [])] [] = some out) (e : Env) :
    out.countP (Sat e) = if φ e then 1 else 0 := by
  have := pathsIter_count fuel s [((r, []), φ)] [] out hg
    (by intro p hp; simp at hp; subst hp; exact v) (by simpa using h) e
  rw [this]; simp [owed, Sat]

/-- the top-level wrapper `paths` -/
theorem paths_exactly_once' {fuel s r φ out} (hg : Good s) (v : Valid s.nodes r φ)
    (h : paths fuel s r = some out) (e : Env) :
    out.countP (Sat e) = if φ e then 1 else 0 :=
  paths_iter_exactly_once hg v h e

/-! ### literals in variable order -/

theorem pathsIter_inc : ∀ fuel s (stack : List (Ref × List Int)) acc out, Good s →
    (∀ p, p ∈ stack → ∃ φ m, Valid s.nodes p.1 φ ∧ TopGe s.nodes p.1 m ∧ LitsInc p.2 ∧ ∀ x, x ∈ p.2 → x.natAbs < m) →
    (∀ q, q ∈ acc → LitsInc q) →
    pathsIter fuel s stack acc = some out → ∀ q, q ∈ out → LitsInc q := by
  intro fuel
  induction fuel with
  | zero => intro s stack acc out _ _ _ h; simp [pathsIter] at h
  | succ fuel ih =>
    intro s stack acc out hg hst hacc h q hq
    cases stack with
    | nil =>
      simp only [pathsIter, Option.some.injEq] at h
      subst h; exact hacc q (by simpa using hq)
    | cons p rest =>
      obtain ⟨r, pre⟩ := p
      obtain ⟨φ, m, vr, ht, hi, hb⟩ := hst _ List.mem_cons_self
      have hrest : ∀ p, p ∈ rest → ∃ φ m, Valid s.nodes p.1 φ ∧ TopGe s.nodes p.1 m ∧ LitsInc p.2 ∧
          ∀ x, x ∈ p.2 → x.natAbs < m := fun p hp => hst p (List.mem_cons_of_mem _ hp)
      simp only [pathsIter] at h
      by_cases cz : isZero r = true
      · rw [if_pos cz] at h
        exact ih s rest acc out hg hrest hacc h q hq
      rw [if_neg cz] at h
      by_cases co : isOne r = true
      · rw [if_pos co] at h
        refine ih s rest (pre :: acc) out hg hrest ?_ h q hq
        intro q' hq'
        rcases List.mem_cons.mp hq' with e' | hq'
        · subst e'; exact hi
        · exact hacc q' hq'
      rw [if_neg co] at h
      have hnt : isTerminal r = false := by
        simp only [isTerminal, Bool.or_eq_false_iff]; exact ⟨by simpa using co, by simpa using cz⟩
      obtain ⟨hmv, ⟨φ0, vlo⟩, ⟨φ1, vhi⟩, tlo, thi⟩ := step_top hg vr hnt ht
      obtain ⟨a0, b0⟩ := litsInc_snoc (l := -((s.var r : Nat) : Int)) (by simp) hmv hi hb
      obtain ⟨a1, b1⟩ := litsInc_snoc (l := ((s.var r : Nat) : Int)) (by simp) hmv hi hb
      refine ih s _ acc out hg ?_ hacc h q hq
      intro p hp
      rcases List.mem_cons.mp hp with e' | hp
      · subst e'; exact ⟨φ0, _, vlo, tlo, a0, b0⟩
      · rcases List.mem_cons.mp hp with e' | hp
        · subst e'; exact ⟨φ1, _, vhi, thi, a1, b1⟩
        · exact hrest p hp

/-- every cube yielded by the iterator lists its literals in strictly increasing variable order -/
theorem paths_iter_sorted {fuel s r φ out} (hg : Good s) (v : Valid s.nodes r φ)
    (h : pathsIter fuel s [(r, [])] [] = some out) :
    ∀ q, q ∈ out → List.Pairwise (fun a b : Int => a.natAbs < b.natAbs) q := by
  refine pathsIter_inc fuel s [(r, [])] [] out hg ?_ (fun q hq => by cases hq) h
  intro p hp
  have : p = (r, []) := by simpa using hp
  subst this
  refine ⟨φ, 0, v, ?_, List.Pairwise.nil, fun x hx => by cases hx⟩
  rcases valid_stored v with h | ⟨n, hn⟩
  · exact Or.inl h
  · exact Or.inr ⟨n, hn, Nat.zero_le _⟩

theorem paths_sorted {fuel s r φ out} (hg : Good s) (v : Valid s.nodes r φ) (h : paths fuel s r = some out) :
    ∀ q, q ∈ out → List.Pairwise (fun a b : Int => a.natAbs < b.natAbs) q :=
  paths_iter_sorted hg v h

#print axioms paths_iter_exactly_once
#print axioms paths_exactly_once'
#print axioms paths_sorted
end P

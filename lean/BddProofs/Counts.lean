/-! Feasibility spike: the counting half of C06 — `real_size` tracks the number of occupied cells
through `alloc`/`drop`, and after a sweep it equals the size of the survivor list. -/
namespace Cn

/-- number of occupied cells among `0 .. n-1` -/
def countOcc (occ : Nat → Bool) (n : Nat) : Nat := (List.range n).countP occ

theorem countOcc_succ (occ : Nat → Bool) (n : Nat) :
    countOcc occ (n + 1) = countOcc occ n + (if occ n then 1 else 0) := by
  simp only [countOcc, List.range_succ, List.countP_append, List.countP_cons, List.countP_nil]
  omega

/-- agreeing flags count the same -/
theorem countOcc_congr {occ occ' : Nat → Bool} (n : Nat) (h : ∀ i, i < n → occ' i = occ i) :
    countOcc occ' n = countOcc occ n := by
  induction n with
  | zero => rfl
  | succ n ih =>
    rw [countOcc_succ, countOcc_succ, ih (fun i hi => h i (by omega)), h n (by omega)]

/-- `alloc`: setting a free cell adds one -/
theorem countOcc_set {occ : Nat → Bool} {i n : Nat} (hi : i < n) (hfree : occ i = false) :
    countOcc (fun j => if j = i then true else occ j) n = countOcc occ n + 1 := by
  induction n with
  | zero => omega
  | succ n ih =>
    rw [countOcc_succ, countOcc_succ]
    by_cases e : i = n
    · subst e
      have : countOcc (fun j => if j = i then true else occ j) i = countOcc occ i :=
        countOcc_congr i (fun j hj => by rw [if_neg (by omega)])
      rw [this]; simp only [↓reduceIte, hfree, Bool.false_eq_true]
    · have hne : ¬ n = i := fun x => e x.symm
      rw [ih (by omega)]; simp only [hne, ↓reduceIte]; omega

/-- `drop`: clearing an occupied cell removes one -/
theorem countOcc_clear {occ : Nat → Bool} {i n : Nat} (hi : i < n) (hocc : occ i = true) :
    countOcc (fun j => if j = i then false else occ j) n + 1 = countOcc occ n := by
  induction n with
  | zero => omega
  | succ n ih =>
    rw [countOcc_succ, countOcc_succ]
    by_cases e : i = n
    · subst e
      have : countOcc (fun j => if j = i then false else occ j) i = countOcc occ i :=
        countOcc_congr i (fun j hj => by rw [if_neg (by omega)])
      rw [this]; simp only [↓reduceIte, hocc, Bool.false_eq_true]
    · have hne : ¬ n = i := fun x => e x.symm
      have := ih (by omega)
      simp only [hne, ↓reduceIte]; omega

/-- C06 (exactness): if after the sweep the occupied cells below `n` are exactly the members of the
duplicate-free survivor list `V` (what `descendants(roots)` returned), the count is `|V|` -/
theorem countOcc_eq_length {occ : Nat → Bool} {n : Nat} {V : List Nat} (nd : V.Nodup)
    (hV : ∀ i, i ∈ V → i < n) (hocc : ∀ i, i < n → (occ i = true ↔ i ∈ V)) :
    countOcc occ n = V.length := by
  simp only [countOcc, List.countP_eq_length_filter]
  apply List.Perm.length_eq
  rw [List.perm_ext_iff_of_nodup (List.nodup_range.filter _) nd]
  intro a
  simp only [List.mem_filter, List.mem_range]
  constructor
  · rintro ⟨ha, ho⟩; exact (hocc a ha).mp ho
  · intro ha; exact ⟨hV a ha, (hocc a (hV a ha)).mpr ha⟩

#print axioms countOcc_eq_length
end Cn

import BddProofs.Reach
import BddProofs.DriverGood
/-! # C05 — garbage collection never changes the meaning of anything reachable from the roots

`collectGarbage` is the model of `collect_garbage`: both caches cleared, the breadth-first mark
(`descendants`), then per bucket the two relinking loops on the array table, exactly as written.
The proof simulates the array loops by the function-view loops (`GcSim.lean`) whose effect on every
chain shape — dead head, dead runs, dead tail, everything dead — is `filter alive` (`Sweep.lean`). -/
namespace P

/-- after a collection with any list of live roots (empty, duplicated, complemented, constant roots
are all lists of live handles): the state is `Good` again, exactly the nodes reachable from the roots
remain, every handle into that set denotes exactly what it denoted, and no cache entry survives -/
theorem C05_collection {s s' : St} (hg : Good s) {roots : List Ref} (hlive : ∀ r, r ∈ roots → Live s r.idx)
    (h : collectGarbage s roots = .ok s') :
    Good s' ∧
    (∀ i, s'.nodes i = if i ∈ descendants s roots then s.nodes i else none) ∧
    (∀ r φ, Valid s.nodes r φ → (r.idx = 1 ∨ r.idx ∈ descendants s roots) → Valid s'.nodes r φ) ∧
    (∀ k, s'.cache.lookup k = none) ∧ (∀ f, s'.sizeCache.lookup f = none) :=
  let ⟨a, _, c, d, e, f, _⟩ := collect_spec hg hlive hg.rs h
  ⟨a, c, d, e, f⟩

/-- every root keeps its meaning -/
theorem C05_roots_keep_meaning {s s' : St} (hg : Good s) {roots : List Ref} (hlive : ∀ r, r ∈ roots → Live s r.idx)
    (h : collectGarbage s roots = .ok s') : ∀ r φ, r ∈ roots → Valid s.nodes r φ → Valid s'.nodes r φ :=
  collect_roots hg hlive hg.rs h

/-- the survivors are still the canonical representatives: rebuilding a surviving function by any
route (any operation whose result is `Valid` in a later good state) returns the identical handle,
even though freed slots are reused for new, different nodes in between -/
theorem C05_still_canonical {s' t : St} (hgt : Good t) (hsub : Sub s'.nodes t.nodes) {r r2 : Ref} {φ : Fn}
    (v : Valid s'.nodes r φ) (v2 : Valid t.nodes r2 φ) : r = r2 := by
  obtain ⟨d, h⟩ := v.mono hsub
  obtain ⟨d2, h2⟩ := v2
  exact canonicity hgt.inv h h2

/-- the collection itself never panics -/
theorem C05_collection_total {s : St} (hg : Good s) {roots : List Ref} (hlive : ∀ r, r ∈ roots → Live s r.idx) :
    ∃ s', collectGarbage s roots = .ok s' := collect_total hg hlive hg.rs

/-- all later operations remain correct: the state after any number of collections interleaved with
operations is reachable, hence `Good`, which is the only hypothesis of every operation theorem -/
theorem C05_later_operations {s s' : St} (hr : Reachable s) {roots : List Ref}
    (hl : ∀ r, r ∈ roots → Live' s r) (h : collectGarbage s roots = .ok s') : Good s' :=
  reachable_good (.gc hr hl h)

/-- non-vacuity: a collection on a concrete good state -/
example : ∃ s', collectGarbage s4 [] = .ok s' ∧ Good s' := by
  obtain ⟨s', h, g, _⟩ := collect_s4
  exact ⟨s', h, g⟩


/-- the same through the dispatcher the model driver really runs: a `gc` request is accepted exactly when
every root names an occupied cell, it always completes (`.ok`), and then everything above holds — with no
hypothesis about the roots left (empty, duplicated, complemented and constant roots included) -/
theorem C05_driver_collection {fuel : Nat} {s : St} {roots : List Ref} (hg : Good s)
    (hok : (Req.gc roots).ok s = true) :
    ∃ s', exec fuel s (.gc roots) = .unit (.ok s') ∧ Good s' ∧
      (∀ i, s'.nodes i = if i ∈ descendants s roots then s.nodes i else none) ∧
      (∀ r φ, Valid s.nodes r φ → (r.idx = 1 ∨ r.idx ∈ descendants s roots) → Valid s'.nodes r φ) ∧
      (∀ k, s'.cache.lookup k = none) ∧ (∀ f, s'.sizeCache.lookup f = none) := by
  have hl : ∀ r, r ∈ roots → Live s r.idx := fun r hr =>
    let ⟨_, v⟩ := all_liveB hg (by simpa only [Req.ok] using hok) r hr
    Live.of_valid v
  obtain ⟨s', h⟩ := collect_total hg hl hg.rs
  refine ⟨s', ?_, C05_collection hg hl h⟩
  unfold exec; rw [if_pos hok]; simp only [runReq, h]

end P
#print axioms P.C05_collection
#print axioms P.C05_roots_keep_meaning
#print axioms P.C05_still_canonical
#print axioms P.C05_collection_total
#print axioms P.C05_later_operations
#print axioms P.C05_driver_collection

import BddProofs.Constrain
import BddProofs.Total1
import BddProofs.ConstrainCor
import BddProofs.Init
import BddProofs.ClosestWalk
/-! # C10 — constrain is the generalized cofactor

`Closest g x y`: `y` satisfies `g` and, against any other point `z` of `g`, at the first variable
where `y` and `z` differ `y` sides with `x` ("differences in earlier variables weigh more").
`ConstrainSpec φf φg h`: `h x = φf y` for the closest point `y` of `φg` to `x` (and `h` depends on no
variable that neither argument depends on). -/
namespace P

/-- the procedure computes the closest-point generalized cofactor, for every cache state
satisfying the invariant, every pair of live handles -/
theorem C10_constrain (fuel : Nat) (s : St) (f g : Ref) (φf φg : Fn) (s' : St) (r : Ref)
    (hg : Good s) (vf : Valid s.nodes f φf) (vg : Valid s.nodes g φg)
    (h : constrain fuel s f g = .ok (s', r)) :
    Good s' ∧ Sub s.nodes s'.nodes ∧ ∃ hfn, Valid s'.nodes r hfn ∧
      (∀ x y, Closest φg x y → hfn x = φf y) :=
  let ⟨a, b, hfn, c, d⟩ := constrain_spec fuel s f g φf φg s' r hg vf vg h
  ⟨a, b, hfn, c, d.1⟩

/-- the closest point exists (for `g ≠ false` with finite support) and is unique: the
characterisation is not vacuous and determines the function -/
theorem C10_closest_exists_unique {g : Fn} {N : Nat} (hl : SuppLt g N) (hne : g ≠ fun _ => false) (x : Env) :
    ∃ y, Closest g x y ∧ ∀ y', Closest g x y' → y' = y := by
  obtain ⟨y, hy⟩ := closest_exists hl hne x
  exact ⟨y, hy, fun y' hy' => closest_unique hy' hy⟩

/-- `constrain(f, false) = false` by convention -/
theorem C10_false (fuel : Nat) (s : St) (f : Ref) : constrain (fuel + 1) s f Ref.zero = .ok (s, Ref.zero) := by
  unfold constrain; simp [isZero]

/-- consequence: it agrees with `f` wherever `g` holds (a point of `g` is its own closest point) -/
theorem C10_agrees_on_care {φf φg hfn : Fn} (hs : ∀ x y, Closest φg x y → hfn x = φf y) (x : Env) (hx : φg x = true) :
    hfn x = φf x :=
  hs x x ⟨hx, fun z _ i hd => rfl⟩

/-- it distributes over every binary connective `op` (AND, OR, XOR, equivalence, implication …):
`constrain(f op h, g) = constrain(f,g) op constrain(h,g)` as functions — hence as handles, by C01 -/
theorem C10_distributes {φf φf' φg h h' k : Fn} (op : Bool → Bool → Bool) {N : Nat}
    (hl : SuppLt φg N) (hne : φg ≠ fun _ => false)
    (hs : ConstrainSpec φf φg h) (hs' : ConstrainSpec φf' φg h')
    (hk : ConstrainSpec (fun e => op (φf e) (φf' e)) φg k) : k = fun e => op (h e) (h' e) :=
  constrain_distrib op hl hne hs hs' hk

/-- it commutes with negation -/
theorem C10_commutes_with_not {φf φg h k : Fn} {N : Nat} (hl : SuppLt φg N) (hne : φg ≠ fun _ => false)
    (hs : ConstrainSpec φf φg h) (hk : ConstrainSpec (fun e => !φf e) φg k) : k = fun e => !h e :=
  constrain_neg hl hne hs hk

/-- `constrain(f, f) = 1` -/
theorem C10_self {φf h : Fn} {N : Nat} (hl : SuppLt φf N) (hne : φf ≠ fun _ => false)
    (hs : ConstrainSpec φf φf h) : h = fun _ => true :=
  constrain_self hl hne hs

/-- `constrain(f, 1) = f` -/
theorem C10_true {φf h : Fn} (hs : ConstrainSpec φf (fun _ => true) h) : h = φf := by
  funext x
  exact hs.1 x x ⟨rfl, fun _ _ _ _ => rfl⟩

/-- it terminates without panicking, storage capacity permitting: with enough fuel it returns or stops
with "Storage is full"; it never hits an `assert!` and never runs out of fuel -/
theorem C10_constrain_terminates {V fuel : Nat} {s : St} {f g : Ref} {φf φg : Fn} (hg : Good s) (hV : VarsLe s V)
    (vf : Valid s.nodes f φf) (vg : Valid s.nodes g φg) (hfuel : lv s V f + lv s V g < fuel) :
    ((∃ s' r, constrain fuel s f g = .ok (s', r)) ∨ (∃ s', constrain fuel s f g = .error (.storageFull, s'))) ∧
    (∀ e s', constrain fuel s f g = .error (e, s') → e = .storageFull) :=
  let ⟨a, _, c⟩ := constrain_total' hg hV vf vg hfuel
  ⟨a, c⟩

/-- non-vacuity: the hypotheses are met by the constants in a fresh manager -/
example : ∃ s' r, constrain 5 s4 Ref.one Ref.one = .ok (s', r) ∧ Good s4 ∧ Valid s4.nodes Ref.one (fun _ => true) :=
  ⟨s4, Ref.one, by unfold constrain; simp [isZero, isOne, Ref.one, Ref.zero], s4_good, Valid.one⟩

/-- the pointwise oracle of the correspondence check is the definition: walking the stored diagram of
`g` along a point `x` — at each node take the side `x` prefers unless that child is the constant false
(then take the other side and flip that variable) — arrives at THE closest point `y` of `g`, and the
result of `constrain(f, g)` at `x` is `f` at `y` -/
theorem C10_pointwise_by_walk {fuel k : Nat} {s s' : St} {f g r : Ref} {φf φg : Fn} {x y : Env}
    (hg : Good s) (vf : Valid s.nodes f φf) (vg : Valid s.nodes g φg)
    (h : constrain fuel s f g = .ok (s', r)) (hw : closestWalk s'.nodes k g x = some y) :
    ∃ hfn, Valid s'.nodes r hfn ∧ hfn x = φf y :=
  constrain_walk hg vf vg h hw

/-- the walk always arrives (enough fuel) when `g` is satisfiable, and what it returns is the closest point -/
theorem C10_walk_finds_closest {nd : Nodes} {g : Ref} {φg : Fn} (hI : NInv nd) (vg : Valid nd g φg)
    (hne : φg ≠ fun _ => false) (x : Env) :
    ∃ fuel0 y, Closest φg x y ∧ ∀ fuel, fuel0 ≤ fuel → closestWalk nd fuel g x = some y :=
  closestWalk_total hI vg hne x

end P
#print axioms P.C10_constrain
#print axioms P.C10_closest_exists_unique
#print axioms P.C10_false
#print axioms P.C10_agrees_on_care
#print axioms P.C10_distributes
#print axioms P.C10_commutes_with_not
#print axioms P.C10_self
#print axioms P.C10_true
#print axioms P.C10_constrain_terminates
#print axioms P.C10_pointwise_by_walk
#print axioms P.C10_walk_finds_closest

import BddProofs.Ite
import BddProofs.IteTotal
import BddProofs.Init
import BddProofs.DriverSem
import BddProofs.DriverTotal
/-! # C02 — if-then-else computes (f ∧ g) ∨ (¬f ∧ h) for every triple

`ITE φf φg φh = fun e => if φf e then φg e else φh e`.  `Good s` is the invariant of every reachable
manager state (C01/C04/C17 + "every cache entry is a true fact", C07): the theorem therefore holds
for a cold, warm or collision-polluted cache of any size, and the case split on the relationship
among the arguments is the code's own (9 terminal cases, 4 standard triples, 5 equivalent pairs,
regularisation with output negation, cache hit, Shannon step). -/
namespace P

theorem C02_ite_sound (fuel : Nat) (s : St) (f g h : Ref) (φf φg φh : Fn) (s' : St) (r : Ref)
    (hg : Good s) (vf : Valid s.nodes f φf) (vg : Valid s.nodes g φg) (vh : Valid s.nodes h φh)
    (hres : applyIte fuel s f g h = .ok (s', r)) :
    Good s' ∧ Sub s.nodes s'.nodes ∧ Valid s'.nodes r (ITE φf φg φh) :=
  applyIte_spec fuel s f g h φf φg φh s' r hg vf vg vh hres

/-- termination without panicking, storage capacity permitting: with fuel above the measure
`(Σ levels)·(V+2) + var f` (`V` bounds the variables in the store) `apply_ite` on live arguments
returns, or stops with "Storage is full"; it never hits an `assert!` and never runs out of fuel
(the Rust recursion terminates) -/
theorem C02_ite_total {V fuel : Nat} {s : St} {f g h : Ref} {φf φg φh : Fn} (hg : Good s) (hV : VarsLe s V)
    (vf : Valid s.nodes f φf) (vg : Valid s.nodes g φg) (vh : Valid s.nodes h φh)
    (hfuel : mu s V f g h < fuel) :
    ((∃ s' r, applyIte fuel s f g h = .ok (s', r)) ∨ (∃ s', applyIte fuel s f g h = .error (.storageFull, s'))) ∧
    (∀ e s', applyIte fuel s f g h = .error (e, s') → e = .storageFull) :=
  let ⟨a, _, c⟩ := applyIte_total' hg hV vf vg vh hfuel
  ⟨a, c⟩

/-- `ITE` is the Boolean formula of the property -/
theorem C02_ite_formula (φf φg φh : Fn) (e : Env) :
    ITE φf φg φh e = ((φf e && φg e) || (!φf e && φh e)) := by
  simp only [ITE]; cases φf e <;> simp

/-- the repaired shortcut: `ite(F, 0, F)` is the constant false (the pinned code returned `F`) -/
theorem C02_shortcut_F0F (fuel : Nat) (s : St) (f : Ref) (hf1 : isOne f = false) (hf0 : isZero f = false) :
    applyIte (fuel + 1) s f Ref.zero f = .ok (s, Ref.zero) := by
  have hz : isZero Ref.zero = true := by decide
  have ho : isOne Ref.zero = false := by decide
  unfold applyIte
  simp only [hf1, hf0, hz, ho, Bool.false_eq_true, ↓reduceIte, Bool.and_true, Bool.and_false, Bool.true_and, Bool.false_and]
  by_cases c1 : Ref.zero = f
  · subst c1; simp [isZero] at hf0
  · have c2 : ¬ f = Ref.zero := fun e => c1 e.symm
    have c3 : ¬ Ref.zero = f.not := by
      intro e
      have : f = Ref.zero.not := by rw [e]; simp
      rw [this] at hf1; revert hf1; decide
    simp [c1, c2, c3]

/-- non-vacuity: the hypotheses are met in a fresh manager -/
example : Good s4 ∧ Valid s4.nodes Ref.one (fun _ => true) ∧ Valid s4.nodes Ref.zero (fun _ => false) ∧
    applyIte 3 s4 Ref.one Ref.zero Ref.one = .ok (s4, Ref.zero) :=
  ⟨s4_good, Valid.one, Valid.zero, by unfold applyIte; simp [isOne]⟩

/-- the same statement about what the model driver really runs (`exec`, `BddModel/Driver.lean`): if the
request `ite a b c` is accepted and returns the handle `h`, then `h` is live in the new state and denotes
the ITE of the functions `a`, `b`, `c` denoted — with no hypothesis about the handles: liveness is
discharged from the driver's run-time check.  (`exec_handle_sem` is the same for every handle-producing
request: connectives, folds, cube / clause, the substitutions, compose, constrain, restrict, expressions.) -/
theorem C02_driver_reply {fuel : Nat} {s s' : St} {a b c h : Ref} (hg : Good s)
    (hx : exec fuel s (.ite a b c) = .handle (.ok (s', h))) :
    Good s' ∧ Sub s.nodes s'.nodes ∧ ∃ φa φb φc, Valid s.nodes a φa ∧ Valid s.nodes b φb ∧ Valid s.nodes c φc ∧
      Valid s'.nodes h (ITE φa φb φc) := by
  obtain ⟨g', sub, ψ, vψ, φa, φb, φc, va, vb, vc, e⟩ := exec_handle_sem hg hx
  exact ⟨g', sub, φa, φb, φc, va, vb, vc, e ▸ vψ⟩


/-- … and termination without panicking, storage capacity permitting, through the same dispatcher: with
the uniform fuel bound `driverFuel V` (`V` bounds the stored variables) the only failure an accepted
`ite` request can report is a full table — never an assertion, never out of fuel.  (`exec_total` is the
same for every request kind except the interrupted collection, which asserts by design; `exec_never_fails`:
`ite_constant`, `is_implies`, `size` and collections cannot fail at all.) -/
theorem C02_driver_total {V fuel : Nat} {s : St} {a b c : Ref} (hg : Good s) (hV : VarsLe s V)
    (hfuel : driverFuel V ≤ fuel) (e : Fault) (s' : St)
    (hx : exec fuel s (.ite a b c) = .handle (.error (e, s'))) : e = .storageFull := by
  have h := exec_total (V := V) (fuel := fuel) (s := s) (.ite a b c) hg hV trivial hfuel
  rw [hx] at h
  exact h e s' rfl

end P
#print axioms P.C02_ite_sound
#print axioms P.C02_ite_total
#print axioms P.C02_ite_formula
#print axioms P.C02_shortcut_F0F
#print axioms P.C02_driver_reply
#print axioms P.C02_driver_total

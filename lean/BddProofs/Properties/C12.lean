import BddProofs.IteConst
import BddProofs.IteConstTotal
import BddProofs.DriverSem
/-! # C12 — constant and implication tests decide correctly, always return, build nothing -/
namespace P

/-- `ite_constant(f,g,h)` returns `Some(b)` exactly when `ITE(f,g,h)` is the constant `b` (hence `None`
otherwise), whatever the operation cache contains; it leaves the node store, the size cache and the
contents of the operation cache untouched (only the statistics counters move) -/
theorem C12_ite_constant {fuel : Nat} {s : St} {f g h : Ref} {φf φg φh : Fn} {s' : St} {o : Option Bool}
    (hg : Good s) (vf : Valid s.nodes f φf) (vg : Valid s.nodes g φg) (vh : Valid s.nodes h φh)
    (hres : iteConstant fuel s f g h = .ok (s', o)) :
    (∀ b, o = some b ↔ ITE φf φg φh = fun _ => b) ∧
    s'.storage = s.storage ∧ s'.sizeCache = s.sizeCache ∧ ∀ k, s'.cache.lookup k = s.cache.lookup k :=
  iteConstant_spec hg vf vg vh hres

/-- `is_implies(f,g)` is true exactly when `f` implies `g`; same purity -/
theorem C12_is_implies {fuel : Nat} {s : St} {f g : Ref} {φf φg : Fn} {s' : St} {b : Bool}
    (hg : Good s) (vf : Valid s.nodes f φf) (vg : Valid s.nodes g φg)
    (hres : isImplies fuel s f g = .ok (s', b)) :
    (b = true ↔ ∀ e, φf e = true → φg e = true) ∧
    s'.storage = s.storage ∧ s'.sizeCache = s.sizeCache ∧ ∀ k, s'.cache.lookup k = s.cache.lookup k :=
  isImplies_spec hg vf vg hres

/-- both always return (never an assertion, never out of fuel, nothing can be full): for any cache
content satisfying the invariant, once the fuel exceeds `3·(V+1)` where `V` bounds the variables -/
theorem C12_always_returns {V fuel : Nat} {s : St} {f g h : Ref} {φf φg φh : Fn} (hg : Good s) (hV : VarsLe s V)
    (vf : Valid s.nodes f φf) (vg : Valid s.nodes g φg) (vh : Valid s.nodes h φh)
    (hfuel : 3 * (V + 1) < fuel) : ∃ s' o, iteConstant fuel s f g h = .ok (s', o) :=
  iteConstant_total' hg hV vf vg vh hfuel

theorem C12_is_implies_returns {V fuel : Nat} {s : St} {f g : Ref} {φf φg : Fn} (hg : Good s) (hV : VarsLe s V)
    (vf : Valid s.nodes f φf) (vg : Valid s.nodes g φg)
    (hfuel : lv s V f + lv s V g < fuel) : ∃ s' b, isImplies fuel s f g = .ok (s', b) :=
  isImplies_total hg hV vf vg hfuel

/-- non-vacuity and the negative witness for the pinned code: in the good state reached by
`apply_ite(x1∧x2, x1, 1)` the pinned cache-hit branch asserts, the repaired one answers `Some(true)` -/
theorem C12_pinned_variant_asserts :
    ∃ (s : St) (f g h : Ref) (φf φg φh : Fn), Good s ∧
      Valid s.nodes f φf ∧ Valid s.nodes g φg ∧ Valid s.nodes h φh ∧
      (∃ s', iteConstantPinned 8 s f g h = .error (.assertion, s')) ∧
      (∃ s', iteConstant 8 s f g h = .ok (s', some true)) := iteConstantPinned_asserts

/-- the same through the dispatcher the model driver really runs: an accepted `ite_constant` request
answers `Some(b)` exactly when the ITE of the functions its three handles denote is the constant `b`, and
leaves the node table, the size memo and every operation-cache answer as they were — no hypothesis about
the handles (`exec_implies_sem` is the twin for `is_implies`) -/
theorem C12_driver_reply {fuel : Nat} {s s' : St} {a b c : Ref} {o : Option Bool} (hg : Good s)
    (hx : exec fuel s (.itec a b c) = .optBool (.ok (s', o))) :
    ∃ φa φb φc, Valid s.nodes a φa ∧ Valid s.nodes b φb ∧ Valid s.nodes c φc ∧
      (∀ v, o = some v ↔ ITE φa φb φc = fun _ => v) ∧ s'.storage = s.storage ∧ s'.sizeCache = s.sizeCache ∧
      ∀ k, s'.cache.lookup k = s.cache.lookup k :=
  exec_itec_sem hg hx

end P
#print axioms P.C12_ite_constant
#print axioms P.C12_is_implies
#print axioms P.C12_always_returns
#print axioms P.C12_is_implies_returns
#print axioms P.C12_pinned_variant_asserts
#print axioms P.C12_driver_reply

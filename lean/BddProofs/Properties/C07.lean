import BddProofs.Reach
import BddProofs.RestrictSem
import BddProofs.HeldGc
/-! # C07 — memoisation is invisible: results never depend on cache state or size

(a) Every operation theorem (C02, C03, C08–C12, C15) is stated for an arbitrary `Good` state, i.e.
for *any* operation-cache content in which every entry is a true fact (`Good.cache`) — empty, warm,
full of colliding entries, of any size `2^bits` — and its conclusion (`Valid s'.nodes r (spec …)`)
does not mention the cache: the *function* of the result is the same whatever the cache holds.
(b) Hence, by canonicity, the *handle* is the same too: below.  For `restrict`, whose result is
defined by a recursion, the relation `RestrictRel` is cache-free and functional.
(c) Every entry a cache holds is a true fact about live nodes, in every reachable state.
(d) No entry survives a collection. -/
namespace P

/-- (b) repeating an operation — after the caches were flushed, evicted, resized, or after any further
history in which the first result stays live — returns the identical handle: two live handles of a
good state that denote the same function are equal, and both runs denote the operation's
specification function -/
theorem C07_same_handle_again {t : St} (hgt : Good t) {r1 r2 : Ref} {ψ : Fn}
    (v1 : Valid t.nodes r1 ψ) (v2 : Valid t.nodes r2 ψ) : r1 = r2 := by
  obtain ⟨d1, h1⟩ := v1; obtain ⟨d2, h2⟩ := v2
  exact canonicity hgt.inv h1 h2

/-- instance for ITE: run it in `s` (result `r1`), then — in any later good state `t` that still
contains `s`'s nodes, whatever its caches hold — run it again: the same handle comes back -/
theorem C07_ite_replay {s s1 t t2 : St} {fuel fuel' : Nat} {f g h r1 r2 : Ref} {φf φg φh : Fn}
    (hg : Good s) (vf : Valid s.nodes f φf) (vg : Valid s.nodes g φg) (vh : Valid s.nodes h φh)
    (h1 : applyIte fuel s f g h = .ok (s1, r1))
    (hgt : Good t) (hsub : Sub s1.nodes t.nodes)
    (h2 : applyIte fuel' t f g h = .ok (t2, r2)) : r1 = r2 := by
  obtain ⟨_, sub1, v1⟩ := applyIte_spec _ _ _ _ _ _ _ _ _ _ hg vf vg vh h1
  have sub : Sub s.nodes t.nodes := sub1.trans hsub
  obtain ⟨g2, sub2, v2⟩ := applyIte_spec _ _ _ _ _ _ _ _ _ _ hgt (vf.mono sub) (vg.mono sub) (vh.mono sub) h2
  exact C07_same_handle_again g2 ((v1.mono hsub).mono sub2) v2

/-- instance for restrict (Constrain and Restrict keys hash alike and share slots: irrelevant) -/
theorem C07_restrict_replay {s s1 t t2 : St} {fuel fuel' : Nat} {f g r1 r2 : Ref} {φf φg : Fn}
    (hg : Good s) (vf : Valid s.nodes f φf) (vg : Valid s.nodes g φg)
    (h1 : restrict fuel s f g = .ok (s1, r1))
    (hgt : Good t) (hsub : Sub s1.nodes t.nodes)
    (h2 : restrict fuel' t f g = .ok (t2, r2)) : r1 = r2 := by
  obtain ⟨_, sub1, k1, v1, rel1⟩ := restrict_spec _ _ _ _ _ _ _ _ hg vf vg h1
  have sub : Sub s.nodes t.nodes := sub1.trans hsub
  obtain ⟨g2, sub2, k2, v2, rel2⟩ := restrict_spec _ _ _ _ _ _ _ _ hgt (vf.mono sub) (vg.mono sub) h2
  have : k1 = k2 := rel1.functional rel2
  subst this
  exact C07_same_handle_again g2 ((v1.mono hsub).mono sub2) v2

/-- (c) in every reachable state every operation-cache entry is a true fact about live nodes
(`Fact`: the key handles and the value are live and the value denotes ITE / the generalized cofactor /
the Coudert–Madre restrict of the key's functions), and every size-cache entry belongs to a live handle
and records the number of nodes reachable from it -/
theorem C07_entries_are_true {s : St} (hr : Reachable s) :
    (∀ k r, s.cache.lookup k = some r → Fact s.nodes k r) ∧
    (∀ f n, s.sizeCache.lookup f = some n → Live s f.idx ∧ n = (descendants s [f]).length) :=
  ⟨(reachable_good hr).cache, reachable_sizeInv hr⟩

/-- (d) no entry survives a garbage collection -/
theorem C07_collection_clears {s s' : St} (hg : Good s) {roots : List Ref} (hlive : ∀ r, r ∈ roots → Live s r.idx)
    (h : collectGarbage s roots = .ok s') :
    (∀ k, s'.cache.lookup k = none) ∧ (∀ f, s'.sizeCache.lookup f = none) :=
  let ⟨_, _, _, _, e, f, _⟩ := collect_spec hg hlive hg.rs h
  ⟨e, f⟩

/-- a cache lookup returns an entry only on key equality (C18), so a colliding entry is never used -/
theorem C07_hit_is_fact {s : St} (hg : Good s) {k r} (h : (s.cacheGet k).2 = some r) : Fact s.nodes k r :=
  hg.cacheHit h

/-- a collection that cannot take its mutable borrow (the caller still holds a guard from `cache()`,
`size_cache()` or `storage()`) panics after clearing at most the caches: the table is untouched and
the manager stays good, so no cache entry can outlive a node it names -/
theorem C07_interrupted_collection {s : St} (hg : Good s) (which : Nat) :
    Good (heldState (collectGarbageHeld which s)) ∧
    (heldState (collectGarbageHeld which s)).storage = s.storage :=
  collectGarbageHeld_good hg which

/-- non-vacuity -/
example : Reachable s4 ∧ Good s4 := ⟨.init (sb := 4) (bb := 4) (cb := 4) new4_ok, s4_good⟩

end P
#print axioms P.C07_same_handle_again
#print axioms P.C07_ite_replay
#print axioms P.C07_restrict_replay
#print axioms P.C07_entries_are_true
#print axioms P.C07_collection_clears
#print axioms P.C07_hit_is_fact
#print axioms P.C07_interrupted_collection

import BddProofs.Compose
import BddProofs.Total
import BddProofs.Init
/-! # C09 — composition substitutes a function for a variable

`Comp φf v φg = fun e => φf (upd e v (φg e))`: `f` with variable `v` replaced by the function `g`. -/
namespace P

/-- `compose(f, v, g)` denotes `f[v := g]` for every `f`, `v`, `g` (also `g` depending on `v` or on
variables above `v`, constant `g`, `v` outside the support), with the per-call lossy cache -/
theorem C09_compose {fuel : Nat} {s : St} {f g : Ref} {v : Nat} {φf φg : Fn} {s' : St} {r : Ref}
    (hg : Good s) (vf : Valid s.nodes f φf) (vg : Valid s.nodes g φg)
    (hres : composeTop fuel s f v g = .ok (s', r)) :
    Good s' ∧ Sub s.nodes s'.nodes ∧ Valid s'.nodes r (Comp φf v φg) := composeTop_spec hg vf vg hres

/-- … i.e. `ITE(g, f with v=1, f with v=0)` -/
theorem C09_compose_is_ite (φf : Fn) (v : Nat) (φg : Fn) :
    Comp φf v φg = ITE φg (cof φf v true) (cof φf v false) := comp_eq_ite φf v φg

/-- `v` outside the support of `f`: the result is `f` (as a function) -/
theorem C09_outside_support {φf φg : Fn} {v : Nat} (h : ∀ e b, φf (upd e v b) = φf e) : Comp φf v φg = φf := by
  funext e; exact h e (φg e)

/-- it terminates without panicking, storage capacity permitting: with enough fuel it returns or stops
with "Storage is full"; it never hits an `assert!` and never runs out of fuel -/
theorem C09_compose_terminates {V fuel v : Nat} {s : St} {f g : Ref} {φf φg : Fn} (hg : Good s) (hV : VarsLe s V)
    (vf : Valid s.nodes f φf) (vg : Valid s.nodes g φg)
    (hfuel : lv s V f + lv s V g + (3 * (V + 1) * (V + 2) + V) < fuel) :
    ((∃ s' r, composeTop fuel s f v g = .ok (s', r)) ∨ (∃ s', composeTop fuel s f v g = .error (.storageFull, s'))) ∧
    (∀ e s', composeTop fuel s f v g = .error (e, s') → e = .storageFull) :=
  let ⟨a, _, c⟩ := composeTop_terminates (v := v) hg hV vf vg hfuel
  ⟨a, c⟩

/-- non-vacuity -/
example : Good s4 ∧ Valid s4.nodes Ref.one (fun _ => true) ∧ ∃ s' , composeTop 3 s4 Ref.one 1 Ref.zero = .ok (s', Ref.one) :=
  ⟨s4_good, Valid.one, s4, by unfold composeTop compose; simp [isTerminal, isOne]⟩

end P
#print axioms P.C09_compose
#print axioms P.C09_compose_is_ite
#print axioms P.C09_outside_support
#print axioms P.C09_compose_terminates

import BddProofs.Derived
import BddProofs.Total3
import BddProofs.ExprParse
import BddProofs.Init
/-! # C03 — connectives, n-ary folds and expression evaluation mean what they say

`Post s s' r φ := Good s' ∧ Sub s.nodes s'.nodes ∧ Valid s'.nodes r φ`.  NOT is `Valid.not` (the code just
flips the complement bit).  The overloaded operators are Rust syntax: the model's reader `parseRust`
turns a token string into the value the operators build; it is proved to accept exactly the
precedence grammar `Lev` (unary `-` > `*` > `+` > `^`, binary operators left-associative). -/
namespace P

theorem C03_not {nd r φ} (h : Valid nd r φ) : Valid nd r.not (fun e => !φ e) := h.not

theorem C03_and {fuel s u v φu φv s' r} (hg : Good s) (vu : Valid s.nodes u φu) (vv : Valid s.nodes v φv)
    (h : applyAnd fuel s u v = .ok (s', r)) : Post s s' r (fun e => φu e && φv e) := applyAnd_spec hg vu vv h
theorem C03_or {fuel s u v φu φv s' r} (hg : Good s) (vu : Valid s.nodes u φu) (vv : Valid s.nodes v φv)
    (h : applyOr fuel s u v = .ok (s', r)) : Post s s' r (fun e => φu e || φv e) := applyOr_spec hg vu vv h
theorem C03_xor {fuel s u v φu φv s' r} (hg : Good s) (vu : Valid s.nodes u φu) (vv : Valid s.nodes v φv)
    (h : applyXor fuel s u v = .ok (s', r)) : Post s s' r (fun e => φu e != φv e) := applyXor_spec hg vu vv h
theorem C03_eq {fuel s u v φu φv s' r} (hg : Good s) (vu : Valid s.nodes u φu) (vv : Valid s.nodes v φv)
    (h : applyEq fuel s u v = .ok (s', r)) : Post s s' r (fun e => φu e == φv e) := applyEq_spec hg vu vv h
theorem C03_imply {fuel s u v φu φv s' r} (hg : Good s) (vu : Valid s.nodes u φu) (vv : Valid s.nodes v φv)
    (h : applyImply fuel s u v = .ok (s', r)) : Post s s' r (fun e => !φu e || φv e) := applyImply_spec hg vu vv h

/-- `apply_and_many`: the conjunction of all items, `true` for the empty list -/
theorem C03_and_many {fuel : Nat} {xs : List Ref} {φs : List Fn} {s : St} {s' r} (hg : Good s)
    (hl : xs.length = φs.length)
    (hv : ∀ i (h : i < xs.length) (h' : i < φs.length), Valid s.nodes xs[i] φs[i])
    (h : andMany fuel s Ref.one xs = .ok (s', r)) : Post s s' r (fun e => φs.all (fun φ => φ e)) :=
  andMany_one_spec hg hl hv h

/-- `apply_or_many`: the disjunction of all items, `false` for the empty list -/
theorem C03_or_many {fuel : Nat} {xs : List Ref} {φs : List Fn} {s : St} {s' r} (hg : Good s)
    (hl : xs.length = φs.length)
    (hv : ∀ i (h : i < xs.length) (h' : i < φs.length), Valid s.nodes xs[i] φs[i])
    (h : orMany fuel s Ref.zero xs = .ok (s', r)) : Post s s' r (fun e => φs.any (fun φ => φ e)) :=
  orMany_zero_spec hg hl hv h

/-- evaluating an expression tree yields the function of the expression -/
theorem C03_expr_eval (fuel : Nat) (x : Expr) (s : St) (φ : Fn) (s' : St) (r : Ref) (hg : Good s)
    (hs : Expr.Sem s.nodes x φ) (h : Expr.eval fuel s x = .ok (s', r)) : Post s s' r φ :=
  Expr.eval_spec fuel x s φ s' r hg hs h

/-- the simplifications of `Expr::not` (double negation, negated terms) never change the meaning -/
theorem C03_not_rewrites {nd x φ} (h : Expr.Sem nd x φ) : Expr.Sem nd x.mkNot (fun e => !φ e) := Expr.mkNot_sem h

/-- the reader accepts exactly the token strings of the precedence grammar and returns the value the
overloaded operators build along the grammatical tree -/
theorem C03_operators_precedence {toks v} : parseRust toks = some v ↔ ∃ a, Lev 4 a ∧ a.toks = toks ∧ a.val = v :=
  parseRust_iff

/-- … and evaluating that value yields the function of the expression read with that precedence
(`-` = NOT, `*` = AND, `+` = OR, `^` = XOR) -/
theorem C03_operators_meaning {a : Ast} {s : St} {φ : Fn} (hg : Good s) (hl : Lev 4 a) (hs : Ast.Sem s.nodes a φ) :
    ∃ v, parseRust a.toks = some v ∧ ∀ fuel s' r, v.eval fuel s = .ok (s', r) → Post s s' r φ :=
  parseRust_eval_spec hg hl hs

/-- it terminates without panicking, storage capacity permitting: with enough fuel it returns or stops
with "Storage is full"; it never hits an `assert!` and never runs out of fuel -/
theorem C03_folds_terminate {V fuel : Nat} {s : St} {xs : List Ref} (hg : Good s) (hV : VarsLe s V)
    (hxs : ∀ x, x ∈ xs → ∃ φ, Valid s.nodes x φ) (hfuel : 3 * (V + 1) * (V + 2) + V < fuel) :
    (((∃ s' r, andMany fuel s Ref.one xs = .ok (s', r)) ∨ (∃ s', andMany fuel s Ref.one xs = .error (.storageFull, s'))) ∧
     (∀ e s', andMany fuel s Ref.one xs = .error (e, s') → e = .storageFull)) ∧
    (((∃ s' r, orMany fuel s Ref.zero xs = .ok (s', r)) ∨ (∃ s', orMany fuel s Ref.zero xs = .error (.storageFull, s'))) ∧
     (∀ e s', orMany fuel s Ref.zero xs = .error (e, s') → e = .storageFull)) :=
  let ⟨a, _, c⟩ := andMany_total' hg hV hxs hfuel
  let ⟨a', _, c'⟩ := orMany_total' hg hV hxs hfuel
  ⟨⟨a, c⟩, ⟨a', c'⟩⟩
theorem C03_expr_eval_terminates {V fuel : Nat} {s : St} {x : Expr} {φ : Fn} (hg : Good s) (hV : VarsLe s V)
    (hs : Expr.Sem s.nodes x φ) (hfuel : 3 * (V + 1) * (V + 2) + V < fuel) :
    ((∃ s' r, Expr.eval fuel s x = .ok (s', r)) ∨ (∃ s', Expr.eval fuel s x = .error (.storageFull, s'))) ∧
    (∀ e s', Expr.eval fuel s x = .error (e, s') → e = .storageFull) :=
  let ⟨a, _, c⟩ := Expr.eval_total' hg hV hs hfuel
  ⟨a, c⟩

/-- non-vacuity: `a + b * c` parses as `a + (b * c)` -/
example (a b c : Ref) : parseRust [.h a, .plus, .h b, .star, .h c] =
    some (.expr (.or (.term a) (.and (.term b) (.term c)))) := rfl
example : Good s4 ∧ Expr.Sem s4.nodes (.term Ref.one) (fun _ => true) := ⟨s4_good, .term Valid.one⟩

end P
#print axioms P.C03_and
#print axioms P.C03_or
#print axioms P.C03_xor
#print axioms P.C03_eq
#print axioms P.C03_imply
#print axioms P.C03_and_many
#print axioms P.C03_or_many
#print axioms P.C03_expr_eval
#print axioms P.C03_not_rewrites
#print axioms P.C03_operators_precedence
#print axioms P.C03_operators_meaning
#print axioms P.C03_not
#print axioms P.C03_folds_terminate
#print axioms P.C03_expr_eval_terminates

import BddProofs.PathsIter
import BddProofs.QueryFrame
import BddProofs.TotalQuery
import BddProofs.PathsSum
import BddProofs.Init
import BddProofs.Bits
import BddProofs.DriverQuery
/-! # C14 — `one_sat` and `paths` describe exactly the satisfying set

`Sat e p`: the assignment `e` satisfies every signed literal of `p`.  `paths` is the explicit-stack
iterator `BddPaths` run to exhaustion (`P.pathsIter`), not a recursive re-implementation. -/
namespace P

/-- `one_sat(f)` is `None` exactly when `f` is false -/
theorem C14_one_sat_none {fuel s r φ d} (hg : Good s) (h : Den s.nodes d r φ) (hd : d < fuel) :
    oneSat fuel s r [] = none ↔ φ = fun _ => false :=
  (oneSat_spec fuel s r φ [] d hg h hd).1

/-- otherwise every completion of the returned literals satisfies `f` … -/
theorem C14_one_sat_some {fuel s r φ d p} (hg : Good s) (h : Den s.nodes d r φ) (hd : d < fuel)
    (hp : oneSat fuel s r [] = some p) : ∀ e, Sat e p = true → φ e = true := by
  obtain ⟨q, hq, hs⟩ := (oneSat_spec fuel s r φ [] d hg h hd).2 p hp
  simp only [List.nil_append] at hq; subst hq; exact hs

/-- … and the literals come in strictly increasing variable order (hence are consistent) -/
theorem C14_one_sat_sorted {fuel s r φ p} (hg : Good s) (v : Valid s.nodes r φ) (h : oneSat fuel s r [] = some p) :
    List.Pairwise (fun a b : Int => a.natAbs < b.natAbs) p :=
  oneSat_sorted hg v h

/-- the cubes yielded by the iterator are pairwise disjoint and their union is exactly `f`: every
assignment satisfies exactly one yielded path if it satisfies `f`, and none otherwise (a path
yielded twice would be counted twice) -/
theorem C14_paths_exactly_once {fuel s r φ out} (hg : Good s) (v : Valid s.nodes r φ)
    (h : paths fuel s r = some out) (e : Env) : out.countP (Sat e) = if φ e then 1 else 0 :=
  paths_exactly_once' hg v h e

/-- each yielded path lists its literals in strictly increasing variable order -/
theorem C14_paths_sorted {fuel s r φ out} (hg : Good s) (v : Valid s.nodes r φ) (h : paths fuel s r = some out) :
    ∀ q, q ∈ out → List.Pairwise (fun a b : Int => a.natAbs < b.natAbs) q :=
  paths_sorted hg v h

/-- the sum of `2^(n - length)` over the yielded paths equals the number of satisfying assignments
(= `sat_count(f, n)`, C13), for `f` over the variables `1..n`; no exponent is truncated -/
theorem C14_paths_sum {n fuel s r φ out} (hg : Good s) (v : Valid s.nodes r φ) (hs : SuppLt φ (n + 1))
    (h : paths fuel s r = some out) : (out.map (fun p => 2 ^ (n - p.length))).sum = count φ n :=
  paths_sum hg v hs h

/-- with enough fuel the iterator runs to exhaustion (the Rust loop terminates) and yields exactly that -/
theorem C14_paths_total {fuel : Nat} {s : St} {V : Nat} {f : Ref} {φ : Fn} (hg : Good s) (hV : VarsLe s V)
    (v : Valid s.nodes f φ) (hfuel : 2 ^ (V + 2) ≤ fuel) :
    ∃ out, paths fuel s f = some out ∧ (∀ e, out.countP (Sat e) = if φ e then 1 else 0) ∧
      ∀ q, q ∈ out → List.Pairwise (fun a b : Int => a.natAbs < b.natAbs) q :=
  paths_total_correct hg hV v hfuel

/-- non-vacuity: the constant true in a fresh manager has exactly the empty path -/
example : paths 3 s4 Ref.one = some [[]] ∧ Good s4 ∧ Valid s4.nodes Ref.one (fun _ => true) :=
  ⟨by decide, s4_good, Valid.one⟩

/-- `paths` and `one_sat` read nothing but the cells below their argument: along any history of the
manager that keeps the function alive (operations only add nodes; collections during which it is
protected), they keep giving the same answer -/
theorem C14_answers_survive_history {f : Ref} {s s' : St} (h : FrameSteps f s s') (hg : Good s)
    (hf : Live s f.idx) (fuel : Nat) (acc : List Int) :
    paths fuel s' f = paths fuel s f ∧ oneSat fuel s' f acc = oneSat fuel s f acc :=
  ⟨paths_steps h hg hf fuel, oneSat_steps h hg hf fuel acc⟩

/-- the LAZY iterator — one turn of the loop in each of the states `ts` the manager goes through while
other operations run, the rest in `s` — yields, when it finishes, exactly the cubes of an
uninterrupted enumeration in the state `s0` it was opened in -/
theorem C14_lazy_iterator_is_snapshot {s0 s : St} {f : Ref} {fuel : Nat} {ts : List St}
    {out : List (List Int)} (hg : Good s0) (hf : Live s0 f.idx)
    (hts : ∀ t, t ∈ ts → FrameSteps f s0 t) (hs : FrameSteps f s0 s)
    (h : pathsLazy fuel s ts ([(f, [])], []) = some out) :
    paths (fuel + ts.length) s0 f = some out :=
  paths_lazy_steps hg hf hts hs h

/-- the literals `one_sat` and `paths` push are `variable as i32` and `-(variable as i32)`.  For every
variable `1 ≤ v ≤ 2^31 − 1` these are the integers `v` and `−v` of the model, and reading them back
(`unsigned_abs`, `< 0`) gives the variable and the polarity; beyond that the cast wraps
(`Bits.lit_min_witness`; DESIGN §10) -/
theorem C14_literal_words (v : BitVec 32) (h1 : 1 ≤ v.toNat) (h2 : v.toNat ≤ 2147483647) :
    ((Bits.litPos v).toInt = v.toNat ∧ Bits.litIsNeg (Bits.litPos v) = false ∧ Bits.litUnsignedAbs (Bits.litPos v) = v) ∧
    ((Bits.litNeg v).toInt = -(v.toNat : Int) ∧ Bits.litIsNeg (Bits.litNeg v) = true ∧ Bits.litUnsignedAbs (Bits.litNeg v) = v) :=
  ⟨⟨(Bits.lit_pos_roundtrip v h1 h2).2.2.2, (Bits.lit_pos_roundtrip v h1 h2).1, (Bits.lit_pos_roundtrip v h1 h2).2.2.1⟩,
   ⟨(Bits.lit_neg_roundtrip v h1 h2).2.2.2, (Bits.lit_neg_roundtrip v h1 h2).1, (Bits.lit_neg_roundtrip v h1 h2).2.2.1⟩⟩

/-- the same through the dispatcher the model driver really runs for queries: the cubes an accepted
`paths` query returns cover exactly the satisfying set of the function its handle denotes, each assignment
once, in increasing variable order — no hypothesis about the handle left -/
theorem C14_driver_reply {fuel : Nat} {s : St} {f : Ref} {out : List (List Int)} (hg : Good s)
    (hx : execQuery fuel s (.paths f) = .cubes (some out)) :
    ∃ φ, Valid s.nodes f φ ∧ (∀ e, out.countP (Sat e) = if φ e then 1 else 0) ∧
      ∀ q, q ∈ out → List.Pairwise (fun a b : Int => a.natAbs < b.natAbs) q :=
  execQuery_paths hg hx

end P
#print axioms P.C14_one_sat_none
#print axioms P.C14_one_sat_some
#print axioms P.C14_one_sat_sorted
#print axioms P.C14_paths_exactly_once
#print axioms P.C14_paths_sorted
#print axioms P.C14_paths_sum
#print axioms P.C14_paths_total
#print axioms P.C14_answers_survive_history
#print axioms P.C14_lazy_iterator_is_snapshot
#print axioms P.C14_literal_words
#print axioms P.C14_driver_reply

import BddProofs.SubstCor
import BddProofs.Total2
import BddProofs.Init
/-! # C08 — cofactor and substitution operations fix variables and nothing else

`cof φ v b` = `φ` with variable `v` fixed to `b`; `FixVals φ vals` = `φ` with every variable listed in
`vals` fixed to its value (`HashMap<u32,bool>` / an ascending cube are both lists of pairs here). -/
namespace P

/-- `substitute(f, v, b)` denotes `f` with `v := b` -/
theorem C08_substitute {fuel : Nat} {s : St} {f : Ref} {v : Nat} {b : Bool} {φ : Fn} {s' : St} {r : Ref} {m : SMemo}
    (hg : Good s) (vf : Valid s.nodes f φ) (hres : substitute fuel s f v b [] = .ok (s', r, m)) :
    Good s' ∧ Sub s.nodes s'.nodes ∧ Valid s'.nodes r (cof φ v b) := substitute_top hg vf hres

/-- `substitute_multi(f, values)` fixes exactly the listed variables -/
theorem C08_substitute_multi {fuel : Nat} {s : St} {f : Ref} {vals : Vals} {φ : Fn} {s' : St} {r : Ref} {m : SMemo}
    (hg : Good s) (vf : Valid s.nodes f φ) (hres : substMulti fuel s f vals [] = .ok (s', r, m)) :
    Good s' ∧ Sub s.nodes s'.nodes ∧ Valid s'.nodes r (FixVals φ vals) := substMulti_top hg vf hres

/-- `cofactor_cube(f, cube)` for a cube in ascending variable order over distinct variables -/
theorem C08_cofactor_cube {fuel : Nat} {s : St} {f : Ref} {cube : Vals} {φ : Fn} {s' : St} {r : Ref} {m : KMemo}
    (hg : Good s) (vf : Valid s.nodes f φ) (hasc : cube.Pairwise (fun a b => a.1 < b.1))
    (hres : cofCube fuel s f cube [] = .ok (s', r, m)) :
    Good s' ∧ Sub s.nodes s'.nodes ∧ Valid s'.nodes r (FixVals φ cube) := cofCube_top hg vf hasc hres

/-- the result no longer depends on the fixed variable … -/
theorem C08_result_independent {fuel : Nat} {s : St} {f : Ref} {v : Nat} {b : Bool} {φ : Fn} {s' : St} {r : Ref} {m : SMemo}
    (hg : Good s) (vf : Valid s.nodes f φ) (hres : substitute fuel s f v b [] = .ok (s', r, m)) :
    ∃ ψ, Valid s'.nodes r ψ ∧ ¬ DependsOn ψ v ∧ ∀ b', cof ψ v b' = ψ := substitute_indep hg vf hres

/-- … and is `f` itself (the same handle) when `f` does not depend on it -/
theorem C08_identity_when_independent {fuel : Nat} {s : St} {f : Ref} {v : Nat} {b : Bool} {φ : Fn} {s' : St} {r : Ref} {m : SMemo}
    (hg : Good s) (vf : Valid s.nodes f φ) (hind : ¬ DependsOn φ v)
    (hres : substitute fuel s f v b [] = .ok (s', r, m)) : r = f := substitute_of_indep hg vf hind hres

/-- the three entry points agree with each other as handles: any two of them, run one after the
other for the same variable and value, return the identical handle -/
theorem C08_entry_points_agree {s s1 s2 : St} {f r1 r2 : Ref} {v : Nat} {b : Bool} {φ : Fn}
    (hg : Good s) (vf : Valid s.nodes f φ) (h1 : Cof1Res s f v b s1 r1) (h2 : Cof1Res s1 f v b s2 r2) :
    r1 = r2 := cof1_agree hg vf h1 h2

/-- the same for whole maps / cubes -/
theorem C08_multi_cube_agree {fuel fuel' : Nat} {s s1 s2 : St} {f r1 r2 : Ref} {cube : Vals} {φ : Fn}
    {m1 : SMemo} {m2 : KMemo} (hg : Good s) (vf : Valid s.nodes f φ)
    (hasc : cube.Pairwise (fun a b => a.1 < b.1))
    (h1 : substMulti fuel s f cube [] = .ok (s1, r1, m1))
    (h2 : cofCube fuel' s1 f cube [] = .ok (s2, r2, m2)) : r1 = r2 :=
  substMulti_cofCube_same_list hg vf hasc h1 h2

/-- the accessors of a non-terminal handle are the cofactors of its function with respect to its
top variable, complement bit included -/
theorem C08_accessors {s : St} (hg : Good s) {f : Ref} {φ : Fn} (vf : Valid s.nodes f φ)
    (hnt : isTerminal f = false) :
    s.var f ≠ 0 ∧
    Valid s.nodes (s.lowNode f) (cof φ (s.var f) false) ∧
    Valid s.nodes (s.highNode f) (cof φ (s.var f) true) ∧
    SuppGe φ (s.var f) ∧ DependsOn φ (s.var f) :=
  let ⟨a, b, c, d, e, _⟩ := accessors_spec hg vf hnt
  ⟨a, b, c, d, e⟩

/-- `top_cofactors(f, v)` for `v` at or above the top variable -/
theorem C08_top_cofactors {s : St} (hg : Good s) {r φ m r0 r1}
    (hr : Valid s.nodes r φ) (hs : SuppGe φ m) (h : topCofactors s r m = .ok (r0, r1)) :
    Valid s.nodes r0 (cof φ m false) ∧ Valid s.nodes r1 (cof φ m true) := topCofactors_spec hg hr hs h

/-- it terminates without panicking, storage capacity permitting: with enough fuel it returns or stops
with "Storage is full"; it never hits an `assert!` and never runs out of fuel -/
theorem C08_substitute_terminates {V fuel v : Nat} {b : Bool} {s : St} {f : Ref} {φ : Fn} (hg : Good s) (hV : VarsLe s V)
    (vf : Valid s.nodes f φ) (hv : v ≠ 0) (hfuel : lv s V f < fuel) :
    ((∃ s' r, substitute fuel s f v b [] = .ok (s', r)) ∨ (∃ s', substitute fuel s f v b [] = .error (.storageFull, s'))) ∧
    (∀ e s', substitute fuel s f v b [] = .error (e, s') → e = .storageFull) :=
  let ⟨a, _, c⟩ := substitute_total' (b := b) hg hV vf hv hfuel
  ⟨a, c⟩
theorem C08_substitute_multi_terminates {V fuel : Nat} {vals : Vals} {s : St} {f : Ref} {φ : Fn} (hg : Good s) (hV : VarsLe s V)
    (vf : Valid s.nodes f φ) (hfuel : lv s V f < fuel) :
    ((∃ s' r, substMulti fuel s f vals [] = .ok (s', r)) ∨ (∃ s', substMulti fuel s f vals [] = .error (.storageFull, s'))) ∧
    (∀ e s', substMulti fuel s f vals [] = .error (e, s') → e = .storageFull) :=
  let ⟨a, _, c⟩ := substMulti_total' (vals := vals) hg hV vf hfuel
  ⟨a, c⟩
theorem C08_cofactor_cube_terminates {V fuel : Nat} {cube : Vals} {s : St} {f : Ref} {φ : Fn} (hg : Good s) (hV : VarsLe s V)
    (vf : Valid s.nodes f φ) (hasc : cube.Pairwise (fun a b => a.1 < b.1)) (hfuel : lv s V f + cube.length < fuel) :
    ((∃ s' r, cofCube fuel s f cube [] = .ok (s', r)) ∨ (∃ s', cofCube fuel s f cube [] = .error (.storageFull, s'))) ∧
    (∀ e s', cofCube fuel s f cube [] = .error (e, s') → e = .storageFull) :=
  let ⟨a, _, c⟩ := cofCube_total' hg hV vf hasc hfuel
  ⟨a, c⟩

/-- non-vacuity -/
example : Good s4 ∧ Valid s4.nodes Ref.one (fun _ => true) ∧
    substitute 3 s4 Ref.one 2 true [] = .ok (s4, Ref.one, []) :=
  ⟨s4_good, Valid.one, by unfold substitute; simp [isTerminal, isOne]⟩

end P
#print axioms P.C08_substitute
#print axioms P.C08_substitute_multi
#print axioms P.C08_cofactor_cube
#print axioms P.C08_result_independent
#print axioms P.C08_identity_when_independent
#print axioms P.C08_entry_points_agree
#print axioms P.C08_multi_cube_agree
#print axioms P.C08_accessors
#print axioms P.C08_top_cofactors
#print axioms P.C08_substitute_terminates
#print axioms P.C08_substitute_multi_terminates
#print axioms P.C08_cofactor_cube_terminates

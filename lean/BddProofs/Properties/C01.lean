import BddProofs.Reach
import BddProofs.ErrGood
import BddProofs.Bits
import BddProofs.DriverGood
/-! # C01 — canonical form: handle equality is exactly Boolean-function equality

`Reachable s`: `s` is reached from a new manager (any storage / bucket / cache size) by any finite
history of public operations on live handles, collections with any live root list included
(`BddProofs/Reach.lean`).  `Valid s.nodes r φ`: `r` is a live handle of `s` denoting `φ` — handles
that a collection made unreachable have no denotation and are outside the property.  Every
construction route (mk_node bottom-up, ITE and connectives, cube/clause, cofactor / compose /
constrain / restrict, Expr evaluation) puts its result in `Valid` (C02, C03, C08–C11, C15). -/
namespace P

/-- at every moment of the manager's life: two live handles are equal iff they denote the same function -/
theorem C01_canonical {s : St} (hr : Reachable s) {r r' : Ref} {φ φ' : Fn}
    (v : Valid s.nodes r φ) (v' : Valid s.nodes r' φ') : r = r' ↔ φ = φ' := by
  have hg := reachable_good hr
  constructor
  · intro e; subst e; exact v.det hg.inv.noterm v'
  · intro e; subst e
    obtain ⟨d, h⟩ := v; obtain ⟨d', h'⟩ := v'
    exact canonicity hg.inv h h'

/-- the same for any state satisfying the invariant (what the other property files use) -/
theorem C01_canonical_good {s : St} (hg : Good s) {r r' : Ref} {φ φ' : Fn}
    (v : Valid s.nodes r φ) (v' : Valid s.nodes r' φ') : r = r' ↔ φ = φ' := by
  constructor
  · intro e; subst e; exact v.det hg.inv.noterm v'
  · intro e; subst e
    obtain ⟨d, h⟩ := v; obtain ⟨d', h'⟩ := v'
    exact canonicity hg.inv h h'

/-- negation is the free involution on handles: `-(-f) = f`, `f ≠ -f`, and `-f` denotes NOT f -/
theorem C01_negation (r : Ref) : r.not.not = r ∧ r ≠ r.not := by
  refine ⟨Ref.not_not r, ?_⟩
  intro e
  have := congrArg Ref.neg e
  cases h : r.neg <;> simp [Ref.not, h] at this
theorem C01_negation_denotes {nd r φ} (h : Valid nd r φ) : Valid nd r.not (fun e => !φ e) := h.not

/-- handles that survive a collection keep their meaning, and the state after the collection is
again reachable, so `C01_canonical` covers handles created after it as well -/
theorem C01_survives_collection {s s' : St} (hr : Reachable s) {roots : List Ref}
    (hl : ∀ r, r ∈ roots → Live' s r) (h : collectGarbage s roots = .ok s') :
    Reachable s' ∧ ∀ r φ, Valid s.nodes r φ → (r.idx = 1 ∨ r.idx ∈ descendants s roots) → Valid s'.nodes r φ := by
  have hg := reachable_good hr
  refine ⟨.gc hr hl h, ?_⟩
  exact (collect_spec hg (fun r hr' => let ⟨_, v⟩ := hl r hr'; Live.of_valid v) hg.rs h).2.2.2.1

/-- the same when the history contains operations that *failed* (a caught 'Storage is full' panic leaves
whatever the call had already built): `ReachableF` closes `Reachable` under failing operations as well -/
theorem C01_canonical_after_failures {s : St} (hr : ReachableF s) {r r' : Ref} {φ φ' : Fn}
    (v : Valid s.nodes r φ) (v' : Valid s.nodes r' φ') : r = r' ↔ φ = φ' :=
  C01_canonical_good (reachableF_good hr) v v'

/-- non-vacuity: a reachable state with two distinct live handles -/
example : Reachable s4 ∧ Valid s4.nodes Ref.one (fun _ => true) ∧ Valid s4.nodes Ref.zero (fun _ => false) :=
  ⟨.init (sb := 4) (bb := 4) (cb := 4) new4_ok, Valid.one, Valid.zero⟩

/-- the same on the packed 32-bit words the code really holds (`Ref(u32)`: `index << 1 | negated`,
negation = `^ 1`): for **every** word, negating twice gives the word back, negating never gives the
same word, and it flips the complement flag while keeping the index — so the word-level negation is the
model's `Ref.not` under the decoding `toRef` -/
theorem C01_negation_on_words (w : BitVec 32) :
    Bits.refNeg (Bits.refNeg w) = w ∧ Bits.refNeg w ≠ w ∧ Bits.toRef (Bits.refNeg w) = (Bits.toRef w).not := by
  refine ⟨Bits.refNeg_involutive w, Bits.refNeg_ne w, ?_⟩
  show (⟨(Bits.refIndex (Bits.refNeg w)).toNat, Bits.refIsNegated (Bits.refNeg w)⟩ : Ref) = _
  rw [Bits.refNeg_index, Bits.refNeg_isNegated]; rfl

/-- the packing is lossless exactly on the indices the constructor accepts: a model handle with
`idx < 2^31` and its word determine each other (`Ref::new(i, n).index() == i`, `.is_negated() == n`),
the word's numeric value is what the model hashes, and every word decodes to such a handle; at `2^31`
the packing really loses the index (`Bits.refNew_overflow`) -/
theorem C01_handle_words (r : Ref) (h : r.idx < 2147483648) (w : BitVec 32) :
    (Bits.toRef (Bits.ofRef r) = r ∧ (Bits.ofRef r).toNat = r.raw ∧ Bits.refNeg (Bits.ofRef r) = Bits.ofRef r.not) ∧
    (Bits.ofRef (Bits.toRef w) = w ∧ (Bits.toRef w).idx < 2147483648) :=
  ⟨Bits.toRef_ofRef r h, Bits.ofRef_toRef w⟩

/-- non-vacuity: the constant false is the word 3 -/
example : Bits.ofRef Ref.zero = 3#32 ∧ Bits.toRef 3#32 = Ref.zero := by decide


/-- **the states the correspondence check compares are states these theorems are about.**  The model
driver (`Main.lean`) runs every state-changing request through `exec` (`BddModel/Driver.lean`), which
first evaluates the request's precondition in the model's own state (handles name occupied cells, a
`mk_node` request is ordered, cube / clause literals are over distinct variables, a cube to cofactor by is
ascending) and refuses it otherwise.  Whatever list of requests it is sent — by the harness on the
unchanged tree, after a divergence on a changed one, or by anyone else — the manager it holds is, after
every request, a state in which handle equality is function equality (and the whole invariant `Good` of
the other property files holds, together with the size-memo invariant): the hypotheses of the property
theorems are *checked at run time, and the check is proved sufficient*, rather than assumed of the
generated histories. -/
theorem C01_every_driver_state {sb bb cb : Nat} {s0 : St} (h0 : St.newWith sb bb cb = .ok s0) (fuel : Nat)
    (reqs : List Req) :
    Good (runReqs fuel s0 reqs) ∧ SizeInv (runReqs fuel s0 reqs) ∧
    ∀ r r' φ φ', Valid (runReqs fuel s0 reqs).nodes r φ → Valid (runReqs fuel s0 reqs).nodes r' φ' →
      (r = r' ↔ φ = φ') :=
  have h := run_reqs_from_new h0 fuel reqs
  ⟨h.1, h.2, fun _ _ _ _ v v' => C01_canonical_good h.1 v v'⟩

/-- one accepted request is one step of the history closure (a success, a caught failure, nothing, or
an interrupted collection that only cleared caches); without interrupted collections the driver's state
is literally a `ReachableF` state -/
theorem C01_driver_step (fuel : Nat) {s : St} (r : Req) (hr : ReachableF s)
    (hnot : ∀ w roots, r ≠ .heldgc w roots) : ReachableF (exec fuel s r).state :=
  exec_reachableF fuel r hr hnot

/-- non-vacuity: a request with a dead handle is refused and changes nothing; a `var` request is run -/
example : (Req.and ⟨7, false⟩ Ref.one).ok s4 = false ∧ (exec 10 s4 (.and ⟨7, false⟩ Ref.one)).state = s4 ∧
    (Req.and Ref.zero Ref.one).ok s4 = true :=
  ⟨by decide, by unfold exec; rw [if_neg (by decide)]; rfl, by decide⟩

end P
#print axioms P.C01_canonical
#print axioms P.C01_canonical_good
#print axioms P.C01_negation
#print axioms P.C01_negation_denotes
#print axioms P.C01_survives_collection
#print axioms P.C01_canonical_after_failures
#print axioms P.reachable_good
#print axioms P.C01_negation_on_words
#print axioms P.C01_handle_words
#print axioms P.C01_every_driver_state
#print axioms P.C01_driver_step

import BddProofs.Arena
import BddProofs.Signal
/-! # C20 — eda: arena conversion preserves expressions; Signal encoding is lossless

Model: `BddModel/Eda.lean` — `A.Tree` (= `ExprBoxed`), `A.Layer` (= `Expr<T,N>`), `fromBoxed`
(breadth-first `expand_exprs`), `collapse` (the reverse `take().unwrap()` fold); `Sg.*` over `BitVec 32`.
`none` inside a value means the Rust code reaches `todo!()` (Xor/Ite in `eval`); the outer `some`
of `collapse` means no `unwrap` on `None` happens. -/
namespace A
variable {τ ρ : Type}

/-- flattening then folding computes the direct recursion, for every algebra and every tree -/
theorem C20_arena_round (alg : Layer τ ρ → ρ) (e : Tree τ) : collapse alg (fromBoxed e) = some (fold alg e) :=
  arena_round alg e

/-- the arena prints identically to the original tree -/
theorem C20_to_string (sh : τ → String) (e : Tree τ) : collapse (strAlg sh) (fromBoxed e) = some (e.toStr sh) :=
  arena_toString sh e

/-- the arena evaluates, over NOT/AND/OR, to the value obtained by direct recursion -/
theorem C20_eval (neg : ρ → ρ) (mul add : ρ → ρ → ρ) (e : Tree ρ) :
    collapse (evalAlg neg mul add) (fromBoxed e) = some (e.value neg mul add) :=
  arena_eval neg mul add e

/-- converting back yields an expression with the same value (negation involutive) -/
theorem C20_round_trip {neg : ρ → ρ} {mul add : ρ → ρ → ρ} (hinv : ∀ x, neg (neg x) = x) (e : Tree ρ) :
    ∃ b, collapse boxAlg (fromBoxed e) = some b ∧ b.value neg mul add = e.value neg mul add :=
  arena_toBoxed hinv e

/-- negating any expression, a bare term included, yields an expression whose value is the negation -/
theorem C20_not {neg : ρ → ρ} {mul add : ρ → ρ → ρ} (hinv : ∀ x, neg (neg x) = x) (t : Tree ρ) :
    (t.mkNot).value neg mul add = (t.value neg mul add).map neg :=
  value_mkNot hinv t

/-- non-vacuity / the pinned (pre-repair) `ExprBoxed::not` violates it on a bare term -/
example : (Tree.mkNot (.term (5 : Int))).value (fun x => -x) (· * ·) (· + ·) = some (-5) := rfl
example : (Tree.mkNotPinned (.term (5 : Int))).value (fun x => -x) (· * ·) (· + ·) = some 5 := rfl
end A

namespace Sg
/-- variable → signal → variable for indices up to 2^30-2 -/
theorem C20_var_round_trip (v : BitVec 32) (h : v ≤ 0x3FFFFFFE#32) : isVar (fromVar v) = true ∧ var (fromVar v) = v :=
  var_fromVar v h
/-- input → signal → input for indices up to 2^30-1 -/
theorem C20_input_round_trip (i : BitVec 32) (h : i ≤ 0x3FFFFFFF#32) : isInput (fromInput i) = true ∧ input (fromInput i) = i :=
  input_fromInput i h
/-- complementing flips only the polarity (index and class are kept), twice is the identity -/
theorem C20_not_polarity (s : BitVec 32) :
    index (not s) = index s ∧ isNegated (not s) = !isNegated s ∧ isConst (not s) = isConst s ∧
      isInput (not s) = isInput s ∧ isVar (not s) = isVar s ∧ not (not s) = s :=
  let ⟨a, b, c, d, e⟩ := not_flips_only_polarity s
  ⟨a, b, c, d, e, not_not s⟩
/-- every signal falls into exactly one of the classes constant / input / variable -/
theorem C20_classes (s : BitVec 32) :
    (isConst s = true ∧ isInput s = false ∧ isVar s = false) ∨
    (isConst s = false ∧ isInput s = true ∧ isVar s = false) ∨
    (isConst s = false ∧ isInput s = false ∧ isVar s = true) := classes_exclusive s
end Sg
#print axioms A.C20_arena_round
#print axioms A.C20_to_string
#print axioms A.C20_eval
#print axioms A.C20_round_trip
#print axioms A.C20_not
#print axioms Sg.C20_var_round_trip
#print axioms Sg.C20_input_round_trip
#print axioms Sg.C20_not_polarity
#print axioms Sg.C20_classes

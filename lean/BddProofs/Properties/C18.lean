import BddProofs.CacheTrace
import BddProofs.HashTwin
import BddProofs.Pairing
/-! # C18 — the operation cache never returns a value stored under a different key

Model: `P.Cache` (`BddModel/Cache.lean`), any key type with any `MyHash` (so forced collisions,
including distinct operation kinds with equal hashes, are covered by quantification), any number of
slots `2^bits`.  Histories are lists of `get / insert / clear` events run from a new cache. -/
namespace P
variable {κ ν : Type} [MyHash κ] [DecidableEq κ]

/-- a lookup after any history returns `v` for `k` exactly when the last write to `k`'s slot since
the last clear was `insert k v` -/
theorem C18_lookup_after_history (bits : Nat) (hist : List (Ev κ ν)) (k : κ) (v : ν) :
    ((run (Cache.new bits) hist).get k).2 = some v ↔
      ∃ pre post, hist = pre ++ Ev.insert k v :: post ∧ Ev.clear ∉ post ∧
        ∀ k' v', Ev.insert k' v' ∈ post → (Cache.new bits : Cache κ ν).index k' ≠ (Cache.new bits : Cache κ ν).index k := by
  rw [C18_get_lookup]
  exact C18_lookup_explicit (Cache.new_inRange bits) (Cache.new_empty bits) hist k v

/-- in particular: never a value inserted under another key -/
theorem C18_never_another_key (bits : Nat) (hist : List (Ev κ ν)) (k : κ) (v : ν)
    (h : ((run (Cache.new bits) hist).get k).2 = some v) :
    ∃ pre post, hist = pre ++ Ev.insert k v :: post ∧ Ev.clear ∉ post := by
  rw [C18_get_lookup] at h
  exact C18_never_other_key (Cache.new_inRange bits) (Cache.new_empty bits) h

/-- `clear` forgets everything -/
theorem C18_clear_forgets (bits : Nat) (hist : List (Ev κ ν)) (k : κ) :
    ((run (Cache.new bits) (hist ++ [Ev.clear])).get k).2 = none := by
  rw [C18_get_lookup]; exact C18_clear_run _ hist k

/-- hits + misses = number of lookups, faults ≤ misses -/
theorem C18_statistics (bits : Nat) (hist : List (Ev κ ν)) :
    (run (Cache.new bits : Cache κ ν) hist).hits + (run (Cache.new bits : Cache κ ν) hist).misses = lookups hist ∧
    (run (Cache.new bits : Cache κ ν) hist).faults ≤ (run (Cache.new bits : Cache κ ν) hist).misses :=
  C18_stats_new bits hist

/-- non-vacuity: a one-slot-per-collision history on a two-slot cache with colliding keys -/
example : ((run (Cache.new 1) demoHist).get ((1, 0) : UInt64 × UInt64)).2 = some 9 ∧
    ((run (Cache.new 1) demoHist).get ((0, 0) : UInt64 × UInt64)).2 = none := by decide

/-- the 64-bit pairing hash is **not** an identity of keys — two different ITE keys with equal hash,
machine-checked — so `get` must (and does, `C18_never_another_key`) compare the stored key itself -/
theorem C18_hash_is_not_identity : ∃ k₁ k₂ : OpKey, MyHash.hash k₁ = MyHash.hash k₂ ∧ k₁ ≠ k₂ :=
  ⟨_, _, hash_not_injective⟩


/-- … whereas on *pairs* of handles (the Constrain / Restrict keys) the hash does identify the key in every
manager the constructors admit: Szudzik's pairing is injective on naturals (`szudzikNat_injective`) and
nothing wraps for two words below `2^32 − 1`.  Collisions need the outer pairing of a third word -/
theorem C18_pair_hash_is_identity {f g f' g' : Ref}
    (hf : f.raw < 4294967295) (hg : g.raw < 4294967295) (hf' : f'.raw < 4294967295) (hg' : g'.raw < 4294967295)
    (h : (MyHash.hash (f, g) : UInt64) = MyHash.hash (f', g')) : f = f' ∧ g = g' :=
  pair_hash_injective hf hg hf' hg' h

end P
#print axioms P.C18_lookup_after_history
#print axioms P.C18_never_another_key
#print axioms P.C18_clear_forgets
#print axioms P.C18_statistics
#print axioms P.C18_hash_is_not_identity
#print axioms P.C18_pair_hash_is_identity

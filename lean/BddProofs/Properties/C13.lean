import BddProofs.Count
import BddProofs.TotalQuery
import BddProofs.CountCor
import BddProofs.CountStrong
import BddProofs.Init
import BddProofs.DriverQuery
/-! # C13 — `sat_count` is the exact number of satisfying assignments

`count φ n` = number of assignments to `x_1 … x_n` satisfying `φ` (recursion over the variables).
`BigUint` is modelled by `Nat`, so there is no precision bound; `(lo + hi) >>> 1` is exact.
Purity: `satCount fuel s f n : Except Fault Nat` takes the state and returns only a number. -/
namespace P

/-- for every function `f` whose variables lie in `1..n` (`SuppLt φ (n+1)`: `φ` depends only on variables
`≤ n`; variable 0 is never used), the procedure (memo per signed handle, `(lo + hi) / 2`, complement by
subtraction from `2^n`) returns exactly the number of assignments to `n` variables that satisfy `f` —
whatever else the manager stores -/
theorem C13_sat_count {n fuel s f φ c} (hg : Good s) (v : Valid s.nodes f φ) (hs : SuppLt φ (n + 1))
    (h : satCount fuel s f n = .ok c) : c = count φ n :=
  satCount_spec_strong hg v hs h

/-- `count(f) + count(NOT f) = 2^n` -/
theorem C13_complement (φ : Fn) (n : Nat) : count φ n + count (fun e => !φ e) n = 2 ^ n := count_compl φ n

/-- `count(f OR g) + count(f AND g) = count(f) + count(g)` -/
theorem C13_inclusion_exclusion (φ ψ : Fn) (n : Nat) :
    count (fun e => φ e || ψ e) n + count (fun e => φ e && ψ e) n = count φ n + count ψ n := count_or_and φ ψ n

/-- adding an unused variable doubles the count -/
theorem C13_unused_variable {φ : Fn} {n : Nat}
    (h : ∀ e e' : Env, (∀ w, w < n + 1 → e w = e' w) → φ e = φ e') : count φ (n + 1) = 2 * count φ n :=
  count_extend h

/-- it always returns (no assertion, no fuel exhaustion) — and returns the count -/
theorem C13_sat_count_total {fuel : Nat} {s : St} {n : Nat} {f : Ref} {φ : Fn} (hg : Good s)
    (v : Valid s.nodes f φ) (hV : VarsLe s n) (hfuel : lv s n f < fuel) :
    satCount fuel s f n = .ok (count φ n) := satCount_total_correct hg v hV hfuel

/-- non-vacuity -/
example : satCount 3 s4 Ref.one 5 = .ok 32 ∧ Good s4 := ⟨by rfl, s4_good⟩

/-- the same through the dispatcher the model driver really runs for queries (`execQuery`,
`BddModel/DriverQuery.lean`): an accepted `sat_count` query, whenever it returns, returns the count of the
function its handle denotes; with the variables bounded by `n` it does return — no hypothesis about the
handle left (`execQuery_paths`, `execQuery_onesat`, `execQuery_low_high`, `execQuery_dot` are the twins for
C14, C08 and C16) -/
theorem C13_driver_reply {fuel : Nat} {s : St} {f : Ref} {n : Nat} (hg : Good s)
    (hok : (Query.satcount f n).ok s = true) (hV : VarsLe s n) (hfuel : n + 1 < fuel) :
    ∃ φ, Valid s.nodes f φ ∧ execQuery fuel s (.satcount f n) = .count (.ok (count φ n)) :=
  execQuery_satcount_total hg hok hV hfuel

end P
#print axioms P.C13_sat_count
#print axioms P.C13_complement
#print axioms P.C13_inclusion_exclusion
#print axioms P.C13_unused_variable
#print axioms P.C13_sat_count_total
#print axioms P.C13_driver_reply

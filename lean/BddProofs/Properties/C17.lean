import BddProofs.Reach
import BddProofs.BitsFit
import BddProofs.ReachCap
/-! # C17 — the unique table is a sound hash-consing store under every put/collect history

Model: `P.Table α` (`BddModel/Table.lean`), generic in the value type with any `MyHash` (adversarial
hashes are covered by quantification), any bucket count `2^bucketBits ≥ 1`, any capacity.  The
invariant `TInv` (`BddProofs/TabView.lean`) is stated on the function view `t.toTab` of the arrays, with
a ghost list `chains b` per bucket: the `next` links from the bucket head spell exactly that list
(`Chain` is an inductive list, so chains are acyclic and end in 0), lists are duplicate-free and
contain only occupied cells `≥ 2` whose value hashes to that bucket, every occupied cell `≥ 2` is in the
list of its own bucket, cells 0 (sentinel) and 1 are occupied and in no chain, nothing is occupied above
`last_index`, every cell in `[1, min_free)` is occupied.  `RS`: `real_size` = number of occupied cells `≥ 1`. -/
namespace P
open Arr S

variable {α : Type} [Inhabited α] [DecidableEq α] [MyHash α]

/-- asking the store for a value returns the index of the one live cell holding it and changes nothing,
or — if there is none — a free cell (never 0, never a live one) that now holds the value; no other
cell's value or occupancy changes; the invariant holds again -/
theorem C17_put {t : Table α} (hw : t.Wf) {chains} (hI : TInv t.bhash t.toTab chains) {v : α} {t' i}
    (h : t.put v = .ok (t', i)) :
    t'.Wf ∧
    ((2 ≤ i ∧ rd t.occs i = true ∧ rd t.vals i = v ∧ t' = t) ∨
     ((∀ j, 2 ≤ j → rd t.occs j = true → rd t.vals j ≠ v) ∧ 2 ≤ i ∧ rd t.occs i = false ∧
      rd t'.occs = (fun j => if j = i then true else rd t.occs j) ∧
      rd t'.vals = (fun j => if j = i then v else rd t.vals j) ∧
      ∃ chains', TInv t'.bhash t'.toTab chains')) :=
  let ⟨a, _, _, _, e⟩ := Table.put_spec hw hI h
  ⟨a, e⟩

/-- distinct live values have distinct indices -/
theorem C17_distinct {t : Table α} {chains} (hI : TInv t.bhash t.toTab chains) {i j : Nat}
    (hi : 2 ≤ i) (hj : 2 ≤ j) (oi : rd t.occs i = true) (oj : rd t.occs j = true)
    (hv : rd t.vals i = rd t.vals j) : i = j := hI.distinct i j hi hj oi oj hv

/-- the live count stays equal to the number of occupied cells -/
theorem C17_live_count {t : Table α} (hw : t.Wf) {chains} (hI : TInv t.bhash t.toTab chains) (hrs : RS t)
    {v : α} {t' i} (h : t.put v = .ok (t', i)) : RS t' := Table.put_RS hw hI hrs h

/-- `put` fails only with "Storage is full" (the chain walk never runs out of fuel, never asserts) -/
theorem C17_put_failure {t : Table α} (hw : t.Wf) {chains} (hI : TInv t.bhash t.toTab chains) {v : α} {e}
    (h : t.put v = .error e) : e = .storageFull := Table.put_full hw hI h

/-- every live node is reachable through exactly one hash chain, the chain of its own hash; chains are
acyclic and contain no freed cell: this *is* `TInv`, spelled out -/
theorem C17_chains {t : Table α} {chains} (hI : TInv t.bhash t.toTab chains) :
    (∀ b, b < t.buckets.size → Chain (rd t.nxs) (rd t.buckets b) (chains b) ∧ (chains b).Nodup) ∧
    (∀ b, b < t.buckets.size → ∀ i, i ∈ chains b → 2 ≤ i ∧ rd t.occs i = true ∧ t.bhash (rd t.vals i) % t.buckets.size = b) ∧
    (∀ i, 2 ≤ i → rd t.occs i = true → i ∈ chains (t.bhash (rd t.vals i) % t.buckets.size)) :=
  ⟨fun b hb => ⟨hI.chain b hb, hI.nodup b hb⟩,
   fun b hb i hi => let ⟨a, _, c, d⟩ := hI.mem b hb i hi; ⟨a, c, d⟩,
   hI.complete⟩

/-- the sweep of a collection — for an *arbitrary* survivor marking (dead head, dead runs, dead tail,
everything dead), any number of buckets — terminates without panicking, re-establishes the invariant
with every chain filtered to its survivors, frees exactly the dead chained cells, keeps the live count -/
theorem C17_sweep {t : Table Node} (hw : t.Wf) {chains} (hI : TInv t.bhash t.toTab chains) (hrs : RS t)
    (mark : Array Bool) (hm : mark.size ≤ t.vals.size) (fuel : Nat) (hfuel : t.vals.size + 1 ≤ fuel) :
    ∃ t', sweepFrom mark fuel t.buckets.size 0 t = .ok t' ∧ t'.Wf ∧
      TInv t'.bhash t'.toTab (fun b => (chains b).filter (aliveOf mark)) ∧
      (∀ i, rd t'.occs i =
        (rd t.occs i && !(decide (∃ b, b < t.buckets.size ∧ i ∈ chains b) && !(rd mark i)))) ∧
      RS t' :=
  let ⟨t', a, b, c, d, _, f⟩ := sweep_full hw hI hrs mark hm fuel hfuel
  ⟨t', a, b, c, d, f⟩

/-- and all of it holds in every state a manager can reach, before and after any number of collections -/
theorem C17_every_reachable_state {s : St} (hr : Reachable s) :
    s.storage.Wf ∧ (∃ chains, TInv s.storage.bhash s.storage.toTab chains) ∧ RS s.storage :=
  let hg := reachable_good hr
  ⟨hg.wf, hg.tinv, hg.rs⟩

/-- non-vacuity: a new table of any size satisfies the invariant -/
example : (initTable 4 0).Wf ∧ TInv (initTable 4 0).bhash (initTable 4 0).toTab (fun _ => []) ∧ RS (initTable 4 0) :=
  ⟨initTable_wf 4 0, initTable_tinv (by decide), initTable_RS (by decide)⟩

/-- the link of a cell and its occupied flag share one 32-bit word (`Entry::next`: 31 bits of index,
bit 0 = occupied).  The word behaves as the pair the model keeps: writing the link (any value the
assertion of `set_next` admits, `< 2^31`) reads back and leaves the flag alone; writing the flag reads
back and leaves the link alone — for every word -/
theorem C17_cell_word (w n : BitVec 32) (b : Bool) (h : n.toNat < 2147483648) :
    Bits.entNext (Bits.entSetNext w n) = n ∧ Bits.entOccupied (Bits.entSetNext w n) = Bits.entOccupied w ∧
    Bits.entOccupied (Bits.entSetOccupied w b) = b ∧ Bits.entNext (Bits.entSetOccupied w b) = Bits.entNext w :=
  ⟨Bits.entNext_setNext w n h, Bits.entOccupied_setNext w n h, Bits.entOccupied_setOccupied w b,
   Bits.entNext_setOccupied w b⟩

/-- … and nothing a manager stores needs more than those 31 bits: in every good state with at most
`2^31` cells (the constructors reject more: `newWith_cap`), the cell of every stored node, the cells
both its children name, its chain link and every bucket head are below `2^31` -/
theorem C17_words_fit {s : St} (hg : Good s) (hcap : s.storage.vals.size ≤ 2147483648) :
    (∀ i n, s.nodes i = some n →
        i < 2147483648 ∧ n.low.idx < 2147483648 ∧ n.high.idx < 2147483648 ∧
        Arr.rd s.storage.nxs i < 2147483648) ∧
    (∀ b, b < s.storage.buckets.size → Arr.rd s.storage.buckets b < 2147483648) :=
  Good.words_fit hg hcap

/-- non-vacuity: a fresh entry is free and unlinked; a new manager has at most `2^31` cells -/
example : Bits.entNext 0#32 = 0#32 ∧ Bits.entOccupied 0#32 = false ∧ s4.storage.vals.size ≤ 2147483648 :=
  ⟨Bits.ent_fresh.1, Bits.ent_fresh.2, newWith_cap new4_ok⟩


/-- … unconditionally for every state a history can reach (successes and caught failures): no operation
changes the capacity of the table (`FrameCap.lean`: a syntactic induction over every operation, error
results included), a new manager has at most `2^31` cells, hence the packed words never lose an index -/
theorem C17_words_fit_every_state {s : St} (hr : ReachableF s) :
    s.storage.vals.size ≤ 2147483648 ∧
    (∀ i n, s.nodes i = some n →
        i < 2147483648 ∧ n.low.idx < 2147483648 ∧ n.high.idx < 2147483648 ∧
        Arr.rd s.storage.nxs i < 2147483648) ∧
    (∀ b, b < s.storage.buckets.size → Arr.rd s.storage.buckets b < 2147483648) :=
  have hc := reachableF_cap hr
  ⟨hc, Good.words_fit (reachableF_good hr) hc⟩

end P
#print axioms P.C17_put
#print axioms P.C17_distinct
#print axioms P.C17_live_count
#print axioms P.C17_put_failure
#print axioms P.C17_chains
#print axioms P.C17_sweep
#print axioms P.C17_every_reachable_state
#print axioms P.C17_cell_word
#print axioms P.C17_words_fit
#print axioms P.C17_words_fit_every_state

import BddProofs.Alloc
import BddProofs.Reach
import BddProofs.ErrGood
/-! # C06 — collection reclaims exactly the dead nodes and freed storage is reused

`real_size` (`realSize`) is the number of stored nodes (terminal included), `size()` (`lastIndex`) the
high-water mark of used slots, `capacity` = `vals.size`.  `RS`: `realSize` = number of occupied cells `≥ 1`
— a field of `Good`, so it holds in every reachable state. -/
namespace P
open Arr S

/-- immediately after a collection the number of stored nodes equals the number of nodes reachable from
the roots, terminal included -/
theorem C06_exactly_the_dead {s s' : St} (hg : Good s) {roots : List Ref} (hlive : ∀ r, r ∈ roots → Live s r.idx)
    (h : collectGarbage s roots = .ok s') : s'.storage.realSize = (descendants s roots).length :=
  collect_exact hg hlive hg.rs h

/-- the occupied cells after a collection are exactly the sentinel and the reachable nodes -/
theorem C06_occupied_after {s s' : St} (hg : Good s) {roots : List Ref} (hlive : ∀ r, r ∈ roots → Live s r.idx)
    (h : collectGarbage s roots = .ok s') : ∀ i, rd s'.storage.occs i = true ↔ (i = 0 ∨ i ∈ descendants s roots) :=
  collect_occ hg hlive hg.rs h

/-- freed storage is reused before the table grows: a node that has to be stored goes into the LOWEST
free cell; the high-water mark moves — by one — only when every cell `1..last_index` is occupied -/
theorem C06_reuse {s : St} (hg : Good s) {n : Node} {s' i} (h : s.put n = .ok (s', i))
    (hfree : rd s.storage.occs i = false) :
    (∀ j, 1 ≤ j → j < i → rd s.storage.occs j = true) ∧
    s'.storage.lastIndex = (if i > s.storage.lastIndex then i else s.storage.lastIndex) ∧
    (s.storage.lastIndex < i → i = s.storage.lastIndex + 1) :=
  let ⟨_, _, c, d, e, _⟩ := St.put_fresh hg h hfree
  ⟨c, d, e⟩

/-- the collector itself never moves the high-water mark and lowers `min_free` to the first freed cell -/
theorem C06_collection_keeps_mark {s s' : St} (hg : Good s) {roots : List Ref} (hlive : ∀ r, r ∈ roots → Live s r.idx)
    (h : collectGarbage s roots = .ok s') :
    s'.storage.lastIndex = s.storage.lastIndex ∧
    (∀ i, 1 ≤ i → i < s'.storage.minFree → rd s'.storage.occs i = true) :=
  ⟨(collect_spec hg hlive hg.rs h).2.2.2.2.2.2.2, (collect_minFree hg hlive hg.rs h).1⟩

/-- hence the high-water mark always equals the peak number of simultaneously stored nodes: one step
(`put`) takes the running maximum, and for a whole put/collect history of the table the mark is the
maximum of all live counts seen -/
theorem C06_highwater_step {s : St} (hg : Good s) {n : Node} {s' i} (h : s.put n = .ok (s', i)) :
    s'.storage.lastIndex = max s.storage.lastIndex s'.storage.realSize := St.put_highwater hg h

theorem C06_highwater_history {α : Type} [Inhabited α] [DecidableEq α] [MyHash α] {t : Table α} {l : List Nat}
    (h : Table.Hist t l) : t.lastIndex = peakOf l := (Table.Hist.highwater h).2

theorem C06_live_count_below_mark {s : St} (hr : Reachable s) : s.storage.realSize ≤ s.storage.lastIndex :=
  good_realSize_le (reachable_good hr)

/-- a workload whose live set fits in the table can run indefinitely: while fewer than `capacity - 1`
nodes are stored, storing a node cannot fail … -/
theorem C06_fits {s : St} (hg : Good s) {v : Nat} (hv : v ≠ 0)
    (hroom : s.storage.realSize + 1 < s.storage.vals.size) (low high : Ref) :
    ∃ s' r, mkNode s v low high = .ok (s', r) := mkNode_fits hg hv hroom low high

/-- … and if capacity really is exceeded the manager stops with its 'Storage is full' panic — raised
only when every cell is occupied — leaving the state untouched (nothing is overwritten) -/
theorem C06_full {s : St} (hg : Good s) {v : Nat} (hv : v ≠ 0) {low high : Ref} {e s'}
    (h : mkNode s v low high = .error (e, s')) :
    e = .storageFull ∧ s' = s ∧ (∀ j, 1 ≤ j → j < s.storage.vals.size → rd s.storage.occs j = true) ∧
    s.storage.realSize + 1 = s.storage.vals.size := mkNode_full_occupied hg hv h

/-- the manager keeps working after the caught panic: the state a failing operation leaves behind (it may
have built nodes before running out of cells) satisfies every invariant, old handles keep their meaning,
and so does every state reached from it by further operations, failures and collections -/
theorem C06_after_caught_panic {s s' : St} (hg : Good s) (h : StepErr s s') :
    Good s' ∧ Sub s.nodes s'.nodes := StepErr.post hg h

theorem C06_histories_with_failures {s : St} (h : ReachableF s) : Good s := reachableF_good h

/-- storing a node never overwrites a stored node -/
theorem C06_no_overwrite {s : St} (hg : Good s) {n : Node} {s' i} (h : s.put n = .ok (s', i)) :
    ∀ j, rd s.storage.occs j = true → rd s'.storage.occs j = true ∧ rd s'.storage.vals j = rd s.storage.vals j :=
  St.put_no_overwrite hg h

/-- non-vacuity: a collection on a concrete good state (the D6 witness for the pinned `alloc`, which
bumped `last_index` before the capacity check, is in `BddProofs/TabView.lean`: `Tab.allocPinned`, `fullTab`) -/
example : ∃ s', collectGarbage s4 [] = .ok s' ∧ s'.storage.realSize = 1 := by
  obtain ⟨s', h, _, _, e⟩ := collect_s4
  exact ⟨s', h, e⟩

end P
#print axioms P.C06_exactly_the_dead
#print axioms P.C06_occupied_after
#print axioms P.C06_reuse
#print axioms P.C06_collection_keeps_mark
#print axioms P.C06_highwater_step
#print axioms P.C06_highwater_history
#print axioms P.C06_live_count_below_mark
#print axioms P.C06_fits
#print axioms P.C06_full
#print axioms P.C06_no_overwrite
#print axioms P.C06_after_caught_panic
#print axioms P.C06_histories_with_failures

import BddProofs.Reach
import BddProofs.SizeGc
/-! # C04 — every diagram is a reduced, ordered, complement-edge BDD of minimal size

`NInv` (`BddProofs/Canon.lean`) is the structural invariant of the node set: no two stored cells
carry the same (variable, else, then) triple; cell 1 (the terminal) is not a decision node; the
'then' edge is regular; 'then' ≠ 'else'; both children are the terminal or stored nodes with a
strictly larger variable.  It is part of `Good`, hence holds at every step of every
operation/collection history (`reachable_good`), for every stored node — in particular for every
node reachable from a live handle. -/
namespace P

theorem C04_structure {s : St} (hr : Reachable s) :
    (∀ i j n, s.nodes i = some n → s.nodes j = some n → i = j) ∧            -- no duplicate triple
    s.nodes 1 = none ∧                                                      -- the only terminal is cell 1
    (∀ i n, s.nodes i = some n → n.high.neg = false) ∧                      -- regular 'then' edge
    (∀ i n, s.nodes i = some n → n.low ≠ n.high) ∧                          -- reduced
    (∀ i n, s.nodes i = some n → TopGe s.nodes n.low (n.var + 1) ∧ TopGe s.nodes n.high (n.var + 1)) ∧  -- ordered
    (∀ i n, s.nodes i = some n → n.var ≠ 0) := by
  have hg := reachable_good hr
  exact ⟨hg.inv.uniq, hg.inv.noterm, hg.inv.highReg, hg.inv.reduced,
    fun i n h => ⟨hg.inv.ordLow i n h, hg.inv.ordHigh i n h⟩, hg.var0⟩

/-- the nodes reachable from `f` other than the terminal are in bijection with the distinct
non-constant sub-functions of `f` modulo complement that the function itself determines
(`SubFn φ ψ`: `ψ` is the regularised cofactor of `φ` by an assignment to a prefix of the variable
order, and is not constant): `i ↦ regFn s i` is injective on them and onto the sub-functions -/
theorem C04_nodes_are_subfunctions {s : St} (hg : Good s) {f : Ref} {φ : Fn} (vf : Valid s.nodes f φ) :
    let L := (descendants s [f]).filter (· ≠ 1)
    L.Nodup ∧ (descendants s [f]).length = L.length + 1 ∧
    (∀ i, i ∈ L → Valid s.nodes ⟨i, false⟩ (regFn s i) ∧ SubFn φ (regFn s i)) ∧
    (∀ i j, i ∈ L → j ∈ L → regFn s i = regFn s j → i = j) ∧
    (∀ ψ, SubFn φ ψ → ∃ i, i ∈ L ∧ regFn s i = ψ) := subfn_bijection hg vf

/-- consequently the reported size of `f` (terminal included) is one more than the number of those
sub-functions, in every reachable state (cache hit or miss: no size-cache entry is ever stale) -/
theorem C04_size_is_number_of_subfunctions {s : St} (hr : Reachable s) {f : Ref} {φ : Fn} (vf : Valid s.nodes f φ)
    (M : List Fn) (hnd : M.Nodup) (hM : ∀ ψ, ψ ∈ M ↔ SubFn φ ψ) : (size s f).2 = M.length + 1 :=
  size_spec (reachable_good hr) (reachable_sizeInv hr).sizeOk vf M hnd hM

/-- … is the same for `f` and `NOT f` … -/
theorem C04_size_of_negation {s : St} (hr : Reachable s) (f : Ref) : (size s f.not).2 = (size s f).2 :=
  size_not (reachable_sizeInv hr).sizeOk f

/-- … and never changes while `f` is live: operations only add nodes (`Sub`), and a collection keeps
everything reachable from a live `f` -/
theorem C04_size_stable {s s' : St} (hr : Reachable s) (hr' : Reachable s') (hsub : Sub s.nodes s'.nodes)
    (f : Ref) (hf : Live s f.idx) : (size s' f).2 = (size s f).2 := by
  rw [size_val (reachable_sizeInv hr').sizeOk, size_val (reachable_sizeInv hr).sizeOk]
  exact descendants_length_sub (reachable_good hr) (reachable_good hr') hsub f hf

/-- … also across a collection that `f` survives: exactly the nodes reachable from `f` are kept, unchanged -/
theorem C04_size_stable_across_collection {s s' : St} (hr : Reachable s) {roots : List Ref}
    (hl : ∀ r, r ∈ roots → Live' s r) (h : collectGarbage s roots = .ok s')
    (f : Ref) (hf : f.idx = 1 ∨ f.idx ∈ descendants s roots) : (size s' f).2 = (size s f).2 :=
  size_collect (reachable_good hr) (reachable_sizeInv hr).sizeOk
    (fun r hr' => let ⟨_, v⟩ := hl r hr'; Live.of_valid v) h f hf

/-- non-vacuity -/
example : Reachable s4 ∧ (size s4 Ref.one).2 = 1 := ⟨.init (sb := 4) (bb := 4) (cb := 4) new4_ok, by rfl⟩

end P
#print axioms P.C04_structure
#print axioms P.C04_nodes_are_subfunctions
#print axioms P.C04_size_is_number_of_subfunctions
#print axioms P.C04_size_of_negation
#print axioms P.C04_size_stable
#print axioms P.C04_size_stable_across_collection

import BddProofs.Bracket
import BddProofs.QueryFrame
import BddProofs.BracketText
import BddProofs.DotText
import BddProofs.Dot
import BddProofs.SubFn
import BddProofs.IteConst
import BddProofs.Init
/-! # C16 — exports are faithful and every query leaves the manager untouched

The exports are modelled as structured values (`BTree` for the bracket string, `DotRec`/`RootKind`
records for DOT) plus renderers to the exact text; the theorems are about the structured values, the
text layer is tied to the code by the differential check (which also re-parses both texts with an
independent reader).  Purity: the model functions of `sat_count`, `one_sat`, `paths`, `descendants`,
the accessors and both exports take the state and return *no* state — they cannot change anything by
construction; the three queries that do return a state are covered below. -/
namespace P

/-- re-reading the bracket export — every `@i:(xv, hi, lo)` defines index `i` once as its regular
function, back references `@i` / `~@i` must already be defined — yields the handle's function -/
theorem C16_bracket_faithful {fuel : Nat} {s : St} {f : Ref} {φ : Fn} {d : Nat} (hg : Good s)
    (h : Den s.nodes d f φ) (hd : d < fuel) :
    ∃ D', evalB (nodeToStr fuel s f []).1 (fun _ => none) = some (φ, D') ∧ DefsOk s D' :=
  bracket_faithful hg h hd

/-- DOT declares every reachable decision node exactly once, each record decodes to exactly the
stored (variable, else, then) triple with its complement marks, the root edges decode to the root
handles (duplicates and constants included); together with C01 the described functions are the
original ones -/
theorem C16_dot_faithful {s : St} (hg : Good s) (roots : List Ref) (hlive : ∀ r, r ∈ roots → Live s r.idx) :
    ((toDot s roots).1.map (·.id)).Nodup ∧
    (∀ i, i ∈ (toDot s roots).1.map (·.id) ↔ (i ≠ 1 ∧ RI s (roots.map Ref.idx) i)) ∧
    (∀ r, r ∈ (toDot s roots).1 → s.nodes r.id = some r.decode) ∧
    (toDot s roots).2.map RootKind.decode = roots :=
  let ⟨a, b, c, _, e⟩ := toDot_faithful hg roots hlive
  ⟨a, b, c, e⟩

/-- producing DOT never fails on a good state (the `assert!(!high.is_negated())` cannot fire) -/
theorem C16_dot_total {s : St} (hg : Good s) (roots : List Ref) (hlive : ∀ r, r ∈ roots → Live s r.idx) :
    renderDot s roots = .ok (renderDotLines s roots) := renderDot_ok hg roots hlive

/-- `size` creates or removes no node and leaves the operation cache alone; the size cache stays correct -/
theorem C16_size_pure {s : St} (hs : SizeOk s) (f : Ref) :
    (size s f).1.storage = s.storage ∧ (size s f).1.cache = s.cache ∧ SizeOk (size s f).1 :=
  let ⟨a, b, c, _⟩ := size_pure hs f
  ⟨a, b, c⟩

/-- `ite_constant` / `is_implies` create or remove no node and change no cache content -/
theorem C16_ite_constant_pure {fuel : Nat} {s : St} {f g h : Ref} {φf φg φh : Fn} {s' : St} {o : Option Bool}
    (hg : Good s) (vf : Valid s.nodes f φf) (vg : Valid s.nodes g φg) (vh : Valid s.nodes h φh)
    (hres : iteConstant fuel s f g h = .ok (s', o)) :
    s'.storage = s.storage ∧ s'.sizeCache = s.sizeCache ∧ ∀ k, s'.cache.lookup k = s.cache.lookup k :=
  (iteConstant_spec hg vf vg vh hres).2

/-- non-vacuity -/
example : Good s4 ∧ (∀ r, r ∈ [Ref.one, Ref.zero] → Live s4 r.idx) := by
  refine ⟨s4_good, ?_⟩
  intro r hr
  simp at hr
  rcases hr with rfl | rfl <;> exact Or.inl rfl

/-- the bracket *text* determines the structured value: re-reading `render t` gives `t` back -/
theorem C16_bracket_text_faithful (t : BTree) : parseBracket t.render = some t := parseBracket_render t

/-- hence two bracket trees with the same text are equal -/
theorem C16_bracket_text_injective {t₁ t₂ : BTree} (h : t₁.render = t₂.render) : t₁ = t₂ :=
  BTree.render_injective h

/-- the DOT *text* determines the structured value: on a good state with live roots the export
succeeds, and re-reading its lines (`readDot`: `(id, var)` from the label lines, `(id, hi)` / `(id, low)`
from the edge lines, the handles from the root declarations, the kinds from the root edges) gives back
exactly the records, the root handles and the root kinds of `toDot` -/
theorem C16_dot_text_faithful {s : St} (hg : Good s) (roots : List Ref)
    (hlive : ∀ r, r ∈ roots → Live s r.idx) :
    ∃ lines, renderDot s roots = .ok lines ∧
      readDot lines = { recs := (toDot s roots).1, roots := roots, rootKinds := (toDot s roots).2 } :=
  ⟨_, renderDot_ok hg roots hlive, readDot_render_good hg roots hlive⟩

/-- hence two exports with the same text have the same structured value and the same root handles -/
theorem C16_dot_text_injective {s s' : St} (hg : Good s) (hg' : Good s') {roots roots' : List Ref}
    (hlive : ∀ r, r ∈ roots → Live s r.idx) (hlive' : ∀ r, r ∈ roots' → Live s' r.idx)
    (h : renderDotLines s roots = renderDotLines s' roots') :
    toDot s roots = toDot s' roots' ∧ roots = roots' :=
  dotText_determines_good hg hg' hlive hlive' h

/-- every query is a function of the cells below its argument only: two managers that agree there
give the same count, the same bracket string and the same cubes — so no operation in between (which
can only add cells or free unreachable ones) changes a later result -/
theorem C16_queries_read_only_their_cone {s s' : St} {f : Ref} (h : AgreeBelow s s' f) (fuel numVars : Nat) :
    satCount fuel s' f numVars = satCount fuel s f numVars ∧
    toBracketString fuel s' f = toBracketString fuel s f ∧
    paths fuel s' f = paths fuel s f :=
  ⟨satCount_frame h fuel numVars, toBracketString_frame h fuel, paths_frame h fuel⟩

end P
#print axioms P.C16_bracket_faithful
#print axioms P.C16_dot_faithful
#print axioms P.C16_dot_total
#print axioms P.C16_size_pure
#print axioms P.C16_ite_constant_pure
#print axioms P.C16_bracket_text_faithful
#print axioms P.C16_bracket_text_injective
#print axioms P.C16_dot_text_faithful
#print axioms P.C16_dot_text_injective
#print axioms P.C16_queries_read_only_their_cone

import BddProofs.Derived
import BddProofs.Total3
import BddProofs.Cube
import BddProofs.Clause
import BddProofs.Init
import BddProofs.Bits
/-! # C15 — constructors build the function they name

All of them return canonical handles: the results are `Valid` in a `Good` state, where handle
equality is function equality (C01). -/
namespace P

/-- `mk_var(v)` denotes the projection on variable `v` -/
theorem C15_mk_var {s : St} (hg : Good s) {v : Nat} {s' r} (h : mkVar s v = .ok (s', r)) :
    Good s' ∧ Sub s.nodes s'.nodes ∧ Valid s'.nodes r (fun e => e v) := mkVar_spec hg h

/-- `mk_node(v, e, t)` with `v` smaller than every variable of `e` and `t` (stated semantically: both
functions ignore the variables `≤ v`) denotes `if x_v then t else e`, for regular, complemented and
constant children alike -/
theorem C15_mk_node {s : St} (hg : Good s) {v low high φ0 φ1}
    (h0 : Valid s.nodes low φ0) (h1 : Valid s.nodes high φ1)
    (s0 : SuppGe φ0 (v + 1)) (s1 : SuppGe φ1 (v + 1)) {s' r}
    (h : mkNode s v low high = .ok (s', r)) :
    Good s' ∧ Sub s.nodes s'.nodes ∧ Valid s'.nodes r (fun e => if e v then φ1 e else φ0 e) :=
  let ⟨a, b, _, d⟩ := mkNode_spec hg h0 h1 s0 s1 h
  ⟨a, b, d⟩

/-- `mk_node(v, e, e)` returns `e` itself and stores nothing -/
theorem C15_mk_node_same (s : St) (v : Nat) (e : Ref) (hv : v ≠ 0) : mkNode s v e e = .ok (s, e) := by
  unfold mkNode
  rw [if_neg hv]
  by_cases hn : e.neg = true
  · rw [if_pos hn]; simp [mkNodeReg]
  · rw [if_neg hn]; simp [mkNodeReg]

/-- `cube(literals)` over distinct variables denotes the conjunction of the literals, in whatever
order they are listed -/
theorem C15_cube {s : St} (hg : Good s) {lits : List Lit} (hd : (lits.map (·.1)).Nodup) {s' r}
    (h : cube s lits = .ok (s', r)) :
    Good s' ∧ Sub s.nodes s'.nodes ∧ Valid s'.nodes r (fun e => lits.all (litHolds e)) := cube_spec hg hd h

/-- `clause(literals)` over distinct variables denotes the disjunction of the literals -/
theorem C15_clause {s : St} (hg : Good s) {lits : List Lit} (hd : (lits.map (·.1)).Nodup) {s' r}
    (h : clause s lits = .ok (s', r)) :
    Good s' ∧ Sub s.nodes s'.nodes ∧ Valid s'.nodes r (fun e => lits.any (litHolds e)) := clause_spec hg hd h

/-- `cube([]) = true`, `clause([]) = false` -/
theorem C15_empty (s : St) : cube s [] = .ok (s, Ref.one) ∧ clause s [] = .ok (s, Ref.zero) :=
  ⟨by simp [cube, sortLits, cubeFold], clause_nil s⟩

/-- `cube` / `clause` over non-zero variables never panic except for "Storage is full" (also when
variables repeat); a literal 0 is rejected by the code's assertion -/
theorem C15_cube_terminates {V : Nat} {s : St} (hg : Good s) (hV : VarsLe s V) {lits : List Lit}
    (h0 : ∀ l, l ∈ lits → l.1 ≠ 0) (hle : ∀ l, l ∈ lits → l.1 ≤ V) :
    ((∃ s' r, cube s lits = .ok (s', r)) ∨ (∃ s', cube s lits = .error (.storageFull, s'))) ∧
    (∀ e s', cube s lits = .error (e, s') → e = .storageFull) :=
  let ⟨a, _, c⟩ := cube_total hg hV h0 hle
  ⟨a, c⟩
theorem C15_clause_terminates {V : Nat} {s : St} (hg : Good s) (hV : VarsLe s V) {lits : List Lit}
    (h0 : ∀ l, l ∈ lits → l.1 ≠ 0) (hle : ∀ l, l ∈ lits → l.1 ≤ V) :
    ((∃ s' r, clause s lits = .ok (s', r)) ∨ (∃ s', clause s lits = .error (.storageFull, s'))) ∧
    (∀ e s', clause s lits = .error (e, s') → e = .storageFull) :=
  let ⟨a, _, c⟩ := clause_total hg hV h0 hle
  ⟨a, c⟩

/-- non-vacuity: `mk_var(1)` in a fresh manager succeeds, so all hypotheses are inhabited -/
example : ∃ s' r, mkVar s4 1 = .ok (s', r) ∧ Good s' ∧ Valid s'.nodes r (fun e => e 1) := by
  have h : ∃ s' r, mkVar s4 1 = .ok (s', r) := ⟨_, _, by rfl⟩
  obtain ⟨s', r, h⟩ := h
  exact ⟨s', r, h, (mkVar_spec s4_good h).1, (mkVar_spec s4_good h).2.2⟩

/-- literals are `i32` in the code and unbounded integers in the model.  For every literal other than 0
and `i32::MIN` the two readings coincide: the variable `cube` / `clause` hand to `mk_node`
(`-lit as u32` for a negative literal, `lit as u32` otherwise) is the absolute value of the literal, and
the branch taken (`lit < 0`) is its sign.  `i32::MIN` is a real exception (`Bits.lit_min_witness`;
DESIGN §10) -/
theorem C15_literal_words (lit : BitVec 32) (h0 : lit.toNat ≠ 0) (hmin : lit.toNat ≠ 2147483648) :
    (Bits.litVar lit).toNat = lit.toInt.natAbs ∧ (!Bits.litIsNeg lit) = decide (0 < lit.toInt) :=
  Bits.lit_word_is_int lit h0 hmin

/-- non-vacuity, at the largest variable a literal can name -/
example : (Bits.litVar (BitVec.ofInt 32 (-2147483647))).toNat = 2147483647 ∧
    Bits.litIsNeg (BitVec.ofInt 32 (-2147483647)) = true := by decide

end P
#print axioms P.C15_mk_var
#print axioms P.C15_mk_node
#print axioms P.C15_mk_node_same
#print axioms P.C15_cube
#print axioms P.C15_clause
#print axioms P.C15_empty
#print axioms P.C15_cube_terminates
#print axioms P.C15_clause_terminates
#print axioms P.C15_literal_words

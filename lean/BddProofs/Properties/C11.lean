import BddProofs.Restrict
import BddProofs.Total
import BddProofs.RestrictSem
import BddProofs.Init
/-! # C11 — restrict simplifies `f` on a care set without adding variables

The standard Coudert–Madre recursion is written once over *functions* as the inductive relation
`RestrictRel f g h` (`BddProofs/Sem.lean`): five terminal rules, then on the first variable `v`
either argument depends on: empty `v=1` half of `g` ⇒ recurse on the `v=0` halves (sibling
substitution), empty `v=0` half ⇒ the other, `f` depends on `v` ⇒ node of the two restricts,
otherwise existential abstraction `restrict f (g₁ ∨ g₀)`. -/
namespace P

/-- the procedure computes exactly the Coudert–Madre recursion, for every cache state satisfying the
invariant (Constrain and Restrict entries with equal hashes share slots; a hit is returned only on
key equality, C18) -/
theorem C11_coudert_madre (fuel : Nat) (s : St) (f g : Ref) (φf φg : Fn) (s' : St) (r : Ref)
    (hg : Good s) (vf : Valid s.nodes f φf) (vg : Valid s.nodes g φg)
    (h : restrict fuel s f g = .ok (s', r)) :
    Good s' ∧ Sub s.nodes s'.nodes ∧ ∃ hfn, Valid s'.nodes r hfn ∧ RestrictRel φf φg hfn :=
  restrict_spec fuel s f g φf φg s' r hg vf vg h

/-- the recursion determines its result: no memo state can change the answer -/
theorem C11_functional {f g h h' : Fn} (r : RestrictRel f g h) (r' : RestrictRel f g h') : h = h' :=
  r.functional r'

/-- it agrees with `f` wherever `g` holds -/
theorem C11_agrees_on_care {f g h : Fn} (r : RestrictRel f g h) (e : Env) (he : g e = true) : h e = f e :=
  r.care e he

/-- it depends only on variables `f` depends on (stated for every variable threshold) -/
theorem C11_no_new_variables {f g h : Fn} (r : RestrictRel f g h) (m : Nat) (hf : SuppGe f m) : SuppGe h m :=
  r.supp m hf

/-- it is 1 when `g ≠ 0` implies `f` -/
theorem C11_one_when_implied {f g h : Fn} (r : RestrictRel f g h) (hg : g ≠ fun _ => false)
    (hle : ∀ e, g e = true → f e = true) : h = fun _ => true :=
  r.of_le hg hle

/-- the terminal conventions: `restrict(f,0)=0`, `restrict(f,1)=f`, constant `f`, `f=g ↦ 1`, `f=¬g ↦ 0` -/
theorem C11_terminal_cases {f g h : Fn} (r : RestrictRel f g h) :
    (g = (fun _ => false) → h = fun _ => false) ∧
    (g = (fun _ => true) → h = f) ∧
    (g ≠ (fun _ => false) → IsConst f → h = f) ∧
    (g ≠ (fun _ => false) → f = g → h = fun _ => true) ∧
    (g ≠ (fun _ => false) → f = FnNot g → h = fun _ => false) :=
  r.terminal

/-- `restrict(f, false) = false` by convention, on handles -/
theorem C11_false (fuel : Nat) (s : St) (f : Ref) : restrict (fuel + 1) s f Ref.zero = .ok (s, Ref.zero) := by
  unfold restrict; simp [isZero]

/-- it terminates without panicking, storage capacity permitting: with enough fuel it returns or stops
with "Storage is full"; it never hits an `assert!` and never runs out of fuel -/
theorem C11_restrict_terminates {V fuel : Nat} {s : St} {f g : Ref} {φf φg : Fn} (hg : Good s) (hV : VarsLe s V)
    (vf : Valid s.nodes f φf) (vg : Valid s.nodes g φg)
    (hfuel : lv s V f + lv s V g + (3 * (V + 1) * (V + 2) + V) < fuel) :
    ((∃ s' r, restrict fuel s f g = .ok (s', r)) ∨ (∃ s', restrict fuel s f g = .error (.storageFull, s'))) ∧
    (∀ e s', restrict fuel s f g = .error (e, s') → e = .storageFull) :=
  let ⟨a, _, c⟩ := restrict_terminates hg hV vf vg hfuel
  ⟨a, c⟩

/-- non-vacuity -/
example : ∃ s' r, restrict 5 s4 Ref.one Ref.one = .ok (s', r) ∧ Good s4 ∧ Valid s4.nodes Ref.one (fun _ => true) :=
  ⟨s4, Ref.one, by unfold restrict; simp [isZero, isOne, Ref.one, Ref.zero], s4_good, Valid.one⟩
example : RestrictRel (fun e => e 1) (fun _ => true) (fun e => e 1) := .gone _

end P
#print axioms P.C11_coudert_madre
#print axioms P.C11_functional
#print axioms P.C11_agrees_on_care
#print axioms P.C11_no_new_variables
#print axioms P.C11_one_when_implied
#print axioms P.C11_terminal_cases
#print axioms P.C11_false
#print axioms P.C11_restrict_terminates

import BddProofs.RawOps
import BddProofs.RawGetMut
/-! # C19 — RawTable behaves as a hash map and stays memory-safe under every history

Model: `R.Raw` (`BddModel/Raw.lean`): slots FREE / DEAD / `full status key value`; outcomes `ok`,
`hang` (a probe loop that would spin forever), `ub` (uninitialised read, `unwrap_unchecked` on
`None`), `panic` (`debug_assert!` in a debug build, `unreachable!`).  Keys carry an arbitrary hash
`hashOf : κ → Nat`; `dbg` selects the debug-assertion build.  `abs t : κ → Option ν` is the map the
table represents.  `opFits`/`fits` are the `usize` memory bounds (`len + 2 ≤ 2^63`). -/
namespace R
variable {κ ν : Type} [DecidableEq κ] (hashOf : κ → Nat) (dbg : Bool)

/-- no safe call loops forever, reads uninitialised memory or trips an assertion — in both builds -/
theorem C19_memory_safe {t : Raw κ ν} (hI : RInvFull hashOf t) (op : Op κ ν) (hfit : opFits op t.len) :
    step hashOf dbg op t ≠ .hang ∧ step hashOf dbg op t ≠ .ub ∧ step hashOf dbg op t ≠ .panic :=
  C19_safe hashOf dbg hI op hfit

/-- every call keeps the invariant (counters included: `len` = number of full slots, `free` ≤ number
of FREE slots, a FREE slot always remains) and acts on the represented map as the map operation -/
theorem C19_behaves_as_map {t t' : Raw κ ν} (hI : RInvFull hashOf t) (op : Op κ ν) (hfit : opFits op t.len)
    (h : step hashOf dbg op t = .ok t') :
    RInvFull hashOf t' ∧ ∀ k, abs t' k = mapStep op (abs t) k :=
  C19_refines hashOf dbg hI op hfit h

/-- after any history from a new table the invariant holds and the table represents the map that
history builds -/
theorem C19_every_history (ops : List (Op κ ν)) (hfit : fits ops 0) :
    ∃ t, run hashOf dbg ops (Raw.new : Raw κ ν) = .ok t ∧ RInvFull hashOf t ∧
      ∀ k, abs t k = mapRun ops (fun _ => none) k :=
  C19_reach hashOf dbg ops hfit

/-- a present key is found with its latest value, an absent key is reported absent -/
theorem C19_lookup {t : Raw κ ν} (hI : RInvFull hashOf t) (k : κ) : get hashOf dbg t k = .ok (abs t k) :=
  get_spec hashOf dbg hI k

/-- `insert` reports presence correctly and the reported length equals the number of keys present -/
theorem C19_insert {t : Raw κ ν} (hI : RInvFull hashOf t) (hb : t.len + 2 ≤ 2 ^ 63) (k : κ) (v : ν) :
    ∃ t' r, insert hashOf dbg t k v = .ok (t', r) ∧ RInvFull hashOf t' ∧
      (∀ k', abs t' k' = if k' = k then some v else abs t k') ∧
      (abs t k ≠ none → (∃ i, r = .ok i) ∧ t'.len = t.len) ∧
      (abs t k = none → (∃ p, r = .error p) ∧ t'.len = t.len + 1) :=
  let ⟨t', r, a, b, c, d, e, _⟩ := insert_spec hashOf dbg hI hb k v
  ⟨t', r, a, b, c, d, e⟩

/-- iteration yields each stored value exactly once and nothing else; `len` is the number of keys -/
theorem C19_iteration {t : Raw κ ν} (hI : RInvFull hashOf t) {ks' : List κ} (nd : ks'.Nodup)
    (hk : ∀ k, k ∈ ks' ↔ abs t k ≠ none) :
    ∃ vs, iter dbg t = .ok vs ∧ (vs.map some).Perm (ks'.map (abs t)) ∧ ks'.length = t.len :=
  iter_perm hashOf dbg hI nd hk

/-- non-vacuity: the new table satisfies the invariant, and the memory bound holds for every
history shorter than 2^63 -/
example : RInvFull hashOf (Raw.new : Raw κ ν) := new_inv hashOf
example (ops : List (Op κ ν)) (h : ops.length + 2 ≤ 2 ^ 63) (hr : ∀ a, Op.reserve a ∈ ops → ops.length + a ≤ 2 ^ 63) :
    fits ops 0 := fits_of_bound ops 0 (by omega) (fun a ha => by have := hr a ha; omega)


/-- `get_mut`: finds exactly what `get` finds (returns the present value, `None` for an absent key), and a
write through the returned reference replaces the value of that key and nothing else; counters and the
invariant are untouched -/
theorem C19_get_mut {t : Raw κ ν} (hI : RInvFull hashOf t) (k : κ) (v : ν) :
    ∃ t', getMut hashOf dbg t k v = .ok (t', abs t k) ∧ RInvFull hashOf t' ∧ t'.len = t.len ∧
      (∀ k', abs t' k' = if k' = k ∧ abs t k ≠ none then some v else abs t k') :=
  getMut_spec hashOf dbg hI k v

end R
#print axioms R.C19_memory_safe
#print axioms R.C19_behaves_as_map
#print axioms R.C19_every_history
#print axioms R.C19_lookup
#print axioms R.C19_insert
#print axioms R.C19_iteration
#print axioms R.C19_get_mut

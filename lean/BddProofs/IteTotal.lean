import BddProofs.Constrain
/-! `apply_ite` terminates and hits no assertion (C02, totality half) on the real store.
Measure: (level f + level g + level h, variable of f), lexicographic, where the level of a
handle is `V + 1 - var` (0 for terminals).  The only failure left is "Storage is full"
(raised by `mk_node` when the table has no free cell). -/
namespace P
open Arr

def VarsLe (s : St) (V : Nat) : Prop := ∀ i n, s.nodes i = some n → n.var ≤ V

def lv (s : St) (V : Nat) (r : Ref) : Nat := if s.var r = 0 then 0 else V + 1 - s.var r

def mu (s : St) (V : Nat) (f g h : Ref) : Nat := (lv s V f + lv s V g + lv s V h) * (V + 2) + s.var f

theorem mu_lt_of_sum_lt {S' S x' x V : Nat} (hS : S' < S) (hx : x' ≤ V) : S' * (V + 2) + x' < S * (V + 2) + x := by
  have : (S' + 1) * (V + 2) ≤ S * (V + 2) := Nat.mul_le_mul_right _ hS
  rw [Nat.succ_mul] at this
  omega

theorem lv_not (s : St) (V : Nat) (r : Ref) : lv s V r.not = lv s V r := rfl

theorem idx_of_terminal {r : Ref} (h : isTerminal r = true) : r.idx = 1 := by
  simp only [isTerminal, Bool.or_eq_true] at h
  rcases h with h | h
  · rw [isOne_eq h]; rfl
  · rw [isZero_eq h]; rfl

theorem var_terminal {s : St} (hg : Good s) {r : Ref} (h : isTerminal r = true) : s.var r = 0 :=
  hg.var_terminal (idx_of_terminal h)

theorem lv_one {s : St} (hg : Good s) (V : Nat) : lv s V Ref.one = 0 := by
  simp [lv, var_terminal hg (r := Ref.one) (by simp [isTerminal, isOne])]
theorem lv_zero {s : St} (hg : Good s) (V : Nat) : lv s V Ref.zero = 0 := by
  simp [lv, var_terminal hg (r := Ref.zero) (by simp [isTerminal, isZero, isOne, Ref.one, Ref.zero])]
theorem var_one {s : St} (hg : Good s) : s.var Ref.one = 0 := var_terminal hg (by simp [isTerminal, isOne])
theorem var_zero {s : St} (hg : Good s) : s.var Ref.zero = 0 :=
  var_terminal hg (by simp [isTerminal, isZero, isOne, Ref.one, Ref.zero])

theorem var_bounds {s : St} (hg : Good s) {V} (hV : VarsLe s V) {r φ} (v : Valid s.nodes r φ)
    (hnt : isTerminal r = false) : 1 ≤ s.var r ∧ s.var r ≤ V := by
  obtain ⟨n, hn, hv, h0⟩ := nonterm_stored hg v hnt
  rw [hv]; exact ⟨by omega, hV _ _ hn⟩

/-- the variable read for a live handle is within the bound (terminals read 0) -/
theorem var_le {s : St} (hg : Good s) {V} (hV : VarsLe s V) {r φ} (v : Valid s.nodes r φ) : s.var r ≤ V := by
  rcases valid_stored v with e | ⟨n, hn⟩
  · rw [hg.var_terminal e]; omega
  · rw [St.var_of hn]; exact hV _ _ hn

theorem lv_pos {s : St} (hg : Good s) {V} (hV : VarsLe s V) {r φ} (v : Valid s.nodes r φ)
    (hnt : isTerminal r = false) : 1 ≤ lv s V r := by
  have := var_bounds hg hV v hnt
  simp only [lv]; rw [if_neg (by omega)]; omega

/-- levels only depend on the stored node, so they survive store extension -/
theorem var_mono {s s' : St} (hg : Good s) (hg' : Good s') (hs : Sub s.nodes s'.nodes) {r φ}
    (v : Valid s.nodes r φ) : s'.var r = s.var r := by
  rcases valid_stored v with e | ⟨n, hn⟩
  · rw [hg.var_terminal e, hg'.var_terminal e]
  · rw [St.var_of hn, St.var_of (hs _ _ hn)]

/-- `top_cofactors` cannot fail on a live handle when `m` is at or above its top variable, and the
level of the results never exceeds — and at `m = var` strictly undercuts — the level of the handle -/
theorem topCofactors_total {s : St} (hg : Good s) {V} (hV : VarsLe s V) {r φ m} (v : Valid s.nodes r φ)
    (hm0 : m ≠ 0) (hm : s.var r ≠ 0 → m ≤ s.var r) :
    ∃ r0 r1, topCofactors s r m = .ok (r0, r1) ∧ lv s V r0 ≤ lv s V r ∧ lv s V r1 ≤ lv s V r ∧
      (s.var r = m → lv s V r0 < lv s V r ∧ lv s V r1 < lv s V r) := by
  unfold topCofactors
  rw [if_neg hm0]
  by_cases ht : isTerminal r = true
  · rw [if_pos ht]
    exact ⟨r, r, rfl, Nat.le_refl _, Nat.le_refl _, fun h => absurd ((var_terminal hg ht).symm.trans h).symm hm0⟩
  rw [if_neg ht]
  have hnt : isTerminal r = false := by simpa using ht
  obtain ⟨n, hn, hvn, hn0⟩ := nonterm_stored hg v hnt
  have hmle := hm (by omega)
  by_cases hlt : m < s.var r
  · rw [if_pos hlt]
    exact ⟨r, r, rfl, Nat.le_refl _, Nat.le_refl _, fun h => by omega⟩
  rw [if_neg hlt]
  have hmv : m = s.var r := by omega
  rw [if_neg (by simpa using hmv)]
  -- children have a strictly larger variable or are terminal
  have child : ∀ c : Ref, TopGe s.nodes c (n.var + 1) → lv s V c < lv s V r ∧ lv s V c.not < lv s V r := by
    intro c hc
    have hvr : s.var r ≤ V := hvn ▸ hV _ _ hn
    have hlr : lv s V r = V + 1 - s.var r := by simp only [lv]; rw [if_neg (by omega)]
    rw [lv_not, hlr]
    rcases hc with e | ⟨mm, hmm, hle⟩
    · have : s.var c = 0 := hg.var_terminal e
      simp only [lv, this, ↓reduceIte]; omega
    · have hvc : s.var c = mm.var := St.var_of hmm
      have := hV _ _ hmm
      simp only [lv, hvc]; rw [if_neg (by omega)]; omega
  have hlow : s.low r.idx = n.low := St.low_of hn
  have hhigh : s.high r.idx = n.high := St.high_of hn
  have cl := child n.low (hg.inv.ordLow _ _ hn)
  have ch := child n.high (hg.inv.ordHigh _ _ hn)
  rw [hlow, hhigh]
  by_cases hneg : r.neg = true
  · rw [if_pos hneg]
    exact ⟨_, _, rfl, Nat.le_of_lt cl.2, Nat.le_of_lt ch.2, fun _ => ⟨cl.2, ch.2⟩⟩
  · rw [if_neg hneg]
    exact ⟨_, _, rfl, Nat.le_of_lt cl.1, Nat.le_of_lt ch.1, fun _ => ⟨cl.1, ch.1⟩⟩

theorem mkNodeReg_varsLe {s : St} (hg : Good s) {V v low high s' r} (hV : VarsLe s V) (hv : v ≤ V)
    (h : mkNodeReg s v low high = .ok (s', r)) : VarsLe s' V := by
  unfold mkNodeReg at h
  by_cases hne : low = high
  · rw [if_pos hne] at h
    simp only [Except.ok.injEq, Prod.mk.injEq] at h
    rw [← h.1]; exact hV
  · rw [if_neg hne] at h
    cases hp : s.put ⟨v, low, high⟩ with
    | error e => rw [hp] at h; cases h
    | ok p =>
      obtain ⟨s1', i⟩ := p
      rw [hp] at h
      simp only [Except.ok.injEq, Prod.mk.injEq] at h
      obtain ⟨rfl, rfl⟩ := h
      obtain ⟨-, -, -, -, hcases, -⟩ := put_spec hg _ hp
      intro j n hn
      rcases hcases _ _ hn with hn' | ⟨-, rfl⟩
      · exact hV _ _ hn'
      · exact hv

theorem mkNode_varsLe {s : St} (hg : Good s) {V v low high s' r} (hV : VarsLe s V) (hv : v ≤ V)
    (h : mkNode s v low high = .ok (s', r)) : VarsLe s' V := by
  unfold mkNode at h
  by_cases hv0 : v = 0
  · rw [if_pos hv0] at h; cases h
  rw [if_neg hv0] at h
  by_cases hneg : high.neg = true
  · rw [if_pos hneg] at h
    cases hm : mkNodeReg s v low.not high.not with
    | error e => rw [hm] at h; cases h
    | ok p =>
      obtain ⟨s1', r1⟩ := p
      rw [hm] at h
      simp only [Except.ok.injEq, Prod.mk.injEq] at h
      rw [← h.1]
      exact mkNodeReg_varsLe hg hV hv hm
  · rw [if_neg hneg] at h
    exact mkNodeReg_varsLe hg hV hv h

/-- `mk_node` on a non-zero variable either succeeds or reports "Storage is full" (state untouched) -/
theorem mkNode_total {s : St} (hg : Good s) {v : Nat} (hv : v ≠ 0) (low high : Ref) :
    (∃ s' r, mkNode s v low high = .ok (s', r)) ∨ mkNode s v low high = .error (.storageFull, s) := by
  cases hm : mkNode s v low high with
  | ok p => obtain ⟨s', r⟩ := p; exact Or.inl ⟨s', r, rfl⟩
  | error p =>
    obtain ⟨e, s'⟩ := p
    obtain ⟨rfl, rfl⟩ := mkNode_err hg hv hm
    exact Or.inr rfl

theorem mu_lt_of_var_lt {S' S x' x V : Nat} (hS : S' = S) (hx : x' < x) : S' * (V + 2) + x' < S * (V + 2) + x := by
  subst hS; omega

theorem min3_pos {i j k : Nat} (hi : i ≠ 0) : min3 i j k ≠ 0 := by
  unfold min3
  by_cases hj : j = 0 <;> by_cases hk : k = 0 <;> simp [hj, hk] <;> omega

theorem min3_attained (i j k : Nat) : min3 i j k = i ∨ (j ≠ 0 ∧ min3 i j k = j) ∨ (k ≠ 0 ∧ min3 i j k = k) := by
  unfold min3
  by_cases hj : j = 0 <;> by_cases hk : k = 0 <;> simp [hj, hk] <;> omega

/-- the outcome of a total call: a result (variables still bounded), or "Storage is full" -/
def TotalOut (V : Nat) (x : Res (St × Ref)) : Prop :=
  (∃ s' r, x = .ok (s', r) ∧ VarsLe s' V) ∨ (∃ s', x = .error (.storageFull, s'))

def RecTotal (V : Nat) (fuel : Nat) (rec : Rec) : Prop :=
  ∀ s f g h φf φg φh, Good s → VarsLe s V → Valid s.nodes f φf → Valid s.nodes g φg → Valid s.nodes h φh →
    mu s V f g h < fuel → TotalOut V (rec s f g h)

theorem iteCore_total {V fuel : Nat} {rec : Rec} (hrec : RecTotal V fuel rec) (hspec : RecSpec rec)
    {s : St} (hg : Good s) (hV : VarsLe s V) {f g h : Ref} {a b c : Fn} {m : Nat}
    (vf : Valid s.nodes f a) (vg : Valid s.nodes g b) (vh : Valid s.nodes h c)
    (hm0 : m ≠ 0) (hmV : m ≤ V)
    (hmf : s.var f ≠ 0 → m ≤ s.var f) (hmg : s.var g ≠ 0 → m ≤ s.var g) (hmh : s.var h ≠ 0 → m ≤ s.var h)
    (hatt : s.var f = m ∨ s.var g = m ∨ s.var h = m)
    (hS : ∀ S' x', S' < lv s V f + lv s V g + lv s V h → x' ≤ V → S' * (V + 2) + x' < fuel) :
    TotalOut V (iteCore rec s f g h m) := by
  unfold iteCore
  cases hc : (s.cacheGet (.ite f g h)).2 with
  | some res => exact Or.inl ⟨_, res, rfl, hV⟩
  | none =>
    simp only
    -- continue in the state after the cache probe (same storage, counters bumped)
    have hg0 := hg.cacheGet (.ite f g h)
    have hV0 : VarsLe (s.cacheGet (.ite f g h)).1 V := hV
    have vf0' : Valid (s.cacheGet (.ite f g h)).1.nodes f a := vf
    have vg0' : Valid (s.cacheGet (.ite f g h)).1.nodes g b := vg
    have vh0' : Valid (s.cacheGet (.ite f g h)).1.nodes h c := vh
    have hmf0 : (s.cacheGet (.ite f g h)).1.var f ≠ 0 → m ≤ (s.cacheGet (.ite f g h)).1.var f := hmf
    have hmg0 : (s.cacheGet (.ite f g h)).1.var g ≠ 0 → m ≤ (s.cacheGet (.ite f g h)).1.var g := hmg
    have hmh0 : (s.cacheGet (.ite f g h)).1.var h ≠ 0 → m ≤ (s.cacheGet (.ite f g h)).1.var h := hmh
    have hatt0 : (s.cacheGet (.ite f g h)).1.var f = m ∨ (s.cacheGet (.ite f g h)).1.var g = m ∨
        (s.cacheGet (.ite f g h)).1.var h = m := hatt
    have hS0 : ∀ S' x', S' < lv (s.cacheGet (.ite f g h)).1 V f + lv (s.cacheGet (.ite f g h)).1 V g +
        lv (s.cacheGet (.ite f g h)).1 V h → x' ≤ V → S' * (V + 2) + x' < fuel := hS
    clear hS hatt hmf hmg hmh vf vg vh hV
    generalize (s.cacheGet (.ite f g h)).1 = s0 at *
    clear hc hg s
    rw [if_neg hm0]
    obtain ⟨f0, f1, ef, lf0, lf1, sf⟩ := topCofactors_total hg0 hV0 vf0' hm0 hmf0
    obtain ⟨g0, g1, eg, lg0, lg1, sg⟩ := topCofactors_total hg0 hV0 vg0' hm0 hmg0
    obtain ⟨h0, h1, eh, lh0, lh1, sh⟩ := topCofactors_total hg0 hV0 vh0' hm0 hmh0
    simp only [ef, eg, eh]
    have sa : SuppGe a m := supp_of_var hg0 vf0' hmf0
    have sb : SuppGe b m := supp_of_var hg0 vg0' hmg0
    have sc : SuppGe c m := supp_of_var hg0 vh0' hmh0
    obtain ⟨vf0, vf1⟩ := topCofactors_spec hg0 vf0' sa ef
    obtain ⟨vg0, vg1⟩ := topCofactors_spec hg0 vg0' sb eg
    obtain ⟨vh0, vh1⟩ := topCofactors_spec hg0 vh0' sc eh
    -- both cofactor triples have a strictly smaller level sum
    have sum0 : lv s0 V f0 + lv s0 V g0 + lv s0 V h0 < lv s0 V f + lv s0 V g + lv s0 V h := by
      rcases hatt0 with e | e | e
      · have := (sf e).1; omega
      · have := (sg e).1; omega
      · have := (sh e).1; omega
    have sum1 : lv s0 V f1 + lv s0 V g1 + lv s0 V h1 < lv s0 V f + lv s0 V g + lv s0 V h := by
      rcases hatt0 with e | e | e
      · have := (sf e).2; omega
      · have := (sg e).2; omega
      · have := (sh e).2; omega
    rcases hrec s0 f0 g0 h0 _ _ _ hg0 hV0 vf0 vg0 vh0 (hS0 _ _ sum0 (var_le hg0 hV0 vf0)) with
      ⟨s1, e, e1, hV1⟩ | ⟨s1, e1⟩
    rotate_left
    · simp only [e1]; exact Or.inr ⟨_, rfl⟩
    obtain ⟨g1', sub1, ve⟩ := hspec _ _ _ _ _ _ _ _ _ hg0 vf0 vg0 vh0 e1
    simp only [e1]
    have lvs1 : ∀ {x φ}, Valid s0.nodes x φ → lv s1 V x = lv s0 V x := by
      intro x φ vx; simp only [lv, var_mono hg0 g1' sub1 vx]
    have hmu1 : mu s1 V f1 g1 h1 < fuel := by
      simp only [mu, lvs1 vf1, lvs1 vg1, lvs1 vh1]
      exact hS0 _ _ sum1 (var_le g1' hV1 (vf1.mono sub1))
    rcases hrec s1 f1 g1 h1 _ _ _ g1' hV1 (vf1.mono sub1) (vg1.mono sub1) (vh1.mono sub1) hmu1 with
      ⟨s2, t, e2, hV2⟩ | ⟨s2, e2⟩
    rotate_left
    · simp only [e2]; exact Or.inr ⟨_, rfl⟩
    obtain ⟨g2', sub2, vt⟩ := hspec _ _ _ _ _ _ _ _ _ g1' (vf1.mono sub1) (vg1.mono sub1) (vh1.mono sub1) e2
    simp only [e2]
    rcases mkNode_total g2' hm0 e t with ⟨s3, res, e3⟩ | e3
    · simp only [e3]
      refine Or.inl ⟨_, _, rfl, ?_⟩
      have := mkNode_varsLe g2' hV2 hmV e3
      intro i n hn; exact this i n hn
    · simp only [e3]; exact Or.inr ⟨_, rfl⟩


theorem not_terminal_of {r : Ref} (h1 : isOne r = false) (h0 : isZero r = false) : isTerminal r = false := by
  simp [isTerminal, h1, h0]

theorem applyIte_total (V : Nat) : ∀ fuel, RecTotal V fuel (applyIte fuel) := by
  intro fuel
  induction fuel with
  | zero => intro s f g h _ _ _ _ _ _ _ _ hmu; omega
  | succ fuel ih =>
    intro s f g h φf φg φh hg hV vf vg vh hmu
    have h1 := hg.inv.noterm
    have done : ∀ x, TotalOut V (.ok (s, x) : Res (St × Ref)) :=
      fun x => Or.inl ⟨s, x, rfl, hV⟩
    -- a recursive call on a triple with smaller measure
    have recur : ∀ {f2 g2 h2 a b c}, Valid s.nodes f2 a → Valid s.nodes g2 b → Valid s.nodes h2 c →
        mu s V f2 g2 h2 < mu s V f g h → TotalOut V (applyIte fuel s f2 g2 h2) := by
      intro f2 g2 h2 a b c va vb vc hlt
      exact ih s f2 g2 h2 a b c hg hV va vb vc (by omega)
    have lv1 := lv_one hg V
    have lv0 := lv_zero hg V
    unfold applyIte
    by_cases c1 : isOne f = true
    · rw [if_pos c1]; exact done _
    rw [if_neg c1]
    by_cases c2 : isZero f = true
    · rw [if_pos c2]; exact done _
    rw [if_neg c2]
    have hfnt : isTerminal f = false := not_terminal_of (by simpa using c1) (by simpa using c2)
    have hfv := var_bounds hg hV vf hfnt
    have hfl := lv_pos hg hV vf hfnt
    by_cases c3 : g = h
    · rw [if_pos c3]; exact done _
    rw [if_neg c3]
    by_cases c4 : (isOne g && isZero h) = true
    · rw [if_pos c4]; exact done _
    rw [if_neg c4]
    by_cases c5 : (isZero g && isOne h) = true
    · rw [if_pos c5]; exact done _
    rw [if_neg c5]
    by_cases c6 : (isOne g && decide (h = f.not)) = true
    · rw [if_pos c6]; exact done _
    rw [if_neg c6]
    by_cases c7 : (decide (g = f) && isOne h) = true
    · rw [if_pos c7]; exact done _
    rw [if_neg c7]
    by_cases c8 : (decide (g = f.not) && isZero h) = true
    · rw [if_pos c8]; exact done _
    rw [if_neg c8]
    by_cases c9 : (isZero g && decide (h = f)) = true
    · rw [if_pos c9]; exact done _
    rw [if_neg c9]
    -- standard triples: a non-constant argument becomes a constant
    by_cases d1 : g = f
    · rw [if_pos d1]
      apply recur vf Valid.one vh
      subst d1
      simp only [mu, lv1]
      exact mu_lt_of_sum_lt (by omega) hfv.2
    rw [if_neg d1]
    by_cases d2 : h = f
    · rw [if_pos d2]
      apply recur vf vg Valid.zero
      subst d2
      simp only [mu, lv0]
      exact mu_lt_of_sum_lt (by omega) hfv.2
    rw [if_neg d2]
    by_cases d3 : g = f.not
    · rw [if_pos d3]
      apply recur vf Valid.zero vh
      subst d3
      simp only [mu, lv0, lv_not]
      exact mu_lt_of_sum_lt (by omega) hfv.2
    rw [if_neg d3]
    by_cases d4 : h = f.not
    · rw [if_pos d4]
      apply recur vf vg Valid.one
      subst d4
      simp only [mu, lv1, lv_not]
      exact mu_lt_of_sum_lt (by omega) hfv.2
    rw [if_neg d4]
    simp only
    rw [if_neg (by omega : ¬ s.var f = 0)]
    -- which of g, h can still be terminal
    have g_one : isOne g = true → isZero h = false ∧ isOne h = false := by
      intro hgo
      refine ⟨by cases hh : isZero h <;> simp_all, ?_⟩
      cases hh : isOne h with
      | false => rfl
      | true => exact absurd ((isOne_eq hgo).trans (isOne_eq hh).symm) c3
    have g_zero : isZero g = true → isZero h = false ∧ isOne h = false := by
      intro hgz
      refine ⟨?_, by cases hh : isOne h <;> simp_all⟩
      cases hh : isZero h with
      | false => rfl
      | true => exact absurd ((isZero_eq hgz).trans (isZero_eq hh).symm) c3
    have h_one : isOne h = true → isZero g = false ∧ isOne g = false := by
      intro hho
      refine ⟨by cases hh : isZero g <;> simp_all, ?_⟩
      cases hh : isOne g with
      | false => rfl
      | true => exact absurd ((isOne_eq hh).trans (isOne_eq hho).symm) c3
    have h_zero : isZero h = true → isZero g = false ∧ isOne g = false := by
      intro hhz
      refine ⟨?_, by cases hh : isOne g <;> simp_all⟩
      cases hh : isZero g with
      | false => rfl
      | true => exact absurd ((isZero_eq hh).trans (isZero_eq hhz).symm) c3
    -- equivalent pairs: the first argument's variable strictly decreases
    by_cases p1 : (isOne g && decide (s.var h < s.var f)) = true
    · rw [if_pos p1]
      simp only [Bool.and_eq_true, decide_eq_true_eq] at p1
      have hnt := not_terminal_of (g_one p1.1).2 (g_one p1.1).1
      have hv := var_bounds hg hV vh hnt
      rw [if_neg (by omega : ¬ s.var h = 0)]
      apply recur vh Valid.one vf
      rw [isOne_eq p1.1]
      simp only [mu, lv1]
      exact mu_lt_of_var_lt (by omega) p1.2
    rw [if_neg p1]
    by_cases p2 : (isZero h && decide (s.var g < s.var f)) = true
    · rw [if_pos p2]
      simp only [Bool.and_eq_true, decide_eq_true_eq] at p2
      have hnt := not_terminal_of (h_zero p2.1).2 (h_zero p2.1).1
      have hv := var_bounds hg hV vg hnt
      rw [if_neg (by omega : ¬ s.var g = 0)]
      apply recur vg vf Valid.zero
      rw [isZero_eq p2.1]
      simp only [mu, lv0]
      exact mu_lt_of_var_lt (by omega) p2.2
    rw [if_neg p2]
    by_cases p3 : (isOne h && decide (s.var g < s.var f)) = true
    · rw [if_pos p3]
      simp only [Bool.and_eq_true, decide_eq_true_eq] at p3
      have hnt := not_terminal_of (h_one p3.1).2 (h_one p3.1).1
      have hv := var_bounds hg hV vg hnt
      rw [if_neg (by omega : ¬ s.var g = 0)]
      apply recur vg.not vf.not Valid.one
      rw [isOne_eq p3.1]
      simp only [mu, lv1, lv_not, var_not]
      exact mu_lt_of_var_lt (by omega) p3.2
    rw [if_neg p3]
    by_cases p4 : (isZero g && decide (s.var h < s.var f)) = true
    · rw [if_pos p4]
      simp only [Bool.and_eq_true, decide_eq_true_eq] at p4
      have hnt := not_terminal_of (g_zero p4.1).2 (g_zero p4.1).1
      have hv := var_bounds hg hV vh hnt
      rw [if_neg (by omega : ¬ s.var h = 0)]
      apply recur vh.not Valid.zero vf.not
      rw [isZero_eq p4.1]
      simp only [mu, lv0, lv_not, var_not]
      exact mu_lt_of_var_lt (by omega) p4.2
    rw [if_neg p4]
    by_cases p5 : (decide (g = h.not) && decide (s.var g < s.var f)) = true
    · rw [if_pos p5]
      simp only [Bool.and_eq_true, decide_eq_true_eq] at p5
      have hgh := p5.1
      -- g is not terminal: otherwise (g, h) would be (1,0) or (0,1)
      have hgno : isOne g = false := by
        cases hh : isOne g with
        | false => rfl
        | true =>
          exfalso
          have : h = Ref.zero := by
            have := isOne_eq hh; rw [hgh] at this
            rcases h with ⟨i, b⟩; simp [Ref.not, Ref.one] at this; simp [Ref.zero, this]
          have : isZero h = true := by simp [isZero, this]
          simp [hh, this] at c4
      have hgnz : isZero g = false := by
        cases hh : isZero g with
        | false => rfl
        | true =>
          exfalso
          have : h = Ref.one := by
            have := isZero_eq hh; rw [hgh] at this
            rcases h with ⟨i, b⟩; simp [Ref.not, Ref.zero] at this; simp [Ref.one, this]
          have : isOne h = true := by simp [isOne, this]
          simp [hh, this] at c5
      have hnt := not_terminal_of hgno hgnz
      have hv := var_bounds hg hV vg hnt
      rw [if_neg (by omega : ¬ s.var g = 0)]
      apply recur vg vf vf.not
      have hlh : lv s V h = lv s V g := by rw [hgh, lv_not]
      have hlf : lv s V f = V + 1 - s.var f := by simp only [lv]; rw [if_neg (by omega)]
      have hlg : lv s V g = V + 1 - s.var g := by simp only [lv]; rw [if_neg (by omega)]
      simp only [mu, lv_not, hlh]
      exact mu_lt_of_sum_lt (by omega) hv.2
    rw [if_neg p5]
    -- general case
    have ml := min3_le (s.var f) (s.var g) (s.var h)
    have mp := min3_pos (j := s.var g) (k := s.var h) (by omega : s.var f ≠ 0)
    have ma := min3_attained (s.var f) (s.var g) (s.var h)
    generalize hm : min3 (s.var f) (s.var g) (s.var h) = m at *
    have hmV : m ≤ V := by omega
    have core : ∀ (f' g' h' : Ref) (a b c : Fn) (n : Bool),
        Valid s.nodes f' a → Valid s.nodes g' b → Valid s.nodes h' c →
        s.var f' = s.var f →
        ((s.var g' = s.var g ∧ s.var h' = s.var h) ∨ (s.var g' = s.var h ∧ s.var h' = s.var g)) →
        TotalOut V (match iteCore (applyIte fuel) s f' g' h' m with
          | .error e => (.error e : Res (St × Ref))
          | .ok (s', res) => .ok (s', if n then res.not else res)) := by
      intro f' g' h' a b c n va vb vc ef egh
      have hsum : lv s V f' + lv s V g' + lv s V h' = lv s V f + lv s V g + lv s V h := by
        simp only [lv, ef]
        rcases egh with ⟨e1, e2⟩ | ⟨e1, e2⟩ <;> simp only [e1, e2] <;> omega
      have := iteCore_total (m := m) ih (applyIte_spec fuel) hg hV va vb vc mp hmV
        (by rw [ef]; exact fun _ => ml.1)
        (by rcases egh with ⟨e1, _⟩ | ⟨e1, _⟩ <;> rw [e1]; exact ml.2.1; exact ml.2.2)
        (by rcases egh with ⟨_, e2⟩ | ⟨_, e2⟩ <;> rw [e2]; exact ml.2.2; exact ml.2.1)
        (by
          rw [ef]
          rcases egh with ⟨e1, e2⟩ | ⟨e1, e2⟩ <;> rw [e1, e2]
          · rcases ma with x | ⟨_, x⟩ | ⟨_, x⟩
            · exact Or.inl x.symm
            · exact Or.inr (Or.inl x.symm)
            · exact Or.inr (Or.inr x.symm)
          · rcases ma with x | ⟨_, x⟩ | ⟨_, x⟩
            · exact Or.inl x.symm
            · exact Or.inr (Or.inr x.symm)
            · exact Or.inr (Or.inl x.symm))
        (by
          intro S' x' hS hx
          rw [hsum] at hS
          have := mu_lt_of_sum_lt (x := s.var f) hS hx
          simp only [mu] at hmu; omega)
      rcases this with ⟨s', r, e, hV'⟩ | ⟨s', e⟩
      · exact Or.inl ⟨s', _, by rw [e], hV'⟩
      · exact Or.inr ⟨s', by rw [e]⟩
    cases hfn : f.neg <;> simp only [Bool.false_eq_true, ↓reduceIte]
    · cases hgn : g.neg <;> simp only [Bool.false_eq_true, ↓reduceIte]
      · exact core _ _ _ _ _ _ false vf vg vh rfl (Or.inl ⟨rfl, rfl⟩)
      · exact core _ _ _ _ _ _ true vf vg.not vh.not rfl (Or.inl ⟨rfl, rfl⟩)
    · cases hgn : h.neg <;> simp only [Bool.false_eq_true, ↓reduceIte]
      · exact core _ _ _ _ _ _ false vf.not vh vg rfl (Or.inr ⟨rfl, rfl⟩)
      · exact core _ _ _ _ _ _ true vf.not vh.not vg.not rfl (Or.inr ⟨rfl, rfl⟩)

/-- C02 (totality): with fuel above the measure, `apply_ite` on live arguments returns a result
(and the variable bound is kept) or fails with "Storage is full" — it never runs out of fuel,
never trips an assertion, never indexes out of bounds. -/
theorem applyIte_total' {V fuel : Nat} {s : St} {f g h : Ref} {φf φg φh : Fn} (hg : Good s) (hV : VarsLe s V)
    (vf : Valid s.nodes f φf) (vg : Valid s.nodes g φg) (vh : Valid s.nodes h φh)
    (hfuel : mu s V f g h < fuel) :
    ((∃ s' r, applyIte fuel s f g h = .ok (s', r)) ∨ (∃ s', applyIte fuel s f g h = .error (.storageFull, s'))) ∧
    (∀ s' r, applyIte fuel s f g h = .ok (s', r) → VarsLe s' V) ∧
    (∀ e s', applyIte fuel s f g h = .error (e, s') → e = .storageFull) := by
  rcases applyIte_total V fuel s f g h φf φg φh hg hV vf vg vh hfuel with ⟨s1, r1, e1, hV1⟩ | ⟨s1, e1⟩
  · refine ⟨Or.inl ⟨s1, r1, e1⟩, ?_, ?_⟩
    · intro s' r e; rw [e1] at e
      simp only [Except.ok.injEq, Prod.mk.injEq] at e
      rw [← e.1]; exact hV1
    · intro e s' he; rw [e1] at he; cases he
  · refine ⟨Or.inr ⟨s1, e1⟩, ?_, ?_⟩
    · intro s' r e; rw [e1] at e; cases e
    · intro e s' he; rw [e1] at he
      simp only [Except.error.injEq, Prod.mk.injEq] at he
      exact he.1.symm

/-- in particular the three "would-be panics other than a full table" are unreachable -/
theorem applyIte_no_fault {V fuel : Nat} {s : St} {f g h : Ref} {φf φg φh : Fn} (hg : Good s) (hV : VarsLe s V)
    (vf : Valid s.nodes f φf) (vg : Valid s.nodes g φg) (vh : Valid s.nodes h φh)
    (hfuel : mu s V f g h < fuel) (s' : St) :
    applyIte fuel s f g h ≠ .error (.outOfFuel, s') ∧ applyIte fuel s f g h ≠ .error (.assertion, s') ∧
    applyIte fuel s f g h ≠ .error (.indexOob, s') := by
  have := (applyIte_total' hg hV vf vg vh hfuel).2.2
  refine ⟨fun e => ?_, fun e => ?_, fun e => ?_⟩ <;> · have := this _ _ e; cases this

#print axioms applyIte_total
#print axioms applyIte_total'
#print axioms applyIte_no_fault
end P
